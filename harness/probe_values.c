/* probe_values: sends values through real mocks (public macros) and prints what came out.
   Built with ASan+UBSan against the sanitizer build of libcgreen; every buffer is a heap
   block of exactly the needed size, so one byte too many is a sanitizer report, and the bytes
   of a buffer that must not change are printed back (canaries).
   One case per line:
     R <v>                          expect(fr, will_return(v)); fr()            -> R <returned>
     K <n> <bits hex16>             n doubles boxed, all alive, then unboxed in order            -> K ok | K <first wrong index>
     D <bits hex16>                 will_return_double + unbox_double(mock())   -> D <bits> <bits of unbox(box(d))>
     B <size> <hex src>             will_return_by_value                        -> B <hex of the returned block>
     S <buflen> <off> <size> <hex src>  will_set_contents_of_output_parameter   -> S <hex of the whole buffer>
     C <size> <pos> <arity> <v>     will_capture_parameter on parameter <pos>   -> C <variable as unsigned> <canaries ok 0/1>
   A failed check reported by cgreen is printed as " FAIL" at the end of the line. */
#include <cgreen/cgreen.h>
#include <cgreen/mocks.h>
#include <stdio.h>
#include <stdlib.h>
#include <string.h>
#include <stdint.h>
#include <inttypes.h>

static int fails;
static void rec_assert(TestReporter *r, const char *file, int line, int result, const char *fmt, ...) {
    (void)r; (void)file; (void)line; (void)fmt;
    if (!result) fails++;
}

static intptr_t fr(void) { return (intptr_t)mock(); }
static double fd(void) { return unbox_double(mock()); }
static void *fb(void) { return (void *)mock(); }
static void fs(void *p) { mock(p); }
static void f1(intptr_t p0) { mock(p0); }
static void f2(intptr_t p0, intptr_t p1) { mock(p0, p1); }
static void f3(intptr_t p0, intptr_t p1, intptr_t p2) { mock(p0, p1, p2); }
static void f4(intptr_t p0, intptr_t p1, intptr_t p2, intptr_t p3) { mock(p0, p1, p2, p3); }
static void f5(intptr_t p0, intptr_t p1, intptr_t p2, intptr_t p3, intptr_t p4) { mock(p0, p1, p2, p3, p4); }
static void f6(intptr_t p0, intptr_t p1, intptr_t p2, intptr_t p3, intptr_t p4, intptr_t p5) { mock(p0, p1, p2, p3, p4, p5); }
static void f7(intptr_t p0, intptr_t p1, intptr_t p2, intptr_t p3, intptr_t p4, intptr_t p5, intptr_t p6) { mock(p0, p1, p2, p3, p4, p5, p6); }
static void f8(intptr_t p0, intptr_t p1, intptr_t p2, intptr_t p3, intptr_t p4, intptr_t p5, intptr_t p6, intptr_t p7) { mock(p0, p1, p2, p3, p4, p5, p6, p7); }

static unsigned char *unhex(const char *h, size_t *n) {
    if (!strcmp(h, "e")) { *n = 0; return malloc(0); }
    *n = strlen(h) / 2;
    unsigned char *b = malloc(*n);
    for (size_t i = 0; i < *n; i++) { unsigned v; sscanf(h + 2 * i, "%2x", &v); b[i] = (unsigned char)v; }
    return b;
}
static void phex(const unsigned char *b, size_t n) { if (!n) printf("e"); for (size_t i = 0; i < n; i++) printf("%02x", b[i]); }

#define CAPSZ(T, NAME) { struct { unsigned char c1[8]; T var; unsigned char c2[8]; } g; \
        memset(&g, 0xA5, sizeof g); Constraint *c = will_capture_parameter(NAME, g.var); \
        do_capture(arity, c, v, pos); int ok = 1; for (int i = 0; i < 8; i++) if (g.c1[i] != 0xA5 || g.c2[i] != 0xA5) ok = 0; \
        printf("C %" PRIu64 " %d", (uint64_t)g.var, ok); }
#define CAPPOS(T) switch (pos) { case 0: CAPSZ(T, p0) break; case 1: CAPSZ(T, p1) break; case 2: CAPSZ(T, p2) break; \
        case 3: CAPSZ(T, p3) break; case 4: CAPSZ(T, p4) break; case 5: CAPSZ(T, p5) break; case 6: CAPSZ(T, p6) break; \
        default: CAPSZ(T, p7) break; }

static void do_capture(int arity, Constraint *c, intptr_t v, int pos) {
    intptr_t a[8];
    for (int i = 0; i < 8; i++) a[i] = (intptr_t)(0x0101010101010101ULL * (unsigned)(i + 1));
    a[pos] = v;
    const char *fn = arity == 1 ? "f1" : arity == 2 ? "f2" : arity == 3 ? "f3" : arity == 4 ? "f4" : arity == 5 ? "f5" : arity == 6 ? "f6" : arity == 7 ? "f7" : "f8";
    expect_(get_test_reporter(), fn, "probe", 1, c, (Constraint *)0);
    switch (arity) {
    case 1: f1(a[0]); break; case 2: f2(a[0], a[1]); break; case 3: f3(a[0], a[1], a[2]); break;
    case 4: f4(a[0], a[1], a[2], a[3]); break; case 5: f5(a[0], a[1], a[2], a[3], a[4]); break;
    case 6: f6(a[0], a[1], a[2], a[3], a[4], a[5]); break; case 7: f7(a[0], a[1], a[2], a[3], a[4], a[5], a[6]); break;
    default: f8(a[0], a[1], a[2], a[3], a[4], a[5], a[6], a[7]); break;
    }
}

int main(void) {
    TestReporter *rep = create_reporter();
    rep->assert_true = rec_assert;
    char *line = NULL; size_t cap = 0;
    setup_reporting(rep);
    while (getline(&line, &cap, stdin) > 0) {
        char k; char a1[64], a2[64], a3[64]; static char hexbuf[1 << 16];
        fails = 0;
        clear_mocks();
        k = line[0];
        if (k == 'R') {
            /* R <v> [<mode e|a> <calls>] */
            char mode = 'e'; int calls = 1; long long vv;
            sscanf(line + 2, "%lld %c %d", &vv, &mode, &calls);
            intptr_t v = (intptr_t)vv;
            if (mode == 'a') always_expect(fr, will_return(v));
            else if (calls > 1) expect(fr, will_return(v), times(calls));
            else expect(fr, will_return(v));
            printf("R ");
            for (int i = 0; i < calls; i++) printf("%s%" PRIdPTR, i ? ";" : "", fr());
        } else if (k == 'D') {
            uint64_t bits = strtoull(line + 2, NULL, 16), out, out2; double d, r, r2;
            memcpy(&d, &bits, 8);
            expect(fd, will_return_double(d));
            r = fd(); memcpy(&out, &r, 8);
            r2 = unbox_double(box_double(d)); memcpy(&out2, &r2, 8);
            printf("D %016" PRIx64 " %016" PRIx64, out, out2);
        } else if (k == 'K') {
            /* K <n> <bits hex16>: n boxed doubles alive at the same time, unboxed in the order they were boxed */
            int n = 0; unsigned long long base = 0; int bad = -1;
            sscanf(line + 2, "%d %llx", &n, &base);
            intptr_t *boxes = (intptr_t *)malloc(sizeof(intptr_t) * (size_t)(n > 0 ? n : 1));
            for (int i = 0; i < n; i++) {
                uint64_t bits = base + (uint64_t)i * 0x0001000100010001ULL; double d;
                memcpy(&d, &bits, 8);
                boxes[i] = box_double(d);
            }
            for (int i = 0; i < n; i++) {
                uint64_t bits = base + (uint64_t)i * 0x0001000100010001ULL, out; double r = unbox_double(boxes[i]);
                memcpy(&out, &r, 8);
                if (out != bits && bad < 0) bad = i;
            }
            free(boxes);
            if (bad < 0) printf("K ok"); else printf("K %d", bad);
        } else if (k == 'B') {
            /* B <size> <hex> [<mode e|a> <calls>] */
            size_t n; long size; char mode = 'e'; int calls = 1;
            sscanf(line + 2, "%ld %65000s %c %d", &size, hexbuf, &mode, &calls);
            unsigned char *src = unhex(hexbuf, &n);
            if (mode == 'a') always_expect(fb, will_return_by_value(*src, (size_t)size));
            else if (calls > 1) expect(fb, will_return_by_value(*src, (size_t)size), times(calls));
            else expect(fb, will_return_by_value(*src, (size_t)size));
            memset(src, 0xEE, n);            /* the copy must have been taken at declaration time */
            printf("B ");
            for (int i = 0; i < calls; i++) {
                unsigned char *got = fb();
                if (i) printf(";");
                if (!got) { printf("NULL"); continue; }
                phex(got, (size_t)size);
                memset(got, 0x77, (size_t)size);   /* the caller owns its copy: scribbling must not reach later calls */
                free(got);
            }
            free(src);
        } else if (k == 'S') {
            size_t n; long buflen, off, size; int late = 0;
            sscanf(line + 2, "%ld %ld %ld %65000s %d", &buflen, &off, &size, hexbuf, &late);
            unsigned char *src = unhex(hexbuf, &n);
            unsigned char *buf = malloc(buflen);
            for (long i = 0; i < buflen; i++) buf[i] = (unsigned char)(0xC0 + i % 16);
            if (late == 0) {
                expect(fs, will_set_contents_of_output_parameter(p, src, size));
            } else {
                /* the data the pointer designates is what counts when the mocked function is called (the guide:
                   "Variables that are to be sent to a mocked function MUST be live at the call"): the bytes are
                   produced after the expectation was declared (1), or refreshed between two calls that one
                   standing expectation serves (2) */
                unsigned char *keep = malloc(n + 1);
                memcpy(keep, src, n);
                for (size_t i = 0; i < n; i++) src[i] = (unsigned char)~keep[i];
                if (late == 1) {
                    expect(fs, will_set_contents_of_output_parameter(p, src, size));
                } else {
                    unsigned char *scratch = malloc(buflen + 1);
                    always_expect(fs, will_set_contents_of_output_parameter(p, src, size));
                    fs(scratch + off);
                    free(scratch);
                }
                memcpy(src, keep, n);
                free(keep);
            }
            fs(buf + off);
            printf("S "); phex(buf, buflen);
            free(buf); free(src);
        } else if (k == 'C') {
            int size, pos, arity; long long vv;
            sscanf(line + 2, "%d %d %d %lld", &size, &pos, &arity, &vv);
            intptr_t v = (intptr_t)vv;
            if (size == 1) CAPPOS(uint8_t) else if (size == 2) CAPPOS(uint16_t) else if (size == 4) CAPPOS(uint32_t) else CAPPOS(uint64_t)
        }
        (void)a1; (void)a2; (void)a3;
        printf("%s\n", fails ? " FAIL" : ""); fflush(stdout);
    }
    return 0;
}
