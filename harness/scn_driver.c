/* scn_driver: builds an arbitrary cgreen suite tree from a scenario file and runs it with the
   real runner and a chosen built-in reporter.  Test bodies and fixtures are generic functions
   that look their script up by the name on top of the reporter's breadcrumb.

   usage: scn_driver <scenario-file>
   exit status = return value of run_test_suite()/run_single_test()

   scenario lines:
     reporter text|quiet|cute|xml|libxml|cdash
     run suite | run single <name>
     log <path>                              append-only event log
     kill <test> <point> <nth> <how>         die at an instrumented point (how: sigN | exitN | _exitN)
     S <sid> <name> <parent|-> <setup 0/1> <teardown 0/1>
     T <tid> <name> <sid> <skip> <ctxsetup 0/1> <ctxteardown 0/1>
     a <tid> <s|b|t> <action> [args]
*/
#define _GNU_SOURCE
#include <cgreen/cgreen.h>
#include <cgreen/mocks.h>
#include <cgreen/cute_reporter.h>
#include <cgreen/cdash_reporter.h>
#include <cgreen/xml_reporter.h>
#include <cgreen/internal/verif_hooks.h>
#include <errno.h>
#include <fcntl.h>
#include <signal.h>
#include <stdio.h>
#include <stdlib.h>
#include <string.h>
#include <unistd.h>

extern TestReporter *create_libxml_reporter(const char *prefix);
extern void die_in(unsigned int seconds);
/* the reporters' printer hooks (src/xml_reporter_internal.h, src/libxml_reporter_internal.h): with a
   printer of the caller's no per-suite file is opened, so the file system's name limits do not end
   a run with very deep nesting or very long names early */
typedef int ScnXmlPrinter(FILE *, const char *format, ...);
extern void set_xml_reporter_printer(TestReporter *reporter, ScnXmlPrinter *printer);
extern void set_libxml_reporter_printer(TestReporter *reporter, int (*printer)(void *doc));
static int discard_xml(FILE *f, const char *format, ...) { (void)f; (void)format; return 0; }
static int discard_doc(void *doc) { (void)doc; return 0; }

#define MAXS 2048
#define MAXT 4096
#define MAXA 65536

typedef struct { char *name; TestSuite *suite; int has_setup, has_teardown; } Sui;
typedef struct { char kind[16]; char *arg[3]; int line; } Act;
typedef struct {
    char *name; int sid; CgreenTest spec; CgreenContext ctx;
    int nact[3]; Act *act[3];
} Tst;

static Sui suites[MAXS]; static int nsuites;
static Tst tests[MAXT]; static int ntests;
static int logfd = -1;
static char kill_test[8192], kill_point[64], kill_how[32]; static int kill_nth = -1;
static int point_seen = 0;
static volatile intptr_t poked_global = 0;

static void logev(const char *kind, const char *what) {
    static char buf[16384];
    int e = errno;
    int n = snprintf(buf, sizeof buf, "%d %s %s\n", (int)getpid(), kind, what);
    if (n >= (int)sizeof buf) { n = sizeof buf - 1; buf[n - 1] = '\n'; }
    if (logfd >= 0) { ssize_t r = write(logfd, buf, n); (void)r; }
    errno = e;
}

static const char *crumb(void) {
    TestReporter *r = get_test_reporter();
    if (!r) return "?";
    const char *n = get_current_from_breadcrumb((CgreenBreadcrumb *)r->breadcrumb);
    return n ? n : "?";
}

static Tst *find_test(const char *name) {
    for (int i = 0; i < ntests; i++) if (tests[i].name && strcmp(tests[i].name, name) == 0) return &tests[i];
    return NULL;
}

static void die_how(const char *how) {
    if (strncmp(how, "sig", 3) == 0) { fflush(NULL); raise(atoi(how + 3)); }
    else if (strncmp(how, "_exit", 5) == 0) _exit(atoi(how + 5));
    else if (strncmp(how, "exit", 4) == 0) exit(atoi(how + 4));
}

static int atexit_signal = 0;
static void atexit_raiser(void) { raise(atexit_signal); }

static unsigned char *unhex(const char *h) {
    size_t n = strlen(h) / 2;
    unsigned char *b = malloc(n + 1);
    for (size_t i = 0; i < n; i++) { unsigned v; sscanf(h + 2 * i, "%2x", &v); b[i] = (unsigned char)v; }
    b[n] = 0;
    return b;
}

static void observer(const char *point) {
    int e = errno;
    const char *name = crumb();
    if (strcmp(point, "before_write") != 0 && strcmp(point, "after_write") != 0)
        logev(point, name);
    if (kill_nth >= 0 && strcmp(point, kill_point) == 0 && strcmp(name, kill_test) == 0) {
        if (point_seen++ == kill_nth) { logev("kill", name); die_how(kill_how); }
    }
    errno = e;
}

static void run_actions(Tst *t, int phase) {
    TestReporter *r = get_test_reporter();
    for (int i = 0; i < t->nact[phase]; i++) {
        Act *a = &t->act[phase][i];
        const char *k = a->kind;
        if (!strcmp(k, "pass")) (*r->assert_true)(r, "scn.c", a->line, 1, "check %d", a->line);
        else if (!strcmp(k, "fail")) (*r->assert_true)(r, "scn.c", a->line, 0, "check %d", a->line);
        else if (!strcmp(k, "skip")) skip_test();
        else if (!strcmp(k, "sig")) { fflush(NULL); raise(atoi(a->arg[0])); }
        else if (!strcmp(k, "exit")) exit(atoi(a->arg[0]));
        else if (!strcmp(k, "_exit")) _exit(atoi(a->arg[0]));
        else if (!strcmp(k, "atexit_sig")) { atexit_signal = atoi(a->arg[0]); atexit(atexit_raiser); }
        else if (!strcmp(k, "sleep")) usleep(1000 * atoi(a->arg[0]));
        else if (!strcmp(k, "checks")) {
            int n = atoi(a->arg[0]), res = atoi(a->arg[1]);
            for (int j = 0; j < n; j++) (*r->assert_true)(r, "scn.c", a->line, res, "bulk %d", j);
        }
        else if (!strcmp(k, "sigfigs")) significant_figures_for_assert_double_are(atoi(a->arg[0]));
        else if (!strcmp(k, "dbl")) assert_that_double_("scn.c", a->line, "x", atof(a->arg[0]),
                                       create_equal_to_double_constraint(atof(a->arg[1]), "y"));
        else if (!strcmp(k, "mode")) cgreen_mocks_are(!strcmp(a->arg[0], "loose") ? loose_mocks :
                                       !strcmp(a->arg[0], "learning") ? learning_mocks : strict_mocks);
        else if (!strcmp(k, "expect")) expect_(r, a->arg[0], "scn.c", a->line, (Constraint *)0);
        else if (!strcmp(k, "call")) (void)mock_(r, a->arg[0], "scn.c", a->line, "");
        else if (!strcmp(k, "poke")) poked_global = atol(a->arg[0]);
        else if (!strcmp(k, "peek")) assert_core_("scn.c", a->line, "poked_global", poked_global,
                                       create_equal_to_value_constraint(atol(a->arg[0]), "expected"));
        else if (!strcmp(k, "streq")) {
            unsigned char *x = unhex(a->arg[0]), *y = unhex(a->arg[1]);
            assert_core_("scn.c", a->line, "actual_text", (intptr_t)x,
                         create_equal_to_string_constraint((const char *)y, "expected_text"));
            free(x); free(y);
        }
        else if (!strcmp(k, "failmsg")) {
            unsigned char *x = unhex(a->arg[0] ? a->arg[0] : "");
            (*r->assert_true)(r, "scn.c", a->line, 0, "%s", (const char *)x);
            free(x);
        }
        else if (!strcmp(k, "setparam")) {
            /* a mock that fills an output parameter; the check passes iff it was filled */
            static int src = 4711; int dst = 0;
            expect_(r, "mocked_s", "scn.c", a->line,
                    create_set_parameter_value_constraint("p", (intptr_t)&src, sizeof src), (Constraint *)0);
            (void)mock_(r, "mocked_s", "scn.c", a->line, "p", (intptr_t)&dst);
            (*r->assert_true)(r, "scn.c", a->line, dst == src, "output parameter %d", dst);
        }
        else if (!strcmp(k, "badparam")) {
            /* a mocked call whose argument violates the read-only when() clause: exactly one failing check */
            expect_(r, "mocked_w", "scn.c", a->line,
                    when_("p", create_equal_to_value_constraint(1, "1")), (Constraint *)0);
            (void)mock_(r, "mocked_w", "scn.c", a->line, "p", (intptr_t)2);
        }
        else if (!strcmp(k, "twoa") || !strcmp(k, "twob")) {
            /* one mocked function reached through two call sites whose mock(...) argument lists differ (two files
               with a file-local function of the same name, or two branches of one function): (a) and (a, b).
               Each action is one passing check on a parameter of its own list */
            if (k[3] == 'a') {
                expect_(r, "mocked_two", "scn.c", a->line, when_("a", create_equal_to_value_constraint(1, "1")), (Constraint *)0);
                (void)mock_(r, "mocked_two", "scn.c", a->line, "a", (intptr_t)1);
            } else {
                expect_(r, "mocked_two", "scn.c", a->line, when_("b", create_equal_to_value_constraint(2, "2")), (Constraint *)0);
                (void)mock_(r, "mocked_two", "scn.c", a->line, "a, b", (intptr_t)1, (intptr_t)2);
            }
        }
        else if (!strcmp(k, "die_in")) die_in(atoi(a->arg[0]));
        else if (!strcmp(k, "spin")) { for (;;) pause(); }
        else { fprintf(stderr, "scn_driver: unknown action %s\n", k); exit(97); }
    }
}

static void generic_ctx_setup(void) { const char *n = crumb(); logev("setup", n); Tst *t = find_test(n); if (t) run_actions(t, 0); }
static void generic_ctx_teardown(void) { const char *n = crumb(); logev("teardown", n); Tst *t = find_test(n); if (t) run_actions(t, 2); }
static void generic_body(void) { const char *n = crumb(); logev("body", n); Tst *t = find_test(n); if (t) run_actions(t, 1); }

/* suite-level fixtures need one function per suite: a pool */
static void suite_fixture(int k, int teardown) {
    static char b[16000];
    const char *n = crumb();
    snprintf(b, sizeof b, "%s %s", suites[k].name, n);
    logev(teardown ? "steardown" : "ssetup", b);
    Tst *t = find_test(n);         /* when used as a test's fixture the crumb is the test */
    if (t) run_actions(t, teardown ? 2 : 0);
}
#define P(k) static void ss##k(void) { suite_fixture(k, 0); } static void st##k(void) { suite_fixture(k, 1); }
P(0) P(1) P(2) P(3) P(4) P(5) P(6) P(7) P(8) P(9) P(10) P(11) P(12) P(13) P(14) P(15)
P(16) P(17) P(18) P(19) P(20) P(21) P(22) P(23) P(24) P(25) P(26) P(27) P(28) P(29) P(30) P(31)
#define Q(k) ss##k,
static void (*ssetups[])(void) = { Q(0) Q(1) Q(2) Q(3) Q(4) Q(5) Q(6) Q(7) Q(8) Q(9) Q(10) Q(11) Q(12) Q(13) Q(14) Q(15)
  Q(16) Q(17) Q(18) Q(19) Q(20) Q(21) Q(22) Q(23) Q(24) Q(25) Q(26) Q(27) Q(28) Q(29) Q(30) Q(31) };
#undef Q
#define Q(k) st##k,
static void (*steardowns[])(void) = { Q(0) Q(1) Q(2) Q(3) Q(4) Q(5) Q(6) Q(7) Q(8) Q(9) Q(10) Q(11) Q(12) Q(13) Q(14) Q(15)
  Q(16) Q(17) Q(18) Q(19) Q(20) Q(21) Q(22) Q(23) Q(24) Q(25) Q(26) Q(27) Q(28) Q(29) Q(30) Q(31) };

static void ctx_nothing(void) {}

/* wrap finish_test / finish_suite of whatever reporter is used: log what was credited */
static void (*orig_finish_test)(TestReporter *, const char *, int, const char *);
static void (*orig_finish_suite)(TestReporter *, const char *, int);
/* what a test is credited = the change of the reporter's counters from the moment the test is started to the end
   of finish_test (however and whenever the results are added in between) */
static void (*orig_start_test)(TestReporter *, const char *);
static int snap_valid, snap_p, snap_f, snap_s, snap_e;
static void probe_start_test(TestReporter *r, const char *name) {
    (*orig_start_test)(r, name);
    snap_p = r->passes; snap_f = r->failures; snap_s = r->skips; snap_e = r->exceptions; snap_valid = 1;
}
static void probe_finish_test(TestReporter *r, const char *file, int line, const char *message) {
    static char b[12000]; static char name[8192];
    int p = r->passes, f = r->failures, s = r->skips, e = r->exceptions;
    if (snap_valid) { p = snap_p; f = snap_f; s = snap_s; e = snap_e; snap_valid = 0; }
    snprintf(name, sizeof name, "%s", crumb());
    (*orig_finish_test)(r, file, line, message);
    {   /* what the runner told the reporter about how the test ended (NULL: nothing) */
        static char mb[12000]; int n = snprintf(mb, sizeof mb, "%s ", name);
        if (!message) snprintf(mb + n, sizeof mb - n, "-");
        else for (const unsigned char *q = (const unsigned char *)message; *q && n < (int)sizeof mb - 4; q++) n += snprintf(mb + n, sizeof mb - n, "%02x", *q);
        logev("tmsg", mb);
    }
    snprintf(b, sizeof b, "%s %d %d %d %d", name, r->passes - p, r->failures - f, r->skips - s, r->exceptions - e);
    logev("tdone", b);
}
static void probe_finish_suite(TestReporter *r, const char *file, int line) {
    static char b[12000]; static char name[8192];
    snprintf(name, sizeof name, "%s", crumb());
    (*orig_finish_suite)(r, file, line);
    snprintf(b, sizeof b, "%s %d %d %d %d %d %d %d %d %d", name, r->passes, r->failures, r->skips, r->exceptions,
             get_breadcrumb_depth((CgreenBreadcrumb *)r->breadcrumb),
             r->total_passes, r->total_failures, r->total_skips, r->total_exceptions);
    logev("sdone", b);
}

int main(int argc, char **argv) {
    if (argc < 2) { fprintf(stderr, "usage: scn_driver file\n"); return 98; }
    FILE *f = fopen(argv[1], "r");
    if (!f) { perror(argv[1]); return 98; }
    char *line = NULL; size_t cap = 0;
    char reporter_kind[32] = "text"; static char single[8192] = ""; int run_single = 0, run_twice = 0;
    int lineno = 0;
    while (getline(&line, &cap, f) > 0) {
        lineno++;
        char *tok[8]; int nt = 0;
        for (char *p = strtok(line, " \t\n"); p && nt < 8; p = strtok(NULL, " \t\n")) tok[nt++] = p;
        if (nt == 0 || tok[0][0] == '#') continue;
        if (!strcmp(tok[0], "reporter")) strcpy(reporter_kind, tok[1]);
        else if (!strcmp(tok[0], "run")) { if (!strcmp(tok[1], "single")) { run_single = 1; strcpy(single, tok[2]); } else if (!strcmp(tok[1], "twice")) run_twice = 1; else if (!strcmp(tok[1], "inproc-forked")) run_twice = 2; }
        else if (!strcmp(tok[0], "env") && nt >= 3) setenv(tok[1], tok[2], 1);
        else if (!strcmp(tok[0], "log")) logfd = open(tok[1], O_WRONLY | O_CREAT | O_APPEND, 0644);
        else if (!strcmp(tok[0], "kill")) { strcpy(kill_test, tok[1]); strcpy(kill_point, tok[2]); kill_nth = atoi(tok[3]); strcpy(kill_how, tok[4]); }
        else if (!strcmp(tok[0], "S")) {
            int sid = atoi(tok[1]);
            if (sid >= MAXS) return 98;
            Sui *s = &suites[sid]; if (sid >= nsuites) nsuites = sid + 1;
            s->name = strdup(tok[2]);
            s->suite = create_named_test_suite_(s->name, "scn.c", 1000 + sid);
            s->has_setup = atoi(tok[4]); s->has_teardown = atoi(tok[5]);
            if (s->has_setup) set_setup(s->suite, ssetups[sid % 32]);
            if (s->has_teardown) set_teardown(s->suite, steardowns[sid % 32]);
            if (strcmp(tok[3], "-")) add_suite_(suites[atoi(tok[3])].suite, s->name, s->suite);
        } else if (!strcmp(tok[0], "T")) {
            int tid = atoi(tok[1]);
            if (tid >= MAXT) return 98;
            Tst *t = &tests[tid]; if (tid >= ntests) ntests = tid + 1;
            t->name = strdup(tok[2]); t->sid = atoi(tok[3]);
            t->ctx.name = "ctx"; t->ctx.filename = "scn.c";
            t->ctx.setup = atoi(tok[5]) ? generic_ctx_setup : ctx_nothing;
            t->ctx.teardown = atoi(tok[6]) ? generic_ctx_teardown : ctx_nothing;
            t->spec.skip = atoi(tok[4]); t->spec.context = &t->ctx; t->spec.name = t->name;
            t->spec.run = generic_body; t->spec.filename = "scn.c"; t->spec.line = 2000 + tid;
            add_test_(suites[t->sid].suite, t->name, &t->spec);
        } else if (!strcmp(tok[0], "F")) {
            /* F <tid> <suite name>: actions for the suite-level fixtures of that suite when they run around one of its
               sub-suites (the breadcrumb then names the suite): an entry that is not registered as a test */
            int tid = atoi(tok[1]);
            if (tid >= MAXT) return 98;
            Tst *t = &tests[tid]; if (tid >= ntests) ntests = tid + 1;
            t->name = strdup(tok[2]);
        } else if (!strcmp(tok[0], "a")) {
            Tst *t = &tests[atoi(tok[1])];
            int ph = tok[2][0] == 's' ? 0 : tok[2][0] == 'b' ? 1 : 2;
            t->act[ph] = realloc(t->act[ph], sizeof(Act) * (t->nact[ph] + 1));
            Act *a = &t->act[ph][t->nact[ph]++];
            memset(a, 0, sizeof *a);
            strncpy(a->kind, tok[3], 15); a->line = lineno;
            for (int i = 4; i < nt && i < 7; i++) a->arg[i - 4] = strdup(tok[i]);
        } else { fprintf(stderr, "scn_driver: bad line %d\n", lineno); return 98; }
    }
    fclose(f);

#ifdef CGREEN_VERIF
    cgreen_verif_observer = observer;
#endif
    TestReporter *rep;
    static TextReporterOptions topt;
    static CDashInfo cinfo = { "n", "b", "t", "os", "osr", "osv", "osp", "host" };
    if (!strcmp(reporter_kind, "text")) { rep = create_text_reporter(); set_reporter_options(rep, &topt); }
    else if (!strcmp(reporter_kind, "quiet")) { rep = create_text_reporter(); topt.quiet_mode = true; set_reporter_options(rep, &topt); }
    else if (!strcmp(reporter_kind, "cute")) rep = create_cute_reporter();
    else if (!strcmp(reporter_kind, "xml")) rep = create_xml_reporter("out");
    else if (!strcmp(reporter_kind, "libxml")) rep = create_libxml_reporter("out");
    else if (!strcmp(reporter_kind, "cdash")) rep = create_cdash_reporter(&cinfo);
    else if (!strcmp(reporter_kind, "xmlp")) { rep = create_xml_reporter("out"); if (rep) set_xml_reporter_printer(rep, discard_xml); }
    else if (!strcmp(reporter_kind, "libxmlp")) { rep = create_libxml_reporter("out"); if (rep) set_libxml_reporter_printer(rep, discard_doc); }
    else return 98;
    if (!rep) { fprintf(stderr, "scn_driver: no reporter\n"); return 98; }
    orig_finish_test = rep->finish_test; rep->finish_test = probe_finish_test;
    orig_start_test = rep->start_test; rep->start_test = probe_start_test;
    orig_finish_suite = rep->finish_suite; rep->finish_suite = probe_finish_suite;
    if (run_twice == 2) setenv("CGREEN_NO_FORK", "1", 1);     /* first run in the runner's own process */
    int status = run_single ? run_single_test(suites[0].suite, single, rep) : run_test_suite(suites[0].suite, rep);
    logev("verdict", status == 0 ? "0" : "1");
    if (run_twice == 2) unsetenv("CGREEN_NO_FORK");
    if (run_twice) {            /* the same reporter object serves a second run */
        status = run_test_suite(suites[0].suite, rep);
        logev("verdict", status == 0 ? "0" : "1");
    }
    fflush(NULL);
    (*rep->destroy)(rep);
    return status;
}
