/* probe_doubles: the double comparisons through every public route, and the installed libm.
   All doubles travel as 64-bit patterns (hex).  One case per line:
     K <bits>                 floor(log10(fabs(x))) by the installed libm  -> "F <int>" | NINF | PINF | NAN
     P <F int|NINF|PINF|NAN>  pow(10.0, that)                              -> <bits hex>
     E <figs> <x> <y>         x against y as equal / not equal through:
                              doubles_are_equal, assert_that_double(is_equal_to_double), assert_that_double(is_not_equal_to_double),
                              assert_double_equal, assert_double_not_equal, assert_double_equal_with_message,
                              assert_double_not_equal_with_message, a mock expectation when(p, is_equal_to_double)
                              -> 8 characters 0/1 (1 = the check passed / function returned true)
     L <figs> <e> <a>         assert_that_double(a, is_less_than_double(e)) and the same in a mock expectation -> 2 characters
     G <figs> <e> <a>         ... is_greater_than_double
     D                        the figures setting a test starts with (after run_the_test_code's reset) -> <int> */
#include <cgreen/cgreen.h>
#include <cgreen/mocks.h>
#include <cgreen/legacy.h>
#include <math.h>
#include <stdio.h>
#include <stdlib.h>
#include <string.h>
#include <stdint.h>
#include <inttypes.h>

extern int get_significant_figures(void);
static int passes, fails;
static void rec_assert(TestReporter *r, const char *file, int line, int result, const char *fmt, ...) {
    (void)r; (void)file; (void)line; (void)fmt;
    if (result) passes++; else fails++;
}
static double of_bits(const char *h) { uint64_t b = strtoull(h, NULL, 16); double d; memcpy(&d, &b, 8); return d; }
static void mocked_d(double p) { mock(box_double(p)); }
static int ok(void) { int r = (fails == 0 && passes > 0); passes = fails = 0; return r; }

static int figs_seen = -1;
static void body_reads_figures(void) { figs_seen = get_significant_figures(); }

int main(void) {
    TestReporter *rep = create_reporter();
    rep->assert_true = rec_assert;
    setup_reporting(rep);
    char *line = NULL; size_t cap = 0;
    while (getline(&line, &cap, stdin) > 0) {
        char a1[64] = "", a2[64] = "", a3[64] = "";
        char k = line[0];
        sscanf(line + 1, "%63s %63s %63s", a1, a2, a3);
        passes = fails = 0;
        if (k == 'K') {
            double v = floor(log10(fabs(of_bits(a1))));
            if (isnan(v)) printf("NAN"); else if (isinf(v)) printf(v < 0 ? "NINF" : "PINF"); else printf("F %lld", (long long)v);
        } else if (k == 'P') {
            double e = !strcmp(a1, "NINF") ? -INFINITY : !strcmp(a1, "PINF") ? INFINITY : !strcmp(a1, "NAN") ? NAN : (double)atoll(a2);
            double r = pow(10.0, e); uint64_t b; memcpy(&b, &r, 8);
            printf("%016" PRIx64, b);
        } else if (k == 'E') {
            double x = of_bits(a2), y = of_bits(a3); char out[9] = "";
            significant_figures_for_assert_double_are(atoi(a1));
            out[0] = doubles_are_equal(x, y) ? '1' : '0';
            assert_that_double(x, is_equal_to_double(y)); out[1] = '0' + ok();
            assert_that_double(x, is_not_equal_to_double(y)); out[2] = '0' + ok();
            assert_double_equal(x, y); out[3] = '0' + ok();
            assert_double_not_equal(x, y); out[4] = '0' + ok();
            assert_double_equal_with_message(x, y, "m"); out[5] = '0' + ok();
            assert_double_not_equal_with_message(x, y, "m"); out[6] = '0' + ok();
            clear_mocks();
            expect(mocked_d, when(p, is_equal_to_double(y)));
            mocked_d(x); out[7] = '0' + ok();
            printf("%s", out);
        } else if (k == 'L' || k == 'G') {
            double e = of_bits(a2), a = of_bits(a3); char out[3] = "";
            significant_figures_for_assert_double_are(atoi(a1));
            if (k == 'L') assert_that_double(a, is_less_than_double(e)); else assert_that_double(a, is_greater_than_double(e));
            out[0] = '0' + ok();
            clear_mocks();
            if (k == 'L') expect(mocked_d, when(p, is_less_than_double(e))); else expect(mocked_d, when(p, is_greater_than_double(e)));
            mocked_d(a); out[1] = '0' + ok();
            printf("%s", out);
        } else if (k == 'D') {
            /* a test that runs after another test changed the setting */
            static CgreenContext ctx = { "ctx", "probe", NULL, NULL };
            static CgreenTest t = { 0, &ctx, "reads_figures", body_reads_figures, "probe", 1 };
            TestSuite *s = create_test_suite();
            add_test_(s, "reads_figures", &t);
            significant_figures_for_assert_double_are(3);
            setenv("CGREEN_NO_FORK", "1", 1);
            TestReporter *quiet = create_reporter();
            run_test_suite(s, quiet);
            unsetenv("CGREEN_NO_FORK");
            setup_reporting(rep);
            printf("%d", figs_seen);
        }
        printf("\n"); fflush(stdout);
    }
    return 0;
}
