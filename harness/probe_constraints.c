/* probe_constraints: drives cgreen's constraints and legacy assertions through the public
   entry points with operands read from stdin, with a recording reporter.
   Lines:
     I <ctor> <a> <e>        integer constraints through assert_that (assert_core_)
     L <which> <a> <e>       legacy integer assertions (functions and *_with_message macros)
     S <ctor> <hexA|-> <hexE|->    string constraints / legacy string assertions ("-" = NULL)
     M <eq|ne> <hexA|-> <hexE|-> <size>   memory contents
     D <which> <x> <y>       legacy double assertions (polarity only; values as %la hex floats)
   Output per line: one token per reported check: 1 | 0 | v (validation failure) ; "-" if none */
#define _GNU_SOURCE
#include <cgreen/cgreen.h>
#include <stdio.h>
#include <stdlib.h>
#include <string.h>
#include <stdarg.h>

static char out[256]; static int outn;
static void rec(TestReporter *r, const char *file, int line, int result, const char *message, ...) {
    (void)r; (void)file; (void)line;
    char c = result ? '1' : '0';
    if (!result && message && strncmp(message, "Wanted to compare contents", 26) == 0) c = 'v';
    if (outn < 250) out[outn++] = c;
}

#include <cgreen/mocks.h>
extern CgreenTest *current_test;
static CgreenTest fake = { 0, NULL, "fake", NULL, "test.c", 0 };
static intptr_t mocked_w(intptr_t p0) { return mock_(get_test_reporter(), "mocked_w", "probe.c", 1, "p0", p0); }

static unsigned char *unhex(const char *h, size_t *len) {
    if (strcmp(h, "-") == 0) { *len = 0; return NULL; }
    if (strcmp(h, "e") == 0) { *len = 0; unsigned char *b = malloc(1); b[0] = 0; return b; }
    size_t n = strlen(h) / 2; unsigned char *b = malloc(n + 1);
    for (size_t i = 0; i < n; i++) { unsigned v; sscanf(h + 2 * i, "%2x", &v); b[i] = (unsigned char)v; }
    b[n] = 0; *len = n; return b;
}

int main(void) {
    TestReporter *rep = create_reporter();
    rep->assert_true = rec;
    setup_reporting(rep);
    char *line = NULL; size_t cap = 0;
    while (getline(&line, &cap, stdin) > 0) {
        outn = 0;
        char kind[8], which[32], s1[1 << 16], s2[1 << 16]; long long sz = 0;
        if (sscanf(line, "%7s %31s", kind, which) < 2) { puts("?"); continue; }
        if (kind[0] == 'I' || kind[0] == 'L' || kind[0] == 'W') {
            long long a, e;
            sscanf(line, "%*s %*s %lld %lld", &a, &e);
            intptr_t A = (intptr_t)a, E = (intptr_t)e;
            if (kind[0] == 'W') {
                /* the same constraints as parameter checks of a mock expectation */
                Constraint *c = NULL;
                if (!strcmp(which, "eq")) c = is_equal_to(E);
                else if (!strcmp(which, "ne")) c = is_not_equal_to(E);
                else if (!strcmp(which, "lt")) c = is_less_than(E);
                else if (!strcmp(which, "gt")) c = is_greater_than(E);
                current_test = &fake;
                clear_mocks();
                expect_(rep, "mocked_w", "probe.c", 1, when_("p0", c), (Constraint *)0);
                mocked_w(A);
                clear_mocks();
            } else if (kind[0] == 'I') {
                Constraint *c = NULL;
                if (!strcmp(which, "eq")) c = is_equal_to(E);
                else if (!strcmp(which, "hex")) c = is_equal_to_hex(E);
                else if (!strcmp(which, "ne")) c = is_not_equal_to(E);
                else if (!strcmp(which, "lt")) c = is_less_than(E);
                else if (!strcmp(which, "gt")) c = is_greater_than(E);
                else if (!strcmp(which, "null")) c = is_null;
                else if (!strcmp(which, "nonnull")) c = is_non_null;
                else if (!strcmp(which, "true")) c = is_true;
                else if (!strcmp(which, "false")) c = is_false;
                if (c) assert_that(A, c);
            } else {
                if (!strcmp(which, "eq")) assert_equal(A, E);
                else if (!strcmp(which, "ne")) assert_not_equal(A, E);
                else if (!strcmp(which, "eqm")) assert_equal_with_message(A, E, "m");
                else if (!strcmp(which, "nem")) assert_not_equal_with_message(A, E, "m");
                else if (!strcmp(which, "true")) assert_true(A);
                else if (!strcmp(which, "false")) assert_false(A);
                else if (!strcmp(which, "truem")) assert_true_with_message(A, "m");
                else if (!strcmp(which, "falsem")) assert_false_with_message(A, "m");
            }
        } else if (kind[0] == 'S') {
            sscanf(line, "%*s %*s %65535s %65535s", s1, s2);
            size_t l1, l2; char *a = (char *)unhex(s1, &l1), *e = (char *)unhex(s2, &l2);
            if (!strcmp(which, "eq")) assert_that(a, is_equal_to_string(e));
            else if (!strcmp(which, "ne")) assert_that(a, is_not_equal_to_string(e));
            else if (!strcmp(which, "contains")) assert_that(a, contains_string(e));
            else if (!strcmp(which, "ncontains")) assert_that(a, does_not_contain_string(e));
            else if (!strcmp(which, "begins")) assert_that(a, begins_with_string(e));
            else if (!strcmp(which, "nbegins")) assert_that(a, does_not_begin_with_string(e));
            else if (!strcmp(which, "ends")) assert_that(a, ends_with_string(e));
            else if (!strcmp(which, "nends")) assert_that(a, does_not_end_with_string(e));
            else if (!strcmp(which, "seq")) assert_string_equal(a, e);
            else if (!strcmp(which, "sne")) assert_string_not_equal(a, e);
            else if (!strcmp(which, "seqm")) assert_string_equal_with_message(a, e, "m");
            else if (!strcmp(which, "snem")) assert_string_not_equal_with_message(a, e, "m");
            free(a); free(e);
        } else if (kind[0] == 'M') {
            sscanf(line, "%*s %*s %65535s %65535s %lld", s1, s2, &sz);
            size_t l1, l2; unsigned char *a = unhex(s1, &l1), *e = unhex(s2, &l2);
            if (!strcmp(which, "eq")) assert_that(a, is_equal_to_contents_of(e, (size_t)sz));
            else assert_that(a, is_not_equal_to_contents_of(e, (size_t)sz));
            free(a); free(e);
        } else if (kind[0] == 'D') {
            double x, y;
            sscanf(line, "%*s %*s %la %la", &x, &y);
            if (!strcmp(which, "deq")) assert_double_equal(x, y);
            else if (!strcmp(which, "dne")) assert_double_not_equal(x, y);
            else if (!strcmp(which, "deqm")) assert_double_equal_with_message(x, y, "m");
            else if (!strcmp(which, "dnem")) assert_double_not_equal_with_message(x, y, "m");
        }
        if (outn == 0) out[outn++] = '-';
        out[outn] = 0;
        puts(out);
    }
    return 0;
}
