/* faultshim: LD_PRELOAD library that makes exactly one system/library call fail.
     VERIF_FAULT=<site>:<k>[:<how>]   the k-th call (1-based, counted across the run's processes) of
                                site fails: fork pipe fcntl tmpfile write read malloc_send malloc_recv
                                how (write and read only): s<n> = the call transfers only its first n bytes
                                (a short write / short read), e<name> = fails with EINTR, EAGAIN, EPIPE
                                or ENOSPC instead of EIO
     VERIF_FAULT_LOG=<file>     the first process writes "<site> <count>" lines at exit
   write/read are counted only on the descriptors returned by pipe(); malloc only when called
   from send_cgreen_message / receive_cgreen_message (dladdr on the return address).
   Counters live in a MAP_SHARED page created by the first process, so children share them. */
#define _GNU_SOURCE
#include <dlfcn.h>
#include <errno.h>
#include <fcntl.h>
#include <stdarg.h>
#include <stdio.h>
#include <stdlib.h>
#include <string.h>
#include <sys/mman.h>
#include <unistd.h>

enum { S_FORK, S_PIPE, S_FCNTL, S_TMPFILE, S_WRITE, S_READ, S_MALLOC_SEND, S_MALLOC_RECV, NSITES };
static const char *NAMES[NSITES] = { "fork", "pipe", "fcntl", "tmpfile", "write", "read", "malloc_send", "malloc_recv" };

typedef struct { volatile int count[NSITES]; volatile int fired; int fds[16]; volatile int nfds; pid_t root; } Shared;
static Shared *sh;
static int target_site = -1, target_k = -1, target_short = -1, target_errno = EIO;
static __thread int busy;

extern void *__libc_malloc(size_t);

static void report(void) {
    const char *path = getenv("VERIF_FAULT_LOG");
    if (!sh || !path || getpid() != sh->root) return;
    FILE *f = fopen(path, "w");
    if (!f) return;
    for (int i = 0; i < NSITES; i++) fprintf(f, "%s %d\n", NAMES[i], sh->count[i]);
    fprintf(f, "fired %d\n", sh->fired);
    fclose(f);
}

__attribute__((constructor)) static void init(void) {
    sh = mmap(NULL, 4096, PROT_READ | PROT_WRITE, MAP_SHARED | MAP_ANONYMOUS, -1, 0);
    if (sh == MAP_FAILED) { sh = NULL; return; }
    memset(sh, 0, sizeof *sh);
    sh->root = getpid();
    const char *spec = getenv("VERIF_FAULT");
    if (spec) {
        for (int i = 0; i < NSITES; i++) {
            size_t n = strlen(NAMES[i]);
            if (!strncmp(spec, NAMES[i], n) && spec[n] == ':') {
                target_site = i; target_k = atoi(spec + n + 1);
                const char *how = strchr(spec + n + 1, ':');
                if (how && how[1] == 's') target_short = atoi(how + 2);
                if (how && how[1] == 'e') {
                    if (!strcmp(how + 2, "EINTR")) target_errno = EINTR;
                    else if (!strcmp(how + 2, "EAGAIN")) target_errno = EAGAIN;
                    else if (!strcmp(how + 2, "EPIPE")) target_errno = EPIPE;
                    else if (!strcmp(how + 2, "ENOSPC")) target_errno = ENOSPC;
                }
            }
        }
    }
    atexit(report);
}

/* returns 1 when this call must fail */
static int hit(int site) {
    if (!sh) return 0;
    int n = __sync_add_and_fetch(&sh->count[site], 1);
    if (site == target_site && n == target_k) { sh->fired = 1; return 1; }
    return 0;
}

static int is_pipe_fd(int fd) {
    if (!sh) return 0;
    for (int i = 0; i < sh->nfds && i < 16; i++) if (sh->fds[i] == fd) return 1;
    return 0;
}

pid_t fork(void) {
    static pid_t (*real)(void);
    if (!real) real = dlsym(RTLD_NEXT, "fork");
    if (hit(S_FORK)) { errno = EAGAIN; return -1; }
    return real();
}

int pipe(int fds[2]) {
    static int (*real)(int *);
    if (!real) real = dlsym(RTLD_NEXT, "pipe");
    if (hit(S_PIPE)) { errno = EMFILE; return -1; }
    int r = real(fds);
    if (r == 0 && sh && sh->nfds + 2 <= 16) { sh->fds[sh->nfds] = fds[0]; sh->fds[sh->nfds + 1] = fds[1]; sh->nfds += 2; }
    return r;
}

int fcntl(int fd, int cmd, ...) {
    static int (*real)(int, int, ...);
    if (!real) real = dlsym(RTLD_NEXT, "fcntl");
    va_list ap; va_start(ap, cmd); long arg = va_arg(ap, long); va_end(ap);
    if (is_pipe_fd(fd) && hit(S_FCNTL)) { errno = EINVAL; return -1; }
    return real(fd, cmd, arg);
}

FILE *tmpfile(void) {
    static FILE *(*real)(void);
    if (!real) real = dlsym(RTLD_NEXT, "tmpfile");
    if (hit(S_TMPFILE)) { errno = EMFILE; return NULL; }
    return real();
}

ssize_t write(int fd, const void *buf, size_t n) {
    static ssize_t (*real)(int, const void *, size_t);
    if (!real) real = dlsym(RTLD_NEXT, "write");
    if (is_pipe_fd(fd) && hit(S_WRITE)) {
        if (target_short >= 0 && (size_t)target_short < n) return real(fd, buf, (size_t)target_short);
        errno = target_errno; return -1;
    }
    return real(fd, buf, n);
}

ssize_t read(int fd, void *buf, size_t n) {
    static ssize_t (*real)(int, void *, size_t);
    if (!real) real = dlsym(RTLD_NEXT, "read");
    if (is_pipe_fd(fd) && hit(S_READ)) {
        if (target_short >= 0 && (size_t)target_short < n) return real(fd, buf, (size_t)target_short);
        errno = target_errno; return -1;
    }
    return real(fd, buf, n);
}

void *malloc(size_t n) {
    if (sh && !busy && n <= 64) {
        busy = 1;
        Dl_info info;
        void *ra = __builtin_return_address(0);
        int site = -1;
        if (dladdr(ra, &info) && info.dli_sname) {
            if (!strcmp(info.dli_sname, "send_cgreen_message")) site = S_MALLOC_SEND;
            else if (!strcmp(info.dli_sname, "receive_cgreen_message")) site = S_MALLOC_RECV;
        }
        busy = 0;
        if (site >= 0 && hit(site)) { errno = ENOMEM; return NULL; }
    }
    return __libc_malloc(n);
}
