/* params_driver: table-driven probes of clause-to-parameter binding through generated mock
   functions (params_tu.inc, included below).  One case per line:
     W <fid> <pname> <expected> <v0> .. <vk-1>   expect(f, when(pname, is_equal_to(expected)))     -> "<passes> <fails> <ret>"
     D <fid> <pname> <expected> <v0> ..          ... is_equal_to_double((double)expected)          -> same
     C <fid> <pname> <v0> ..                     will_capture_parameter into an intptr_t           -> "<passes> <fails> <captured>"
     O <fid> <pname> <v0> ..   every integer argument is the address of its own 8-byte buffer;
                               will_set_contents_of_output_parameter(pname, 8 bytes of 0x5a)       -> "<passes> <fails> <bitmap of changed buffers>"
     N <fid> <pname> <dbl 0|1> <v0> ..           clause on an ABSENT name, with will_return(77) or will_return_double(2.5);
                                                 the caller uses the result as documented (unbox_double for doubles) -> "<passes> <fails> <result>"
     Q <id 0|1> <kind 0 when|1 capture|2 output> <expected> <v0> <v1>   the two generated functions whose named
                                                 parameter is an object-like macro, clauses through the public macros
                                                 -> "<passes> <fails> <captured | first byte of the named buffer>"
     T <hex text>                                create_vector_of_names / create_vector_of_double_markers_for -> "T n1|n2|.. m1m2.."
   v_i are decimal integers; a double parameter receives (double)v_i. */
#include "params_tu.inc"
#include <cgreen/vector.h>
#include <stdio.h>
#include <stdlib.h>
#include <string.h>
#include <inttypes.h>

extern CgreenVector *create_vector_of_names(const char *parameters);
extern CgreenVector *create_vector_of_double_markers_for(const char *parameters);
static int passes, fails;
static void rec_assert(TestReporter *r, const char *file, int line, int result, const char *fmt, ...) {
    (void)r; (void)file; (void)line; (void)fmt;
    if (result) passes++; else fails++;
}

int main(void) {
    TestReporter *rep = create_reporter();
    rep->assert_true = rec_assert;
    setup_reporting(rep);
    char *line = NULL; size_t cap = 0;
    while (getline(&line, &cap, stdin) > 0) {
        char *tok[32]; int nt = 0;
        for (char *p = strtok(line, " \n"); p && nt < 32; p = strtok(NULL, " \n")) tok[nt++] = p;
        if (nt < 2) { printf("\n"); fflush(stdout); continue; }
        passes = fails = 0;
        clear_mocks();
        char k = tok[0][0];
        if (k == 'Q' && nt >= 6) {
            int id = atoi(tok[1]), kind = atoi(tok[2]);
            static unsigned char qb[2][8];
            memset(qb, 0x11, sizeof qb);
            intptr_t a = (intptr_t)atoll(tok[4]), b = (intptr_t)atoll(tok[5]);
            if (kind == 2) { a = (intptr_t)qb[0]; b = (intptr_t)qb[1]; }
            mq_expect(id, kind, (intptr_t)atoll(tok[3]));
            (void)mq_call(id, a, b);
            if (kind == 1) printf("%d %d %" PRIdPTR "\n", passes, fails, mq_captured);
            else if (kind == 2) printf("%d %d %d\n", passes, fails, (qb[0][0] != 0x11 ? 1 : 0) | (qb[1][0] != 0x11 ? 2 : 0));
            else printf("%d %d 0\n", passes, fails);
            fflush(stdout);
            continue;
        }
        if (k == 'T') {
            size_t n = strcmp(tok[1], "e") ? strlen(tok[1]) / 2 : 0;
            char *s = malloc(n + 1);
            for (size_t i = 0; i < n; i++) { unsigned v; sscanf(tok[1] + 2 * i, "%2x", &v); s[i] = (char)v; }
            s[n] = 0;
            CgreenVector *nv = create_vector_of_names(s), *mv = create_vector_of_double_markers_for(s);
            printf("T ");
            for (int i = 0; i < cgreen_vector_size(nv); i++) {
                const unsigned char *x = cgreen_vector_get(nv, i);
                if (i) printf("|");
                if (!*x) printf("e");
                for (; *x; x++) printf("%02x", *x);
            }
            printf(" ");
            if (!cgreen_vector_size(mv)) printf("-");
            for (int i = 0; i < cgreen_vector_size(mv); i++) printf("%d", *(bool *)cgreen_vector_get(mv, i) ? 1 : 0);
            printf("\n"); fflush(stdout);
            destroy_cgreen_vector(nv); destroy_cgreen_vector(mv); free(s);
            continue;
        }
        int fid = atoi(tok[1]);
        const FnInfo *f = &FT[fid];
        const char *pname = tok[2];
        int first = (k == 'W' || k == 'D' || k == 'N') ? 4 : 3;
        intptr_t iv[10] = {0}; double dv[10] = {0};
        static unsigned char bufs[10][8];
        memset(bufs, 0x11, sizeof bufs);
        for (int i = 0; i < f->arity && first + i < nt; i++) {
            long long v = atoll(tok[first + i]);
            iv[i] = (k == 'O') ? (intptr_t)bufs[i] : (intptr_t)v; dv[i] = (double)v;
        }
        intptr_t captured = -4242;
        static unsigned char src[8];
        memset(src, 0x5a, 8);
        Constraint *c = NULL, *c2 = NULL;
        if (k == 'W') c = when_(pname, create_equal_to_value_constraint((intptr_t)atoll(tok[3]), "expected"));
        else if (k == 'D') c = when_(pname, create_equal_to_double_constraint((double)atoll(tok[3]), "expected"));
        else if (k == 'C') c = create_capture_parameter_constraint(pname, &captured, sizeof captured);
        else if (k == 'O') c = create_set_parameter_value_constraint(pname, (intptr_t)src, 8);
        else if (k == 'N') {
            c = when_(pname, create_equal_to_value_constraint(1, "1"));
            c2 = atoi(tok[3]) ? create_return_double_value_constraint(2.5) : create_return_value_constraint(77);
        }
        if (c2) expect_(rep, f->fname, "probe", 1, c, c2, (Constraint *)0);
        else expect_(rep, f->fname, "probe", 1, c, (Constraint *)0);
        intptr_t ret = call_fn(fid, iv, dv);
        if (k == 'C') printf("%d %d %" PRIdPTR, passes, fails, captured);
        else if (k == 'O') {
            int bm = 0;
            for (int i = 0; i < 10; i++) if (bufs[i][0] != 0x11 || bufs[i][7] != 0x11) bm |= 1 << i;
            printf("%d %d %d", passes, fails, bm);
        } else if (k == 'N' && atoi(tok[3])) printf("%d %d %g", passes, fails, unbox_double(ret));
        else printf("%d %d %" PRIdPTR, passes, fails, ret);
        printf("\n"); fflush(stdout);
    }
    return 0;
}
