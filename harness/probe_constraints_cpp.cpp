/* C++ counterpart of probe_constraints: the std::string overloads (actual and expected as
   std::string, std::string* and mixed) through the same public macros. */
#include <cgreen/cgreen.h>
#include <cstdio>
#include <cstdlib>
#include <cstring>
#include <string>
#include <iostream>
using namespace cgreen;

static char out[256]; static int outn;
static void rec(TestReporter *r, const char *file, int line, int result, const char *message, ...) {
    (void)r; (void)file; (void)line; (void)message;
    if (outn < 250) out[outn++] = result ? '1' : '0';
}
static std::string unhex(const std::string &h) {
    if (h == "e") return std::string();
    std::string b;
    for (size_t i = 0; i + 1 < h.size(); i += 2) b.push_back((char)strtol(h.substr(i, 2).c_str(), NULL, 16));
    return b;
}
int main() {
    TestReporter *rep = create_reporter();
    rep->assert_true = rec;
    setup_reporting(rep);
    std::string kind, which, s1, s2, rest;
    std::string line;
    while (std::getline(std::cin, line)) {
        outn = 0;
        char k[8], w[32]; static char b1[1 << 16], b2[1 << 16]; int variant = 0;
        if (sscanf(line.c_str(), "%7s %31s %65535s %65535s %d", k, w, b1, b2, &variant) < 4 || k[0] != 'S' ||
            !strcmp(b1, "-") || !strcmp(b2, "-")) { puts("-"); continue; }
        std::string a = unhex(b1), e = unhex(b2);
        which = w;
        /* variant 0: std::string / std::string; 1: std::string* actual; 2: std::string* expected; 3: char* actual */
        #define RUN(C) do { \
            if (variant == 0) assert_that(a, C(e)); \
            else if (variant == 1) assert_that(&a, C(e)); \
            else if (variant == 2) assert_that(a, C(&e)); \
            else assert_that(a.c_str(), C(e)); } while (0)
        if (which == "eq") RUN(is_equal_to_string);
        else if (which == "ne") RUN(is_not_equal_to_string);
        else if (which == "contains") RUN(contains_string);
        else if (which == "ncontains") RUN(does_not_contain_string);
        else if (which == "begins") RUN(begins_with_string);
        if (outn == 0) out[outn++] = '-';
        out[outn] = 0;
        puts(out);
    }
    return 0;
}
