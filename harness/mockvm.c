/* mockvm: interprets operation lists against the real mock engine (expect_, always_expect_,
   never_expect_, mock_, tally_mocks, clear_mocks, cgreen_mocks_are) with a private reporter
   that records every reported check.  One case per input line:

     op;op;op...
   ops:  E f line c..   A f line c..   N f line c..      (expect / always / never)
         C f p=v,p=v                                     (call with named actuals; "C f" = no args)
         M strict|loose|learning      T (tally)      X (clear)
   constraints c:  p<name>=<value>   t<n>   r<value>   b<value> (will_return_by_value of a struct holding the value;
                   the functions in BYVAL are given all their return values that way and the call reads the struct
                   the mock hands back and frees it)   s<g> (with_side_effect: the callback calls mocked function g with p0=1, p1=1)
                   o<value> (will_set_contents_of_output_parameter(out, &value, sizeof(long)): every call passes the address of
                   one cell as its last argument, named out; the cell is reset before each operation and shown after it)

   Output per case: for each op "results/ret/queue" joined by ';' where
     results = <line>:<0|1> ... (line 0 = the test's own line), queue = f:line:ttl:ncalled:ntrig ...
   then '|' and the value of the out cell after each op, comma-separated (-1 = untouched)
*/
#define _GNU_SOURCE
#include <cgreen/cgreen.h>
#include <cgreen/mocks.h>
#include <stdio.h>
#include <stdlib.h>
#include <string.h>
#include <stdarg.h>

extern CgreenTest *current_test;
extern void cgreen_verif_walk_expectations(void (*visit)(const char *, int, int, int, int));

static char out[1 << 20]; static size_t outn;
static void put(const char *fmt, ...) {
    va_list ap; va_start(ap, fmt);
    outn += vsnprintf(out + outn, sizeof out - outn, fmt, ap);
    va_end(ap);
}

static void rec_assert_true(TestReporter *r, const char *file, int line, int result, const char *message, ...) {
    (void)r; (void)message;
    put("%d:%d ", strcmp(file, "mockvm.c") == 0 ? line : 0, result ? 1 : 0);
}

/* names that are suffixes and prefixes of one another: matching must be by whole name */
static const char *fnames[] = { "load", "reload", "unload", "loader", "f4", "f5", "f6", "f7" };
static int findex(const char *n) { for (int i = 0; i < 8; i++) if (strcmp(fnames[i], n) == 0) return i; return -1; }
static const char *pnames[] = { "p0", "p1", "p2", "p3", "p4", "p5" };

static void visit(const char *function, int line, int ttl, int ncalled, int ntrig) {
    put("%d:%d:%d:%d:%d ", findex(function), line, ttl, ncalled, ntrig);
}

struct byvalue { long magic; long v; };
#define BYVAL(fi) ((fi) == 1 || (fi) == 3)

static TestReporter *the_reporter;
static long out_cell; static long ovals[256]; static int novals;
static long cells[4096]; static int ncells;
static void nested_call(void *data) {
    int g = (int)(intptr_t)data;
    (void)mock_(the_reporter, fnames[g], "mockvm.c", 9998, "p0, p1, out", (intptr_t)1, (intptr_t)1, (intptr_t)&out_cell);
}

static CgreenTest fake = { 0, NULL, "fake", NULL, "test.c", 0 };

int main(void) {
    TestReporter *rep = create_reporter();
    rep->assert_true = rec_assert_true;
    setup_reporting(rep);
    the_reporter = rep;
    current_test = &fake;
    char *line = NULL; size_t cap = 0;
    while (getline(&line, &cap, stdin) > 0) {
        outn = 0; out[0] = 0; novals = 0; ncells = 0;
        clear_mocks();
        cgreen_mocks_are(strict_mocks);
        char *save1;
        for (char *op = strtok_r(line, ";\n", &save1); op; op = strtok_r(NULL, ";\n", &save1)) {
            char *tok[40]; int nt = 0; char *save2;
            for (char *t = strtok_r(op, " ", &save2); t && nt < 40; t = strtok_r(NULL, " ", &save2)) tok[nt++] = t;
            if (nt == 0) continue;
            intptr_t ret = 0;
            char k = tok[0][0];
            out_cell = -1;
            if (k == 'E' || k == 'A' || k == 'N') {
                const char *f = fnames[atoi(tok[1])]; int ln = atoi(tok[2]);
                Constraint *cs[12]; int nc = 0;
                for (int i = 3; i < nt && nc < 10; i++) {
                    if (tok[i][0] == 'p') {
                        char *eq = strchr(tok[i], '=');
                        *eq = 0;
                        Constraint *c = create_equal_to_value_constraint((intptr_t)atoll(eq + 1), "v");
                        cs[nc++] = when_(pnames[atoi(tok[i] + 1)], c);
                    } else if (tok[i][0] == 't') cs[nc++] = times_(atoi(tok[i] + 1));
                    else if (tok[i][0] == 'r') cs[nc++] = create_return_value_constraint((intptr_t)atoll(tok[i] + 1));
                    else if (tok[i][0] == 'b') {
                        struct byvalue bv = { 0x5eed, atoll(tok[i] + 1) };
                        cs[nc++] = create_return_by_value_constraint((intptr_t)&bv, sizeof bv);
                    }
                    else if (tok[i][0] == 'o') {
                        long *slot = &ovals[novals++ % 256];
                        *slot = atol(tok[i] + 1);
                        cs[nc++] = create_set_parameter_value_constraint("out", (intptr_t)slot, sizeof(long));
                    }
                    else if (tok[i][0] == 's') cs[nc++] = create_with_side_effect_constraint(nested_call, (void *)(intptr_t)atoi(tok[i] + 1));
                }
                for (int i = nc; i < 12; i++) cs[i] = NULL;
#define ARGS cs[0], cs[1], cs[2], cs[3], cs[4], cs[5], cs[6], cs[7], cs[8], cs[9], cs[10], (Constraint *)0
                if (k == 'E') expect_(rep, f, "mockvm.c", ln, ARGS);
                else if (k == 'A') always_expect_(rep, f, "mockvm.c", ln, ARGS);
                else never_expect_(rep, f, "mockvm.c", ln, ARGS);
            } else if (k == 'C') {
                const char *f = fnames[atoi(tok[1])];
                char names[200] = ""; intptr_t v[7] = {0}; int na = 0;
                if (nt > 2) {
                    char *save3;
                    for (char *a = strtok_r(tok[2], ",", &save3); a && na < 6; a = strtok_r(NULL, ",", &save3)) {
                        char *eq = strchr(a, '=');
                        *eq = 0;
                        if (na) strcat(names, ", ");
                        strcat(names, pnames[atoi(a + 1)]);
                        v[na++] = (intptr_t)atoll(eq + 1);
                    }
                }
                if (na) strcat(names, ", ");
                strcat(names, "out");
                v[na] = (intptr_t)&out_cell;
                ret = mock_(rep, f, "mockvm.c", 9999, names, v[0], v[1], v[2], v[3], v[4], v[5], v[6]);
                if (BYVAL(atoi(tok[1])) && ret != 0) {       /* the struct comes back as a copy the caller owns */
                    struct byvalue *bv = (struct byvalue *)ret;
                    ret = bv->magic == 0x5eed ? (intptr_t)bv->v : (intptr_t)-424242;
                    free(bv);
                }
            } else if (k == 'M') {
                cgreen_mocks_are(tok[1][1] == 'o' ? loose_mocks : tok[1][1] == 'e' ? learning_mocks : strict_mocks);
            } else if (k == 'T') {
                tally_mocks(rep);
            } else if (k == 'X') {
                clear_mocks();
            }
            if (ncells < 4096) cells[ncells++] = out_cell;
            put("/%ld/", (long)ret);
            cgreen_verif_walk_expectations(visit);
            put(";");
        }
        put("|");
        for (int i = 0; i < ncells; i++) put(i ? ",%ld" : "%ld", cells[i]);
        fputs(out, stdout); fputc('\n', stdout);
        fflush(stdout);
    }
    return 0;
}
