/* vector_vm: interprets operation lists against cgreen's real containers.
   Built with AddressSanitizer + UBSan: any out-of-bounds access aborts the process (the
   parent then sees which case was being run).  One case per line:
     V <ops>   CgreenVector (src/vector.c); ops separated by ';':
               a<v> (add v)  r<pos> (remove)  g<pos> (get)  s (size)
               output: results separated by ' ' (P = NULL+panic, N = NULL without panic)
     S <ops>   TestSuite entry array (src/suite.c): t<v> add_test_, s<v> add_suite_ (v = id);
               output: size, then the ids in array order with their kind
     C <ops>   breadcrumb (src/breadcrumb.c): p<v> push, o pop; output: current entry after
               every op (- = NULL) */
#include <cgreen/vector.h>
#include <cgreen/suite.h>
#include <cgreen/breadcrumb.h>
#include <stdio.h>
#include <stdlib.h>
#include <string.h>
#include <stdint.h>

extern void panic_set_output_buffer(const char *buffer);
static char panicbuf[2000];

static void do_vector(char *ops) {
    CgreenVector *v = create_cgreen_vector(NULL);
    char *save;
    for (char *op = strtok_r(ops, ";\n", &save); op; op = strtok_r(NULL, ";\n", &save)) {
        if (op[0] == 'a') cgreen_vector_add(v, (void *)(intptr_t)atol(op + 1));
        else if (op[0] == 'r' || op[0] == 'g') {
            panicbuf[0] = 0;
            void *x = op[0] == 'r' ? cgreen_vector_remove(v, atoi(op + 1)) : cgreen_vector_get(v, atoi(op + 1));
            if (panicbuf[0]) printf("P "); else if (!x) printf("N "); else printf("%ld ", (long)(intptr_t)x);
        } else if (op[0] == 's') printf("%d ", cgreen_vector_size(v));
    }
    destroy_cgreen_vector(v);
}

static void do_suite(char *ops) {
    static char names[4096][12];
    TestSuite *top = create_named_test_suite_("top", "vm.c", 1);
    int n = 0; char *save;
    for (char *op = strtok_r(ops, ";\n", &save); op && n < 4096; op = strtok_r(NULL, ";\n", &save)) {
        snprintf(names[n], sizeof names[n], "%s", op + 1);
        if (op[0] == 't') add_test_(top, names[n], (CgreenTest *)(intptr_t)(atol(op + 1)));
        else add_suite_(top, names[n], create_named_test_suite_(names[n], "vm.c", 2));
        n++;
    }
    printf("%d", top->size);
    for (int i = 0; i < top->size; i++) printf(" %c%s", top->tests[i].type == test_function ? 't' : 's', top->tests[i].name);
    for (int i = 0; i < top->size; i++)
        if (top->tests[i].type == test_function && (intptr_t)top->tests[i].Runnable.test != atol(top->tests[i].name)) printf(" BADPTR%d", i);
    destroy_test_suite(top);
}

static void do_crumb(char *ops) {
    static char names[4096][12];
    CgreenBreadcrumb *b = create_breadcrumb();
    int n = 0; char *save;
    for (char *op = strtok_r(ops, ";\n", &save); op && n < 4096; op = strtok_r(NULL, ";\n", &save)) {
        if (op[0] == 'p') { snprintf(names[n], sizeof names[n], "%s", op + 1); push_breadcrumb(b, names[n]); n++; }
        else pop_breadcrumb(b);
        const char *c = get_current_from_breadcrumb(b);
        printf("%s ", c ? c : "-");
    }
    destroy_breadcrumb(b);
}

int main(void) {
    panic_set_output_buffer(panicbuf);
    char *line = NULL; size_t cap = 0;
    while (getline(&line, &cap, stdin) > 0) {
        if (line[0] == 'V') do_vector(line + 2);
        else if (line[0] == 'S') do_suite(line + 2);
        else if (line[0] == 'C') do_crumb(line + 2);
        printf("\n"); fflush(stdout);
    }
    return 0;
}
