/* vector_vm: interprets operation lists against the real CgreenVector (src/vector.c).
   Built with AddressSanitizer + UBSan: any out-of-bounds access aborts the process.
   One case per line:  ops separated by ';':  a<v> (add v)  r<pos> (remove)  g<pos> (get)  s (size)
   Output per case: results separated by ' ' (P = NULL/panic) */
#include <cgreen/vector.h>
#include <stdio.h>
#include <stdlib.h>
#include <string.h>
#include <stdint.h>

extern void panic_set_output_buffer(const char *buffer);

int main(void) {
    static char panicbuf[2000];
    panic_set_output_buffer(panicbuf);
    char *line = NULL; size_t cap = 0;
    while (getline(&line, &cap, stdin) > 0) {
        CgreenVector *v = create_cgreen_vector(NULL);
        char *save;
        for (char *op = strtok_r(line, ";\n", &save); op; op = strtok_r(NULL, ";\n", &save)) {
            if (op[0] == 'a') { cgreen_vector_add(v, (void *)(intptr_t)atol(op + 1)); }
            else if (op[0] == 'r') { panicbuf[0] = 0; void *x = cgreen_vector_remove(v, atoi(op + 1)); if (panicbuf[0]) printf("P "); else printf("%ld ", (long)(intptr_t)x); }
            else if (op[0] == 'g') { panicbuf[0] = 0; void *x = cgreen_vector_get(v, atoi(op + 1)); if (panicbuf[0]) printf("P "); else printf("%ld ", (long)(intptr_t)x); }
            else if (op[0] == 's') printf("%d ", cgreen_vector_size(v));
        }
        printf("\n"); fflush(stdout);
        destroy_cgreen_vector(v);
    }
    return 0;
}
