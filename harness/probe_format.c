/* probe_format: what the reporter's show_fail would print for a failed check.  The private
   assert_true expands (format, arguments) with vsnprintf exactly as the text reporter's
   vprintf does.  Every case runs in a forked child so that a crash is an observation.
   Lines (texts hex-encoded, "e" = empty):
     A <ctor> <actual_text> <expected_text> <a> <e>          assert_that with an integer constraint
     S <ctor> <actual_text> <expected_text> <hexA> <hexE>    assert_that with a string constraint
     L <which> <expr_text> <a> <e>                            legacy assert_equal_/assert_not_equal_
     T <which> <expr_text> <hexA> <hexE>                      legacy assert_string_equal_/not_equal_
     P <ctor> <a> <e>                                         mock parameter check (when(p, is_equal_to..))
     Q <ctor> <hexA> <hexE>                                   mock parameter check with a string constraint
   Output: one line per case: hex of each failure text, or PASS, or CRASH <signal> */
#define _GNU_SOURCE
#include <cgreen/cgreen.h>
#include <cgreen/mocks.h>
#include <stdio.h>
#include <stdlib.h>
#include <string.h>
#include <stdarg.h>
#include <unistd.h>
#include <sys/wait.h>

extern CgreenTest *current_test;
static CgreenTest fake = { 0, NULL, "fake", NULL, "test.c", 0 };
static int wfd = -1;

static void rec(TestReporter *r, const char *file, int line, int result, const char *message, ...) {
    (void)r; (void)file; (void)line;
    if (result) return;
    static char buf[1 << 20];
    va_list ap; va_start(ap, message);
    int n = vsnprintf(buf, sizeof buf, message, ap);
    va_end(ap);
    if (n < 0) n = 0;
    if ((size_t)n >= sizeof buf) n = sizeof buf - 1;
    static char hex[(1 << 21) + 8];
    int k = 0;
    hex[k++] = 'F';
    for (int i = 0; i < n; i++) k += sprintf(hex + k, "%02x", (unsigned char)buf[i]);
    hex[k++] = ' ';
    ssize_t w = write(wfd, hex, k); (void)w;
}

static char *unhex(const char *h) {
    if (strcmp(h, "e") == 0) return strdup("");
    size_t n = strlen(h) / 2; char *b = malloc(n + 1);
    for (size_t i = 0; i < n; i++) { unsigned v; sscanf(h + 2 * i, "%2x", &v); b[i] = (char)v; }
    b[n] = 0; return b;
}

static intptr_t mocked_int(intptr_t p0) { return mock_(get_test_reporter(), "mocked_int", "probe.c", 1, "p0", p0); }

static Constraint *int_ctor(const char *w, intptr_t e, const char *text) {
    if (!strcmp(w, "eq")) return create_equal_to_value_constraint(e, text);
    if (!strcmp(w, "hex")) return create_equal_to_hexvalue_constraint(e, text);
    if (!strcmp(w, "ne")) return create_not_equal_to_value_constraint(e, text);
    if (!strcmp(w, "lt")) return create_less_than_value_constraint(e, text);
    if (!strcmp(w, "gt")) return create_greater_than_value_constraint(e, text);
    if (!strcmp(w, "null")) return create_is_null_constraint();
    if (!strcmp(w, "nonnull")) return create_not_null_constraint();
    if (!strcmp(w, "true")) return create_is_true_constraint();
    if (!strcmp(w, "false")) return create_is_false_constraint();
    return NULL;
}
static Constraint *str_ctor(const char *w, const char *e, const char *text) {
    if (!strcmp(w, "eq")) return create_equal_to_string_constraint(e, text);
    if (!strcmp(w, "ne")) return create_not_equal_to_string_constraint(e, text);
    if (!strcmp(w, "contains")) return create_contains_string_constraint(e, text);
    if (!strcmp(w, "ncontains")) return create_does_not_contain_string_constraint(e, text);
    if (!strcmp(w, "begins")) return create_begins_with_string_constraint(e, text);
    if (!strcmp(w, "nbegins")) return create_does_not_begin_with_string_constraint(e, text);
    if (!strcmp(w, "ends")) return create_ends_with_string_constraint(e, text);
    if (!strcmp(w, "nends")) return create_does_not_end_with_string_constraint(e, text);
    return NULL;
}

static void run_case(char *line) {
    static char k[8], w[32], t1[1 << 17], t2[1 << 17], t3[1 << 17], t4[1 << 17];
    long long a = 0, e = 0;
    sscanf(line, "%7s %31s", k, w);
    if (k[0] == 'A') {
        sscanf(line, "%*s %*s %131071s %131071s %lld %lld", t1, t2, &a, &e);
        char *at = unhex(t1), *et = unhex(t2);
        assert_core_("probe.c", 1, at, (intptr_t)a, int_ctor(w, (intptr_t)e, et));
    } else if (k[0] == 'S') {
        sscanf(line, "%*s %*s %131071s %131071s %131071s %131071s", t1, t2, t3, t4);
        char *at = unhex(t1), *et = unhex(t2), *av = unhex(t3), *ev = unhex(t4);
        assert_core_("probe.c", 1, at, (intptr_t)av, str_ctor(w, ev, et));
    } else if (k[0] == 'L') {
        sscanf(line, "%*s %*s %131071s %lld %lld", t1, &a, &e);
        char *xt = unhex(t1);
        if (!strcmp(w, "eq")) assert_equal_("probe.c", 1, xt, (intptr_t)a, (intptr_t)e);
        else assert_not_equal_("probe.c", 1, xt, (intptr_t)a, (intptr_t)e);
    } else if (k[0] == 'T') {
        sscanf(line, "%*s %*s %131071s %131071s %131071s", t1, t3, t4);
        char *xt = unhex(t1), *av = unhex(t3), *ev = unhex(t4);
        if (!strcmp(w, "eq")) assert_string_equal_("probe.c", 1, xt, av, ev);
        else assert_string_not_equal_("probe.c", 1, xt, av, ev);
    } else if (k[0] == 'P') {
        sscanf(line, "%*s %*s %131071s %lld %lld", t2, &a, &e);
        char *et = unhex(t2);
        expect_(get_test_reporter(), "mocked_int", "probe.c", 1, when_("p0", int_ctor(w, (intptr_t)e, et)), (Constraint *)0);
        mocked_int((intptr_t)a);
    } else if (k[0] == 'Q') {
        sscanf(line, "%*s %*s %131071s %131071s %131071s", t2, t3, t4);
        char *et = unhex(t2), *av = unhex(t3), *ev = unhex(t4);
        expect_(get_test_reporter(), "mocked_int", "probe.c", 1, when_("p0", str_ctor(w, ev, et)), (Constraint *)0);
        mocked_int((intptr_t)av);
    }
}

int main(void) {
    TestReporter *rep = create_reporter();
    rep->assert_true = rec;
    setup_reporting(rep);
    current_test = &fake;
    char *line = NULL; size_t cap = 0;
    while (getline(&line, &cap, stdin) > 0) {
        int p[2]; if (pipe(p)) return 2;
        fflush(NULL);
        pid_t pid = fork();
        if (pid == 0) {
            close(p[0]); wfd = p[1];
            run_case(line);
            _exit(0);
        }
        close(p[1]);
        static char buf[(1 << 21) + 64]; size_t n = 0; ssize_t r;
        while ((r = read(p[0], buf + n, sizeof buf - n - 1)) > 0) n += r;
        close(p[0]);
        buf[n] = 0;
        int st = 0; waitpid(pid, &st, 0);
        if (WIFSIGNALED(st)) printf("%sCRASH %d\n", buf, WTERMSIG(st));
        else if (n == 0) printf("PASS\n");
        else printf("%s\n", buf);
        fflush(stdout);
    }
    return 0;
}
