(* C09 — cgreen-runner runs exactly the tests that are defined and selected. *)
From Coq Require Import List NArith Bool Permutation.
From CgreenVerif Require Import Params RunnerTool Lemmas_RunnerTool.
From CgreenVerif.Gen Require Import Facts.
Import ListNotations.
Local Open Scope N_scope.

(* the specification symbol of a test gives back its context and name, for EVERY test name (also
   one that contains "__" or ends in '_') and for context names without "__" inside and without
   '_' at the end (that guard is necessary: parse_needs_wf_refuted) *)
Theorem C09_names_recovered_from_symbols : forall ctx name,
  wf_name ctx = true -> parse_spec (mangle ctx name) = (ctx, name).
Proof. exact parse_mangle. Qed.
Print Assumptions C09_names_recovered_from_symbols.

(* the marker the discoverer searches for and the shape of spec_name() in the headers are the
   ones the model uses *)
Theorem C09_markers_as_modelled :
  spec_marker = PREFIX ++ SEP /\ spec_name_parts = (PREFIX, SEP) /\ definition_marker = [32; 68; 32].
Proof. repeat split. Qed.

(* pattern matching is the declarative matching relation: a literal matches itself, '*' any text *)
Theorem C09_pattern_matching : forall p s, glob p s = true <-> gmatch p s.
Proof. exact glob_correct. Qed.
Print Assumptions C09_pattern_matching.

(* sorting the discovered tests loses none and duplicates none, for every count *)
Theorem C09_sorting_keeps_every_test : forall l, Permutation (sorted_items l) l.
Proof. exact sorted_is_permutation. Qed.
Print Assumptions C09_sorting_keeps_every_test.

(* one library: the run is refused exactly when nothing is selected, otherwise the tests
   executed are exactly the selected ones, each once (the single-match case runs the matched
   test under its own name: single_run_by_item_name is translated from tools/runner.c) *)
Theorem C09_runs_exactly_selected : forall pat items,
  match runner_m single_run_by_item_name pat items with
  | RFail => selected pat items = []
  | RRan ex => Permutation ex (selected pat items) /\ ex <> []
  end.
Proof. exact runner_runs_exactly_selected. Qed.
Print Assumptions C09_runs_exactly_selected.

(* the command line: exit status success means every library named exists, something was
   selected in each, exactly the selected tests ran, and their runs reported success - so a
   missing library or a pattern matching nothing is a failure, never a silent omission *)
Theorem C09_success_means_all_selected_ran : forall exists_ lib_items outcome_ok pairs,
  fst (main_m single_run_by_item_name exists_ lib_items outcome_ok pairs) = false ->
  Forall2 (fun pr ex => fst pr = fst ex /\ exists_ (fst pr) = true /\
                        Permutation (snd ex) (selected (snd pr) (lib_items (fst pr))) /\ snd ex <> [] /\
                        outcome_ok (fst pr) (snd ex) = true)
          pairs (snd (main_m single_run_by_item_name exists_ lib_items outcome_ok pairs)).
Proof. exact main_success_means_all_ran. Qed.
Print Assumptions C09_success_means_all_selected_ran.
