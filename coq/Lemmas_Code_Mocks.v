(* Lemmas_Code_Mocks.v - functions of the expectation queue of src/mocks.c as translated from the
   current source (Gen/Code_mocks.v) compute what Mocks.v says, for every queue. *)
From Coq Require Import List ZArith String Bool Lia Arith.
From CgreenVerif Require Import CLite Lemmas_CLite Mocks CodeCheck.
From CgreenVerif.Gen Require Import Code_mocks.
Import ListNotations.
Local Open Scope string_scope. Local Open Scope list_scope. Local Open Scope Z_scope.

Definition refs (n : nat) : list val := map (fun i => VPtr (S i) 0) (seq 0 n).

(* the world of CodeCheck.mocks_world, with anything behind the expectation records *)
Definition mw (unl : Z) (q : list mexp) (tl : list obj) (tr : list (string * list val)) : world :=
  mkw (OVec (refs (List.length q)) :: map exp_rec q ++ tl)
      [("global_expectation_queue", VPtr 0 0); ("UNLIMITED_TIME_TO_LIVE", VInt unl);
       ("successfully_mocked_calls", VPtr (S (List.length q)) 0)] [] tr.

Lemma length_refs n : List.length (refs n) = n.
Proof. unfold refs. rewrite map_length, seq_length. reflexivity. Qed.

Lemma nth_refs k n : (k < n)%nat -> nth k (refs n) (VInt 0) = VPtr (S k) 0.
Proof.
  intro H. unfold refs.
  rewrite (nth_indep _ (VInt 0) (VPtr 1 0)) by (rewrite map_length, seq_length; exact H).
  change (VPtr 1 0) with ((fun i => VPtr (S i) 0) O).
  rewrite map_nth. rewrite seq_nth by exact H. reflexivity.
Qed.

Lemma nth_error_objs (pre : list mexp) e rest tl :
  nth_error (map exp_rec (pre ++ e :: rest) ++ tl) (List.length pre) = Some (exp_rec e).
Proof.
  rewrite map_app. rewrite <- app_assoc. cbn [map app].
  rewrite nth_error_app2 by (rewrite map_length; lia).
  rewrite map_length, Nat.sub_diag. reflexivity.
Qed.

Lemma bytes_cmp_refl l : bytes_cmp l l = 0.
Proof. induction l as [|x l IH]; cbn [bytes_cmp]; [reflexivity|]. rewrite Z.eqb_refl. exact IH. Qed.

Lemma bytes_cmp_fn a f : (bytes_cmp (fn_name a) (fn_name f) =? 0) = Nat.eqb a f.
Proof.
  unfold fn_name. cbn [bytes_cmp]. rewrite Z.eqb_refl.
  destruct (Nat.eqb_spec a f) as [->|Hne].
  - rewrite Z.eqb_refl. reflexivity.
  - destruct (Z.eqb_spec (48 + Z.of_nat a) (48 + Z.of_nat f)) as [He|_]; [exfalso; apply Hne; lia|].
    destruct (48 + Z.of_nat a <? 48 + Z.of_nat f); reflexivity.
Qed.

(* position of the first entry for f *)
Fixpoint find_pos (f : nat) (q : list mexp) : option nat :=
  match q with
  | [] => None
  | e :: q' => if for_fn f e then Some O else match find_pos f q' with Some n => Some (S n) | None => None end
  end.

Lemma find_pos_find_exp f q :
  find_exp q f = match find_pos f q with Some p => nth_error q p | None => None end.
Proof.
  induction q as [|e q IH]; cbn [find_exp find_pos]; [reflexivity|].
  destruct (for_fn f e); [reflexivity|]. rewrite IH. destruct (find_pos f q); reflexivity.
Qed.

Lemma find_pos_valid f q p : find_pos f q = Some p -> nth_error q p <> None.
Proof.
  revert p. induction q as [|e q IH]; intros p H; cbn [find_pos] in H; [discriminate|].
  destruct (for_fn f e); [injection H as <-; discriminate|].
  destruct (find_pos f q) as [p'|] eqn:Hp; [|discriminate]. injection H as <-. cbn [nth_error]. apply IH. reflexivity.
Qed.

Definition find_loop : stmt :=
  match fbody code_find_expectation with SSeq (SSeq _ l) _ => l | _ => SSkip end.

Definition find_locals (f : nat) (i : nat) (ex : option val) : locals :=
  [("function", VLit (fn_name f)); ("i", VInt (Z.of_nat i))] ++
  match ex with Some v => [("expectation", v)] | None => [] end.

Lemma find_loop_spec : forall rest pre n f ex unl tl tr,
  (List.length rest < n)%nat -> Z.of_nat (List.length (pre ++ rest)) < 2147483647 ->
  exists l',
    cexec prog_mocks n find_loop (find_locals f (List.length pre) ex) (mw unl (pre ++ rest) tl tr) =
    match find_pos f rest with
    | Some p => Fine (FReturn (VPtr (S (List.length pre + p)) 0), l', mw unl (pre ++ rest) tl tr)
    | None => Fine (FNormal, l', mw unl (pre ++ rest) tl tr)
    end.
Proof.
  induction rest as [|e rest IH]; intros pre n f ex unl tl tr Hn Hlen.
  - destruct n as [|n]; [cbn in Hn; lia|].
    unfold find_loop, find_locals, mw. cbn [fbody code_find_expectation find_pos].
    destruct ex; eexists; rewrite exec_loop; cbn [app]; srun prog_mocks.
    all: rewrite length_refs, app_nil_r, Z.ltb_irrefl; reflexivity.
  - destruct n as [|n]; [cbn in Hn; lia|].
    assert (Hlt : Z.of_nat (List.length pre) <? Z.of_nat (List.length (pre ++ e :: rest)) = true)
      by (apply Z.ltb_lt; rewrite app_length; cbn [List.length]; lia).
    assert (Hrange : in_range I32 (Z.of_nat (List.length pre) + 1) = true)
      by (apply in_range_I32; rewrite app_length in Hlen; cbn [List.length] in Hlen; lia).
    cbn [find_pos]. unfold for_fn.
    destruct (Nat.eqb (efn e) f) eqn:Hf.
    + (* this entry is for f: it is returned *)
      unfold find_loop, find_locals, mw. cbn [fbody code_find_expectation].
      destruct ex; eexists; rewrite exec_loop; cbn [app]; srun prog_mocks;
        rewrite length_refs, Hlt; srun prog_mocks;
        rewrite length_refs, Hlt, Nat2Z.id, (proj2 (Z.leb_le 0 _) (Nat2Z.is_nonneg _)), nth_refs by (rewrite app_length; cbn [List.length]; lia);
        srun prog_mocks;
        erewrite get_field_rec by (cbn [heap nth_error]; apply nth_error_objs);
        cbn [alookup String.eqb Ascii.eqb Bool.eqb]; srun prog_mocks;
        rewrite bytes_cmp_fn, Hf; srun prog_mocks;
        rewrite Nat.add_0_r; reflexivity.
    + (* another function's entry: on to the next position *)
      destruct (IH (pre ++ [e]) n f (Some (VPtr (S (List.length pre)) 0)) unl tl tr) as [l' IH'];
        [cbn [List.length] in Hn; lia | rewrite <- app_assoc; exact Hlen |].
      exists l'.
      unfold find_loop, find_locals, mw in *. cbn [fbody code_find_expectation app] in *.
      rewrite <- app_assoc in IH'. cbn [app] in IH'.
      rewrite app_length in IH'. cbn [List.length] in IH'.
      replace (Z.of_nat (List.length pre + 1)) with (Z.of_nat (List.length pre) + 1) in IH' by lia.
      destruct ex; rewrite exec_loop; cbn [app]; srun prog_mocks;
        rewrite length_refs, Hlt; srun prog_mocks;
        rewrite length_refs, Hlt, Nat2Z.id, (proj2 (Z.leb_le 0 _) (Nat2Z.is_nonneg _)), nth_refs by (rewrite app_length; cbn [List.length]; lia);
        srun prog_mocks;
        erewrite get_field_rec by (cbn [heap nth_error]; apply nth_error_objs);
        cbn [alookup String.eqb Ascii.eqb Bool.eqb]; srun prog_mocks;
        rewrite bytes_cmp_fn, Hf; srun prog_mocks;
        rewrite Hrange; srun prog_mocks.
      all: rewrite IH'; destruct (find_pos f rest) as [p|]; [|reflexivity].
      all: replace (List.length pre + 1 + p)%nat with (List.length pre + S p)%nat by lia; reflexivity.
Qed.

(* find_expectation(function): a pointer to the first entry of the queue for that function, NULL
   when there is none; nothing is changed *)
Theorem find_expectation_refines :
  forall q f unl tl tr n,
    (List.length q + 1 < n)%nat -> Z.of_nat (List.length q) < 2147483647 ->
    run_fun prog_mocks n "find_expectation" [VLit (fn_name f)] (mw unl q tl tr) =
    Fine (match find_pos f q with Some p => VPtr (S p) 0 | None => VInt 0 end, mw unl q tl tr).
Proof.
  intros q f unl tl tr n Hn Hlen.
  destruct (find_loop_spec q [] n f None unl tl tr ltac:(lia) Hlen) as [l' HL].
  unfold find_loop, find_locals in HL. cbn [fbody code_find_expectation app List.length] in HL.
  change (Z.of_nat 0) with 0 in HL.
  destruct n as [|n]; [lia|].
  unfold run_fun, find_fun. cbn [alookup prog_mocks String.eqb Ascii.eqb Bool.eqb].
  unfold mk_call at 1. unfold find_fun. cbn [alookup prog_mocks String.eqb Ascii.eqb Bool.eqb].
  cbn [bind_params fparams fbody code_find_expectation].
  srun prog_mocks. rewrite HL. clear HL.
  destruct (find_pos f q) as [p|]; srun prog_mocks; reflexivity.
Qed.

(* ... which is find_exp of the model: the object it points to is that entry *)
Corollary find_expectation_is_find_exp :
  forall q f unl tl tr n,
    (List.length q + 1 < n)%nat -> Z.of_nat (List.length q) < 2147483647 ->
    exists v,
      run_fun prog_mocks n "find_expectation" [VLit (fn_name f)] (mw unl q tl tr) = Fine (v, mw unl q tl tr) /\
      match find_exp q f with
      | Some e => exists p, v = VPtr (S p) 0 /\ nth_error q p = Some e /\
                            nth_error (heap (mw unl q tl tr)) (S p) = Some (exp_rec e)
      | None => v = VInt 0
      end.
Proof.
  intros q f unl tl tr n Hn Hlen.
  eexists. split; [apply find_expectation_refines; assumption|].
  rewrite find_pos_find_exp.
  destruct (find_pos f q) as [p|] eqn:Hp; [|reflexivity].
  destruct (nth_error q p) as [e|] eqn:He; [|exfalso; exact (find_pos_valid f q p Hp He)].
  exists p. split; [reflexivity|]. split; [exact He|].
  cbn [mw heap nth_error].
  apply nth_error_split in He. destruct He as (pre & rest & -> & <-).
  apply nth_error_objs.
Qed.

(* ------------------------------------------------------------------------------------------ *)
Definition unl_ok (unl : Z) : Prop := 0 <= unl <= 2147483647.

Lemma wrap_IBool_b (b : bool) : wrap IBool (if b then 1 else 0) = if b then 1 else 0.
Proof. destruct b; reflexivity. Qed.

(* one iteration of a loop over the queue, up to the comparison of the entry's function name *)
Ltac iter_to_name_test Hlt :=
  rewrite exec_loop; cbn [app]; srun prog_mocks;
  rewrite length_refs, Hlt; srun prog_mocks;
  rewrite length_refs, Hlt, Nat2Z.id, (proj2 (Z.leb_le 0 _) (Nat2Z.is_nonneg _)), nth_refs by (rewrite app_length; cbn [List.length]; lia);
  srun prog_mocks;
  erewrite get_field_rec by (cbn [heap nth_error]; apply nth_error_objs);
  cbn [alookup String.eqb Ascii.eqb Bool.eqb]; srun prog_mocks;
  rewrite bytes_cmp_fn.

(* is_always_call / is_never_call on the entry at any position of the queue *)
Lemma call_is_always_call :
  forall pre e rest unl tl tr n, (1 <= n)%nat ->
    mk_call prog_mocks (cexec prog_mocks n) "is_always_call" [VPtr (S (List.length pre)) 0] (mw unl (pre ++ e :: rest) tl tr) =
    Fine (VInt (if is_always unl e then 1 else 0), mw unl (pre ++ e :: rest) tl tr).
Proof.
  intros pre e rest unl tl tr n Hn. destruct n as [|n]; [lia|].
  unfold mk_call, find_fun. cbn [alookup prog_mocks String.eqb Ascii.eqb Bool.eqb].
  cbn [bind_params fparams fbody code_is_always_call]. unfold mw.
  srun prog_mocks.
  erewrite get_field_rec by (cbn [heap nth_error]; apply nth_error_objs).
  cbn [alookup String.eqb Ascii.eqb Bool.eqb]. srun prog_mocks.
  rewrite wrap_IBool_b. srun prog_mocks. reflexivity.
Qed.

Lemma call_is_never_call :
  forall pre e rest unl tl tr n, (1 <= n)%nat -> unl_ok unl ->
    mk_call prog_mocks (cexec prog_mocks n) "is_never_call" [VPtr (S (List.length pre)) 0] (mw unl (pre ++ e :: rest) tl tr) =
    Fine (VInt (if is_never unl e then 1 else 0), mw unl (pre ++ e :: rest) tl tr).
Proof.
  intros pre e rest unl tl tr n Hn Hu. destruct n as [|n]; [lia|].
  unfold mk_call, find_fun. cbn [alookup prog_mocks String.eqb Ascii.eqb Bool.eqb].
  cbn [bind_params fparams fbody code_is_never_call]. unfold mw.
  srun prog_mocks.
  erewrite get_field_rec by (cbn [heap nth_error]; apply nth_error_objs).
  cbn [alookup String.eqb Ascii.eqb Bool.eqb]. srun prog_mocks.
  rewrite (in_range_I32 (- unl)) by (unfold unl_ok in Hu; lia). srun prog_mocks.
  rewrite wrap_IBool_b. srun prog_mocks. reflexivity.
Qed.

(* have_always_expectation_for / have_never_call_expectation_for: the two loops differ in the
   predicate they call, so the lemma is stated once over that predicate *)
Section Have.
Variable fname_ : string.                       (* the function of this loop *)
Variable pred_name : string.                    (* is_always_call or is_never_call *)
Variable pred : Z -> mexp -> bool.
Variable code : fundef.
Hypothesis code_body :
  fbody code =
  SSeq (SSeq (SAssign (LVar "i") (EConst 0))
    (SLoop (EBin OLt (EVar "i") (ECall "cgreen_vector_size" [EGlob "global_expectation_queue"]))
       (SSeq (SAssign (LVar "expectation") (ECall "cgreen_vector_get" [EGlob "global_expectation_queue"; EVar "i"]))
          (SIf (EBin OEq (ECall "strcmp" [EField (EVar "expectation") "function"; EVar "function"]) (EConst 0))
             (SIf (ECall pred_name [EVar "expectation"]) (SReturn (Some (ECast IBool (EConst 1)))) SSkip) SSkip))
       (SAssign (LVar "i") (EArith I32 (EBin OAdd (EVar "i") (EConst 1))))))
    (SReturn (Some (ECast IBool (EConst 0)))).
Variable unl : Z.
Hypothesis call_pred :
  forall pre e rest tl tr n, (1 <= n)%nat ->
    mk_call prog_mocks (cexec prog_mocks n) pred_name [VPtr (S (List.length pre)) 0] (mw unl (pre ++ e :: rest) tl tr) =
    Fine (VInt (if pred unl e then 1 else 0), mw unl (pre ++ e :: rest) tl tr).

Definition have_loop : stmt := match fbody code with SSeq (SSeq _ l) _ => l | _ => SSkip end.

Lemma have_loop_spec : forall rest pre n f ex tl tr,
  (List.length rest < n)%nat -> Z.of_nat (List.length (pre ++ rest)) < 2147483647 ->
  exists l',
    cexec prog_mocks n have_loop (find_locals f (List.length pre) ex) (mw unl (pre ++ rest) tl tr) =
    if existsb (fun e => for_fn f e && pred unl e) rest
    then Fine (FReturn (VInt 1), l', mw unl (pre ++ rest) tl tr)
    else Fine (FNormal, l', mw unl (pre ++ rest) tl tr).
Proof.
  unfold have_loop. rewrite code_body.
  induction rest as [|e rest IH]; intros pre n f ex tl tr Hn Hlen.
  - destruct n as [|n]; [cbn in Hn; lia|].
    unfold find_locals, mw. cbn [existsb].
    destruct ex; eexists; rewrite exec_loop; cbn [app]; srun prog_mocks.
    all: rewrite length_refs, app_nil_r, Z.ltb_irrefl; reflexivity.
  - destruct n as [|n]; [cbn in Hn; lia|].
    assert (Hlt : Z.of_nat (List.length pre) <? Z.of_nat (List.length (pre ++ e :: rest)) = true)
      by (apply Z.ltb_lt; rewrite app_length; cbn [List.length]; lia).
    assert (Hrange : in_range I32 (Z.of_nat (List.length pre) + 1) = true)
      by (apply in_range_I32; rewrite app_length in Hlen; cbn [List.length] in Hlen; lia).
    pose proof (call_pred pre e rest tl tr n) as Hcall.
    assert (Hn1 : (1 <= n)%nat) by (cbn [List.length] in Hn; lia).
    specialize (Hcall Hn1).
    cbn [existsb]. unfold for_fn at 1.
    destruct (IH (pre ++ [e]) n f (Some (VPtr (S (List.length pre)) 0)) tl tr) as [l' IH'];
      [cbn [List.length] in Hn; lia | rewrite <- app_assoc; exact Hlen |].
    unfold find_locals, mw in *. cbn [app] in *.
    rewrite <- app_assoc in IH'. cbn [app] in IH'.
    rewrite app_length in IH'. cbn [List.length] in IH'.
    replace (Z.of_nat (List.length pre + 1)) with (Z.of_nat (List.length pre) + 1) in IH' by lia.
    destruct (Nat.eqb (efn e) f) eqn:Hf; cbn [andb].
    + destruct (pred unl e) eqn:Hp; cbn [orb].
      * (* an entry for f that satisfies the predicate: true *)
        unfold mw in Hcall.
        destruct ex; eexists; iter_to_name_test Hlt; rewrite Hf; srun prog_mocks;
          rewrite Hcall; srun prog_mocks; reflexivity.
      * (* an entry for f that does not: on to the next *)
        unfold mw in Hcall. exists l'.
        destruct ex; iter_to_name_test Hlt; rewrite Hf; srun prog_mocks;
          rewrite Hcall; srun prog_mocks;
          rewrite Hrange; srun prog_mocks; exact IH'.
    + (* another function's entry *)
      cbn [orb]. exists l'.
      destruct ex; iter_to_name_test Hlt; rewrite Hf; srun prog_mocks;
        rewrite Hrange; srun prog_mocks; exact IH'.
Qed.

Lemma have_refines :
  forall q f tl tr n,
    (List.length q + 1 < n)%nat -> Z.of_nat (List.length q) < 2147483647 ->
    find_fun fname_ prog_mocks = Some code -> fparams code = ["function"] ->
    run_fun prog_mocks n fname_ [VLit (fn_name f)] (mw unl q tl tr) =
    Fine (VInt (if existsb (fun e => for_fn f e && pred unl e) q then 1 else 0), mw unl q tl tr).
Proof.
  intros q f tl tr n Hn Hlen Hfind Hparams.
  destruct (have_loop_spec q [] n f None tl tr ltac:(lia) Hlen) as [l' HL].
  unfold have_loop, find_locals in HL. rewrite code_body in HL. cbn [app List.length] in HL.
  change (Z.of_nat 0) with 0 in HL.
  destruct n as [|n]; [lia|].
  unfold run_fun. rewrite Hfind. unfold mk_call at 1. rewrite Hfind, Hparams. cbn [bind_params].
  rewrite code_body.
  srun prog_mocks. rewrite HL. clear HL.
  destruct (existsb (fun e => for_fn f e && pred unl e) q); srun prog_mocks; reflexivity.
Qed.
End Have.

(* have_always_expectation_for(function) is Mocks.have_always, have_never_call_expectation_for is
   Mocks.have_never, on every queue *)
Theorem have_always_refines :
  forall q f unl tl tr n,
    (List.length q + 1 < n)%nat -> Z.of_nat (List.length q) < 2147483647 ->
    run_fun prog_mocks n "have_always_expectation_for" [VLit (fn_name f)] (mw unl q tl tr) =
    Fine (VInt (if have_always unl q f then 1 else 0), mw unl q tl tr).
Proof.
  intros q f unl tl tr n Hn Hlen.
  apply (have_refines "have_always_expectation_for" "is_always_call" is_always code_have_always_expectation_for
                      eq_refl unl (fun pre e rest tl tr n H => call_is_always_call pre e rest unl tl tr n H));
    try assumption; reflexivity.
Qed.

Theorem have_never_refines :
  forall q f unl tl tr n,
    unl_ok unl -> (List.length q + 1 < n)%nat -> Z.of_nat (List.length q) < 2147483647 ->
    run_fun prog_mocks n "have_never_call_expectation_for" [VLit (fn_name f)] (mw unl q tl tr) =
    Fine (VInt (if have_never unl q f then 1 else 0), mw unl q tl tr).
Proof.
  intros q f unl tl tr n Hu Hn Hlen.
  apply (have_refines "have_never_call_expectation_for" "is_never_call" is_never code_have_never_call_expectation_for
                      eq_refl unl (fun pre e rest tl tr n H => call_is_never_call pre e rest unl tl tr n H Hu));
    try assumption; reflexivity.
Qed.

(* ------------------------------------------------------------------------------------------ *)
(* remove_expectation_for(function): the first entry for the function leaves the vector (the records
   themselves stay where they are) *)
Definition mwr (unl : Z) (k : nat) (q : list mexp) (tl : list obj) (tr : list (string * list val)) : world :=
  mkw (OVec (remove_nth k (refs (List.length q))) :: map exp_rec q ++ tl)
      [("global_expectation_queue", VPtr 0 0); ("UNLIMITED_TIME_TO_LIVE", VInt unl);
       ("successfully_mocked_calls", VPtr (S (List.length q)) 0)] [] tr.

Definition remove_loop : stmt :=
  match fbody code_remove_expectation_for with SSeq _ l => l | _ => SSkip end.

Lemma remove_loop_spec : forall rest pre n f ex unl tl tr,
  (List.length rest < n)%nat -> Z.of_nat (List.length (pre ++ rest)) < 2147483647 ->
  exists l',
    cexec prog_mocks n remove_loop (find_locals f (List.length pre) ex) (mw unl (pre ++ rest) tl tr) =
    match find_pos f rest with
    | Some p => Fine (FReturn (VInt 0), l', mwr unl (List.length pre + p) (pre ++ rest) tl tr)
    | None => Fine (FNormal, l', mw unl (pre ++ rest) tl tr)
    end.
Proof.
  induction rest as [|e rest IH]; intros pre n f ex unl tl tr Hn Hlen.
  - destruct n as [|n]; [cbn in Hn; lia|].
    unfold remove_loop, find_locals, mw. cbn [fbody code_remove_expectation_for find_pos].
    destruct ex; eexists; rewrite exec_loop; cbn [app]; srun prog_mocks.
    all: rewrite length_refs, app_nil_r, Z.ltb_irrefl; reflexivity.
  - destruct n as [|n]; [cbn in Hn; lia|].
    assert (Hlt : Z.of_nat (List.length pre) <? Z.of_nat (List.length (pre ++ e :: rest)) = true)
      by (apply Z.ltb_lt; rewrite app_length; cbn [List.length]; lia).
    assert (Hrange : in_range I32 (Z.of_nat (List.length pre) + 1) = true)
      by (apply in_range_I32; rewrite app_length in Hlen; cbn [List.length] in Hlen; lia).
    cbn [find_pos]. unfold for_fn.
    destruct (Nat.eqb (efn e) f) eqn:Hf.
    + unfold remove_loop, find_locals, mw, mwr. cbn [fbody code_remove_expectation_for].
      destruct ex; eexists; iter_to_name_test Hlt; rewrite Hf; srun prog_mocks;
        rewrite length_refs, Hlt, Nat2Z.id, (proj2 (Z.leb_le 0 _) (Nat2Z.is_nonneg _)); srun prog_mocks;
        rewrite Nat.add_0_r; reflexivity.
    + destruct (IH (pre ++ [e]) n f (Some (VPtr (S (List.length pre)) 0)) unl tl tr) as [l' IH'];
        [cbn [List.length] in Hn; lia | rewrite <- app_assoc; exact Hlen |].
      exists l'.
      unfold remove_loop, find_locals, mw, mwr in *. cbn [fbody code_remove_expectation_for app] in *.
      rewrite <- app_assoc in IH'. cbn [app] in IH'.
      rewrite app_length in IH'. cbn [List.length] in IH'.
      replace (Z.of_nat (List.length pre + 1)) with (Z.of_nat (List.length pre) + 1) in IH' by lia.
      destruct ex; iter_to_name_test Hlt; rewrite Hf; srun prog_mocks;
        rewrite Hrange; srun prog_mocks; rewrite IH'; (destruct (find_pos f rest) as [p|]; [|reflexivity]);
        replace (List.length pre + 1 + p)%nat with (List.length pre + S p)%nat by lia; reflexivity.
Qed.

Theorem remove_expectation_for_refines :
  forall q f unl tl tr n,
    (List.length q + 1 < n)%nat -> Z.of_nat (List.length q) < 2147483647 ->
    run_fun prog_mocks n "remove_expectation_for" [VLit (fn_name f)] (mw unl q tl tr) =
    Fine (VInt 0, match find_pos f q with Some p => mwr unl p q tl tr | None => mw unl q tl tr end).
Proof.
  intros q f unl tl tr n Hn Hlen.
  destruct (remove_loop_spec q [] n f None unl tl tr ltac:(lia) Hlen) as [l' HL].
  unfold remove_loop, find_locals in HL. cbn [fbody code_remove_expectation_for app List.length] in HL.
  change (Z.of_nat 0) with 0 in HL.
  destruct n as [|n]; [lia|].
  unfold run_fun, find_fun. cbn [alookup prog_mocks String.eqb Ascii.eqb Bool.eqb].
  unfold mk_call at 1. unfold find_fun. cbn [alookup prog_mocks String.eqb Ascii.eqb Bool.eqb].
  cbn [bind_params fparams fbody code_remove_expectation_for].
  srun prog_mocks. rewrite HL. clear HL.
  destruct (find_pos f q) as [p|]; srun prog_mocks; reflexivity.
Qed.

(* what the vector then lists is Mocks.remove_first *)
Lemma remove_nth_refs k n : remove_nth k (refs n) = map (fun i => VPtr (S i) 0) (remove_nth k (seq 0 n)).
Proof.
  unfold refs. generalize (seq 0 n). intro l. revert k.
  induction l as [|x l IH]; intros [|k]; cbn [remove_nth map]; try reflexivity. rewrite IH. reflexivity.
Qed.

Lemma remove_first_is_remove_nth f q p :
  find_pos f q = Some p -> remove_first q f = remove_nth p q.
Proof.
  revert p. induction q as [|e q IH]; intros p H; cbn [find_pos] in H; [discriminate|].
  cbn [remove_first]. destruct (for_fn f e); [injection H as <-; reflexivity|].
  destruct (find_pos f q) as [p'|]; [|discriminate]. injection H as <-. cbn [remove_nth]. rewrite (IH p' eq_refl). reflexivity.
Qed.

Lemma remove_first_none f q : find_pos f q = None -> remove_first q f = q.
Proof.
  induction q as [|e q IH]; intro H; [reflexivity|]. cbn [find_pos remove_first] in *.
  destruct (for_fn f e); [discriminate|]. destruct (find_pos f q); [discriminate|]. rewrite IH; reflexivity.
Qed.

