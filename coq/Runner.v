(* Runner.v — executable model of cgreen's runner, result protocol and reporter base
   (src/runner.c, src/posix_runner_platform.c, src/reporter.c, src/messaging.c,
    src/posix_cgreen_pipe.c and the start/finish_suite counter handling of the five
    built-in reporters).  No proofs in this file: it must keep building (and extracting)
    when a proof breaks.

   Names are numbers (the harness renders test i as "t<i>", suite i as "s<i>").         *)
From Coq Require Import List ZArith Bool Lia.
From CgreenVerif Require Export Defs.
Import ListNotations.
Local Open Scope Z_scope.

(* ---------------------------------------------------------------------------------- *)
(* records sent through the pipe: enum { pass = 1, fail, skipped, completion, exception } *)
Inductive msg := MPass | MFail | MSkipped | MCompletion | MException.

(* the four counters of a TestReporter *)
Record cnt := mkcnt { passes : Z; failures : Z; skips : Z; exceptions : Z }.
Definition czero := mkcnt 0 0 0 0.
Definition cadd (a b : cnt) :=
  mkcnt (passes a + passes b) (failures a + failures b) (skips a + skips b)
        (exceptions a + exceptions b).

(* ---------------------------------------------------------------------------------- *)
(* framework state that a test can change (all of it lives in static variables)        *)
Inductive mmode := Strict | Loose | Learning.
Record fw := mkfw {
  figs : Z;            (* significant figures for double comparison *)
  pending : nat;       (* expectations declared and not yet consumed *)
  mode : mmode;        (* cgreen_mocks_are_ *)
  glob : Z             (* a global of the test program (user memory) *)
}.
Definition fw_init := mkfw 8 0 Strict 0.

Inductive death := Signal (n : Z) | Exit (code : Z).

Inductive phase := PhSuiteSetup (s : nat) | PhSetup | PhBody | PhTeardown | PhSuiteTeardown (s : nat).

(* what test code (setup / body / teardown) can do *)
Inductive act :=
| Check (b : bool)            (* an assertion with a fixed outcome *)
| SkipTest                    (* skip_test() *)
| Die (d : death)             (* raise(sig) / exit() / _exit() *)
| SetFigs (n : Z)             (* significant_figures_for_assert_double_are(n) *)
| FigsCheck (k : Z)           (* a double assertion that passes iff figures <= k *)
| SetMode (m : mmode)         (* cgreen_mocks_are(m) *)
| Expect                      (* expect(f): pending until called; never called here *)
| CallUnexpected              (* call of a mock that has no expectation *)
| Poke (v : Z)                (* write a global of the test program *)
| Peek (v : Z)                (* assert the global has value v *)
| Mark (ph : phase)           (* entry of a fixture or of the body: visible in the event log only *)
(* the framework's own child-side steps *)
| AReset                      (* run_the_test_code: figures := 8; clear_mocks(); mode := strict *)
| ATally                      (* tally_mocks *)
| AComplete.                  (* send_reporter_completion_notification *)

Definition reset_fw (f : fw) : fw := mkfw 8 0 Strict (glob f).

Definition msg_of (b : bool) := if b then MPass else MFail.

(* one step of test code: new framework state, records sent, and whether the process died *)
Definition step (f : fw) (a : act) : fw * list msg * option death :=
  match a with
  | Check b => (f, [msg_of b], None)
  | SkipTest => (f, [MSkipped], None)
  | Die d => (f, [], Some d)
  | SetFigs n => (mkfw n (pending f) (mode f) (glob f), [], None)
  | FigsCheck k => (f, [msg_of (figs f <=? k)], None)
  | SetMode m => (mkfw (figs f) (pending f) m (glob f), [], None)
  | Expect => (mkfw (figs f) (S (pending f)) (mode f) (glob f), [], None)
  | CallUnexpected =>
      (f, match mode f with Strict => [MFail] | _ => [] end, None)
  | Poke v => (mkfw (figs f) (pending f) (mode f) v, [], None)
  | Peek v => (f, [msg_of (glob f =? v)], None)
  | Mark _ => (f, [], None)
  | AReset => (reset_fw f, [], None)
  | ATally => (mkfw (figs f) 0 (mode f) (glob f), repeat MFail (pending f), None)
  | AComplete => (f, [MCompletion], None)
  end.

(* run a list of steps until the end or until the process dies *)
Fixpoint exec (f : fw) (l : list act) : fw * list msg * option death :=
  match l with
  | [] => (f, [], None)
  | a :: l' =>
      match step f a with
      | (f1, m1, Some d) => (f1, m1, Some d)
      | (f1, m1, None) =>
          match exec f1 l' with (f2, m2, d) => (f2, m1 ++ m2, d) end
      end
  end.

(* what the event log of the process shows: entries of fixtures/body and the mock tally *)
Inductive tev := TvPhase (ph : phase) | TvTally.
Definition tev_of (a : act) : list tev :=
  match a with Mark ph => [TvPhase ph] | ATally => [TvTally] | _ => [] end.
Fixpoint trace (f : fw) (l : list act) : list tev :=
  match l with
  | [] => []
  | a :: l' =>
      match step f a with
      | (_, _, Some _) => tev_of a
      | (f1, _, None) => tev_of a ++ trace f1 l'
      end
  end.

(* ---------------------------------------------------------------------------------- *)
(* tests and suites *)
Record test := mktest {
  tid : nat;
  tskip : bool;                 (* xEnsure *)
  tctx_setup : bool;            (* its context has a BeforeEach *)
  tctx_teardown : bool;         (* its context has an AfterEach *)
  tsetup : list act;            (* what the applicable setup does for this test *)
  tbody : list act;
  tteardown : list act;
  tkill : option (nat * death)  (* the process dies at this index of its step list
                                   (an instrumented point of the framework's own path) *)
}.

Record suiteinfo := mksuite {
  sid : nat;
  s_has_setup : bool;           (* set_setup() was called on it *)
  s_has_teardown : bool
}.

Inductive node := Tn (t : test) | Sn (s : suiteinfo) (children : list node).

(* the whole child-side path of one test, one entry per step *)
(* run_the_test_code(): the suite's fixture if it has one, otherwise the context's *)
Definition setup_steps (s : suiteinfo) (t : test) : list act :=
  if s_has_setup s then Mark (PhSuiteSetup (sid s)) :: tsetup t
  else if tctx_setup t then Mark PhSetup :: tsetup t else [].
Definition teardown_steps (s : suiteinfo) (t : test) : list act :=
  if s_has_teardown s then Mark (PhSuiteTeardown (sid s)) :: tteardown t
  else if tctx_teardown t then Mark PhTeardown :: tteardown t else [].
Definition child_steps (s : suiteinfo) (t : test) : list act :=
  [AReset] ++ setup_steps s t ++ (Mark PhBody :: tbody t) ++ teardown_steps s t ++ [ATally].
(* in a forked child the completion notice follows; in-process it is sent by the caller *)
Definition full_steps (s : suiteinfo) (t : test) : list act := child_steps s t ++ [AComplete].
Definition test_steps (s : suiteinfo) (t : test) : list act :=
  match tkill t with
  | None => full_steps s t
  | Some (k, d) => firstn k (full_steps s t) ++ [Die d]
  end.

(* ---------------------------------------------------------------------------------- *)
(* reporter kinds: record rkind is in Defs.v; Gen/Facts.v instantiates it from source *)

(* ---------------------------------------------------------------------------------- *)
(* observable events *)
Inductive event :=
| EStartSuite (s : nat)
| EStartTest (t : nat)
| EChild (t : nat) (m : list msg)             (* records the test's process produced *)
| EIncomplete (crumb : list nat) (sig : option Z)  (* exception line, with its breadcrumb *)
| ESkipShown (crumb : list nat)
| ETestDone (t : nat) (delta : cnt) (clean : bool) (* counters credited across finish_test;
                                                   clean = no new failure or exception (CUTE's #success) *)
| ESuiteDone (s : nat) (c : cnt) (depth : nat)  (* per-suite counters at finish_suite *)
| ETotals (c : cnt)                           (* totals when the outermost suite finishes *)
| EFixture (s : nat) (teardown : bool).        (* suite-level fixture run in the parent *)

Record pstate := mkp {
  c : cnt;                 (* passes, failures, skips, exceptions *)
  tot : cnt;               (* total_* *)
  crumb : list nat;        (* breadcrumb, innermost first; suites as 1000+sid *)
  pipe : list msg;
  pfw : fw;                (* framework state of the runner's own process *)
  out : list event         (* newest first *)
}.
Definition p_init := mkp czero czero [] [] fw_init [].

Definition emit (e : event) (p : pstate) :=
  mkp (c p) (tot p) (crumb p) (pipe p) (pfw p) (e :: out p).
Definition set_c (x : cnt) (p : pstate) := mkp x (tot p) (crumb p) (pipe p) (pfw p) (out p).
Definition set_tot (x : cnt) (p : pstate) := mkp (c p) x (crumb p) (pipe p) (pfw p) (out p).
Definition set_pipe (x : list msg) (p : pstate) := mkp (c p) (tot p) (crumb p) x (pfw p) (out p).
Definition set_fw (x : fw) (p : pstate) := mkp (c p) (tot p) (crumb p) (pipe p) x (out p).
Definition push (n : nat) (p : pstate) := mkp (c p) (tot p) (n :: crumb p) (pipe p) (pfw p) (out p).
Definition pop (p : pstate) := mkp (c p) (tot p) (tl (crumb p)) (pipe p) (pfw p) (out p).

Inductive rstatus := Received | Skipped | NotReceived.

(* read_reporter_results(): consume records up to the end-of-test marker *)
Fixpoint read_results (p : list msg) (k : cnt) (sk : bool) : list msg * cnt * rstatus :=
  match p with
  | [] => ([], k, if sk then Skipped else NotReceived)
  | m :: p' =>
      match m with
      | MPass => read_results p' (cadd k (mkcnt 1 0 0 0)) sk
      | MFail => read_results p' (cadd k (mkcnt 0 1 0 0)) sk
      | MException => read_results p' (cadd k (mkcnt 0 0 0 1)) sk
      | MSkipped => read_results p' (if sk then k else cadd k (mkcnt 0 0 1 0)) true
      | MCompletion => (p', k, if sk then Skipped else Received)
      end
  end.

(* reporter_finish_test() *)
Definition base_finish_test (sig : option Z) (p : pstate) : pstate :=
  match read_results (pipe p) (c p) false with
  | (rest, k, st) =>
      let p1 := set_pipe rest (set_c k p) in
      let p2 := match st with
                | Skipped => emit (ESkipShown (crumb p1)) p1
                | NotReceived =>
                    emit (EIncomplete (crumb p1) sig)
                         (set_c (cadd (c p1) (mkcnt 0 0 0 1)) p1)
                | Received => p1
                end in
      pop p2
  end.

(* reporter_finish_suite() *)
Definition base_finish_suite (p : pstate) : pstate :=
  match read_results (pipe p) (c p) false with
  | (rest, k, _) => pop (set_pipe rest (set_c k p))
  end.

Definition csub (a b : cnt) :=
  mkcnt (passes a - passes b) (failures a - failures b) (skips a - skips b)
        (exceptions a - exceptions b).

(* a write on the result pipe: the pipe holds at most cap records; a write that does not
   fit raises SIGPIPE in the writer *)
Definition sigpipe : Z := 13.
Definition deliver (cap : nat) (pipe0 : list msg) (m : list msg) : list msg * option death :=
  let room := (cap - length pipe0)%nat in
  if (length m <=? room)%nat then (pipe0 ++ m, None)
  else (pipe0 ++ firstn room m, Some (Signal sigpipe)).

(* finish_test as the reporters wrap it: records the delta credited to the test *)
Definition finish_test (t : nat) (sig : option Z) (p : pstate) : pstate :=
  let before := c p in
  let p1 := base_finish_test sig p in
  let d := csub (c p1) before in
  emit (ETestDone t d ((failures d =? 0) && (exceptions d =? 0))) p1.

Definition start_test (t : nat) (p : pstate) : pstate := emit (EStartTest t) (push t p).

(* the parent only distinguishes "killed by a signal other than SIGABRT" to choose the text *)
Definition sigabrt : Z := 6.
Definition sig_text (d : option death) : option Z :=
  match d with
  | Some (Signal n) => if n =? sigabrt then None else Some n
  | _ => None
  end.

Inductive outcome := Done (p : pstate) | Dead (d : death) (p : pstate).

(* run_test_in_its_own_process() *)
Definition run_test_forked (cap : nat) (s : suiteinfo) (t : test) (p : pstate) : pstate :=
  let p1 := start_test (tid t) p in
  if tskip t then
    finish_test (tid t) None (set_pipe (fst (deliver cap (pipe p1) [MSkipped])) p1)
  else
    (* the child is a copy of the parent: it starts from the parent's framework state *)
    match exec (pfw p1) (test_steps s t) with
    | (_, m, d) =>
        match deliver cap (pipe p1) m with
        | (pipe', d') =>
            let how := match d' with Some x => Some x | None => d end in
            finish_test (tid t) (sig_text how)
                        (set_pipe pipe' (emit (EChild (tid t) (firstn (length pipe' - length (pipe p1)) m)) p1))
        end
    end.

(* run_test_in_the_current_process(): the test code runs in the runner itself *)
Definition run_test_inproc (cap : nat) (s : suiteinfo) (t : test) (p : pstate) : outcome :=
  let p1 := start_test (tid t) p in
  if tskip t then
    Done (finish_test (tid t) None (set_pipe (fst (deliver cap (pipe p1) [MSkipped])) p1))
  else
    match exec (pfw p1) (test_steps s t) with
    | (f', m, d) =>
        match deliver cap (pipe p1) m with
        | (pipe', d') =>
            let p2 := set_fw f' (set_pipe pipe' (emit (EChild (tid t) (firstn (length pipe' - length (pipe p1)) m)) p1)) in
            match d', d with
            | Some x, _ => Dead x p2
            | None, Some x => Dead x p2
            | None, None => Done (finish_test (tid t) None p2)
            end
        end
    end.

Definition start_suite (rk : rkind) (s : nat) (p : pstate) : pstate :=
  let p1 := if rk_start_resets rk then set_c czero p else p in
  emit (EStartSuite s) (push (1000 + s)%nat p1).

Definition fold_tot (rk : rkind) (p : pstate) : pstate :=
  set_tot (mkcnt (passes (tot p) + (if rk_fold_p rk then passes (c p) else 0))
                 (failures (tot p) + (if rk_fold_f rk then failures (c p) else 0))
                 (skips (tot p) + (if rk_fold_s rk then skips (c p) else 0))
                 (exceptions (tot p) + (if rk_fold_e rk then exceptions (c p) else 0))) p.

(* <reporter>_finish_suite(), after run_every_test has sent the completion notice *)
Definition finish_suite (rk : rkind) (cap : nat) (s : nat) (p : pstate) : pstate :=
  let p0 := set_pipe (fst (deliver cap (pipe p) [MCompletion])) p in
  let p1 := if rk_suite_via_finish_test rk then base_finish_test None p0
            else base_finish_suite p0 in
  let p2 := fold_tot rk p1 in
  let p3 := emit (ESuiteDone s (c p2) (length (crumb p2))) p2 in
  match crumb p3 with
  | [] => emit (ETotals (tot p3)) p3
  | _ => p3
  end.

Definition bind (o : outcome) (f : pstate -> outcome) : outcome :=
  match o with Done p => f p | Dead d p => Dead d p end.

Inductive xmode := Forked | InProcess.
Definition nosuite := mksuite 0 false false.

Definition run_test (m : xmode) (cap : nat) (s : suiteinfo) (t : test) (p : pstate) : outcome :=
  match m with
  | Forked => Done (run_test_forked cap s t p)
  | InProcess => run_test_inproc cap s t p
  end.

(* the two passes of run_every_test() over a suite's entries, with the recursive call as a
   parameter (so that lemmas can be stated about them) *)
Definition subs_fix (s : suiteinfo) (sel : node -> bool) (rec : node -> pstate -> outcome)
  : list node -> pstate -> outcome :=
  fix subs (l : list node) (p : pstate) : outcome :=
    match l with
    | [] => Done p
    | n' :: l' =>
        match n' with
        | Sn _ _ =>
            if sel n' then
              bind (rec n' (if s_has_setup s then emit (EFixture (sid s) false) p else p))
                   (fun p' => subs l' (if s_has_teardown s then emit (EFixture (sid s) true) p' else p'))
            else subs l' p
        | Tn _ => subs l' p
        end
    end.

Definition tests_fix (runt : test -> pstate -> outcome) : list node -> pstate -> outcome :=
  fix tests (l : list node) (p : pstate) : outcome :=
    match l with
    | [] => Done p
    | n' :: l' =>
        match n' with
        | Tn t => bind (runt t p) (fun p' => tests l' p')
        | Sn _ _ => tests l' p
        end
    end.

(* run_every_test(): sub-suites first (bracketed by the suite's fixtures, in the parent),
   counters reset, then the suite's own tests *)
Fixpoint run_node (rk : rkind) (m : xmode) (cap : nat) (n : node) (p : pstate) : outcome :=
  match n with
  | Tn t => run_test m cap nosuite t p     (* a root is always a suite; not reachable *)
  | Sn s ch =>
      bind (subs_fix s (fun _ => true) (run_node rk m cap) ch (start_suite rk (sid s) p)) (fun p2 =>
      bind (tests_fix (run_test m cap s) ch (set_c czero p2)) (fun p3 =>
      Done (finish_suite rk cap (sid s) p3)))
  end.

(* run_test_suite(): verdict from the totals.  The expression is regenerated from source. *)
Definition vfun := Z -> Z -> Z -> Z -> bool.   (* total passes, failures, skips, exceptions *)
Definition verdict_of (vexpr : vfun) (p : pstate) : bool :=
  vexpr (passes (tot p)) (failures (tot p)) (skips (tot p)) (exceptions (tot p)).   (* true = EXIT_SUCCESS *)

Inductive result :=
| Finished (success : bool) (p : pstate)
| Crashed (d : death) (p : pstate).      (* the runner's own process ended *)

Definition run_suite (rk : rkind) (vexpr : vfun) (m : xmode) (cap : nat) (n : node) : result :=
  match run_node rk m cap n p_init with
  | Done p => Finished (verdict_of vexpr p) p
  | Dead d p => Crashed d p
  end.

(* the same reporter used for a second run_test_suite() (what cgreen-runner does for every
   further library): the totals go on from where the first run left them *)
Definition run_suite_from (rk : rkind) (vexpr : vfun) (m : xmode) (cap : nat) (n : node) (p : pstate) : result :=
  match run_node rk m cap n p with
  | Done p' => Finished (verdict_of vexpr p') p'
  | Dead d p' => Crashed d p'
  end.
Definition run_two (rk : rkind) (vexpr : vfun) (m1 m2 : xmode) (cap : nat) (n1 n2 : node) : result * result :=
  let r1 := run_suite_from rk vexpr m1 cap n1 p_init in
  match r1 with
  | Finished _ p1 => (r1, run_suite_from rk vexpr m2 cap n2 p1)
  | Crashed _ _ => (r1, r1)
  end.

(* exit status of the process that owns the verdict: 0 = success *)
Definition exit_ok (r : result) : bool :=
  match r with
  | Finished b _ => b
  | Crashed (Exit code) _ => code =? 0
  | Crashed (Signal _) _ => false
  end.

(* ---------------------------------------------------------------------------------- *)
(* run_named_test() / run_single_test(): only suites containing the name are entered,
   the matching tests run in the current process *)
Fixpoint has_test (name : nat) (n : node) : bool :=
  match n with
  | Tn t => Nat.eqb (tid t) name
  | Sn _ ch => existsb (has_test name) ch
  end.

Fixpoint run_named (rk : rkind) (cap : nat) (name : nat) (n : node) (p : pstate) : outcome :=
  match n with
  | Tn t => if Nat.eqb (tid t) name then run_test_inproc cap nosuite t p else Done p
  | Sn s ch =>
      bind (subs_fix s (has_test name) (run_named rk cap name) ch (start_suite rk (sid s) p)) (fun p2 =>
      bind (tests_fix (fun t p' => if Nat.eqb (tid t) name then run_test_inproc cap s t p' else Done p')
                      ch (set_c czero p2)) (fun p3 =>
      Done (finish_suite rk cap (sid s) p3)))
  end.

Definition run_single (rk : rkind) (vexpr : vfun) (cap : nat) (name : nat) (n : node) : result :=
  match run_named rk cap name n p_init with
  | Done p => Finished (verdict_of vexpr p) p
  | Dead d p => Crashed d p
  end.

(* ---------------------------------------------------------------------------------- *)
(* ground truth, defined without the protocol: what a test does when it runs alone from
   the initial framework state *)
Record truth := mktruth {
  tr_counts : cnt;          (* passing checks, failing checks, skipped?, abnormal? *)
  tr_msgs : list msg
}.

Definition count_msgs (l : list msg) : cnt :=
  fold_right (fun m k => match m with
                         | MPass => cadd (mkcnt 1 0 0 0) k
                         | MFail => cadd (mkcnt 0 1 0 0) k
                         | MException => cadd (mkcnt 0 0 0 1) k
                         | _ => k end) czero l.

Definition has_skip (l : list msg) : bool :=
  existsb (fun m => match m with MSkipped => true | _ => false end) l.

Definition is_compl_msg (x : msg) : bool := match x with MCompletion => true | _ => false end.

(* abnormal end: killed by a signal at any time, or gone (exit, _exit) before the completion
   notice was sent; an exit after it is the normal end of a test process *)
Definition abnormal (m : list msg) (d : option death) : bool :=
  match d with
  | None => false
  | Some (Signal _) => true
  | Some (Exit _) => negb (existsb is_compl_msg m)
  end.

(* results of test t run alone: own checks, skipped (xEnsure or skip_test()), abnormal end *)
Definition own (s : suiteinfo) (t : test) : cnt :=
  if tskip t then mkcnt 0 0 1 0
  else
    match exec fw_init (test_steps s t) with
    | (_, m, d) =>
        let k := count_msgs m in
        let sk := has_skip m in
        mkcnt (passes k) (failures k) (if sk then 1 else 0)
              (exceptions k + (if abnormal m d then 1 else 0))
    end.

(* every test of the tree with the suite that owns it *)
Fixpoint tests_of (n : node) : list (suiteinfo * test) :=
  match n with
  | Tn t => [(nosuite, t)]
  | Sn s ch => flat_map (fun n' => match n' with Tn t => [(s, t)] | Sn _ _ => tests_of n' end) ch
  end.

Definition sum_cnt (l : list cnt) : cnt := fold_right cadd czero l.
