(* RunnerTool.v — executable model of cgreen-runner's own logic (tools/test_item.c,
   tools/runner.c, tools/cgreen-runner.c): test specification symbols <-> (context, name),
   pattern matching, selection, the single-match / suite decision, sorting, the argument scan.
   Hand-written model; nm, fnmatch(3), dlopen and the file system are external: fnmatch is
   modelled by `glob` (literal characters and '*'), validated against fnmatch by the
   correspondence run.  No proofs here. *)
From Coq Require Import List NArith Bool Arith.
From CgreenVerif Require Import Params.      (* list_eqb *)
Import ListNotations.
Local Open Scope N_scope.

Definition US : N := 95.                         (* '_' *)
Definition SEP : list N := [US; US].             (* CGREEN_SEPARATOR "__" *)
Definition PREFIX : list N := [67; 103; 114; 101; 101; 110; 83; 112; 101; 99].   (* "CgreenSpec" *)
Definition DEFAULT : list N := [100; 101; 102; 97; 117; 108; 116].              (* "default" *)

(* spec_name(context, test): CgreenSpec__<context>__<test>__ *)
Definition mangle (ctx name : list N) : list N := PREFIX ++ SEP ++ ctx ++ SEP ++ name ++ SEP.

(* strstr(s, "__"): the text before the first "__" and the text after it *)
Fixpoint split_sep (s : list N) : option (list N * list N) :=
  match s with
  | a :: ((b :: r) as t) =>
      if (a =? US) && (b =? US) then Some ([], r)
      else match split_sep t with Some (x, y) => Some (a :: x, y) | None => None end
  | _ => None
  end.

(* the text without a separator that ends it *)
Definition strip_sep_end (r : list N) : list N :=
  let n := (length r - 2)%nat in
  if list_eqb (skipn n r) SEP then firstn n r else r.

(* create_test_item_from(): context = up to the first separator after the marker,
   name = the rest without the separator that ends the symbol (so that a name containing the
   separator is kept whole) *)
Definition parse_spec (spec : list N) : list N * list N :=
  let body := skipn (length (PREFIX ++ SEP)) spec in
  match split_sep body with
  | Some (ctx, rest) => (ctx, strip_sep_end rest)
  | None => (body, [])       (* not produced by the macros; the C code would dereference NULL *)
  end.

(* the parse before the repair: the name ended at the first separator inside it *)
Definition parse_spec_old (spec : list N) : list N * list N :=
  let body := skipn (length (PREFIX ++ SEP)) spec in
  match split_sep body with
  | Some (ctx, rest) => (ctx, match split_sep rest with Some (name, _) => name | None => rest end)
  | None => (body, [])
  end.

(* fnmatch(pattern, string, 0) for patterns made of literal characters and '*' *)
Definition STAR : N := 42.
Fixpoint glob (p s : list N) : bool :=
  match p with
  | [] => match s with [] => true | _ => false end
  | c :: p' =>
      if c =? STAR then
        (fix star (s : list N) : bool :=
           glob p' s || match s with [] => false | _ :: s' => star s' end) s
      else match s with
           | c' :: s' => (c =? c') && glob p' s'
           | [] => false
           end
  end.

Record titem := mkitem { ti_ctx : list N; ti_name : list N }.

(* context_name_of / test_name_of: split the pattern at its first ':' *)
Fixpoint split_colon (p : list N) : option (list N * list N) :=
  match p with
  | [] => None
  | c :: r => if c =? 58 then Some ([], r)
              else match split_colon r with Some (x, y) => Some (c :: x, y) | None => None end
  end.
Definition pattern_parts (p : list N) : list N * list N :=
  match split_colon p with Some (c, n) => (c, n) | None => (DEFAULT, p) end.

(* test_matches_pattern() *)
Definition item_matches (p : list N) (it : titem) : bool :=
  let '(cp, np) := pattern_parts p in glob cp (ti_ctx it) && glob np (ti_name it).

Inductive run_result := RFail | RRan (executed : list titem).

(* run_tests(): from_item = the name handed to run_single_test() is the matched item's own
   name (translated from tools/runner.c); otherwise it is the name part of the pattern *)
Definition run_tests_m (from_item : bool) (pat : option (list N)) (items : list titem) : run_result :=
  let sel := match pat with None => items | Some p => filter (item_matches p) items end in
  match pat, sel with
  | Some p, [one] =>
      let nm := if from_item then ti_name one else snd (pattern_parts p) in
      RRan (filter (fun it => list_eqb (ti_name it) nm) sel)      (* run_single_test(suite, nm) *)
  | _, [] => RFail                                                   (* "No such test" / "No tests found" *)
  | _, _ => RRan sel                                                 (* run_test_suite(suite) *)
  end.

(* sorted_test_items_from(): repeatedly move the first item with the smallest name *)
Fixpoint lexlt (a b : list N) : bool :=       (* strcmp(a, b) < 0 on unsigned bytes *)
  match a, b with
  | [], [] => false
  | [], _ :: _ => true
  | _ :: _, [] => false
  | x :: a', y :: b' => if x <? y then true else if y <? x then false else lexlt a' b'
  end.
(* index and value of the first smallest element of a non-empty list *)
Fixpoint smallest (best : titem) (bi : nat) (l : list titem) (i : nat) : nat :=
  match l with
  | [] => bi
  | x :: r => if lexlt (ti_name x) (ti_name best) then smallest x i r (S i) else smallest best bi r (S i)
  end.
Fixpoint remove_at (l : list titem) (n : nat) : list titem :=
  match l, n with
  | [], _ => []
  | _ :: r, O => r
  | x :: r, S n' => x :: remove_at r n'
  end.
Fixpoint sel_sort (fuel : nat) (l : list titem) : list titem :=
  match fuel with
  | O => []
  | S f => match l with
           | [] => []
           | x :: r => let i := smallest x 0 r 1 in
                       nth i l x :: sel_sort f (remove_at l i)
           end
  end.
Definition sorted_items (l : list titem) : list titem := sel_sort (length l) l.

(* runner(): discovery gives the items; none => failure *)
Definition runner_m (from_item : bool) (pat : option (list N)) (items : list titem) : run_result :=
  match items with [] => RFail | _ => run_tests_m from_item pat (sorted_items items) end.

(* main(): arguments are libraries, each optionally followed by a pattern (= an argument that
   is not an existing file) *)
Fixpoint scan_args (exists_ : list N -> bool) (args : list (list N)) : list (list N * option (list N)) :=
  match args with
  | [] => []
  | lib :: rest =>
      match rest with
      | [] => [(lib, None)]
      | p :: rest' => if exists_ p then (lib, None) :: scan_args exists_ rest
                      else (lib, Some p) :: scan_args exists_ rest'
      end
  end.

(* per library: did it fail (before looking at test outcomes), and what was executed.
   `lib_items lib` = what discovery finds in it; `outcome_ok lib` = the run of the tests
   executed from that library reported success.  The loop stops at the first library that does not exist. *)
Fixpoint main_m (from_item : bool) (exists_ : list N -> bool) (lib_items : list N -> list titem)
         (outcome_ok : list N -> list titem -> bool) (pairs : list (list N * option (list N)))
  : bool * list (list N * list titem) :=     (* any_fail, executed per library *)
  match pairs with
  | [] => (false, [])
  | (lib, pat) :: r =>
      if negb (exists_ lib) then (true, [])
      else
        let '(fail_here, ex) :=
          match runner_m from_item pat (lib_items lib) with
          | RFail => (true, [])
          | RRan ex => (negb (outcome_ok lib ex), ex)
          end in
        let '(fail_rest, exs) := main_m from_item exists_ lib_items outcome_ok r in
        (fail_here || fail_rest, (lib, ex) :: exs)
  end.
