(* Lemmas_Code_Xml.v - concat_escaped() / concat() / escaped() of src/xml_reporter.c, as translated from the
   current source (Gen/Code_xmlesc.v), compute Xml.escape for every text. *)
From Coq Require Import List ZArith NArith String Bool Lia Arith.
From CgreenVerif Require Import CLite Lemmas_CLite Lemmas_Code_Percent.
From CgreenVerif.Gen Require Import Code_xmlesc.
Import ListNotations.
Local Open Scope string_scope. Local Open Scope list_scope. Local Open Scope Z_scope.

(* ---- the heap during concat_escaped(): block 0 the text, block sc the 5-byte scratch array, block h the
   string built so far; everything else is whatever earlier reallocations left behind ---- *)
Record inv (hp : list obj) (txt : list Z) (sc : nat) (scb : list Z) (h : nat) (esc : list Z) : Prop := mkinv {
  i_txt : nth_error hp 0 = Some (OBytes (txt ++ [0]));
  i_sc : nth_error hp sc = Some (OBytes scb);
  i_sclen : List.length scb = 5%nat;
  i_head : nth_error hp h = Some (OBytes (esc ++ [0]));
  i_esc : text_ok esc;
  i_h0 : h <> O; i_hsc : h <> sc; i_sc0 : sc <> O
}.

Lemma cstring_block (w : world) b s :
  nth_error (heap w) b = Some (OBytes (s ++ [0])) -> text_ok s -> cstring w (VPtr b 0) = Fine s.
Proof. intros H Hs. change (VPtr b 0) with (VPtr b (Z.of_nat 0)). rewrite (cstring_at w b s 0 H Hs ltac:(lia)). reflexivity. Qed.

Lemma nth_error_list_set_same {A} (l : list A) k x : (k < List.length l)%nat -> nth_error (list_set k x l) k = Some x.
Proof. revert k. induction l as [|y l IH]; intros [|k] H; cbn in *; try lia; [reflexivity|]. apply IH. lia. Qed.
Lemma nth_error_list_set_other {A} (l : list A) k j x : k <> j -> nth_error (list_set k x l) j = nth_error l j.
Proof. revert k j. induction l as [|y l IH]; intros [|k] [|j] H; cbn; try reflexivity; try congruence. apply IH. congruence. Qed.
Lemma length_list_set {A} (l : list A) k x : List.length (list_set k x l) = List.length l.
Proof. revert k. induction l as [|y l IH]; intros [|k]; cbn; try reflexivity. rewrite IH. reflexivity. Qed.

Lemma list_set_app_l {A} (l r : list A) k x : (k < List.length l)%nat -> list_set k x (l ++ r) = list_set k x l ++ r.
Proof. revert k. induction l as [|y l IH]; intros [|k] H; cbn in *; try lia; [reflexivity|]. rewrite IH by lia. reflexivity. Qed.

Lemma cstring_block_junk (w : world) b s r :
  nth_error (heap w) b = Some (OBytes (s ++ 0 :: r)) -> text_ok s -> cstring w (VPtr b 0) = Fine s.
Proof.
  intros H Hs. unfold cstring. rewrite H. cbn [Z.leb Z.compare andb].
  replace (0 <=? Z.of_nat (List.length (s ++ 0 :: r))) with true by (symmetry; apply Z.leb_le; lia).
  cbn [Z.to_nat skipn]. rewrite (strlen_from_text s r Hs), firstn_app_exact. reflexivity.
Qed.

(* concat(head, tail): the string in a new block at the end of the heap, the old block freed *)
Lemma call_concat hp txt sc scb h esc tailv tl g st tr n :
  inv hp txt sc scb h esc -> text_ok tl ->
  (* the tail is a literal or lives in the scratch block *)
  (forall hp', nth_error hp' sc = nth_error hp sc -> cstring (mkw hp' g st tr) tailv = Fine tl) ->
  Z.of_nat (List.length esc) + Z.of_nat (List.length tl) < 4611686018427387904 -> (1 <= n)%nat ->
  mk_call prog_xmlesc (cexec prog_xmlesc n) "concat" [VPtr h 0; tailv] (mkw hp g st tr) =
  Fine (VPtr (List.length hp) 0, mkw (list_set h OFreed hp ++ [OBytes (esc ++ tl ++ [0])]) g st tr).
Proof.
  intros Hi Htl Htail Hlen Hn. destruct Hi. destruct n as [|n]; [lia|].
  unfold mk_call at 1. unfold find_fun. cbn [alookup prog_xmlesc String.eqb Ascii.eqb Bool.eqb].
  cbn [bind_params fparams fbody code_concat].
  srun prog_xmlesc.
  rewrite (cstring_block (mkw hp g st tr) h esc) by assumption. ctidy. srun prog_xmlesc.
  rewrite (Htail hp eq_refl). ctidy. srun prog_xmlesc.
  rewrite (wrap_U64_small (Z.of_nat (List.length esc) + Z.of_nat (List.length tl))) by lia.
  rewrite (wrap_U64_small (Z.of_nat (List.length esc) + Z.of_nat (List.length tl) + 1)) by lia.
  srun prog_xmlesc.
  replace (0 <=? Z.of_nat (List.length esc) + Z.of_nat (List.length tl) + 1) with true by (symmetry; apply Z.leb_le; lia).
  rewrite i_head0. ctidy.
  assert (Hh : (h < List.length hp)%nat) by (apply nth_error_Some; congruence).
  replace (Z.to_nat (Z.of_nat (List.length esc) + Z.of_nat (List.length tl) + 1)) with (List.length (esc ++ [0%Z]) + List.length tl)%nat
    by (rewrite app_length; cbn [List.length]; lia).
  rewrite firstn_all2 by lia. replace (List.length (esc ++ [0%Z]) + List.length tl - List.length (esc ++ [0%Z]))%nat with (List.length tl) by lia.
  rewrite <- app_assoc. cbn [app].
  rewrite list_set_app_l by exact Hh.
  srun prog_xmlesc.
  assert (Hnew : nth_error (list_set h OFreed hp ++ [OBytes (esc ++ 0 :: repeat 255 (List.length tl))]) (List.length hp) =
                 Some (OBytes (esc ++ 0 :: repeat 255 (List.length tl))))
    by (rewrite nth_error_app2 by (rewrite length_list_set; lia); rewrite length_list_set, Nat.sub_diag; reflexivity).
  assert (Hsc : (sc < List.length hp)%nat) by (apply nth_error_Some; congruence).
  rewrite (cstring_block_junk _ (List.length hp) esc (repeat 255 (List.length tl))) by (first [exact Hnew | assumption]). ctidy.
  rewrite Htail by (rewrite nth_error_app1 by (rewrite length_list_set; lia); apply nth_error_list_set_other; exact i_hsc0). ctidy.
  replace (0 + Z.of_nat (List.length esc)) with (Z.of_nat (List.length esc)) by lia.
  erewrite store_bytes_at by (first [exact Hnew | rewrite !app_length; cbn [List.length]; rewrite repeat_length; lia]).
  cbn [heap]. rewrite splice_app. ctidy. srun prog_xmlesc.
  unfold set_heap. cbn [globs streams wtrace].
  rewrite (@skipn_all2 Z (List.length (tl ++ [0])) (0 :: repeat 255 (List.length tl)))
    by (rewrite app_length; cbn [List.length]; rewrite repeat_length; lia).
  rewrite app_nil_r.
  replace (list_set (List.length hp) (OBytes (esc ++ tl ++ [0])) (list_set h OFreed hp ++ [OBytes (esc ++ 0 :: repeat 255 (List.length tl))]))
    with (list_set h OFreed hp ++ [OBytes (esc ++ tl ++ [0])]); [reflexivity|].
  rewrite <- (length_list_set hp h OFreed). generalize (list_set h OFreed hp). intro l0.
  induction l0 as [|y l0 IH0]; cbn [List.length list_set app]; [reflexivity|]. rewrite <- IH0. reflexivity.
Qed.


Lemma inv_after_concat hp txt sc scb h esc tl :
  inv hp txt sc scb h esc -> text_ok tl ->
  inv (list_set h OFreed hp ++ [OBytes (esc ++ tl ++ [0])]) txt sc scb (List.length hp) (esc ++ tl).
Proof.
  intros [H0 Hsc Hscl Hh Hesc Hh0 Hhsc Hsc0] Htl.
  assert (Hhl : (h < List.length hp)%nat) by (apply nth_error_Some; congruence).
  assert (Hscl' : (sc < List.length hp)%nat) by (apply nth_error_Some; congruence).
  assert (H0l : (0 < List.length hp)%nat) by (apply nth_error_Some; congruence).
  constructor.
  - rewrite nth_error_app1 by (rewrite length_list_set; lia). rewrite nth_error_list_set_other by exact Hh0. exact H0.
  - rewrite nth_error_app1 by (rewrite length_list_set; lia). rewrite nth_error_list_set_other by exact Hhsc. exact Hsc.
  - exact Hscl.
  - rewrite nth_error_app2 by (rewrite length_list_set; lia). rewrite length_list_set, Nat.sub_diag, <- app_assoc. reflexivity.
  - unfold text_ok in *. apply Forall_app. split; assumption.
  - lia.
  - lia.
  - exact Hsc0.
Qed.

(* ---- bytes: facts checked for every value 0..255 ---- *)
Lemma byte_sweep (P : Z -> bool) :
  forallb P (map Z.of_nat (seq 0 256)) = true -> forall b, 0 <= b <= 255 -> P b = true.
Proof.
  intros H b Hb. rewrite forallb_forall in H. apply H.
  replace b with (Z.of_nat (Z.to_nat b)) by lia. apply in_map. apply in_seq. lia.
Qed.

Definition char_as_int_test (b : Z) : bool :=
  forallb (fun k => Bool.eqb (Z.eqb (wrap I32 (wrap I8 b)) k) (Z.eqb b k)) (map Z.of_nat (seq 0 128)).
Lemma char_as_int b : 0 <= b <= 255 -> forall k, 0 <= k <= 127 -> (wrap I32 (wrap I8 b) =? k) = (b =? k).
Proof.
  intros Hb k Hk.
  assert (H : char_as_int_test b = true) by (apply byte_sweep; [vm_compute; reflexivity | exact Hb]).
  unfold char_as_int_test in H. rewrite forallb_forall in H.
  specialize (H k). rewrite Bool.eqb_true_iff in H. apply H.
  replace k with (Z.of_nat (Z.to_nat k)) by lia. apply in_map. apply in_seq. lia.
Qed.

Lemma uchar_as_int b : 0 <= b <= 255 -> wrap I32 (wrap U8 (wrap I8 b)) = b.
Proof.
  intro Hb. apply Z.eqb_eq. apply (byte_sweep (fun b => wrap I32 (wrap U8 (wrap I8 b)) =? b)); [vm_compute; reflexivity | exact Hb].
Qed.

Lemma char_to_byte b : 0 <= b <= 255 -> wrap U8 (wrap I32 (wrap I8 b)) = b.
Proof.
  intro Hb. apply Z.eqb_eq. apply (byte_sweep (fun b => wrap U8 (wrap I32 (wrap I8 b)) =? b)); [vm_compute; reflexivity | exact Hb].
Qed.

Lemma load_byte_at (w : world) b l k :
  nth_error (heap w) b = Some (OBytes l) -> (k < List.length l)%nat ->
  load_byte w (VPtr b (Z.of_nat k)) = Fine (nth k l 0).
Proof.
  intros H Hk. unfold load_byte. rewrite H.
  replace ((0 <=? Z.of_nat k) && (Z.of_nat k <? Z.of_nat (List.length l))) with true
    by (symmetry; apply andb_true_intro; split; [apply Z.leb_le | apply Z.ltb_lt]; lia).
  rewrite Nat2Z.id. reflexivity.
Qed.

(* ---- one character ---- *)
From CgreenVerif Require Import Xml.
Definition esc_z (b : Z) : list Z := map Z.of_N (Xml.esc_char (Z.to_N b)).

Definition esc_loop : stmt :=
  match fbody code_concat_escaped with SSeq _ (SSeq l _) => l | _ => SSkip end.

Definition xl (h k sc : nat) (sw : option Z) : locals :=
  [("head", VPtr h 0); ("text", VPtr 0 (Z.of_nat k)); ("single_char", VPtr sc 0)] ++
  match sw with Some z => [("__switch1", VInt z)] | None => [] end.

Lemma text_ok_esc_z b : 1 <= b <= 255 -> text_ok (esc_z b).
Proof.
  intro Hb. unfold text_ok. apply Forall_forall. intros x Hx.
  assert (H : forallb (fun x => (1 <=? x) && (x <=? 255)) (esc_z b) = true)
    by (apply (byte_sweep (fun b => forallb (fun x => (1 <=? x) && (x <=? 255)) (esc_z b))); [vm_compute; reflexivity | lia]).
  rewrite forallb_forall in H. specialize (H x Hx). apply andb_prop in H. destruct H as [H1 H2].
  apply Z.leb_le in H1. apply Z.leb_le in H2. lia.
Qed.

Lemma esc_z_length b : 0 <= b <= 255 -> (List.length (esc_z b) <= 6)%nat.
Proof.
  intro Hb.
  assert (H : Nat.leb (List.length (esc_z b)) 6 = true)
    by (apply (byte_sweep (fun b => Nat.leb (List.length (esc_z b)) 6)); [vm_compute; reflexivity | exact Hb]).
  apply Nat.leb_le. exact H.
Qed.

(* the five characters that have an entity: the switch arm appends the literal *)
Lemma esc_iter_special :
  forall K lit, In (K, lit) [(34, [38; 113; 117; 111; 116; 59]); (38, [38; 97; 109; 112; 59]); (60, [38; 108; 116; 59]);
                             (62, [38; 103; 116; 59]); (39, [38; 97; 112; 111; 115; 59])] ->
  forall hp txt sc scb h esc pre post sw g st tr n,
    txt = pre ++ K :: post -> inv hp txt sc scb h esc ->
    Z.of_nat (List.length esc) + 8 < 4611686018427387904 -> (2 <= n)%nat ->
    cexec prog_xmlesc (S n) esc_loop (xl h (List.length pre) sc sw) (mkw hp g st tr) =
    cexec prog_xmlesc n esc_loop (xl (List.length hp) (S (List.length pre)) sc (Some K))
          (mkw (list_set h OFreed hp ++ [OBytes (esc ++ lit ++ [0])]) g st tr).
Proof.
  intros K lit HK hp txt sc scb h esc pre post sw g st tr n Htxt Hinv Hlen Hn.
  assert (Hld : load_byte (mkw hp g st tr) (VPtr 0 (Z.of_nat (List.length pre))) = Fine K).
  { rewrite (load_byte_at _ 0 (txt ++ [0]) (List.length pre)) by (first [apply (i_txt _ _ _ _ _ _ Hinv) | subst txt; rewrite !app_length; cbn [List.length]; lia]).
    subst txt. rewrite <- app_assoc. cbn [app]. rewrite nth_middle. reflexivity. }
  unfold esc_loop, xl. cbn [fbody code_concat_escaped].
  rewrite exec_loop.
  cbn [In] in HK. destruct HK as [HK|[HK|[HK|[HK|[HK|[]]]]]]; injection HK as <- <-;
    destruct sw; cbn [app]; srun prog_xmlesc; rewrite Hld; ctidy; srun prog_xmlesc; rewrite Hld; ctidy; srun prog_xmlesc;
    match goal with |- context [mk_call _ _ "concat" [_; VLit ?lit] _] =>
      rewrite (call_concat hp txt sc scb h esc (VLit lit) lit g st tr n Hinv);
        [ | unfold text_ok; repeat constructor; lia | intros; reflexivity | cbn [List.length]; lia | lia ]
    end;
    ctidy; srun prog_xmlesc;
    replace (Z.of_nat (List.length pre) + 1) with (Z.of_nat (S (List.length pre))) by lia; reflexivity.
Qed.
