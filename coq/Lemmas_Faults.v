(* Lemmas_Faults.v — with the error handling as it stands in the sources, no single failing call
   lets a failing test pass. *)
From Coq Require Import List ZArith Bool Arith Lia.
From CgreenVerif Require Import Defs Runner Spec_Runner Lemmas_Runner Faults.
From CgreenVerif.Gen Require Import Facts.
Import ListNotations.
Local Open Scope Z_scope.

(* the handling translated from the current sources: nothing is answered silently *)
Lemma current_handling_is_loud :
  current_handling = mkhandling false true true true true true.
Proof. reflexivity. Qed.

(* what a test's process sends when nothing fails: its results, then the completion notice;
   regular = it did not call skip_test() (that corner is a known finding of C01-C03) *)
Definition regular_msgs (recs : list msg) : Prop := no_compl recs /\ has_skip recs = false.

Lemma firstn_no_compl' k m : no_compl m -> no_compl (firstn k m).
Proof.
  unfold no_compl. intros H Hin. apply H. clear H. revert m Hin. induction k as [|k IH]; intros [|x m] Hin; cbn [firstn] in Hin; try contradiction.
  destruct Hin as [->|Hin]; [left; reflexivity|right; apply IH; exact Hin].
Qed.

Lemma has_skip_firstn k m : has_skip m = false -> has_skip (firstn k m) = false.
Proof.
  revert m. induction k as [|k IH]; intros [|x m] H; try reflexivity.
  cbn [firstn]. rewrite has_skip_cons in *. apply orb_false_iff in H. destruct H as [H1 H2]. rewrite H1, (IH m H2). reflexivity.
Qed.

Lemma count_fail_pos m : In MFail m -> 0 < failures (count_msgs m).
Proof.
  induction m as [|x m IH]; intros H; [contradiction|].
  assert (Hnn : 0 <= failures (count_msgs m)).
  { clear. induction m as [|y m IH]; [cbn; lia|]. rewrite count_msgs_cons. destruct y; cbn [failures cadd]; lia. }
  rewrite count_msgs_cons. destruct H as [->|H]; [cbn [failures cadd]; lia|].
  specialize (IH H). destruct x; cbn [failures cadd]; lia.
Qed.

(* a strict prefix of the stream (the completion notice not in it) is an exception *)
Lemma prefix_is_exception p : no_compl p -> has_skip p = false -> not_success (seen_of p) = true.
Proof.
  intros Hn Hs. unfold seen_of. rewrite (read_results_nocompl p czero false Hn). rewrite Hs. cbn [orb not_success].
  rewrite !orb_true_r. reflexivity.
Qed.

(* the whole stream with a failure in it counts the failure *)
Lemma whole_counts_failure recs : regular_msgs recs -> In MFail recs -> not_success (seen_of (recs ++ [MCompletion])) = true.
Proof.
  intros (Hn & Hs) Hf. unfold seen_of. rewrite (read_results_app recs [] czero false Hn). cbn [not_success].
  pose proof (count_fail_pos recs Hf) as Hp.
  assert (E : 0 <? failures (cadd czero (cadd (count_msgs recs) (skip_cnt false recs))) = true).
  { apply Z.ltb_lt. unfold skip_cnt. cbn [failures cadd czero]. lia. }
  rewrite E. reflexivity.
Qed.

Lemma firstn_app_compl k recs : firstn k (recs ++ [MCompletion]) = recs ++ [MCompletion] \/
                                 exists k', firstn k (recs ++ [MCompletion]) = firstn k' recs.
Proof.
  destruct (Nat.le_gt_cases k (length recs)) as [H|H].
  - right. exists k. rewrite firstn_app. replace (k - length recs)%nat with 0%nat by lia. cbn [firstn]. apply app_nil_r.
  - left. apply firstn_all2. rewrite app_length. cbn [length]. lia.
Qed.

(* MAIN: for the handling as it stands, every single fault leaves a failing test "not passed":
   the run is aborted with failure status, or the failure is counted, or the test is an exception *)
Theorem single_fault_never_passes : forall f recs,
  regular_msgs recs -> In MFail recs ->
  not_success (under_fault current_handling f (recs ++ [MCompletion])) = true.
Proof.
  intros f recs Hr Hf. rewrite current_handling_is_loud. destruct Hr as (Hn & Hs).
  destruct f as [| | | |i|j|i]; cbn [under_fault h_fork_dies h_msg_reports h_setup_aborts h_open_strict h_tmpfile_stops h_send_drops andb]; try reflexivity.
  - destruct (firstn_app_compl i recs) as [->|(k' & ->)].
    + apply whole_counts_failure; [split; assumption|exact Hf].
    + apply prefix_is_exception; [apply firstn_no_compl'; exact Hn|apply has_skip_firstn; exact Hs].
  - destruct (firstn_app_compl j recs) as [->|(k' & ->)].
    + apply whole_counts_failure; [split; assumption|exact Hf].
    + apply prefix_is_exception; [apply firstn_no_compl'; exact Hn|apply has_skip_firstn; exact Hs].
  - apply whole_counts_failure; [split; assumption|exact Hf].
Qed.

(* as the code stood before the repairs (b0a43de, bb1a03d, 0218406, 87502d7) *)
Definition old_handling : handling := mkhandling true false true false true false.
Example dropped_record_refuted :
  not_success (under_fault old_handling (FSendAlloc 1) ([MPass; MFail; MPass] ++ [MCompletion])) = false.
Proof. vm_compute. reflexivity. Qed.
Example failed_pipe_refuted : under_fault old_handling FPipe [MFail; MCompletion] = Undefined.
Proof. reflexivity. Qed.
Example blocking_channel_refuted : under_fault old_handling FFcntlOpen [MFail; MCompletion] = MayBlock [MFail; MCompletion].
Proof. reflexivity. Qed.
