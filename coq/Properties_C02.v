(* C02 — A test process that dies is reported as one exception and harms no other test. *)
From Coq Require Import List ZArith Bool.
From CgreenVerif Require Import Defs Runner Spec_Runner Lemmas_Runner Lemmas_Facts Lemmas_Props Examples_Runner.
From CgreenVerif.Gen Require Import Facts.
Import ListNotations.
Local Open Scope Z_scope.

(* The child-side path of a test is an explicit list of steps (full_steps); "dies at any
   point" is "the process ends at any index k of that list, in any way d". *)

(* a process that is killed at index k really ends abnormally *)
Theorem C02_killed_process_dies :
  forall s t k d, tkill t = Some (k, d) -> own_death s t <> None.
Proof. exact killed_dies. Qed.
Print Assumptions C02_killed_process_dies.

(* at every point up to and including the mock tally no completion notice has been sent *)
Theorem C02_no_completion_before_the_end :
  forall s t k d, wf_test t -> tkill t = Some (k, d) -> (k <= length (child_steps s t))%nat ->
                  no_compl (own_msgs s t).
Proof. exact killed_before_completion. Qed.
Print Assumptions C02_no_completion_before_the_end.

(* such a test counts as exactly one exception and everything it delivered is counted *)
Theorem C02_signal_is_abnormal : forall m sg, abnormal m (Some (Signal sg)) = true.
Proof. exact signal_is_abnormal. Qed.
Theorem C02_exit_before_completion_is_abnormal :
  forall m code, no_compl m -> abnormal m (Some (Exit code)) = true.
Proof. exact exit_before_completion_is_abnormal. Qed.

Theorem C02_one_exception_and_delivered_counted :
  forall s t, tskip t = false -> abnormal (own_msgs s t) (own_death s t) = true ->
    exceptions (own s t) = 1 /\
    passes (own s t) = passes (count_msgs (own_msgs s t)) /\
    failures (own s t) = failures (count_msgs (own_msgs s t)).
Proof. exact dying_test_own. Qed.
Print Assumptions C02_one_exception_and_delivered_counted.

(* what it delivered is a prefix of what it delivers when it is not killed *)
Theorem C02_delivered_is_prefix :
  forall s t k d, tkill t = None -> exists rest, own_msgs s t = own_msgs s (with_kill t k d) ++ rest.
Proof. exact delivered_is_prefix. Qed.
Print Assumptions C02_delivered_is_prefix.

(* the parent reports exactly that (one forked test, any state with an empty pipe) *)
Theorem C02_parent_reports_own :
  forall cap s t p, wf_test t -> (1 <= cap)%nat -> fits cap s t -> regular s t -> good p ->
    run_test_forked cap s t p =
    mkp (cadd (c p) (own s t)) (tot p) (crumb p) [] (pfw p) (spec_test (crumb p) s t ++ out p).
Proof. exact run_test_forked_spec. Qed.
Print Assumptions C02_parent_reports_own.

(* the run's verdict is failure *)
Theorem C02_verdict_is_failure :
  forall n s t, In (s, t) (tests_of n) -> tskip t = false ->
                abnormal (own_msgs s t) (own_death s t) = true -> ~ all_good n.
Proof. exact dying_test_fails_run. Qed.
Print Assumptions C02_verdict_is_failure.

(* every other test is credited exactly its own results, in the tree with the dying test and
   in the tree without it, whatever the history of preceding tests *)
Theorem C02_neighbours_unaffected :
  forall rk cap n1 n2 s t d1 cl1 d2 cl2,
    In rk builtin_reporters -> (1 <= cap)%nat ->
    is_suite n1 -> ok_tree Forked cap n1 -> unique_names n1 -> In (s, t) (tests_of n1) ->
    is_suite n2 -> ok_tree Forked cap n2 -> unique_names n2 -> In (s, t) (tests_of n2) ->
    forall p1 p2 v1 v2,
      run_suite rk verdict_suite Forked cap n1 = Finished v1 p1 ->
      run_suite rk verdict_suite Forked cap n2 = Finished v2 p2 ->
      In (ETestDone (tid t) d1 cl1) (out p1) -> In (ETestDone (tid t) d2 cl2) (out p2) ->
      d1 = own s t /\ d2 = own s t /\ cl1 = cl2.
Proof. exact order_independent. Qed.
Print Assumptions C02_neighbours_unaffected.

(* non-vacuity: ex_tree contains a test killed by SIGSEGV in its body and one killed by
   SIGKILL at a framework point; the corners outside `regular` are the two known findings *)
Theorem C02_example_premises_hold : ok_tree Forked 4096 ex_tree /\ is_suite ex_tree /\ unique_names ex_tree.
Proof. exact ex_tree_ok. Qed.
Theorem C02_skip_then_die_refuted :
  exit_ok (run_suite rk_text verdict_suite Forked 4096 skip_then_die) = true /\ ~ all_good skip_then_die.
Proof. exact skip_then_die_refuted. Qed.
Theorem C02_die_after_completion_refuted :
  exit_ok (run_suite rk_text verdict_suite Forked 4096 die_after_completion) = true /\ ~ all_good die_after_completion.
Proof. exact die_after_completion_refuted. Qed.
