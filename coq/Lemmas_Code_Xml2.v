From Coq Require Import List ZArith NArith String Bool Lia Arith.
From CgreenVerif Require Import CLite Lemmas_CLite Lemmas_Code_Percent Lemmas_Code_Xml Xml.
From CgreenVerif.Gen Require Import Code_xmlesc.
Import ListNotations.
Local Open Scope string_scope. Local Open Scope list_scope. Local Open Scope Z_scope.

(* snprintf with the two formats concat_escaped() uses *)
Lemma format_pc w c : format_c 4000 w [37; 99] [VInt c] = Fine [wrap U8 c].
Proof. reflexivity. Qed.
Lemma format_hex w c : format_c 4000 w [92; 120; 37; 48; 50; 120] [VInt c] = Fine (92 :: 120 :: pad_left 2 48 (hex_of (wrap U32 c)) ++ []).
Proof. reflexivity. Qed.

(* the scratch array after snprintf wrote `out` and the terminator, and the heap after the following concat *)
Definition scb_after (scb out : list Z) : list Z := splice scb 0 (out ++ [0]).
Definition hp_after (hp : list obj) (sc h : nat) (scb out esc : list Z) : list obj :=
  list_set h OFreed (list_set sc (OBytes (scb_after scb out)) hp) ++ [OBytes (esc ++ out ++ [0])].

Lemma inv_set_sc hp txt sc scb h esc scb' :
  inv hp txt sc scb h esc -> List.length scb' = 5%nat -> inv (list_set sc (OBytes scb') hp) txt sc scb' h esc.
Proof.
  intros [H0 Hsc Hscl Hh Hesc Hh0 Hhsc Hsc0] Hl.
  assert (Hscl' : (sc < List.length hp)%nat) by (apply nth_error_Some; congruence).
  constructor; try assumption.
  - rewrite nth_error_list_set_other by exact Hsc0. exact H0.
  - apply nth_error_list_set_same. exact Hscl'.
  - rewrite nth_error_list_set_other by congruence. exact Hh.
Qed.

Lemma scb_after_length scb out : List.length scb = 5%nat -> (List.length out <= 4)%nat -> List.length (scb_after scb out) = 5%nat.
Proof.
  intros H Ho. unfold scb_after. destruct scb as [|x scb]; [discriminate|]. cbn [splice].
  rewrite app_length, skipn_length, app_length. cbn [List.length] in *. lia.
Qed.

Lemma splice_0 (l src : list Z) : l <> [] -> splice l 0 src = src ++ skipn (List.length src) l.
Proof. destruct l; [congruence|reflexivity]. Qed.

Lemma scratch_string scb out sc g st tr :
  List.length scb = 5%nat -> text_ok out -> (List.length out <= 4)%nat ->
  forall hp', nth_error hp' sc = Some (OBytes (scb_after scb out)) -> cstring (mkw hp' g st tr) (VPtr sc 0) = Fine out.
Proof.
  intros Hl Ho Hlo hp' H. unfold scb_after in H. rewrite splice_0 in H by (destruct scb; [discriminate|congruence]).
  rewrite <- app_assoc in H. cbn [app] in H.
  exact (cstring_block_junk (mkw hp' g st tr) sc out _ H Ho).
Qed.

(* any other character: it is copied as it is (through the scratch array) *)
Lemma esc_iter_plain :
  forall hp txt sc scb h esc pre b post sw g st tr n,
    txt = pre ++ b :: post -> 1 <= b <= 255 -> inv hp txt sc scb h esc ->
    b <> 34 -> b <> 38 -> b <> 60 -> b <> 62 -> b <> 39 -> (32 <= b \/ b = 9 \/ b = 10 \/ b = 13) ->
    Z.of_nat (List.length esc) + 8 < 4611686018427387904 -> (2 <= n)%nat ->
    cexec prog_xmlesc (S n) esc_loop (xl h (List.length pre) sc sw) (mkw hp g st tr) =
    cexec prog_xmlesc n esc_loop (xl (List.length hp) (S (List.length pre)) sc (Some (wrap I32 (wrap I8 b))))
          (mkw (hp_after hp sc h scb [b] esc) g st tr).
Proof.
  intros hp txt sc scb h esc pre b post sw g st tr n Htxt Hb Hinv N34 N38 N60 N62 N39 Hplain Hlen Hn.
  assert (Hld : load_byte (mkw hp g st tr) (VPtr 0 (Z.of_nat (List.length pre))) = Fine b).
  { rewrite (load_byte_at _ 0 (txt ++ [0]) (List.length pre)) by (first [apply (i_txt _ _ _ _ _ _ Hinv) | subst txt; rewrite !app_length; cbn [List.length]; lia]).
    subst txt. rewrite <- app_assoc. cbn [app]. rewrite nth_middle. reflexivity. }
  assert (E0 : (wrap I32 (wrap I8 b) =? 0) = false) by (rewrite char_as_int by lia; apply Z.eqb_neq; lia).
  assert (E34 : (wrap I32 (wrap I8 b) =? 34) = false) by (rewrite char_as_int by lia; apply Z.eqb_neq; lia).
  assert (E38 : (wrap I32 (wrap I8 b) =? 38) = false) by (rewrite char_as_int by lia; apply Z.eqb_neq; lia).
  assert (E60 : (wrap I32 (wrap I8 b) =? 60) = false) by (rewrite char_as_int by lia; apply Z.eqb_neq; lia).
  assert (E62 : (wrap I32 (wrap I8 b) =? 62) = false) by (rewrite char_as_int by lia; apply Z.eqb_neq; lia).
  assert (E39 : (wrap I32 (wrap I8 b) =? 39) = false) by (rewrite char_as_int by lia; apply Z.eqb_neq; lia).
  unfold esc_loop, xl. cbn [fbody code_concat_escaped].
  rewrite exec_loop.
  destruct sw; cbn [app]; srun prog_xmlesc; rewrite Hld; ctidy; srun prog_xmlesc.
  all: rewrite ?E0; ctidy; srun prog_xmlesc.
  all: rewrite Hld; ctidy; srun prog_xmlesc.
  all: rewrite ?E34; ctidy; srun prog_xmlesc.
  all: rewrite ?E38; ctidy; srun prog_xmlesc.
  all: rewrite ?E60; ctidy; srun prog_xmlesc.
  all: rewrite ?E62; ctidy; srun prog_xmlesc.
  all: rewrite ?E39; ctidy; srun prog_xmlesc.
  (* the control-character test: (unsigned char)c < 0x20 && c != '\t' && c != '\n' && c != '\r' *)
  all: rewrite Hld; ctidy; srun prog_xmlesc.
  all: rewrite uchar_as_int by lia.
  all: destruct (b <? 32) eqn:Hlt32;
    [ apply Z.ltb_lt in Hlt32; destruct Hplain as [Hge|[Hp|[Hp|Hp]]]; [lia|subst b..] | ].
  all: ctidy; srun prog_xmlesc.
  all: repeat (rewrite Hld; ctidy; srun prog_xmlesc).
  all: rewrite format_pc; ctidy; rewrite ?char_to_byte by lia.
  all: change (Z.to_nat 4) with 4%nat; cbn [firstn app].
  all: pose proof (i_sc _ _ _ _ _ _ Hinv) as Hscb; pose proof (i_sclen _ _ _ _ _ _ Hinv) as Hscl.
  all: change (VPtr sc 0) with (VPtr sc (Z.of_nat 0)) at 1.
  all: erewrite store_bytes_at by (first [exact Hscb | cbn [List.length]; lia]).
  all: cbn [heap]; ctidy; srun prog_xmlesc.
  all: match goal with |- context [mk_call _ _ "concat" [_; VPtr _ 0] (mkw (list_set _ (OBytes (splice _ 0 [?x; 0])) _) _ _ _)] =>
         change (splice scb 0 [x; 0]) with (scb_after scb [x]);
         assert (Hx : text_ok [x]) by (unfold text_ok; repeat constructor; lia);
         pose proof (inv_set_sc hp txt sc scb h esc (scb_after scb [x]) Hinv (scb_after_length scb [x] Hscl ltac:(cbn; lia))) as Hinv1;
         rewrite (call_concat _ txt sc (scb_after scb [x]) h esc (VPtr sc 0) [x] g st tr n Hinv1 Hx);
           [ | intros hp' Hhp'; apply (scratch_string scb [x] sc g st tr Hscl Hx ltac:(cbn; lia));
               rewrite Hhp'; apply (i_sc _ _ _ _ _ _ Hinv1)
             | cbn [List.length]; lia | lia ]
       end.
  all: ctidy; srun prog_xmlesc.
  all: rewrite length_list_set.
  all: replace (Z.of_nat (List.length pre) + 1) with (Z.of_nat (S (List.length pre))) by lia.
  all: unfold hp_after; rewrite ?(proj2 (Z.eqb_eq _ _) eq_refl); try reflexivity.
Qed.

(* a control character XML cannot carry: \xNN *)
Definition is_ctrl_z (b : Z) : bool := (b <? 32) && negb (b =? 9) && negb (b =? 10) && negb (b =? 13).

Fixpoint zlist_eqb (a b : list Z) : bool :=
  match a, b with [], [] => true | x :: a', y :: b' => (x =? y) && zlist_eqb a' b' | _, _ => false end.
Lemma zlist_eqb_eq a b : zlist_eqb a b = true -> a = b.
Proof. revert b. induction a as [|x a IH]; intros [|y b] H; cbn in H; try discriminate; [reflexivity|].
       apply andb_prop in H. destruct H as [H1 H2]. apply Z.eqb_eq in H1. rewrite H1, (IH b H2). reflexivity. Qed.

Lemma hex_of_ctrl b : 1 <= b <= 255 -> is_ctrl_z b = true ->
  92 :: 120 :: pad_left 2 48 (hex_of (wrap U32 b)) ++ [] = esc_z b.
Proof.
  intros Hb Hc. apply zlist_eqb_eq.
  assert (H : (if is_ctrl_z b then zlist_eqb (92 :: 120 :: pad_left 2 48 (hex_of (wrap U32 b)) ++ []) (esc_z b) else true) = true)
    by (apply (byte_sweep (fun b => if is_ctrl_z b then zlist_eqb (92 :: 120 :: pad_left 2 48 (hex_of (wrap U32 b)) ++ []) (esc_z b) else true));
        [vm_compute; reflexivity | lia]).
  rewrite Hc in H. exact H.
Qed.

Lemma esc_z_ctrl_len b : 1 <= b <= 255 -> is_ctrl_z b = true -> List.length (esc_z b) = 4%nat.
Proof.
  intros Hb Hc.
  assert (H : (if is_ctrl_z b then Nat.eqb (List.length (esc_z b)) 4 else true) = true)
    by (apply (byte_sweep (fun b => if is_ctrl_z b then Nat.eqb (List.length (esc_z b)) 4 else true)); [vm_compute; reflexivity | lia]).
  rewrite Hc in H. apply Nat.eqb_eq. exact H.
Qed.
Lemma esc_iter_ctrl :
  forall hp txt sc scb h esc pre b post sw g st tr n,
    txt = pre ++ b :: post -> 1 <= b <= 255 -> inv hp txt sc scb h esc -> is_ctrl_z b = true ->
    Z.of_nat (List.length esc) + 8 < 4611686018427387904 -> (2 <= n)%nat ->
    cexec prog_xmlesc (S n) esc_loop (xl h (List.length pre) sc sw) (mkw hp g st tr) =
    cexec prog_xmlesc n esc_loop (xl (List.length hp) (S (List.length pre)) sc (Some (wrap I32 (wrap I8 b))))
          (mkw (hp_after hp sc h scb (esc_z b) esc) g st tr).
Proof.
  intros hp txt sc scb h esc pre b post sw g st tr n Htxt Hb Hinv Hctrl Hlen Hn.
  assert (Hld : load_byte (mkw hp g st tr) (VPtr 0 (Z.of_nat (List.length pre))) = Fine b).
  { rewrite (load_byte_at _ 0 (txt ++ [0]) (List.length pre)) by (first [apply (i_txt _ _ _ _ _ _ Hinv) | subst txt; rewrite !app_length; cbn [List.length]; lia]).
    subst txt. rewrite <- app_assoc. cbn [app]. rewrite nth_middle. reflexivity. }
  pose proof Hctrl as Hctrl0. unfold is_ctrl_z in Hctrl.
  apply andb_prop in Hctrl. destruct Hctrl as [Hctrl H13]. apply andb_prop in Hctrl. destruct Hctrl as [Hctrl H10].
  apply andb_prop in Hctrl. destruct Hctrl as [H32 H9].
  apply Z.ltb_lt in H32. apply negb_true_iff in H9, H10, H13. apply Z.eqb_neq in H9, H10, H13.
  assert (E : forall k, 0 <= k <= 127 -> b <> k -> (wrap I32 (wrap I8 b) =? k) = false)
    by (intros k Hk Hne; rewrite char_as_int by lia; apply Z.eqb_neq; exact Hne).
  assert (E0 := E 0 ltac:(lia) ltac:(lia)). assert (E34 := E 34 ltac:(lia) ltac:(lia)). assert (E38 := E 38 ltac:(lia) ltac:(lia)).
  assert (E60 := E 60 ltac:(lia) ltac:(lia)). assert (E62 := E 62 ltac:(lia) ltac:(lia)). assert (E39 := E 39 ltac:(lia) ltac:(lia)).
  assert (E9 := E 9 ltac:(lia) H9). assert (E10 := E 10 ltac:(lia) H10). assert (E13 := E 13 ltac:(lia) H13).
  assert (Hlt : (b <? 32) = true) by (apply Z.ltb_lt; exact H32).
  unfold esc_loop, xl. cbn [fbody code_concat_escaped].
  rewrite exec_loop.
  destruct sw; cbn [app]; srun prog_xmlesc; rewrite Hld; ctidy; srun prog_xmlesc.
  all: rewrite ?E0; ctidy; srun prog_xmlesc.
  all: rewrite Hld; ctidy; srun prog_xmlesc.
  all: rewrite ?E34; ctidy; srun prog_xmlesc.
  all: rewrite ?E38; ctidy; srun prog_xmlesc.
  all: rewrite ?E60; ctidy; srun prog_xmlesc.
  all: rewrite ?E62; ctidy; srun prog_xmlesc.
  all: rewrite ?E39; ctidy; srun prog_xmlesc.
  all: rewrite Hld; ctidy; srun prog_xmlesc.
  all: rewrite uchar_as_int by lia; rewrite Hlt; ctidy; srun prog_xmlesc.
  all: rewrite Hld; ctidy; srun prog_xmlesc; rewrite ?E9; ctidy; srun prog_xmlesc.
  all: rewrite Hld; ctidy; srun prog_xmlesc; rewrite ?E10; ctidy; srun prog_xmlesc.
  all: rewrite Hld; ctidy; srun prog_xmlesc; rewrite ?E13; ctidy; srun prog_xmlesc.
  all: repeat (rewrite Hld; ctidy; srun prog_xmlesc).
  all: rewrite uchar_as_int by lia.
  all: rewrite format_hex, (hex_of_ctrl b Hb Hctrl0); ctidy.
  all: change (Z.to_nat 4) with 4%nat.
  all: rewrite (firstn_all2 (n:=4) (esc_z b)) by (rewrite (esc_z_ctrl_len b Hb Hctrl0); lia).
  all: pose proof (i_sc _ _ _ _ _ _ Hinv) as Hscb; pose proof (i_sclen _ _ _ _ _ _ Hinv) as Hscl.
  all: pose proof (esc_z_ctrl_len b Hb Hctrl0) as Hl4.
  all: change (VPtr sc 0) with (VPtr sc (Z.of_nat 0)) at 1.
  all: erewrite store_bytes_at by (first [exact Hscb | rewrite app_length, Hl4; cbn [List.length]; lia]).
  all: cbn [heap]; ctidy; srun prog_xmlesc.
  all: change (splice scb 0 (esc_z b ++ [0])) with (scb_after scb (esc_z b)).
  all: pose proof (text_ok_esc_z b Hb) as Hx.
  all: pose proof (inv_set_sc hp txt sc scb h esc (scb_after scb (esc_z b)) Hinv (scb_after_length scb (esc_z b) Hscl ltac:(lia))) as Hinv1.
  all: rewrite (call_concat _ txt sc (scb_after scb (esc_z b)) h esc (VPtr sc 0) (esc_z b) g st tr n Hinv1 Hx);
           [ | intros hp' Hhp'; apply (scratch_string scb (esc_z b) sc g st tr Hscl Hx ltac:(lia));
               rewrite Hhp'; apply (i_sc _ _ _ _ _ _ Hinv1)
             | rewrite ?Hl4; lia | lia ].
  all: ctidy; srun prog_xmlesc.
  all: rewrite length_list_set.
  all: replace (Z.of_nat (List.length pre) + 1) with (Z.of_nat (S (List.length pre))) by lia.
  all: unfold hp_after; rewrite ?(proj2 (Z.eqb_eq _ _) eq_refl); try reflexivity.
Qed.
Definition is_special_z (b : Z) : bool := (b =? 34) || (b =? 38) || (b =? 60) || (b =? 62) || (b =? 39).

Lemma esc_z_plain b : 1 <= b <= 255 -> is_special_z b = false -> is_ctrl_z b = false -> esc_z b = [b].
Proof.
  intros Hb Hs Hc. apply zlist_eqb_eq.
  assert (H : (if is_special_z b || is_ctrl_z b then true else zlist_eqb (esc_z b) [b]) = true)
    by (apply (byte_sweep (fun b => if is_special_z b || is_ctrl_z b then true else zlist_eqb (esc_z b) [b]));
        [vm_compute; reflexivity | lia]).
  rewrite Hs, Hc in H. exact H.
Qed.

(* one turn of the loop, whatever the character *)
Lemma esc_iter :
  forall hp txt sc scb h esc pre b post sw g st tr n,
    txt = pre ++ b :: post -> 1 <= b <= 255 -> inv hp txt sc scb h esc ->
    Z.of_nat (List.length esc) + 8 < 4611686018427387904 -> (2 <= n)%nat ->
    exists hp' scb' sw',
      cexec prog_xmlesc (S n) esc_loop (xl h (List.length pre) sc sw) (mkw hp g st tr) =
      cexec prog_xmlesc n esc_loop (xl (List.length hp) (S (List.length pre)) sc (Some sw')) (mkw hp' g st tr)
      /\ inv hp' txt sc scb' (List.length hp) (esc ++ esc_z b) /\ List.length hp' = S (List.length hp).
Proof.
  intros hp txt sc scb h esc pre b post sw g st tr n Htxt Hb Hinv Hlen Hn.
  destruct (is_special_z b) eqn:Hs.
  - assert (HK : exists lit, In (b, lit) [(34, [38; 113; 117; 111; 116; 59]); (38, [38; 97; 109; 112; 59]); (60, [38; 108; 116; 59]);
                             (62, [38; 103; 116; 59]); (39, [38; 97; 112; 111; 115; 59])] /\ esc_z b = lit).
    { unfold is_special_z in Hs. repeat (apply orb_prop in Hs; destruct Hs as [Hs|Hs]); apply Z.eqb_eq in Hs; subst b;
        eexists; (split; [cbn [In]; eauto 10 | reflexivity]). }
    destruct HK as [lit [HK Hlit]].
    exists (list_set h OFreed hp ++ [OBytes (esc ++ lit ++ [0])]), scb, b.
    split; [exact (esc_iter_special b lit HK hp txt sc scb h esc pre post sw g st tr n Htxt Hinv Hlen Hn)|].
    split; [rewrite Hlit; apply inv_after_concat; [exact Hinv | rewrite <- Hlit; apply text_ok_esc_z; exact Hb]
           | rewrite app_length, length_list_set; cbn [List.length]; lia].
  - assert (Hns : b <> 34 /\ b <> 38 /\ b <> 60 /\ b <> 62 /\ b <> 39).
    { unfold is_special_z in Hs. repeat (apply orb_false_elim in Hs; destruct Hs as [Hs ?]).
      repeat match goal with H : (_ =? _) = false |- _ => apply Z.eqb_neq in H end. repeat split; assumption. }
    destruct Hns as [N34 [N38 [N60 [N62 N39]]]].
    assert (Hafter : forall out, text_ok out -> (List.length out <= 4)%nat ->
              inv (hp_after hp sc h scb out esc) txt sc (scb_after scb out) (List.length hp) (esc ++ out)
              /\ List.length (hp_after hp sc h scb out esc) = S (List.length hp)).
    { intros out Ho Hlo. unfold hp_after. split.
      - rewrite <- (length_list_set hp sc (OBytes (scb_after scb out))).
        apply inv_after_concat; [|exact Ho].
        apply (inv_set_sc hp txt sc scb h esc); [exact Hinv | apply scb_after_length; [apply (i_sclen _ _ _ _ _ _ Hinv) | exact Hlo]].
      - rewrite app_length, !length_list_set; cbn [List.length]; lia. }
    destruct (is_ctrl_z b) eqn:Hc.
    + exists (hp_after hp sc h scb (esc_z b) esc), (scb_after scb (esc_z b)), (wrap I32 (wrap I8 b)).
      split; [exact (esc_iter_ctrl hp txt sc scb h esc pre b post sw g st tr n Htxt Hb Hinv Hc Hlen Hn)|].
      apply Hafter; [apply text_ok_esc_z; exact Hb | rewrite (esc_z_ctrl_len b Hb Hc); lia].
    + exists (hp_after hp sc h scb [b] esc), (scb_after scb [b]), (wrap I32 (wrap I8 b)).
      assert (Hplain : 32 <= b \/ b = 9 \/ b = 10 \/ b = 13).
      { unfold is_ctrl_z in Hc. destruct (b <? 32) eqn:H32; [|apply Z.ltb_ge in H32; left; exact H32].
        destruct (b =? 9) eqn:H9; [apply Z.eqb_eq in H9; right; left; exact H9|].
        destruct (b =? 10) eqn:H10; [apply Z.eqb_eq in H10; right; right; left; exact H10|].
        destruct (b =? 13) eqn:H13; [apply Z.eqb_eq in H13; right; right; right; exact H13|]. discriminate Hc. }
      split; [exact (esc_iter_plain hp txt sc scb h esc pre b post sw g st tr n Htxt Hb Hinv N34 N38 N60 N62 N39 Hplain Hlen Hn)|].
      rewrite (esc_z_plain b Hb Hs Hc). apply Hafter; [unfold text_ok; repeat constructor; lia | cbn; lia].
Qed.

Lemma esc_run :
  forall txt sc g st tr, text_ok txt ->
  forall post pre hp scb h esc sw n,
    txt = pre ++ post -> inv hp txt sc scb h esc ->
    Z.of_nat (List.length esc) + 8 * Z.of_nat (List.length post) + 8 < 4611686018427387904 ->
    (List.length post + 2 <= n)%nat ->
    exists hp' scb' h' sw',
      cexec prog_xmlesc n esc_loop (xl h (List.length pre) sc sw) (mkw hp g st tr) =
      Fine (FNormal, xl h' (List.length txt) sc sw', mkw hp' g st tr)
      /\ inv hp' txt sc scb' h' (esc ++ flat_map esc_z post).
Proof.
  intros txt sc g st tr Htok post.
  induction post as [|b post IH]; intros pre hp scb h esc sw n Htxt Hinv Hlen Hn.
  - rewrite app_nil_r in Htxt. subst pre.
    assert (Hld : load_byte (mkw hp g st tr) (VPtr 0 (Z.of_nat (List.length txt))) = Fine 0).
    { rewrite (load_byte_at _ 0 (txt ++ [0]) (List.length txt)) by (first [apply (i_txt _ _ _ _ _ _ Hinv) | rewrite !app_length; cbn [List.length]; lia]).
      rewrite nth_middle. reflexivity. }
    destruct n as [|n]; [cbn in Hn; lia|].
    exists hp, scb, h, sw. split; [|cbn [flat_map]; rewrite app_nil_r; exact Hinv].
    unfold esc_loop, xl. cbn [fbody code_concat_escaped].
    rewrite exec_loop.
    destruct sw; cbn [app]; srun prog_xmlesc; rewrite Hld; ctidy; srun prog_xmlesc; reflexivity.
  - assert (Hb : 1 <= b <= 255).
    { unfold text_ok in Htok. rewrite Forall_forall in Htok. apply Htok. subst txt. apply in_or_app. right. left. reflexivity. }
    destruct n as [|n]; [cbn in Hn; lia|].
    cbn [List.length] in Hlen, Hn.
    destruct (esc_iter hp txt sc scb h esc pre b post sw g st tr n Htxt Hb Hinv ltac:(lia) ltac:(lia)) as [hp1 [scb1 [sw1 [Hrun [Hinv1 Hl1]]]]].
    rewrite Hrun.
    assert (Hel : (List.length (esc ++ esc_z b) <= List.length esc + 6)%nat)
      by (rewrite app_length; pose proof (esc_z_length b ltac:(lia)); lia).
    destruct (IH (pre ++ [b]) hp1 scb1 (List.length hp) (esc ++ esc_z b) (Some sw1) n
                ltac:(rewrite <- app_assoc; exact Htxt) Hinv1 ltac:(lia) ltac:(lia)) as [hp2 [scb2 [h2 [sw2 [Hrun2 Hinv2]]]]].
    rewrite app_length in Hrun2. cbn [List.length] in Hrun2. rewrite Nat.add_1_r in Hrun2.
    exists hp2, scb2, h2, sw2. split; [exact Hrun2|].
    cbn [flat_map]. rewrite app_assoc. exact Hinv2.
Qed.
Lemma call_concat_escaped hp txt h esc g st tr n :
  nth_error hp 0 = Some (OBytes (txt ++ [0])) -> nth_error hp h = Some (OBytes (esc ++ [0])) -> h <> O ->
  text_ok txt -> text_ok esc ->
  Z.of_nat (List.length esc) + 8 * Z.of_nat (List.length txt) + 8 < 4611686018427387904 ->
  (List.length txt + 5 <= n)%nat ->
  exists hp' h',
    mk_call prog_xmlesc (cexec prog_xmlesc n) "concat_escaped" [VPtr h 0; VPtr 0 0] (mkw hp g st tr) =
    Fine (VPtr h' 0, mkw hp' g st tr)
    /\ nth_error hp' 0 = Some (OBytes (txt ++ [0]))
    /\ nth_error hp' h' = Some (OBytes ((esc ++ flat_map esc_z txt) ++ [0]))
    /\ text_ok (esc ++ flat_map esc_z txt) /\ h' <> O.
Proof.
  intros H0 Hh Hh0 Htxt Hesc Hlen Hn.
  destruct n as [|n]; [lia|]. destruct n as [|n]; [lia|].
  unfold mk_call at 1. unfold find_fun. cbn [alookup prog_xmlesc String.eqb Ascii.eqb Bool.eqb].
  cbn [bind_params fparams fbody code_concat_escaped].
  rewrite exec_seq. srun prog_xmlesc.
  assert (Hhl : (h < List.length hp)%nat) by (apply nth_error_Some; congruence).
  assert (Hinv : inv (hp ++ [OBytes (repeat 255 5)]) txt (List.length hp) (repeat 255 5) h esc).
  { constructor; try assumption; try lia.
    - rewrite nth_error_app1 by lia. exact H0.
    - rewrite nth_error_app2 by lia. rewrite Nat.sub_diag. reflexivity.
    - reflexivity.
    - rewrite nth_error_app1 by lia. exact Hh. }
  destruct (esc_run txt (List.length hp) g st tr Htxt txt [] _ _ h esc None (S (S n)) eq_refl Hinv ltac:(lia) ltac:(lia))
    as [hp2 [scb2 [h2 [sw2 [Hrun Hinv2]]]]].
  unfold esc_loop, xl in Hrun. cbn [fbody code_concat_escaped List.length app Z.of_nat] in Hrun.
  exists hp2, h2.
  change (Z.to_nat 5) with 5%nat.
  split; [rewrite Hrun; srun prog_xmlesc; reflexivity|].
  split; [exact (i_txt _ _ _ _ _ _ Hinv2)|].
  split; [exact (i_head _ _ _ _ _ _ Hinv2)|].
  split; [exact (i_esc _ _ _ _ _ _ Hinv2) | exact (i_h0 _ _ _ _ _ _ Hinv2)].
Qed.

(* escaped(text): a fresh block that holds the escaped text and its terminator; the text is untouched; the run
   is Fine (no access outside a block, no use after the realloc that moves the head) *)
Theorem escaped_refines :
  forall txt g st tr n,
    text_ok txt -> 8 * Z.of_nat (List.length txt) + 8 < 4611686018427387904 -> (List.length txt + 7 <= n)%nat ->
    exists v w',
      run_fun prog_xmlesc n "escaped" [VPtr 0 0] (mkw [OBytes (txt ++ [0])] g st tr) = Fine (v, w') /\
      cstring w' v = Fine (flat_map esc_z txt) /\ cstring w' (VPtr 0 0) = Fine txt /\
      globs w' = g /\ streams w' = st /\ wtrace w' = tr.
Proof.
  intros txt g st tr n Htxt Hlen Hn.
  destruct n as [|n]; [lia|]. destruct n as [|n]; [lia|].
  unfold run_fun, find_fun. cbn [alookup prog_xmlesc String.eqb Ascii.eqb Bool.eqb].
  unfold mk_call at 1. unfold find_fun. cbn [alookup prog_xmlesc String.eqb Ascii.eqb Bool.eqb].
  cbn [bind_params fparams fbody code_escaped].
  srun prog_xmlesc.
  destruct (call_concat_escaped [OBytes (txt ++ [0]); OBytes [0]] txt 1 [] g st tr (S n) eq_refl eq_refl ltac:(lia) Htxt
              ltac:(constructor) ltac:(cbn [List.length]; lia) ltac:(lia)) as [hp2 [h2 [Hrun [H0 [Hh [Hok Hh0]]]]]].
  exists (VPtr h2 0), (mkw hp2 g st tr). cbn [app] in Hh.
  split; [rewrite Hrun; srun prog_xmlesc; reflexivity|].
  split; [apply cstring_block; [exact Hh | exact Hok]|].
  split; [apply cstring_block; [exact H0 | exact Htxt]|].
  repeat split.
Qed.

Lemma esc_z_escape (l : list N) : flat_map esc_z (map Z.of_N l) = map Z.of_N (Xml.escape l).
Proof.
  unfold Xml.escape. induction l as [|c l IH]; [reflexivity|].
  cbn [map flat_map]. rewrite map_app, IH. unfold esc_z at 1. rewrite N2Z.id. reflexivity.
Qed.
