(* Lemmas_Code_Mocks2.v - continuation of Lemmas_Code_Mocks.v: destroy_expectation_if_time_to_die(). *)
From Coq Require Import List ZArith String Bool Lia Arith.
From CgreenVerif Require Import CLite Lemmas_CLite Mocks CodeCheck Lemmas_Code_Mocks.
From CgreenVerif.Gen Require Import Code_mocks.
Import ListNotations.
Local Open Scope string_scope. Local Open Scope list_scope. Local Open Scope Z_scope.

(* ------------------------------------------------------------------------------------------ *)
(* destroy_expectation_if_time_to_die(expectation), for the entry that find_expectation() returns *)
Definition with_ttl (e : mexp) (t : Z) : mexp := mkexp (efn e) (eline e) t (econs e) (encalled e) (entrig e).

Lemma list_set_objs (pre : list mexp) e e' rest tl v :
  list_set (S (List.length pre)) (exp_rec e') (v :: map exp_rec (pre ++ e :: rest) ++ tl) =
  v :: map exp_rec (pre ++ e' :: rest) ++ tl.
Proof.
  cbn [list_set]. f_equal. rewrite !map_app, <- !app_assoc. cbn [map app].
  induction pre as [|x pre IH]; cbn [List.length list_set map app]; [reflexivity|]. rewrite IH. reflexivity.
Qed.

Lemma list_set_ttl (pre : list mexp) e rest tl t :
  list_set (List.length pre)
    (ORec [("function", VLit (fn_name (efn e))); ("test_file", VLit []); ("test_line", VInt (Z.of_nat (eline e)));
           ("time_to_live", VInt t); ("constraints", VInt 0);
           ("number_times_called", VInt (encalled e)); ("times_triggered", VInt (entrig e))])
    (map exp_rec (pre ++ e :: rest) ++ tl) =
  map exp_rec (pre ++ with_ttl e t :: rest) ++ tl.
Proof.
  induction pre as [|x pre IH]; cbn [List.length list_set map app]; [reflexivity|]. rewrite IH. reflexivity.
Qed.

Lemma find_pos_with_ttl f (pre : list mexp) e rest t :
  find_pos f (pre ++ with_ttl e t :: rest) = find_pos f (pre ++ e :: rest).
Proof.
  induction pre as [|x pre IH]; cbn [app find_pos]; [reflexivity|]. rewrite IH. reflexivity.
Qed.

Lemma call_remove_expectation_for :
  forall q f unl tl tr n,
    (List.length q + 1 < n)%nat -> Z.of_nat (List.length q) < 2147483647 ->
    mk_call prog_mocks (cexec prog_mocks n) "remove_expectation_for" [VLit (fn_name f)] (mw unl q tl tr) =
    Fine (VInt 0, match find_pos f q with Some p => mwr unl p q tl tr | None => mw unl q tl tr end).
Proof. exact remove_expectation_for_refines. Qed.

Definition ttl_ok (e : mexp) : Prop := -2147483647 <= ettl e <= 2147483647.

Theorem destroy_if_time_to_die_refines :
  forall pre e rest unl tl tr n,
    (List.length (pre ++ e :: rest) + 3 < n)%nat -> Z.of_nat (List.length (pre ++ e :: rest)) < 2147483647 ->
    ttl_ok e -> find_pos (efn e) (pre ++ e :: rest) = Some (List.length pre) ->
    run_fun prog_mocks n "destroy_expectation_if_time_to_die" [VPtr (S (List.length pre)) 0] (mw unl (pre ++ e :: rest) tl tr) =
    if is_always unl e then Fine (VInt 0, mw unl (pre ++ e :: rest) tl tr)
    else if ettl e - 1 <=? 0
         then Fine (VInt 0, mwr unl (List.length pre) (pre ++ with_ttl e (ettl e - 1) :: rest) tl
                                (("destroy_expectation", [VPtr (S (List.length pre)) 0]) :: tr))
         else Fine (VInt 0, mw unl (pre ++ with_ttl e (ettl e - 1) :: rest) tl tr).
Proof.
  intros pre e rest unl tl tr n Hn Hlen Httl Hfirst.
  destruct n as [|n]; [lia|].
  pose proof (call_is_always_call pre e rest unl tl tr n ltac:(lia)) as Hal.
  unfold run_fun, find_fun. cbn [alookup prog_mocks String.eqb Ascii.eqb Bool.eqb].
  unfold mk_call at 1. unfold find_fun. cbn [alookup prog_mocks String.eqb Ascii.eqb Bool.eqb].
  cbn [bind_params fparams fbody code_destroy_expectation_if_time_to_die].
  srun prog_mocks. rewrite Hal. clear Hal.
  destruct (is_always unl e) eqn:Ha; srun prog_mocks; [reflexivity|].
  unfold mw.
  erewrite get_field_rec by (cbn [heap nth_error]; apply nth_error_objs).
  cbn [alookup String.eqb Ascii.eqb Bool.eqb]. srun prog_mocks.
  rewrite (in_range_I32 (ettl e - 1)) by (unfold ttl_ok in Httl; lia). srun prog_mocks.
  erewrite set_field_rec by (cbn [heap nth_error]; apply nth_error_objs).
  cbn [aset String.eqb Ascii.eqb Bool.eqb heap]. srun prog_mocks.
  rewrite list_set_ttl.
  replace (List.length (pre ++ e :: rest)) with (List.length (pre ++ with_ttl e (ettl e - 1) :: rest))
    by (rewrite !app_length; reflexivity).
  erewrite get_field_rec by (cbn [heap nth_error]; apply nth_error_objs).
  cbn [alookup String.eqb Ascii.eqb Bool.eqb with_ttl ettl]. srun prog_mocks.
  destruct (ettl e - 1 <=? 0) eqn:Hz; srun prog_mocks; [|reflexivity].
  erewrite get_field_rec by (cbn [heap nth_error]; apply nth_error_objs).
  cbn [alookup String.eqb Ascii.eqb Bool.eqb with_ttl efn]. srun prog_mocks.
  match goal with |- context [mk_call prog_mocks (cexec prog_mocks n) "remove_expectation_for" ?a ?w] =>
    change w with (mw unl (pre ++ with_ttl e (ettl e - 1) :: rest) tl tr) end.
  rewrite call_remove_expectation_for
    by (rewrite ?app_length in *; cbn [List.length] in *; lia).
  rewrite find_pos_with_ttl, Hfirst. srun prog_mocks. reflexivity.
Qed.

(* ------------------------------------------------------------------------------------------ *)
(* reading the queue back (CodeCheck.queue_z: per entry its line, time to live, times triggered) *)
Lemma entry_z_at (h0 : obj) (objs : list mexp) tl g s tr i e :
  nth_error objs i = Some e ->
  entry_z (mkw (h0 :: map exp_rec objs ++ tl) g s tr) (VPtr (S i) 0) = [Z.of_nat (eline e); ettl e; entrig e].
Proof.
  intro H. unfold entry_z.
  assert (Hn : nth_error (heap (mkw (h0 :: map exp_rec objs ++ tl) g s tr)) (S i) = Some (exp_rec e)).
  { cbn [heap nth_error]. rewrite nth_error_app1 by (rewrite map_length; apply nth_error_Some; congruence).
    rewrite nth_error_map, H. reflexivity. }
  rewrite !(get_field_rec _ _ _ _ Hn). reflexivity.
Qed.

Lemma entries_z_sel (h0 : obj) (idx : list nat) (objs : list mexp) tl g s tr :
  Forall (fun i => (i < List.length objs)%nat) idx ->
  flat_map (entry_z (mkw (h0 :: map exp_rec objs ++ tl) g s tr)) (map (fun i => VPtr (S i) 0) idx) =
  model_queue_z (map (fun i => nth i objs (mkexp 0 0 0 [] 0 0)) idx).
Proof.
  intro Hall. unfold model_queue_z.
  induction idx as [|i idx IH]; [reflexivity|].
  inversion Hall as [|? ? Hi Hrest]; subst.
  cbn [map flat_map]. rewrite IH by assumption.
  rewrite (entry_z_at _ objs tl g s tr i (nth i objs (mkexp 0 0 0 [] 0 0))) by (apply nth_error_nth'; exact Hi).
  reflexivity.
Qed.

Lemma queue_z_sel (idx : list nat) (objs : list mexp) tl g s tr :
  Forall (fun i => (i < List.length objs)%nat) idx ->
  queue_z (mkw (OVec (map (fun i => VPtr (S i) 0) idx) :: map exp_rec objs ++ tl) g s tr) =
  model_queue_z (map (fun i => nth i objs (mkexp 0 0 0 [] 0 0)) idx).
Proof.
  intro Hall. unfold queue_z.
  rewrite (get_vec_vec _ 0 (map (fun i => VPtr (S i) 0) idx)) by reflexivity.
  apply entries_z_sel. exact Hall.
Qed.

Lemma map_nth_seq {A} (l : list A) d : map (fun i => nth i l d) (seq 0 (List.length l)) = l.
Proof.
  induction l as [|x l IH]; [reflexivity|]. cbn [List.length seq map nth]. f_equal.
  rewrite <- seq_shift, map_map. exact IH.
Qed.

Lemma queue_z_mw unl q tl tr : queue_z (mw unl q tl tr) = model_queue_z q.
Proof.
  unfold mw, refs. rewrite queue_z_sel.
  - rewrite map_nth_seq. reflexivity.
  - apply Forall_forall. intros i Hi. apply in_seq in Hi. lia.
Qed.

Lemma map_remove_nth {A B} (f : A -> B) k (l : list A) : map f (remove_nth k l) = remove_nth k (map f l).
Proof. revert k. induction l as [|x l IH]; intros [|k]; cbn [remove_nth map]; try reflexivity. rewrite IH. reflexivity. Qed.

Lemma remove_nth_in {A} k (l : list A) x : In x (remove_nth k l) -> In x l.
Proof.
  revert k. induction l as [|y l IH]; intros [|k] H; cbn [remove_nth] in H; try contradiction.
  - right. exact H.
  - destruct H as [<-|H]; [left; reflexivity|right; exact (IH k H)].
Qed.

Lemma queue_z_mwr unl p q tl tr : queue_z (mwr unl p q tl tr) = model_queue_z (remove_nth p q).
Proof.
  unfold mwr. rewrite remove_nth_refs. rewrite queue_z_sel.
  - rewrite map_remove_nth, map_nth_seq. reflexivity.
  - apply Forall_forall. intros i Hi. apply remove_nth_in in Hi. apply in_seq in Hi. lia.
Qed.

(* the queue after destroy_expectation_if_time_to_die() on the entry find_expectation() returned is
   Mocks.after_use's: an always-expectation stays, any other loses one call and leaves when none is left *)
Lemma update_first_at f (pre : list mexp) e e' rest :
  find_pos f (pre ++ e :: rest) = Some (List.length pre) -> update_first (pre ++ e :: rest) f e' = pre ++ e' :: rest.
Proof.
  induction pre as [|x pre IH]; cbn [app find_pos update_first List.length]; intro H.
  - destruct (for_fn f e); [reflexivity|]. destruct (find_pos f rest); discriminate.
  - destruct (for_fn f x); [discriminate|].
    destruct (find_pos f (pre ++ e :: rest)) as [p|] eqn:Hp; [|discriminate].
    injection H as ->. rewrite (IH eq_refl). reflexivity.
Qed.

Lemma remove_nth_at {A} (pre : list A) e rest : remove_nth (List.length pre) (pre ++ e :: rest) = pre ++ rest.
Proof. induction pre as [|x pre IH]; cbn [app List.length remove_nth]; [reflexivity|]. rewrite IH. reflexivity. Qed.

Theorem destroy_if_time_to_die_is_after_use :
  forall pre e rest unl tl tr n,
    (List.length (pre ++ e :: rest) + 3 < n)%nat -> Z.of_nat (List.length (pre ++ e :: rest)) < 2147483647 ->
    ttl_ok e -> find_pos (efn e) (pre ++ e :: rest) = Some (List.length pre) ->
    exists w',
      run_fun prog_mocks n "destroy_expectation_if_time_to_die" [VPtr (S (List.length pre)) 0]
              (mw unl (pre ++ e :: rest) tl tr) = Fine (VInt 0, w') /\
      queue_z w' = model_queue_z (after_use unl (pre ++ e :: rest) (efn e) e).
Proof.
  intros pre e rest unl tl tr n Hn Hlen Httl Hfirst.
  rewrite (destroy_if_time_to_die_refines pre e rest unl tl tr n Hn Hlen Httl Hfirst).
  unfold after_use.
  destruct (is_always unl e).
  - eexists. split; [reflexivity|]. rewrite queue_z_mw, (update_first_at _ _ _ _ _ Hfirst). destruct e; reflexivity.
  - cbn [ettl]. destruct (ettl e - 1 <=? 0).
    + eexists. split; [reflexivity|]. rewrite queue_z_mwr.
      rewrite (remove_first_is_remove_nth _ _ _ Hfirst), !remove_nth_at. reflexivity.
    + eexists. split; [reflexivity|]. rewrite queue_z_mw, (update_first_at _ _ _ _ _ Hfirst). reflexivity.
Qed.
