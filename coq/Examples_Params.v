(* Examples_Params.v — non-vacuity examples for C16 and the witnesses of the defects that were
   repaired (fix: ac375b9, 2635391): the tokenizer without the whitespace pass, and the
   double marker that only looked at the prefix. *)
From Coq Require Import List NArith ZArith Bool String Ascii.
From CgreenVerif Require Import Params Lemmas_Params.
Import ListNotations.
Local Open Scope N_scope.

Definition bytes (s : string) : list N := map (fun a => N_of_ascii a) (list_ascii_of_string s).

(* mock(a, box_double( d ), ab) *)
Definition ex_first := mkarg (bytes "a") false [] [] [].
Definition ex_rest := [(mksep [] [32], mkarg (bytes "d") true [] [32] [32]); (mksep [32] [10; 32], mkarg (bytes "ab") false [] [] [])].

Example ex_is_wellformed : wf_arg ex_first /\ wf_rest ex_rest.
Proof.
  split; [|repeat constructor]; unfold wf_arg, wf_ident, ws, idchar; cbn;
    repeat split; try discriminate; repeat constructor; try discriminate.
Qed.

Example ex_text : render ex_first ex_rest = bytes "a, box_double( d ) ,
 ab".
Proof. vm_compute. reflexivity. Qed.

Example ex_names : names (render ex_first ex_rest) = [bytes "a"; bytes "d"; bytes "ab"] /\
                   markers (render ex_first ex_rest) = [false; true; false] /\
                   count_params (render ex_first ex_rest) = 3%nat.
Proof. vm_compute. repeat split. Qed.

Example ex_binding : bind_clause (render ex_first ex_rest) [10; 20; 30]%Z (bytes "ab") = Applied [30%Z] /\
                     bind_clause (render ex_first ex_rest) [10; 20; 30]%Z (bytes "a") = Applied [10%Z] /\
                     bind_clause (render ex_first ex_rest) [10; 20; 30]%Z (bytes "b") = NotFound.
Proof. vm_compute. repeat split. Qed.

(* the tokenizer as it stood before the repair: no whitespace pass *)
Definition names_before_fix (s : list N) : list (list N) :=
  map (fun t => strip_fn (strip_fn t BOX) DD) (toks s [] ++ (if ends_with_sep s then [[]] else [])).
Example inner_blanks_refuted :
  names_before_fix (bytes "a, box_double( d )") = [bytes "a"; bytes "box_double("; bytes "d"; bytes ")"] /\
  count_params (bytes "a, box_double( d )") = 2%nat.
Proof. vm_compute. split; reflexivity. Qed.

(* the marker as it stood before the repair: any name beginning with box_double *)
Example prefix_marker_refuted :
  begins_with (bytes "box_double_x") BOX = true /\ markers (bytes "b, box_double_x") = [false; false].
Proof. vm_compute. split; reflexivity. Qed.
