(* Lemmas_Constraints.v — every comparator, as translated from src/constraint.c and
   src/string_comparison.c (Gen/Facts.v), decides exactly its documented relation. *)
From Coq Require Import List ZArith NArith Bool Lia.
From CgreenVerif Require Import Defs CStr.
From CgreenVerif.Gen Require Import Facts.
Import ListNotations.
Local Open Scope Z_scope.

(* ---- pointer-sized integers ---- *)
Lemma want_value_iff a e : compare_want_value_src a e = true <-> a = e.
Proof. unfold compare_want_value_src. rewrite Z.eqb_eq. split; congruence. Qed.

Lemma do_not_want_value_iff a e : compare_do_not_want_value_src a e = true <-> a <> e.
Proof.
  unfold compare_do_not_want_value_src. rewrite negb_true_iff, <- not_true_iff_false, want_value_iff. tauto.
Qed.

Lemma want_greater_iff a e : compare_want_greater_value_src a e = true <-> a > e.
Proof. unfold compare_want_greater_value_src. rewrite Z.gtb_lt. lia. Qed.

Lemma want_lesser_iff a e : compare_want_lesser_value_src a e = true <-> a < e.
Proof. unfold compare_want_lesser_value_src. apply Z.ltb_lt. Qed.

Lemma value_negation a e : compare_do_not_want_value_src a e = negb (compare_want_value_src a e).
Proof. reflexivity. Qed.

Lemma is_null_iff a : is_null_src a = true <-> a = 0.
Proof. unfold is_null_src. apply want_value_iff. Qed.
Lemma is_non_null_iff a : is_non_null_src a = true <-> a <> 0.
Proof. unfold is_non_null_src. apply do_not_want_value_iff. Qed.
Lemma is_true_iff a : is_true_src a = true <-> a <> 0.
Proof. unfold is_true_src. apply do_not_want_value_iff. Qed.
Lemma is_false_iff a : is_false_src a = true <-> a = 0.
Proof. unfold is_false_src. apply want_value_iff. Qed.

(* ---- strings ---- *)
Lemma strings_are_equal_iff a e : strings_are_equal_src (Some a) (Some e) = true <-> a = e.
Proof. unfold strings_are_equal_src. cbn [is_null andb orb strcmp_m]. rewrite Z.eqb_eq. apply cmp_bytes_eq. Qed.

Lemma strings_are_equal_null :
  strings_are_equal_src None None = true /\
  (forall s, strings_are_equal_src None (Some s) = false) /\
  (forall s, strings_are_equal_src (Some s) None = false).
Proof. repeat split. Qed.

Lemma want_string_iff a e : compare_want_string_src (Some a) (Some e) = true <-> a = e.
Proof. unfold compare_want_string_src. rewrite strings_are_equal_iff. split; congruence. Qed.

Lemma string_contains_iff a e :
  string_contains_src (Some a) (Some e) = true <-> exists p t, a = p ++ e ++ t.
Proof.
  unfold string_contains_src. cbn [is_null orb strstr_m]. rewrite <- find_sub_iff.
  destruct (find_sub a e) as [i|]; cbn; split; try discriminate; try (intros [j H]; discriminate); eauto.
Qed.

Lemma string_contains_null s : string_contains_src None s = false /\ string_contains_src s None = false.
Proof. destruct s; split; reflexivity. Qed.

Lemma want_substring_iff a e :
  compare_want_substring_src (Some a) (Some e) = true <-> exists p t, a = p ++ e ++ t.
Proof. unfold compare_want_substring_src. apply string_contains_iff. Qed.

Lemma want_beginning_iff a e :
  compare_want_beginning_of_string_src (Some a) (Some e) = true <-> exists t, a = e ++ t.
Proof.
  unfold compare_want_beginning_of_string_src. cbn [strpos_m]. rewrite <- find_sub_zero.
  destruct (find_sub a e) as [i|]; rewrite Z.eqb_eq; split; try discriminate; try lia.
  - intros H. f_equal. lia.
  - intros H. inversion H. reflexivity.
Qed.

Lemma skipn_suffix {A} (a e : list A) :
  (length e <= length a)%nat ->
  (skipn (length a - length e) a = e <-> exists p, a = p ++ e).
Proof.
  intros Hle. split.
  - intros H. exists (firstn (length a - length e) a).
    transitivity (firstn (length a - length e) a ++ skipn (length a - length e) a);
      [symmetry; apply firstn_skipn | rewrite H; reflexivity].
  - intros [p ->]. rewrite app_length. replace (length p + length e - length e)%nat with (length p) by lia.
    rewrite skipn_app, skipn_all, Nat.sub_diag. reflexivity.
Qed.

Lemma want_end_iff a e :
  Z.of_nat (length a) < 2147483648 -> Z.of_nat (length e) < 2147483648 ->
  (compare_want_end_of_string_src (Some a) (Some e) = true <-> exists p, a = p ++ e).
Proof.
  intros Ha He. unfold compare_want_end_of_string_src. cbn [strlen_z].
  rewrite (wrap_s32_id (Z.of_nat (length e))) by lia.
  rewrite (wrap_s32_id (Z.of_nat (length a) - Z.of_nat (length e))) by lia.
  destruct (Z.of_nat (length a) - Z.of_nat (length e) <? 0) eqn:Hneg.
  - apply Z.ltb_lt in Hneg. split; [discriminate|]. intros [p ->]. rewrite app_length in Hneg. lia.
  - apply Z.ltb_ge in Hneg. cbn [str_from strcmp_m]. rewrite Z.eqb_eq, cmp_bytes_eq.
    replace (Z.to_nat (Z.of_nat (length a) - Z.of_nat (length e))) with (length a - length e)%nat by lia.
    apply skipn_suffix. lia.
Qed.

(* each negated form is the exact complement of its positive form, NULL operands included *)
Lemma string_negations a e :
  compare_do_not_want_string_src a e = negb (compare_want_string_src a e) /\
  compare_do_not_want_substring_src a e = negb (compare_want_substring_src a e) /\
  compare_do_not_want_beginning_of_string_src a e = negb (compare_want_beginning_of_string_src a e) /\
  compare_do_not_want_end_of_string_src a e = negb (compare_want_end_of_string_src a e).
Proof. repeat split. Qed.

(* ---- memory blocks (hand-written model of compare_want_contents: NULL check, then
        memcmp over the given size; validated by the correspondence run) ---- *)
Definition want_contents_m (actual_is_null : bool) (a e : list N) (n : nat) : bool :=
  if actual_is_null then false else (memcmp_m e a n =? 0).
Definition do_not_want_contents_m (actual_is_null : bool) (a e : list N) (n : nat) : bool :=
  if actual_is_null then false else negb (want_contents_m actual_is_null a e n).

Lemma want_contents_iff a e n : want_contents_m false a e n = true <-> firstn n a = firstn n e.
Proof.
  unfold want_contents_m, memcmp_m. rewrite Z.eqb_eq, cmp_bytes_eq. split; congruence.
Qed.

Lemma contents_negation a e n : do_not_want_contents_m false a e n = negb (want_contents_m false a e n).
Proof. reflexivity. Qed.

(* a NULL actual is rejected by both polarities (it is reported as a validation failure) *)
Lemma contents_null a e n : want_contents_m true a e n = false /\ do_not_want_contents_m true a e n = false.
Proof. split; reflexivity. Qed.

(* ---- legacy assertions ---- *)
Lemma legacy_functions_ok :
  (forall a e, assert_equal_src a e = true <-> a = e) /\
  (forall a e, assert_not_equal_src a e = negb (assert_equal_src a e)) /\
  (forall a e, assert_string_equal_src (Some a) (Some e) = true <-> a = e) /\
  (forall a e, assert_string_not_equal_src a e = negb (assert_string_equal_src a e)).
Proof.
  repeat split; try (unfold assert_equal_src; rewrite Z.eqb_eq; tauto);
    try (apply strings_are_equal_iff).
Qed.

Lemma legacy_polarity_ok :
  legacy_with_message = [(0, false); (0, true); (1, false); (1, true); (2, false); (2, true); (3, false); (3, true)]%nat.
Proof. reflexivity. Qed.
