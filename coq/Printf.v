(* Printf.v — executable model of the printf-family conversions cgreen's messages use, the
   percent-doubling helper of src/message_formatting.c, and the failure message as
   literal_failure_message_for()/failure_message_for() assemble it.  No proofs. *)
From Coq Require Import List ZArith NArith Bool Lia.
From CgreenVerif Require Import Defs CStr.
Import ListNotations.
Local Open Scope N_scope.

Inductive parg := PInt (z : Z) | PStr (s : str).
Inductive pres := POk (out : str) | PMissingArg | PBadConv.

Definition pcons (c : N) (r : pres) : pres := match r with POk o => POk (c :: o) | e => e end.
Definition papp (s : str) (r : pres) : pres := match r with POk o => POk (s ++ o) | e => e end.

(* decimal and hexadecimal numerals *)
Definition digit (n : N) : N := if n <? 10 then 48 + n else 87 + n.     (* 0-9 a-f *)
Fixpoint numeral_fuel (fuel : nat) (base n : N) (acc : str) : str :=
  match fuel with
  | O => acc
  | S f => let acc' := digit (n mod base) :: acc in
           if n / base =? 0 then acc' else numeral_fuel f base (n / base) acc'
  end.
Definition numeral (base n : N) : str := numeral_fuel 70 base n [].
Definition dec (z : Z) : str :=
  match z with
  | Z0 => [48]
  | Zpos p => numeral 10 (Npos p)
  | Zneg p => 45 :: numeral 10 (Npos p)
  end.
Definition hex64 (z : Z) : str := numeral 16 (Z.to_N (z mod 18446744073709551616)).
Definition hex32 (z : Z) : str := numeral 16 (Z.to_N (z mod 4294967296)).
Definition pad2 (s : str) : str := match s with [c] => [48; c] | _ => s end.

(* parser state after a '%' *)
Inductive pst := SNorm | SPct | SPctL | SPct0 | SPct02.

Fixpoint pf (st : pst) (fmt : str) (args : list parg) : pres :=
  match fmt with
  | [] => match st with SNorm => POk [] | _ => PBadConv end
  | c :: fmt' =>
      match st with
      | SNorm => if c =? 37 then pf SPct fmt' args else pcons c (pf SNorm fmt' args)
      | SPct =>
          if c =? 37 then pcons 37 (pf SNorm fmt' args)
          else if c =? 115 then                                       (* %s *)
            match args with PStr s :: r => papp s (pf SNorm fmt' r) | [] => PMissingArg | _ => PBadConv end
          else if c =? 100 then                                       (* %d reads 32 bits *)
            match args with PInt z :: r => papp (dec (wrap_s32 z)) (pf SNorm fmt' r) | [] => PMissingArg | _ => PBadConv end
          else if c =? 120 then                                       (* %x reads 32 bits *)
            match args with PInt z :: r => papp (hex32 z) (pf SNorm fmt' r) | [] => PMissingArg | _ => PBadConv end
          else if c =? 108 then pf SPctL fmt' args                    (* %l.. *)
          else if c =? 48 then pf SPct0 fmt' args                     (* %0.. *)
          else PBadConv
      | SPctL =>
          if c =? 100 then
            match args with PInt z :: r => papp (dec z) (pf SNorm fmt' r) | [] => PMissingArg | _ => PBadConv end
          else if c =? 120 then
            match args with PInt z :: r => papp (hex64 z) (pf SNorm fmt' r) | [] => PMissingArg | _ => PBadConv end
          else PBadConv
      | SPct0 => if c =? 50 then pf SPct02 fmt' args else PBadConv
      | SPct02 =>
          if c =? 120 then
            match args with PInt z :: r => papp (pad2 (hex32 z)) (pf SNorm fmt' r) | [] => PMissingArg | _ => PBadConv end
          else PBadConv
      end
  end.

Definition printf_m (fmt : str) (args : list parg) : pres := pf SNorm fmt args.

(* double_all_percent_signs_in() *)
Fixpoint double_percent (s : str) : str :=
  match s with
  | [] => []
  | c :: s' => if c =? 37 then 37 :: 37 :: double_percent s' else c :: double_percent s'
  end.

(* ---------------------------------------------------------------------------------- *)
(* the failure message *)
Definition out_of (r : pres) : str := match r with POk o => o | _ => [] end.

Definition s_true : str := [116; 114; 117; 101].
Definition s_false : str := [102; 97; 108; 115; 101].
Definition s_not_ : str := [110; 111; 116; 32].
Definition s_equal_ : str := [101; 113; 117; 97; 108; 32].

Definition str_eqb (a b : str) : bool := (cmp_bytes a b =? 0)%Z.
Definition has_sub (h n : str) : bool := match find_sub h n with Some _ => true | None => false end.

(* operands of an assertion *)
Inductive operands :=
| OInts (a e : Z)                    (* value constraints: actual and expected values *)
| OStrs (a e : str).                 (* string constraints: actual and expected contents *)

Section Message.
Variables fmt_constraint fmt_expected fmt_actual_string : str.     (* from message_formatting.c *)

Definition pbind (r : pres) (k : str -> pres) : pres := match r with POk o => k o | e => e end.

(* literal_failure_message_for(): row = (name, actual_value_message, expected_value_message) *)
Definition literal_message (row : str * str * str) (actual_text expected_text : str) (ops : operands) : pres :=
  let '(name, avm, evm) := row in
  pbind (printf_m fmt_constraint [PStr actual_text; PStr name]) (fun head =>
  match evm with
  | [] => POk head                                               (* no_expected_value_in() *)
  | _ =>
      pbind (printf_m fmt_expected [PStr expected_text]) (fun exp_name =>
      let head2 := head ++ [32] ++ exp_name in
      let not_necessary :=
        match ops with
        | OInts a _ => str_eqb actual_text (dec a)
        | OStrs _ _ => false
        end || str_eqb actual_text s_true || str_eqb actual_text s_false in
      if not_necessary then POk head2
      else
        match ops with
        | OStrs a e =>
            pbind (printf_m fmt_actual_string [PStr a]) (fun act =>
            if negb (has_sub name s_not_) || negb (has_sub name s_equal_)
            then pbind (printf_m evm [PStr e]) (fun ex => POk (head2 ++ act ++ [10] ++ ex))
            else POk (head2 ++ act))
        | OInts a e =>
            pbind (printf_m avm [PInt a]) (fun act =>
            if has_sub name s_not_ then POk (head2 ++ act)
            else pbind (printf_m evm [PInt e]) (fun ex => POk (head2 ++ act ++ [10] ++ ex)))
        end)
  end).

(* failure_message_for(): the literal message with every '%' doubled *)
Definition failure_message (row : str * str * str) (actual_text expected_text : str) (ops : operands) : pres :=
  match literal_message row actual_text expected_text ops with
  | POk m => POk (double_percent m)
  | e => e
  end.

(* what the reporter shows: the message used as a format with no arguments *)
Definition shown (row : str * str * str) (actual_text expected_text : str) (ops : operands) : pres :=
  match failure_message row actual_text expected_text ops with
  | POk m => printf_m m []
  | e => e
  end.
End Message.
