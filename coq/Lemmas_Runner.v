(* Lemmas_Runner.v — the concrete runner (Runner.v) refines the specification
   (Spec_Runner.v): all proofs about the runner / result protocol / reporter base. *)
From Coq Require Import List ZArith Bool Lia.
From CgreenVerif Require Import Defs Runner Spec_Runner.
Import ListNotations.
Local Open Scope Z_scope.

Arguments Z.add : simpl never.
Arguments Z.sub : simpl never.
Arguments Z.eqb : simpl never.
Arguments Z.leb : simpl never.

(* ------------------------------------------------------------------------------------ *)
(* counters *)
Lemma cnt_eq a b :
  passes a = passes b -> failures a = failures b -> skips a = skips b ->
  exceptions a = exceptions b -> a = b.
Proof.
  destruct a as [a1 a2 a3 a4], b as [b1 b2 b3 b4]; cbn [passes failures skips exceptions];
  intros; subst; reflexivity.
Qed.

Ltac cnt := apply cnt_eq; unfold cadd, csub, czero; cbn [passes failures skips exceptions]; lia.

Lemma cadd_zero_r a : cadd a czero = a.  Proof. cnt. Qed.
Lemma cadd_zero_l a : cadd czero a = a.  Proof. cnt. Qed.
Lemma cadd_assoc a b d : cadd (cadd a b) d = cadd a (cadd b d).  Proof. cnt. Qed.
Lemma cadd_comm a b : cadd a b = cadd b a.  Proof. cnt. Qed.
Lemma csub_cadd a b : csub (cadd a b) a = b.  Proof. cnt. Qed.

(* ------------------------------------------------------------------------------------ *)
(* exec *)
Lemma exec_app f l1 l2 :
  exec f (l1 ++ l2) =
  match exec f l1 with
  | (f1, m1, Some d) => (f1, m1, Some d)
  | (f1, m1, None) => match exec f1 l2 with (f2, m2, d2) => (f2, m1 ++ m2, d2) end
  end.
Proof.
  revert f; induction l1 as [|a l1 IH]; intros f; cbn [app exec].
  - destruct (exec f l2) as [[f2 m2] d2]; reflexivity.
  - destruct (step f a) as [[f1 m1] [d|]]; [reflexivity|].
    rewrite IH. destruct (exec f1 l1) as [[f2 m2] [d|]]; [reflexivity|].
    destruct (exec f2 l2) as [[f3 m3] d3]. rewrite app_assoc. reflexivity.
Qed.

Definition is_complete (a : act) : bool := match a with AComplete => true | _ => false end.
Definition no_compl (m : list msg) : Prop := ~ In MCompletion m.

Lemma no_compl_app m1 m2 : no_compl m1 -> no_compl m2 -> no_compl (m1 ++ m2).
Proof. unfold no_compl; intros H1 H2 H; apply in_app_or in H; tauto. Qed.

Lemma step_no_compl f a : is_complete a = false -> no_compl (snd (fst (step f a))).
Proof.
  unfold no_compl; destruct a; cbn; intros Hc H; try discriminate; try tauto;
    repeat match goal with
           | H : _ \/ _ |- _ => destruct H
           | H : msg_of ?b = MCompletion |- _ => destruct b; discriminate
           | H : MFail = MCompletion |- _ => discriminate
           | H : MSkipped = MCompletion |- _ => discriminate
           | H : False |- _ => contradiction
           end.
  - destruct (mode f); cbn in H; intuition discriminate.
  - apply repeat_spec in H; discriminate.
Qed.

Lemma exec_no_compl l : forall f,
  forallb (fun a => negb (is_complete a)) l = true -> no_compl (snd (fst (exec f l))).
Proof.
  induction l as [|a l IH]; intros f H; cbn [exec].
  - cbn. unfold no_compl; tauto.
  - cbn [forallb] in H. apply andb_prop in H; destruct H as [Ha Hl].
    apply negb_true_iff in Ha.
    pose proof (step_no_compl f a Ha) as Hs.
    destruct (step f a) as [[f1 m1] [d|]]; cbn [fst snd] in *; [exact Hs|].
    specialize (IH f1 Hl). destruct (exec f1 l) as [[f2 m2] d2]; cbn [fst snd] in *.
    apply no_compl_app; assumption.
Qed.

(* user code cannot send the end-of-test marker or run the framework's own steps *)
Definition user_act (a : act) : bool :=
  match a with AReset | ATally | AComplete => false | _ => true end.
Definition wf_test (t : test) : Prop :=
  forallb user_act (tsetup t) = true /\ forallb user_act (tbody t) = true /\
  forallb user_act (tteardown t) = true.

Lemma user_not_complete l : forallb user_act l = true -> forallb (fun a => negb (is_complete a)) l = true.
Proof.
  induction l as [|a l IH]; cbn [forallb]; [reflexivity|].
  intros H; apply andb_prop in H; destruct H as [Ha Hl]. rewrite (IH Hl), andb_true_r.
  destruct a; cbn in *; congruence.
Qed.

Lemma child_steps_no_complete s t :
  wf_test t -> forallb (fun a => negb (is_complete a)) (child_steps s t) = true.
Proof.
  intros (Hs & Hb & Ht). unfold child_steps, setup_steps, teardown_steps.
  rewrite !forallb_app. cbn [forallb is_complete negb andb].
  apply user_not_complete in Hs, Hb, Ht.
  destruct (s_has_setup s), (tctx_setup t), (s_has_teardown s), (tctx_teardown t);
    cbn [forallb is_complete negb andb]; rewrite ?Hs, ?Hb, ?Ht; reflexivity.
Qed.

Lemma firstn_forallb {A} (P : A -> bool) k l : forallb P l = true -> forallb P (firstn k l) = true.
Proof.
  revert k; induction l as [|a l IH]; intros [|k] H; cbn [firstn forallb] in *; try reflexivity.
  apply andb_prop in H; destruct H as [Ha Hl]. rewrite Ha, (IH k Hl). reflexivity.
Qed.

(* a test that reaches its end has sent its records followed by exactly one completion *)
Lemma exec_completes s t f f' m :
  wf_test t -> exec f (test_steps s t) = (f', m, None) ->
  exists m', m = m' ++ [MCompletion] /\ no_compl m' /\ tkill t = None.
Proof.
  intros Hwf H. unfold test_steps in H. destruct (tkill t) as [[k d]|] eqn:Hk.
  - (* a killed test always dies *)
    rewrite exec_app in H. destruct (exec f (firstn k (full_steps s t))) as [[f1 m1] [d1|]]; [discriminate|].
    cbn in H. discriminate.
  - unfold full_steps in H. rewrite exec_app in H.
    pose proof (exec_no_compl (child_steps s t) f (child_steps_no_complete s t Hwf)) as Hn.
    destruct (exec f (child_steps s t)) as [[f1 m1] [d1|]]; [discriminate|].
    cbn in H. inversion H; subst. exists m1. cbn [fst snd] in Hn. auto.
Qed.

Lemma triple_eq {A B C} (a : A) (b b' : B) (c c' : C) : b = b' -> c = c' -> (a, b, c) = (a, b', c').
Proof. intros; subst; reflexivity. Qed.

(* ------------------------------------------------------------------------------------ *)
(* read_results *)
Definition skip_cnt (sk : bool) (m : list msg) : cnt :=
  mkcnt 0 0 (if negb sk && has_skip m then 1 else 0) 0.

Lemma has_skip_cons x m :
  has_skip (x :: m) = (match x with MSkipped => true | _ => false end) || has_skip m.
Proof. reflexivity. Qed.

Lemma count_msgs_cons x m :
  count_msgs (x :: m) =
  match x with
  | MPass => cadd (mkcnt 1 0 0 0) (count_msgs m)
  | MFail => cadd (mkcnt 0 1 0 0) (count_msgs m)
  | MException => cadd (mkcnt 0 0 0 1) (count_msgs m)
  | _ => count_msgs m
  end.
Proof. reflexivity. Qed.

Lemma read_results_app m : forall rest k sk,
  no_compl m ->
  read_results (m ++ MCompletion :: rest) k sk =
  (rest, cadd k (cadd (count_msgs m) (skip_cnt sk m)), if sk || has_skip m then Skipped else Received).
Proof.
  induction m as [|x m IH]; intros rest k sk Hn.
  - unfold skip_cnt. cbn [app read_results count_msgs fold_right has_skip existsb].
    rewrite orb_false_r, andb_false_r. apply triple_eq; [cnt | reflexivity].
  - assert (Hn' : no_compl m) by (unfold no_compl in *; cbn in Hn; tauto).
    destruct x; cbn [app read_results];
      try (rewrite IH by exact Hn'; unfold skip_cnt; rewrite !has_skip_cons, count_msgs_cons;
           destruct sk, (has_skip m); cbn [negb andb orb]; (apply triple_eq; [cnt | reflexivity])).
    exfalso; apply Hn; left; reflexivity.
Qed.

Lemma read_results_nocompl m : forall k sk,
  no_compl m ->
  read_results m k sk =
  ([], cadd k (cadd (count_msgs m) (skip_cnt sk m)), if sk || has_skip m then Skipped else NotReceived).
Proof.
  induction m as [|x m IH]; intros k sk Hn.
  - unfold skip_cnt. cbn [read_results count_msgs fold_right has_skip existsb].
    rewrite orb_false_r, andb_false_r. apply triple_eq; [cnt | reflexivity].
  - assert (Hn' : no_compl m) by (unfold no_compl in *; cbn in Hn; tauto).
    destruct x; cbn [read_results];
      try (rewrite IH by exact Hn'; unfold skip_cnt; rewrite !has_skip_cons, count_msgs_cons;
           destruct sk, (has_skip m); cbn [negb andb orb]; (apply triple_eq; [cnt | reflexivity])).
    exfalso; apply Hn; left; reflexivity.
Qed.

(* ------------------------------------------------------------------------------------ *)
(* finish_test on a pipe that holds exactly one test's records *)
Definition credit (m : list msg) : cnt := cadd (count_msgs m) (skip_cnt false m).

Lemma clean_csub a b :
  ((failures (csub (cadd a b) a) =? 0) && (exceptions (csub (cadd a b) a) =? 0)) = clean b.
Proof. rewrite csub_cadd. reflexivity. Qed.

Lemma finish_test_completed t sig p m' path :
  no_compl m' -> pipe p = m' ++ [MCompletion] -> crumb p = t :: path ->
  finish_test t sig p =
  mkp (cadd (c p) (credit m')) (tot p) path [] (pfw p)
      (ETestDone t (credit m') (clean (credit m')) ::
       (if has_skip m' then [ESkipShown (t :: path)] else []) ++ out p).
Proof.
  intros Hn Hp Hc. destruct p as [c0 tot0 cr0 pipe0 fw0 out0]; cbn [pipe crumb c tot pfw out] in *; subst.
  unfold finish_test, base_finish_test. cbn [pipe c].
  rewrite (read_results_app m' [] c0 false Hn). cbn [orb].
  fold (credit m').
  destruct (has_skip m'); unfold set_c, set_pipe, emit, pop; cbn [c tot crumb pipe pfw out tl app];
    rewrite csub_cadd; reflexivity.
Qed.

Lemma finish_test_nocompl t sig p m path :
  no_compl m -> pipe p = m -> crumb p = t :: path ->
  finish_test t sig p =
  mkp (cadd (c p) (cadd (credit m) (if has_skip m then czero else mkcnt 0 0 0 1))) (tot p) path [] (pfw p)
      (ETestDone t (cadd (credit m) (if has_skip m then czero else mkcnt 0 0 0 1))
                 (clean (cadd (credit m) (if has_skip m then czero else mkcnt 0 0 0 1))) ::
       (if has_skip m then ESkipShown (t :: path) else EIncomplete (t :: path) sig) :: out p).
Proof.
  intros Hn Hp Hc. destruct p as [c0 tot0 cr0 pipe0 fw0 out0]; cbn [pipe crumb c tot pfw out] in *; subst.
  unfold finish_test, base_finish_test. cbn [pipe c].
  rewrite (read_results_nocompl m c0 false Hn). cbn [orb].
  fold (credit m).
  destruct (has_skip m); unfold set_c, set_pipe, emit, pop; cbn [c tot crumb pipe pfw out tl app].
  - rewrite cadd_zero_r, csub_cadd. reflexivity.
  - rewrite cadd_assoc, csub_cadd. reflexivity.
Qed.

(* ------------------------------------------------------------------------------------ *)
(* one forked test: the parent credits exactly the test's own results *)
Lemma count_msgs_app m1 m2 : count_msgs (m1 ++ m2) = cadd (count_msgs m1) (count_msgs m2).
Proof.
  induction m1 as [|x m1 IH]; [cbn [app]; rewrite cadd_zero_l; reflexivity|].
  cbn [app]. rewrite !count_msgs_cons, IH. destruct x; try reflexivity; cnt.
Qed.

Lemma has_skip_app m1 m2 : has_skip (m1 ++ m2) = has_skip m1 || has_skip m2.
Proof. unfold has_skip. apply existsb_app. Qed.

Lemma count_msgs_skips m : skips (count_msgs m) = 0.
Proof.
  induction m as [|x m IH]; [reflexivity|]. rewrite count_msgs_cons.
  destruct x; unfold cadd; cbn [skips]; lia.
Qed.

(* the outcomes the parent can classify: a process that ended abnormally sent neither
   `skipped` nor the completion notice; one that left through exit() after its completion
   notice looks like (and is) a completed test *)
Definition regular (s : suiteinfo) (t : test) : Prop :=
  match own_death s t with
  | Some _ =>
      if abnormal (own_msgs s t) (own_death s t)
      then has_skip (own_msgs s t) = false /\ no_compl (own_msgs s t)
      else exists m', own_msgs s t = m' ++ [MCompletion] /\ no_compl m'
  | None => True
  end.

Definition fits (cap : nat) (s : suiteinfo) (t : test) : Prop :=
  (length (own_msgs s t) <= cap)%nat.

Lemma deliver_fits cap m : (length m <= cap)%nat -> deliver cap [] m = (m, None).
Proof.
  intros H. unfold deliver. cbn [length app]. rewrite Nat.sub_0_r.
  apply Nat.leb_le in H. rewrite H. reflexivity.
Qed.

Lemma own_eq s t :
  own s t =
  if tskip t then mkcnt 0 0 1 0
  else let k := count_msgs (own_msgs s t) in
       mkcnt (passes k) (failures k) (if has_skip (own_msgs s t) then 1 else 0)
             (exceptions k + (if abnormal (own_msgs s t) (own_death s t) then 1 else 0)).
Proof.
  unfold own, own_msgs, own_death. destruct (tskip t); [reflexivity|].
  destruct (exec fw_init (test_steps s t)) as [[f m] d]. reflexivity.
Qed.

(* the first step of every test, AReset, makes the outcome independent of what earlier tests
   left in the framework's static variables; only user memory (glob) can be seen *)
Lemma test_steps_head s t :
  (exists rest, test_steps s t = AReset :: rest) \/ (exists d, test_steps s t = [Die d]).
Proof.
  unfold test_steps, full_steps, child_steps. destruct (tkill t) as [[k d]|].
  - destruct k as [|k]; [right; exists d; reflexivity|].
    left. cbn [app firstn]. eexists; reflexivity.
  - left. cbn [app]. eexists; reflexivity.
Qed.

Lemma exec_reset_irrelevant f g l : glob f = glob g -> exec f (AReset :: l) = exec g (AReset :: l).
Proof. intros H. cbn [exec step]. unfold reset_fw. rewrite H. reflexivity. Qed.

Lemma exec_from_any f s t :
  glob f = 0 ->
  snd (fst (exec f (test_steps s t))) = own_msgs s t /\ snd (exec f (test_steps s t)) = own_death s t /\
  (own_death s t = None -> fst (fst (exec f (test_steps s t))) = fst (fst (exec fw_init (test_steps s t)))).
Proof.
  intros Hg. unfold own_msgs, own_death.
  destruct (test_steps_head s t) as [[rest H]|[d H]]; rewrite H.
  - rewrite (exec_reset_irrelevant f fw_init rest) by (rewrite Hg; reflexivity). auto.
  - cbn. repeat split; auto. discriminate.
Qed.

Definition good (p : pstate) : Prop := pipe p = [] /\ glob (pfw p) = 0.

(* one forked test: the parent credits exactly the test's own results *)
Lemma run_test_forked_spec cap s t p :
  wf_test t -> (1 <= cap)%nat -> fits cap s t -> regular s t -> good p ->
  run_test_forked cap s t p =
  mkp (cadd (c p) (own s t)) (tot p) (crumb p) [] (pfw p) (spec_test (crumb p) s t ++ out p).
Proof.
  intros Hwf Hcap Hfit Hreg [Hpipe Hfw].
  unfold run_test_forked, spec_test. rewrite own_eq.
  destruct (tskip t) eqn:Hskip.
  - (* xEnsure: the runner itself sends `skipped` *)
    unfold start_test, push, emit. cbn [pipe c tot crumb pfw out]. rewrite Hpipe.
    rewrite (deliver_fits cap [MSkipped]) by (cbn [length]; lia). cbn [fst].
    unfold set_pipe. cbn [pipe c tot crumb pfw out].
    erewrite (finish_test_nocompl (tid t) None _ [MSkipped] (crumb p));
      [ | unfold no_compl; cbn; intuition discriminate | reflexivity | reflexivity ].
    cbn [has_skip existsb orb c tot crumb pipe pfw out app].
    replace (cadd (credit [MSkipped]) czero) with (mkcnt 0 0 1 0) by reflexivity.
    reflexivity.
  - unfold start_test, push, emit. cbn [pipe c tot crumb pfw out]. rewrite Hpipe.
    destruct (exec_from_any (pfw p) s t Hfw) as (Hm & Hd & _).
    unfold fits in Hfit. unfold regular in Hreg.
    destruct (exec (pfw p) (test_steps s t)) as [[f' m] d] eqn:He. cbn [fst snd] in *.
    rewrite <- Hm, <- Hd in *. clear Hm Hd.
    rewrite (deliver_fits cap m Hfit). cbn [length]. rewrite Nat.sub_0_r, firstn_all.
    unfold set_pipe. cbn [pipe c tot crumb pfw out].
    assert (Hcompleted : forall m', m = m' ++ [MCompletion] -> no_compl m' -> abnormal m d = false ->
              finish_test (tid t) (sig_text d)
                {| c := c p; tot := tot p; crumb := tid t :: crumb p; pipe := m; pfw := pfw p;
                   out := EChild (tid t) m :: EStartTest (tid t) :: out p |} =
              {| c := cadd (c p)
                      {| passes := passes (count_msgs m); failures := failures (count_msgs m);
                         skips := if has_skip m then 1 else 0;
                         exceptions := exceptions (count_msgs m) + (if abnormal m d then 1 else 0) |};
                 tot := tot p; crumb := crumb p; pipe := []; pfw := pfw p;
                 out := (ETestDone (tid t)
                           {| passes := passes (count_msgs m); failures := failures (count_msgs m);
                              skips := if has_skip m then 1 else 0;
                              exceptions := exceptions (count_msgs m) + (if abnormal m d then 1 else 0) |}
                           (clean {| passes := passes (count_msgs m); failures := failures (count_msgs m);
                                     skips := if has_skip m then 1 else 0;
                                     exceptions := exceptions (count_msgs m) + (if abnormal m d then 1 else 0) |})
                         :: (if abnormal m d then [EIncomplete (tid t :: crumb p) (sig_text d)]
                             else if has_skip m then [ESkipShown (tid t :: crumb p)] else [])
                            ++ [EChild (tid t) m; EStartTest (tid t)]) ++ out p |}).
    { intros m' Hm Hn Hab. subst m. rewrite Hab.
      erewrite (finish_test_completed (tid t) _ _ m' (crumb p)); [ | exact Hn | reflexivity | reflexivity ].
      cbn [c tot crumb pipe pfw out app].
      rewrite count_msgs_app, has_skip_app. cbn [has_skip existsb orb]. rewrite orb_false_r.
      assert (Hc : credit m' =
                   mkcnt (passes (cadd (count_msgs m') (count_msgs [MCompletion])))
                         (failures (cadd (count_msgs m') (count_msgs [MCompletion])))
                         (if has_skip m' then 1 else 0)
                         (exceptions (cadd (count_msgs m') (count_msgs [MCompletion])) + 0)).
      { unfold credit, skip_cnt. cbn [negb andb count_msgs fold_right]. apply cnt_eq; unfold cadd, czero;
          cbn [passes failures skips exceptions]; try lia. rewrite count_msgs_skips. lia. }
      rewrite Hc. destruct (has_skip m'); cbn [app]; reflexivity. }
    destruct d as [d|].
    + destruct (abnormal m (Some d)) eqn:Hab.
      * (* the test's process died: records up to the death, then one exception *)
        destruct Hreg as [Hsk Hn].
        erewrite (finish_test_nocompl (tid t) _ _ m (crumb p)); [ | exact Hn | reflexivity | reflexivity ].
        rewrite Hsk. cbn [c tot crumb pipe pfw out app].
        assert (Hc : cadd (credit m) (mkcnt 0 0 0 1) =
                     mkcnt (passes (count_msgs m)) (failures (count_msgs m)) 0 (exceptions (count_msgs m) + 1)).
        { unfold credit, skip_cnt. rewrite Hsk. cbn [negb andb]. apply cnt_eq; unfold cadd;
            cbn [passes failures skips exceptions]; try lia. rewrite count_msgs_skips. lia. }
        rewrite Hc. reflexivity.
      * (* it left through exit() after the completion notice: a completed test *)
        destruct Hreg as (m' & Hm & Hn). exact (Hcompleted m' Hm Hn eq_refl).
    + (* the test completed *)
      destruct (exec_completes s t (pfw p) f' m Hwf He) as (m' & Hm & Hn & _).
      apply (Hcompleted m' Hm Hn eq_refl).
Qed.

(* in-process execution of a test that runs to its end *)
Definition is_poke (a : act) : bool := match a with Poke _ => true | _ => false end.
Definition no_poke (t : test) : Prop :=
  forallb (fun a => negb (is_poke a)) (tsetup t ++ tbody t ++ tteardown t) = true.

Lemma step_glob f a : is_poke a = false -> glob (fst (fst (step f a))) = glob f.
Proof. destruct a; cbn; intros H; try discriminate; reflexivity. Qed.

Lemma exec_glob l : forall f,
  forallb (fun a => negb (is_poke a)) l = true -> glob (fst (fst (exec f l))) = glob f.
Proof.
  induction l as [|a l IH]; intros f H; [reflexivity|].
  cbn [forallb] in H. apply andb_prop in H; destruct H as [Ha Hl]. apply negb_true_iff in Ha.
  cbn [exec]. pose proof (step_glob f a Ha) as Hs.
  destruct (step f a) as [[f1 m1] [d|]]; cbn [fst snd] in *; [exact Hs|].
  specialize (IH f1 Hl). destruct (exec f1 l) as [[f2 m2] d2]; cbn [fst snd] in *. congruence.
Qed.

Lemma full_steps_no_poke s t :
  no_poke t -> forallb (fun a => negb (is_poke a)) (full_steps s t) = true.
Proof.
  unfold no_poke, full_steps, child_steps, setup_steps, teardown_steps. rewrite !forallb_app.
  intros H. apply andb_prop in H; destruct H as [Hs H]. apply andb_prop in H; destruct H as [Hb Ht].
  destruct (s_has_setup s), (tctx_setup t), (s_has_teardown s), (tctx_teardown t);
    cbn [forallb is_poke negb andb]; rewrite ?Hs, ?Hb, ?Ht; reflexivity.
Qed.

Lemma run_test_inproc_spec cap s t p :
  wf_test t -> (1 <= cap)%nat -> fits cap s t -> own_death s t = None -> no_poke t -> good p ->
  exists f', glob f' = 0 /\
  run_test_inproc cap s t p =
  Done (mkp (cadd (c p) (own s t)) (tot p) (crumb p) [] f' (spec_test (crumb p) s t ++ out p)).
Proof.
  intros Hwf Hcap Hfit Hdone Hnp [Hpipe Hfw].
  unfold run_test_inproc, spec_test. rewrite own_eq.
  destruct (tskip t) eqn:Hskip.
  - exists (pfw p). split; [exact Hfw|].
    unfold start_test, push, emit. cbn [pipe c tot crumb pfw out]. rewrite Hpipe.
    rewrite (deliver_fits cap [MSkipped]) by (cbn [length]; lia). cbn [fst].
    unfold set_pipe. cbn [pipe c tot crumb pfw out].
    erewrite (finish_test_nocompl (tid t) None _ [MSkipped] (crumb p));
      [ | unfold no_compl; cbn; intuition discriminate | reflexivity | reflexivity ].
    cbn [has_skip existsb orb c tot crumb pipe pfw out app].
    replace (cadd (credit [MSkipped]) czero) with (mkcnt 0 0 1 0) by reflexivity.
    reflexivity.
  - unfold start_test, push, emit. cbn [pipe c tot crumb pfw out]. rewrite Hpipe.
    destruct (exec_from_any (pfw p) s t Hfw) as (Hm & Hd & _).
    unfold fits in Hfit.
    destruct (exec (pfw p) (test_steps s t)) as [[f' m] d] eqn:He. cbn [fst snd] in *.
    rewrite Hdone in *. subst d. rewrite <- Hm in *. clear Hm.
    exists f'. split.
    { destruct (exec_completes s t (pfw p) f' m Hwf He) as (_ & _ & _ & Hk).
      unfold test_steps in He. rewrite Hk in He.
      pose proof (exec_glob (full_steps s t) (pfw p) (full_steps_no_poke s t Hnp)) as Hg.
      rewrite He in Hg. cbn [fst] in Hg. congruence. }
    rewrite (deliver_fits cap m Hfit). cbn [length]. rewrite Nat.sub_0_r, firstn_all.
    unfold set_pipe, set_fw. cbn [pipe c tot crumb pfw out].
    destruct (exec_completes s t (pfw p) f' m Hwf He) as (m' & Hm & Hn & _). subst m.
    erewrite (finish_test_completed (tid t) _ _ m' (crumb p)); [ | exact Hn | reflexivity | reflexivity ].
    cbn [c tot crumb pipe pfw out app].
    rewrite count_msgs_app, has_skip_app. cbn [has_skip existsb orb]. rewrite orb_false_r.
    assert (Hc : credit m' =
                 mkcnt (passes (cadd (count_msgs m') (count_msgs [MCompletion])))
                       (failures (cadd (count_msgs m') (count_msgs [MCompletion])))
                       (if has_skip m' then 1 else 0)
                       (exceptions (cadd (count_msgs m') (count_msgs [MCompletion])) + 0)).
    { unfold credit, skip_cnt. cbn [negb andb count_msgs fold_right]. apply cnt_eq; unfold cadd, czero;
        cbn [passes failures skips exceptions]; try lia. rewrite count_msgs_skips. lia. }
    rewrite Hc. destruct (has_skip m'); cbn [app]; reflexivity.
Qed.

(* ------------------------------------------------------------------------------------ *)
(* both modes at once *)
Definition ok_test (cap : nat) (s : suiteinfo) (t : test) : Prop :=
  wf_test t /\ fits cap s t /\ regular s t.

Definition test_ok (m : xmode) (cap : nat) (s : suiteinfo) (t : test) : Prop :=
  ok_test cap s t /\
  match m with Forked => True | InProcess => own_death s t = None /\ no_poke t end.

Lemma run_test_spec m cap s t p :
  (1 <= cap)%nat -> test_ok m cap s t -> good p ->
  exists f', glob f' = 0 /\
  run_test m cap s t p =
  Done (mkp (cadd (c p) (own s t)) (tot p) (crumb p) [] f' (spec_test (crumb p) s t ++ out p)).
Proof.
  intros Hcap [(Hwf & Hfit & Hreg) Hm] Hg. destruct m; unfold run_test.
  - exists (pfw p). split; [apply Hg|].
    rewrite (run_test_forked_spec cap s t p Hwf Hcap Hfit Hreg Hg). reflexivity.
  - destruct Hm as [Hd Hnp]. apply run_test_inproc_spec; assumption.
Qed.

(* ------------------------------------------------------------------------------------ *)
(* induction over suite trees *)
Lemma node_ind' (P : node -> Prop) :
  (forall t, P (Tn t)) -> (forall s ch, Forall P ch -> P (Sn s ch)) -> forall n, P n.
Proof.
  intros HT HS. fix IH 1. intros [t|s ch]; [apply HT|].
  apply HS. induction ch as [|n ch IHch]; constructor; [apply IH | exact IHch].
Qed.

(* every test of the tree is well formed, fits the pipe, is regular (and, in-process, runs
   to its end without touching user memory that other tests read) *)
Definition ok_tree (m : xmode) (cap : nat) (n : node) : Prop :=
  forall s t, In (s, t) (tests_of n) -> test_ok m cap s t.

Lemma ok_tree_child m cap s ch n' :
  ok_tree m cap (Sn s ch) -> In n' ch ->
  match n' with Tn t => test_ok m cap s t | Sn _ _ => ok_tree m cap n' end.
Proof.
  intros H Hin. destruct n' as [t|s' ch'].
  - apply H. cbn [tests_of]. apply in_flat_map. exists (Tn t). split; [exact Hin|left; reflexivity].
  - intros s0 t0 H0. apply H. cbn [tests_of]. apply in_flat_map. exists (Sn s' ch'). split; assumption.
Qed.

(* all four counters of a suite are folded into the totals when it finishes *)
Definition rk_folds (rk : rkind) : Prop :=
  rk_fold_p rk = true /\ rk_fold_f rk = true /\ rk_fold_s rk = true /\ rk_fold_e rk = true.

Definition is_suite (n : node) : Prop := match n with Sn _ _ => True | Tn _ => False end.

(* the suite's own tests *)
Lemma run_tests_spec m cap s path : forall l p,
  (1 <= cap)%nat ->
  (forall t, In (Tn t) l -> test_ok m cap s t) ->
  good p -> crumb p = path ->
  exists f', glob f' = 0 /\
  tests_fix (run_test m cap s) l p =
  Done (mkp (cadd (c p) (direct_sum s l)) (tot p) path [] f' (direct_events path s l ++ out p)).
Proof.
  induction l as [|n l IH]; intros p Hcap Hok Hg Hcr.
  - exists (pfw p). split; [apply Hg|]. destruct Hg as [Hpipe _].
    cbn [tests_fix direct_sum direct_events app]. rewrite cadd_zero_r.
    destruct p as [c0 tot0 cr0 pipe0 fw0 out0]; cbn [c tot crumb pipe pfw out] in *; subst; reflexivity.
  - destruct n as [t|s' ch'].
    + cbn [tests_fix direct_sum direct_events].
      destruct (run_test_spec m cap s t p Hcap (Hok t (or_introl eq_refl)) Hg) as (f1 & Hf1 & H1).
      rewrite H1. cbn [bind].
      edestruct (IH (mkp (cadd (c p) (own s t)) (tot p) (crumb p) [] f1 (spec_test (crumb p) s t ++ out p)))
        as (f2 & Hf2 & H2); [exact Hcap | | split; [reflexivity | exact Hf1] | exact Hcr | ].
      { intros t0 H0. apply Hok. right. exact H0. }
      exists f2. split; [exact Hf2|]. rewrite H2. cbn [c tot crumb pipe pfw out].
      rewrite cadd_assoc, Hcr, app_assoc. reflexivity.
    + cbn [tests_fix direct_sum direct_events]. apply IH; auto.
      intros t0 H0. apply Hok. right. exact H0.
Qed.

Lemma fold_tot_all rk p : rk_folds rk -> fold_tot rk p = set_tot (cadd (tot p) (c p)) p.
Proof.
  intros (H1 & H2 & H3 & H4). unfold fold_tot. rewrite H1, H2, H3, H4. reflexivity.
Qed.

(* finishing a suite whose tests left the pipe empty *)
Lemma finish_suite_spec rk cap s p path :
  rk_folds rk -> (1 <= cap)%nat -> pipe p = [] -> crumb p = (1000 + s)%nat :: path ->
  finish_suite rk cap s p =
  mkp (c p) (cadd (tot p) (c p)) path [] (pfw p)
      ((match path with [] => [ETotals (cadd (tot p) (c p))] | _ => [] end)
       ++ ESuiteDone s (c p) (length path) :: out p).
Proof.
  intros Hf Hcap Hpipe Hcr. unfold finish_suite. rewrite Hpipe.
  rewrite (deliver_fits cap [MCompletion]) by (cbn [length]; lia). cbn [fst].
  destruct p as [c0 tot0 cr0 pipe0 fw0 out0]; cbn [c tot crumb pipe pfw out] in *; subst.
  assert (Hrr : read_results [MCompletion] c0 false = ([], c0, Received)) by reflexivity.
  destruct (rk_suite_via_finish_test rk).
  - unfold base_finish_test, set_pipe. cbn [pipe c]. rewrite Hrr.
    unfold set_c, set_pipe, pop. cbn [c tot crumb pipe pfw out tl].
    rewrite fold_tot_all by exact Hf. unfold set_tot, emit. cbn [c tot crumb pipe pfw out].
    destruct path; reflexivity.
  - unfold base_finish_suite, set_pipe. cbn [pipe c]. rewrite Hrr.
    unfold set_c, set_pipe, pop. cbn [c tot crumb pipe pfw out tl].
    rewrite fold_tot_all by exact Hf. unfold set_tot, emit. cbn [c tot crumb pipe pfw out].
    destruct path; reflexivity.
Qed.

(* the totals handed to spec_events only matter for the outermost suite *)
Lemma spec_events_tot_irrelevant a b : forall n path,
  path <> [] -> spec_events path a n = spec_events path b n.
Proof.
  induction n as [t|s ch IH] using node_ind'; intros path Hp; [reflexivity|].
  cbn [spec_events]. destruct path as [|x path]; [congruence|].
  f_equal. f_equal. f_equal. f_equal.
  induction ch as [|n ch IHch]; [reflexivity|].
  apply Forall_cons_iff in IH; destruct IH as [Hn Hch]. cbn [subs_events]. destruct n as [t|s' ch'].
  - apply IHch; exact Hch.
  - rewrite (IHch Hch). rewrite (Hn ((1000 + sid s)%nat :: x :: path)) by discriminate. reflexivity.
Qed.

Definition node_c (n : node) : cnt := match n with Sn s ch => direct_sum s ch | Tn _ => czero end.

Definition run_spec_at (rk : rkind) (m : xmode) (cap : nat) (n : node) : Prop :=
  is_suite n -> forall p, ok_tree m cap n -> good p ->
  exists f', glob f' = 0 /\
  run_node rk m cap n p =
  Done (mkp (node_c n) (cadd (tot p) (total n)) (crumb p) [] f'
            (spec_events (crumb p) (tot p) n ++ out p)).

Lemma run_subs_spec rk m cap s here tot0 : forall l p,
  Forall (run_spec_at rk m cap) l ->
  (forall n', In n' l -> is_suite n' -> ok_tree m cap n') ->
  good p -> crumb p = here -> here <> [] ->
  exists cx f', glob f' = 0 /\
    subs_fix s (fun _ => true) (run_node rk m cap) l p =
    Done (mkp cx (cadd (tot p) (subs_total total l)) here [] f'
              (subs_events s (spec_events here tot0) l ++ out p)).
Proof.
  induction l as [|n l IH]; intros p HF Hok Hg Hcr Hne.
  - exists (c p), (pfw p). split; [apply Hg|]. destruct Hg as [Hpipe _].
    cbn [subs_fix subs_total subs_events app]. rewrite cadd_zero_r.
    destruct p as [c0 t0 cr0 pipe0 fw0 out0]; cbn [c tot crumb pipe pfw out] in *; subst; reflexivity.
  - apply Forall_cons_iff in HF; destruct HF as [Hn Hl]. destruct n as [t|s' ch'].
    + cbn [subs_fix subs_total subs_events]. apply IH; auto.
      intros n' H1 H2. apply Hok; [right; exact H1 | exact H2].
    + cbn [subs_fix subs_total subs_events].
      set (p1 := if s_has_setup s then emit (EFixture (sid s) false) p else p).
      assert (Hp1 : good p1 /\ crumb p1 = crumb p /\ tot p1 = tot p /\
                    out p1 = (if s_has_setup s then [EFixture (sid s) false] else []) ++ out p).
      { subst p1. destruct (s_has_setup s); unfold emit, good; cbn [c tot crumb pipe pfw out app]; auto. }
      destruct Hp1 as (Hp1a & Hp1c & Hp1d & Hp1e).
      destruct (Hn I p1 (Hok _ (or_introl eq_refl) I) Hp1a) as (f1 & Hf1 & H1).
      rewrite H1. cbn [bind].
      set (q := mkp (node_c (Sn s' ch')) (cadd (tot p1) (total (Sn s' ch'))) (crumb p1) [] f1
                    (spec_events (crumb p1) (tot p1) (Sn s' ch') ++ out p1)).
      set (q1 := if s_has_teardown s then emit (EFixture (sid s) true) q else q).
      assert (Hq1 : good q1 /\ crumb q1 = crumb p /\
                    tot q1 = cadd (tot p) (total (Sn s' ch')) /\
                    out q1 = (if s_has_teardown s then [EFixture (sid s) true] else []) ++ out q).
      { subst q1 q. rewrite Hp1c, Hp1d.
        destruct (s_has_teardown s); unfold emit, good; cbn [c tot crumb pipe pfw out app]; auto. }
      destruct Hq1 as (Hq1a & Hq1c & Hq1d & Hq1e).
      assert (Hok' : forall n', In n' l -> is_suite n' -> ok_tree m cap n').
      { intros n' H1' H2'. apply Hok; [right; exact H1' | exact H2']. }
      assert (Hcr' : crumb q1 = here) by (rewrite Hq1c; exact Hcr).
      destruct (IH q1 Hl Hok' Hq1a Hcr' Hne) as (cx & f2 & Hf2 & Hcx).
      exists cx, f2. split; [exact Hf2|]. rewrite Hcx. rewrite Hq1d, Hq1e. subst q. cbn [out].
      rewrite Hp1c, Hp1e, Hcr.
      rewrite (spec_events_tot_irrelevant (tot p1) tot0 (Sn s' ch') here Hne).
      rewrite cadd_assoc. rewrite <- !app_assoc. reflexivity.
Qed.

(* REFINEMENT: a run of any suite tree, forked or in-process, reports exactly what the
   specification says *)
Theorem run_node_spec rk m cap :
  rk_folds rk -> (1 <= cap)%nat -> forall n, run_spec_at rk m cap n.
Proof.
  intros Hrk Hcap. induction n as [t|s ch IH] using node_ind'; unfold run_spec_at; intros Hs p Hok Hg.
  - destruct Hs.
  - cbn [run_node].
    set (here := (1000 + sid s)%nat :: crumb p).
    set (p1 := start_suite rk (sid s) p).
    assert (Hp1 : good p1 /\ crumb p1 = here /\ tot p1 = tot p /\
                  out p1 = EStartSuite (sid s) :: out p).
    { subst p1. unfold start_suite, emit, push, set_c, good. destruct Hg as [Hg1 Hg2].
      destruct (rk_start_resets rk); cbn [c tot crumb pipe pfw out]; auto. }
    destruct Hp1 as (Ha & Hc & Hd & He).
    assert (Hok' : forall n', In n' ch -> is_suite n' -> ok_tree m cap n').
    { intros n' H1 H2. pose proof (ok_tree_child m cap s ch n' Hok H1) as H3. destruct n'; [destruct H2 | exact H3]. }
    assert (Hne : here <> []) by (subst here; discriminate).
    destruct (run_subs_spec rk m cap s here (tot p) ch p1 IH Hok' Ha Hc Hne) as (cx & f1 & Hf1 & Hcx).
    rewrite Hcx. cbn [bind]. unfold set_c at 1. cbn [c tot crumb pipe pfw out].
    edestruct (run_tests_spec m cap s here ch
                 (mkp czero (cadd (tot p1) (subs_total total ch)) here [] f1
                      (subs_events s (spec_events here (tot p)) ch ++ out p1)) Hcap)
      as (f2 & Hf2 & H2); [ | split; [reflexivity | exact Hf1] | reflexivity | ].
    { intros t Ht. exact (ok_tree_child m cap s ch (Tn t) Hok Ht). }
    rewrite H2. cbn [bind c tot crumb pipe pfw out].
    exists f2. split; [exact Hf2|].
    rewrite (finish_suite_spec rk cap (sid s) _ (crumb p) Hrk Hcap); cbn [c tot crumb pipe pfw out]; auto.
    rewrite cadd_zero_l, Hd, He. cbn [node_c total spec_events]. fold here.
    rewrite !cadd_assoc. f_equal. f_equal.
    rewrite <- !app_assoc. cbn [app]. reflexivity.
Qed.
