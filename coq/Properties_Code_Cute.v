(* The CUTE reporter's per-test functions (src/cute_reporter.c: cute_start_test, cute_finish_test,
   cute_failed_to_complete), translated from the current source on every run into the same program as the
   base reporter's functions they call (Gen/Code_reporter.v): the "#success" line is printed exactly
   when the test is credited no failure and no exception, for every content of the result pipe - the
   `clean` flag of Runner.finish_test, on which the per-test status of C03, C04, C13 and C17 rests.
   Statements only; proofs are in Lemmas_Code_Cute.v. *)
From Coq Require Import List ZArith String Bool.
From CgreenVerif Require Import CLite Runner Lemmas_Code_Reporter Lemmas_Code_Cute Lemmas_Code_Cute2.
From CgreenVerif.Gen Require Import Code_reporter.
Import ListNotations.
Local Open Scope string_scope. Local Open Scope list_scope. Local Open Scope Z_scope.

(* the heap: object 0 the TestReporter, object 1 its CuteMemo (printer = printf, an external call that is
   recorded with its arguments).  cute_start_test() stores failures + exceptions as they are now in the
   memo, clears previous_error, pushes the name, prints "#starting"; nothing else changes *)
Theorem Code_cute_start_test :
  forall ec pe k extra pipe tr n name,
    (2 <= n)%nat -> -2147483648 <= failures k + exceptions k <= 2147483647 ->
    run_fun prog_reporter n "cute_start_test" [VPtr 0 0; name] (cw ec pe k extra pipe tr) =
    Fine (VInt 0, cw (failures k + exceptions k) 0 k extra pipe
                     (("printf", [VLit starting_fmt; name]) :: ("push_breadcrumb", [VInt 77; name]) :: tr)).
Proof. exact cute_start_test_refines. Qed.
Print Assumptions Code_cute_start_test.

(* cute_finish_test(), for every pipe content: the counters and the rest of the pipe are the base
   reporter's (read_results, one more exception when no completion notice came); the events are the
   base's (show_skip / show_incomplete exactly in those two cases, breadcrumb popped); and one "#success"
   line is printed exactly when failures + exceptions equal what the memo holds *)
Theorem Code_cute_finish_test :
  forall ec pe pipe k extra tr n file line message,
    (List.length pipe + 2 < n)%nat -> bounded k (List.length pipe + 1) ->
    failures k + exceptions k + Z.of_nat (List.length pipe) + 1 <= 2147483647 ->
    exists tr1,
      Forall is_recv tr1 /\
      run_fun prog_reporter n "cute_finish_test" [VPtr 0 0; file; line; message] (cw ec pe k extra pipe tr) =
      (let k2 := after_finish pipe k in
       let st := snd (read_results pipe k false) in
       let rest := fst (fst (read_results pipe k false)) in
       Fine (VInt 0, cw ec pe k2 extra rest
                        ((if ec =? failures k2 + exceptions k2 then [("printf", [VLit success_fmt; VInt 0])] else []) ++
                         finish_events st file line message ++ tr1 ++
                         ("get_current_from_breadcrumb", [VInt 77]) :: tr))).
Proof. exact cute_finish_test_refines. Qed.
Print Assumptions Code_cute_finish_test.

(* with the value cute_start_test() stored, that comparison is the model's `clean`: the counters credited to
   the test across finish_test show no failure and no exception *)
Theorem Code_cute_success_iff_clean :
  forall pipe k,
    let k2 := after_finish pipe k in
    let d := csub k2 k in
    (failures k + exceptions k =? failures k2 + exceptions k2) = ((failures d =? 0) && (exceptions d =? 0)).
Proof. exact cute_success_is_clean. Qed.
Print Assumptions Code_cute_success_iff_clean.

Theorem Code_after_finish_is_the_models :
  forall sig (p : pstate), c (base_finish_test sig p) = after_finish (pipe p) (c p).
Proof. exact after_finish_is_base_finish_test. Qed.

(* the reporter's show_incomplete: one "#error" line *)
Theorem Code_cute_failed_to_complete :
  forall ec pe k extra pipe tr n file line message args,
    (1 <= n)%nat ->
    run_fun prog_reporter n "cute_failed_to_complete" [VPtr 0 0; file; line; message; args] (cw ec pe k extra pipe tr) =
    Fine (VInt 0, cw ec pe k extra pipe
                     (("printf", [VLit error_fmt; VInt 0]) :: ("get_current_from_breadcrumb", [VInt 77]) :: tr)).
Proof. exact cute_failed_to_complete_refines. Qed.
Print Assumptions Code_cute_failed_to_complete.

(* the per-suite functions: the counters restart at zero when a suite starts ... *)
Theorem Code_cute_start_suite :
  forall ec pe k t dur extra pipe tr n name count,
    (2 <= n)%nat ->
    run_fun prog_reporter n "cute_start_suite" [VPtr 0 0; name; count] (cwt ec pe k t dur extra pipe tr) =
    Fine (VInt 0, cwt ec pe czero t dur extra pipe
                      (("printf", [VLit beginning_fmt; name; count]) :: ("push_breadcrumb", [VInt 77; name]) :: tr)).
Proof. exact cute_start_suite_refines. Qed.
Print Assumptions Code_cute_start_suite.

(* ... and when it ends (outermost suite: get_breadcrumb_depth() answers 0) what is left in the pipe is read as
   reporter_finish_test() reads it, every one of the four counters is added to its total (no sum leaves the
   range of int: hypothesis), and the numbers in the "#ending" line are those sums, each with the plural its own
   value asks for *)
Theorem Code_cute_finish_suite :
  forall ec pe pipe k t dur extra tr n file line,
    (List.length pipe + 2 < n)%nat -> bounded k (List.length pipe + 1) ->
    (forall k2, k2 = after_finish pipe k ->
       -2147483648 <= passes t + passes k2 <= 2147483647 /\ -2147483648 <= failures t + failures k2 <= 2147483647 /\
       -2147483648 <= skips t + skips k2 <= 2147483647 /\ -2147483648 <= exceptions t + exceptions k2 <= 2147483647) ->
    exists tr1,
      Forall is_recv tr1 /\
      run_fun prog_reporter n "cute_finish_suite" [VPtr 0 0; file; line] (cwt ec pe k t dur extra pipe tr) =
      (let k2 := after_finish pipe k in
       let t2 := cadd t k2 in
       let st := snd (read_results pipe k false) in
       let rest := fst (fst (read_results pipe k false)) in
       Fine (VInt 0, cwt ec pe k2 t2 dur extra rest
                        ([("printf", [VLit totals_fmt; VInt (passes t2); plural (passes t2) [101; 115];
                                      VInt (failures t2); plural (failures t2) [115];
                                      VInt (exceptions t2); plural (exceptions t2) [115]; VInt dur]);
                          ("get_breadcrumb_depth", [VInt 77]);
                          ("printf", [VLit ending_fmt; VInt 0])] ++
                         finish_events st file line (VInt 0) ++ tr1 ++
                         ("get_current_from_breadcrumb", [VInt 77]) :: tr))).
Proof. exact cute_finish_suite_refines. Qed.
Print Assumptions Code_cute_finish_suite.

(* non-vacuity: a test that passes twice after a failing predecessor is marked successful; one that fails is not *)
Example Code_cute_example_success :
  exists tr', run_fun prog_reporter 20 "cute_finish_test" [VPtr 0 0; VInt 0; VInt 0; VInt 0]
                      (cw 1 0 (mkcnt 0 1 0 0) [] [MPass; MPass; MCompletion] []) =
              Fine (VInt 0, cw 1 0 (mkcnt 2 1 0 0) [] [] (("printf", [VLit success_fmt; VInt 0]) :: tr')).
Proof. eexists. vm_compute. reflexivity. Qed.
Example Code_cute_example_failure :
  exists tr', run_fun prog_reporter 20 "cute_finish_test" [VPtr 0 0; VInt 0; VInt 0; VInt 0]
                      (cw 1 0 (mkcnt 0 1 0 0) [] [MPass; MFail; MCompletion] []) =
              Fine (VInt 0, cw 1 0 (mkcnt 1 2 0 0) [] [] (("pop_breadcrumb", [VInt 77]) :: tr')).
Proof. eexists. vm_compute. reflexivity. Qed.
