(* C04 — A test's results do not depend on which other tests ran before it (forking mode). *)
From Coq Require Import List ZArith Bool.
From CgreenVerif Require Import Defs Runner Spec_Runner Lemmas_Runner Lemmas_Facts Lemmas_Props Examples_Runner.
From CgreenVerif.Gen Require Import Facts.
Import ListNotations.
Local Open Scope Z_scope.

(* In any two trees (any other tests, any order, any nesting) that contain test t in suite s,
   the forked runs credit t with exactly the same result: its own.  Tests may leave
   expectations pending, switch mock mode, change significant figures, write globals, fail,
   skip or die. *)
Theorem C04_order_independent :
  forall rk cap n1 n2 s t d1 cl1 d2 cl2,
    In rk builtin_reporters -> (1 <= cap)%nat ->
    is_suite n1 -> ok_tree Forked cap n1 -> unique_names n1 -> In (s, t) (tests_of n1) ->
    is_suite n2 -> ok_tree Forked cap n2 -> unique_names n2 -> In (s, t) (tests_of n2) ->
    forall p1 p2 v1 v2,
      run_suite rk verdict_suite Forked cap n1 = Finished v1 p1 ->
      run_suite rk verdict_suite Forked cap n2 = Finished v2 p2 ->
      In (ETestDone (tid t) d1 cl1) (out p1) -> In (ETestDone (tid t) d2 cl2) (out p2) ->
      d1 = own s t /\ d2 = own s t /\ cl1 = cl2.
Proof. exact order_independent. Qed.
Print Assumptions C04_order_independent.

Theorem C04_example_premises_hold : ok_tree Forked 4096 ex_tree /\ is_suite ex_tree /\ unique_names ex_tree.
Proof. exact ex_tree_ok. Qed.
