(* Lemmas_Code_Tool.v - test_matches_pattern() / context_name_of() / test_name_of() of tools/runner.c, as
   translated from the current source (Gen/Code_tool.v), compute RunnerTool.item_matches for every pattern,
   context name and test name; the two copies they make are freed, nothing else is touched. *)
From Coq Require Import List ZArith NArith String Bool Lia Arith.
From CgreenVerif Require Import CLite Lemmas_CLite Lemmas_Code_Percent Lemmas_Code_Xml RunnerTool.
From CgreenVerif.Gen Require Import Code_tool.
Import ListNotations.
Local Open Scope string_scope. Local Open Scope list_scope. Local Open Scope Z_scope.

(* ---- the model on byte lists over Z ---- *)
Fixpoint first_colon (s : list Z) : option nat :=
  match s with [] => None | c :: r => if c =? 58 then Some O else match first_colon r with Some n => Some (S n) | None => None end end.

Definition default_z : list Z := [100; 101; 102; 97; 117; 108; 116].

Definition cpart (pat : list Z) : list Z :=
  match first_colon pat with Some n => firstn n pat | None => default_z end.
Definition npart (pat : list Z) : list Z :=
  match first_colon pat with Some n => skipn (S n) pat | None => pat end.

Definition matches_z (pat ctx name : list Z) : bool :=
  glob_z (cpart pat) ctx && glob_z (npart pat) name.

Lemma index_of_colon s : text_ok s -> index_of 58 (s ++ [0]) = first_colon s.
Proof.
  induction s as [|c s IH]; intro H; [reflexivity|].
  inversion H as [|? ? Hc Hs]; subst. cbn [app index_of first_colon]. destruct (c =? 58); [reflexivity|].
  rewrite (IH Hs). reflexivity.
Qed.

Lemma first_colon_lt s n : first_colon s = Some n -> (n < List.length s)%nat.
Proof.
  revert n. induction s as [|c s IH]; intros n H; cbn [first_colon] in H; [discriminate|].
  destruct (c =? 58); [injection H as <-; cbn [List.length]; lia|].
  destruct (first_colon s) as [m|]; [|discriminate]. injection H as <-. specialize (IH m eq_refl). cbn [List.length]. lia.
Qed.

Lemma text_ok_firstn k s : text_ok s -> text_ok (firstn k s).
Proof. unfold text_ok. intro H. apply Forall_forall. intros x Hx. rewrite Forall_forall in H. apply H.
       rewrite <- (firstn_skipn k s). apply in_or_app. left. exact Hx. Qed.

Lemma text_ok_default : text_ok default_z.
Proof. unfold text_ok, default_z. repeat constructor; lia. Qed.

(* the block after '\0' has been stored over the colon *)
Lemma splice_app_n (a j c : list Z) n : n = List.length a -> splice (a ++ j) n c = a ++ c ++ skipn (List.length c) j.
Proof. intros ->. apply splice_app. Qed.

Lemma splice_colon s n : (n < List.length s)%nat ->
  splice (s ++ [0]) n [0] = firstn n s ++ 0 :: skipn (S n) (s ++ [0]).
Proof.
  intro H. rewrite <- (firstn_skipn n s) at 1. rewrite <- app_assoc.
  rewrite (splice_app_n (firstn n s) _ [0] n) by (rewrite firstn_length; lia).
  cbn [List.length app]. f_equal. f_equal.
  rewrite (skipn_app_le (S n)) by lia.
  replace (S n) with (n + 1)%nat by lia. rewrite <- skipn_skipn'.
  rewrite (skipn_app_le 1); [reflexivity|]. rewrite skipn_length. lia.
Qed.

Definition tw (ctx name pat : list Z) (extra : list obj) g st tr : world :=
  mkw (ORec [("context_name", VLit ctx); ("test_name", VLit name)] :: OBytes (pat ++ [0]) :: extra) g st tr.

(* context_name_of(pattern): a new block at the end of the heap that holds the context part *)
Lemma call_context_name_of ctx name pat g st tr n :
  text_ok pat -> (1 <= n)%nat ->
  exists junk,
  mk_call prog_tool (cexec prog_tool n) "context_name_of" [VPtr 1 0] (tw ctx name pat [] g st tr) =
  Fine (VPtr 2 0, tw ctx name pat [OBytes (cpart pat ++ 0 :: junk)] g st tr).
Proof.
  intros Hs Hn. destruct n as [|n]; [lia|].
  unfold mk_call, find_fun. cbn [alookup prog_tool String.eqb Ascii.eqb Bool.eqb].
  cbn [bind_params fparams fbody code_context_name_of].
  unfold tw, cpart.
  srun prog_tool.
  rewrite (cstring_block _ 1 pat) by (try reflexivity; exact Hs). ctidy.
  rewrite (index_of_colon _ Hs).
  destruct (first_colon pat) as [k|] eqn:Hk; srun prog_tool.
  - pose proof (first_colon_lt _ _ Hk) as Hlt.
    rewrite (cstring_block _ 1 pat) by (try reflexivity; exact Hs). srun prog_tool.
    rewrite (cstring_block _ 2 pat) by (try reflexivity; exact Hs). ctidy.
    rewrite (index_of_colon _ Hs), Hk. srun prog_tool.
    change (0 + Z.of_nat k) with (Z.of_nat k).
    erewrite (store_bytes_at _ 2 (pat ++ [0]) k [0]) by (try reflexivity; rewrite app_length; cbn [List.length]; lia).
    srun prog_tool. cbn [heap list_set fst snd].
    rewrite (splice_colon _ _ Hlt). eexists. reflexivity.
  - exists []. reflexivity.
Qed.

(* test_name_of(pattern): a new block at the end of the heap that holds the name part *)
Lemma call_test_name_of ctx name pat x g st tr n :
  text_ok pat -> (1 <= n)%nat ->
  mk_call prog_tool (cexec prog_tool n) "test_name_of" [VPtr 1 0] (tw ctx name pat [x] g st tr) =
  Fine (VPtr 3 0, tw ctx name pat [x; OBytes (npart pat ++ [0])] g st tr).
Proof.
  intros Hs Hn. destruct n as [|n]; [lia|].
  unfold mk_call, find_fun. cbn [alookup prog_tool String.eqb Ascii.eqb Bool.eqb].
  cbn [bind_params fparams fbody code_test_name_of].
  unfold tw, npart.
  srun prog_tool.
  rewrite (cstring_block _ 1 pat) by (try reflexivity; exact Hs). ctidy.
  rewrite (index_of_colon _ Hs).
  destruct (first_colon pat) as [k|] eqn:Hk; srun prog_tool.
  - pose proof (first_colon_lt _ _ Hk) as Hlt.
    replace (0 + Z.of_nat k + 1) with (Z.of_nat (S k)) by lia.
    rewrite (cstring_at _ 1 pat (S k)) by (try reflexivity; try exact Hs; lia).
    srun prog_tool. reflexivity.
  - rewrite (cstring_block _ 1 pat) by (try reflexivity; exact Hs). srun prog_tool. reflexivity.
Qed.

Theorem test_matches_pattern_refines :
  forall ctx name pat g st tr n,
    text_ok pat -> (2 <= n)%nat ->
    run_fun prog_tool n "test_matches_pattern" [VPtr 1 0; VPtr 0 0] (tw ctx name pat [] g st tr) =
    Fine (VInt (if matches_z pat ctx name then 1 else 0), tw ctx name pat [OFreed; OFreed] g st tr).
Proof.
  intros ctx name pat g st tr n Hs Hn. destruct n as [|n]; [lia|].
  destruct (call_context_name_of ctx name pat g st tr n Hs ltac:(lia)) as [junk Hc].
  unfold run_fun, find_fun. cbn [alookup prog_tool String.eqb Ascii.eqb Bool.eqb].
  unfold mk_call at 1. unfold find_fun. cbn [alookup prog_tool String.eqb Ascii.eqb Bool.eqb].
  cbn [bind_params fparams fbody code_test_matches_pattern].
  srun prog_tool.
  change (mkw [ORec [("context_name", VLit ctx); ("test_name", VLit name)]; OBytes (pat ++ [0])] g st tr)
    with (tw ctx name pat [] g st tr).
  rewrite Hc. clear Hc. unfold tw. srun prog_tool.
  assert (Hcp : text_ok (cpart pat)).
  { unfold cpart. destruct (first_colon pat); [apply text_ok_firstn; exact Hs|apply text_ok_default]. }
  assert (Hnp : text_ok (npart pat)).
  { unfold npart. destruct (first_colon pat); [apply text_ok_skipn; exact Hs|exact Hs]. }
  rewrite (cstring_block_junk _ 2 (cpart pat) junk) by (try reflexivity; exact Hcp).
  srun prog_tool.
  unfold matches_z.
  destruct (glob_z (cpart pat) ctx) eqn:Hg1; srun prog_tool.
  all: match goal with |- context [mk_call _ _ "test_name_of" _ ?w] => change w with (tw ctx name pat [OBytes (cpart pat ++ 0 :: junk)] g st tr) end.
  all: rewrite (call_test_name_of ctx name pat _ g st tr n Hs ltac:(lia)); unfold tw; srun prog_tool.
  all: rewrite (cstring_block _ 3 (npart pat)) by (try reflexivity; exact Hnp).
  all: srun prog_tool.
  all: destruct (glob_z (npart pat) name) eqn:Hg2; srun prog_tool.
  all: reflexivity.
Qed.

(* ---- the byte-level model is RunnerTool's ---- *)
Definition zs (l : list N) : list Z := map Z.of_N l.

Lemma star_eq (f : list Z -> bool) (g : list N -> bool) :
  (forall s, f (zs s) = g s) -> forall s,
  (fix star (s : list Z) : bool := f s || match s with [] => false | _ :: s' => star s' end) (zs s) =
  (fix star (s : list N) : bool := g s || match s with [] => false | _ :: s' => star s' end) s.
Proof.
  intros H s. induction s as [|x s IHs].
  - simpl. rewrite <- (H []). reflexivity.
  - simpl. rewrite <- (H (x :: s)). simpl. f_equal. exact IHs.
Qed.

Lemma glob_z_is_glob p s : glob_z (zs p) (zs s) = glob p s.
Proof.
  revert s. induction p as [|c p IH]; intro s; cbn [zs map glob_z glob].
  - destruct s; reflexivity.
  - change (map Z.of_N p) with (zs p). change (map Z.of_N s) with (zs s).
    replace (Z.of_N c =? 42) with (N.eqb c STAR)
      by (unfold STAR; destruct (N.eqb_spec c 42) as [->|Hne]; [reflexivity|symmetry; apply Z.eqb_neq; lia]).
    destruct (N.eqb c STAR).
    + apply star_eq. exact IH.
    + destruct s as [|x s]; cbn [zs map]; [reflexivity|].
      change (map Z.of_N s) with (zs s). rewrite IH. f_equal.
      destruct (N.eqb_spec c x) as [->|Hne]; [apply Z.eqb_refl|apply Z.eqb_neq; lia].
Qed.

Lemma first_colon_split p :
  match first_colon (zs p) with
  | Some n => split_colon p = Some (firstn n p, skipn (S n) p)
  | None => split_colon p = None
  end.
Proof.
  induction p as [|c p IH]; cbn [zs map first_colon split_colon]; [reflexivity|].
  change (map Z.of_N p) with (zs p).
  replace (Z.of_N c =? 58) with (N.eqb c 58)
    by (destruct (N.eqb_spec c 58) as [->|Hne]; [reflexivity|symmetry; apply Z.eqb_neq; lia]).
  destruct (N.eqb c 58); [reflexivity|].
  destruct (first_colon (zs p)) as [n|]; rewrite IH; reflexivity.
Qed.

Lemma zs_firstn k l : zs (firstn k l) = firstn k (zs l). Proof. unfold zs. rewrite firstn_map. reflexivity. Qed.
Lemma zs_skipn k l : zs (skipn k l) = skipn k (zs l). Proof. unfold zs. rewrite skipn_map. reflexivity. Qed.

Lemma matches_z_is_item_matches p c nm :
  matches_z (zs p) (zs c) (zs nm) = item_matches p (mkitem c nm).
Proof.
  unfold matches_z, item_matches, pattern_parts, cpart, npart. pose proof (first_colon_split p) as H.
  destruct (first_colon (zs p)) as [n|]; rewrite H; cbn [ti_ctx ti_name].
  - rewrite <- zs_firstn, <- zs_skipn, !glob_z_is_glob. reflexivity.
  - change default_z with (zs DEFAULT). rewrite !glob_z_is_glob. reflexivity.
Qed.

Lemma text_ok_zs p : Forall (fun c => (1 <= c <= 255)%N) p -> text_ok (zs p).
Proof. unfold text_ok, zs. intro H. apply Forall_map. eapply Forall_impl; [|exact H]. cbn. intros a Ha. lia. Qed.

(* test_matches_pattern(pattern, item) returns RunnerTool.item_matches, frees its two copies and touches nothing else *)
Theorem test_matches_pattern_is_item_matches :
  forall p c nm g st tr n,
    Forall (fun x => (1 <= x <= 255)%N) p -> (2 <= n)%nat ->
    run_fun prog_tool n "test_matches_pattern" [VPtr 1 0; VPtr 0 0] (tw (zs c) (zs nm) (zs p) [] g st tr) =
    Fine (VInt (if item_matches p (mkitem c nm) then 1 else 0), tw (zs c) (zs nm) (zs p) [OFreed; OFreed] g st tr).
Proof.
  intros p c nm g st tr n Hp Hn.
  rewrite (test_matches_pattern_refines _ _ _ g st tr n (text_ok_zs p Hp) Hn), matches_z_is_item_matches. reflexivity.
Qed.
