(* Lemmas_Code_Mocks3.v - continuation: successfully_mocked_call() and remove_never_call_expectation_for(). *)
From Coq Require Import List ZArith String Bool Lia Arith.
From CgreenVerif Require Import CLite Lemmas_CLite Mocks CodeCheck Lemmas_Code_Mocks Lemmas_Code_Mocks2.
From CgreenVerif.Gen Require Import Code_mocks.
Import ListNotations.
Local Open Scope string_scope. Local Open Scope list_scope. Local Open Scope Z_scope.

(* ------------------------------------------------------------------------------------------ *)
(* successfully_mocked_call(name): is the name in the list of successfully mocked calls?  The list is the
   object behind the expectation records (CodeCheck.mocks_world) *)
Definition names_vec (succ : list nat) : obj := OVec (map (fun f => VLit (fn_name f)) succ).

Definition succ_loop : stmt :=
  match fbody code_successfully_mocked_call with SSeq (SSeq _ l) _ => l | _ => SSkip end.

Definition succ_locals (f : nat) (i : nat) (ex : option val) : locals :=
  [("function_name", VLit (fn_name f)); ("i", VInt (Z.of_nat i))] ++
  match ex with Some v => [("successfully_mocked_function_name", v)] | None => [] end.

Lemma nth_error_succ (q : list mexp) (x : obj) tl :
  nth_error (map exp_rec q ++ x :: tl) (List.length q) = Some x.
Proof. rewrite nth_error_app2 by (rewrite map_length; lia). rewrite map_length, Nat.sub_diag. reflexivity. Qed.

Lemma nth_names (pre : list nat) a rest :
  nth (List.length pre) (map (fun f => VLit (fn_name f)) (pre ++ a :: rest)) (VInt 0) = VLit (fn_name a).
Proof. rewrite map_app. rewrite app_nth2 by (rewrite map_length; lia). rewrite map_length, Nat.sub_diag. reflexivity. Qed.

Lemma succ_loop_spec : forall rest pre n f ex unl q tl tr,
  (List.length rest < n)%nat -> Z.of_nat (List.length (pre ++ rest)) < 2147483647 ->
  exists l',
    cexec prog_mocks n succ_loop (succ_locals f (List.length pre) ex) (mw unl q (names_vec (pre ++ rest) :: tl) tr) =
    if existsb (Nat.eqb f) rest
    then Fine (FReturn (VInt 1), l', mw unl q (names_vec (pre ++ rest) :: tl) tr)
    else Fine (FNormal, l', mw unl q (names_vec (pre ++ rest) :: tl) tr).
Proof.
  induction rest as [|a rest IH]; intros pre n f ex unl q tl tr Hn Hlen.
  - destruct n as [|n]; [cbn in Hn; lia|].
    unfold succ_loop, succ_locals, mw, names_vec. cbn [fbody code_successfully_mocked_call existsb].
    destruct ex; eexists; rewrite exec_loop; cbn [app]; srun prog_mocks.
    all: erewrite get_vec_vec by (cbn [heap nth_error]; apply nth_error_succ); srun prog_mocks.
    all: rewrite map_length, app_nil_r, Z.ltb_irrefl; reflexivity.
  - destruct n as [|n]; [cbn in Hn; lia|].
    assert (Hlt : Z.of_nat (List.length pre) <? Z.of_nat (List.length (pre ++ a :: rest)) = true)
      by (apply Z.ltb_lt; rewrite app_length; cbn [List.length]; lia).
    assert (Hrange : in_range I32 (Z.of_nat (List.length pre) + 1) = true)
      by (apply in_range_I32; rewrite app_length in Hlen; cbn [List.length] in Hlen; lia).
    destruct (IH (pre ++ [a]) n f (Some (VLit (fn_name a))) unl q tl tr) as [l' IH'];
      [cbn [List.length] in Hn; lia | rewrite <- app_assoc; exact Hlen |].
    unfold succ_loop, succ_locals, mw, names_vec in *. cbn [fbody code_successfully_mocked_call app] in *.
    rewrite <- app_assoc in IH'. cbn [app] in IH'.
    rewrite app_length in IH'. cbn [List.length] in IH'.
    replace (Z.of_nat (List.length pre + 1)) with (Z.of_nat (List.length pre) + 1) in IH' by lia.
    cbn [existsb].
    destruct (Nat.eqb f a) eqn:Hf; cbn [orb].
    + destruct ex; eexists; rewrite exec_loop; cbn [app]; srun prog_mocks.
      all: erewrite get_vec_vec by (cbn [heap nth_error]; apply nth_error_succ); srun prog_mocks.
      all: rewrite map_length, Hlt; srun prog_mocks.
      all: erewrite get_vec_vec by (cbn [heap nth_error]; apply nth_error_succ); srun prog_mocks.
      all: rewrite map_length, Hlt, Nat2Z.id, (proj2 (Z.leb_le 0 _) (Nat2Z.is_nonneg _)), nth_names; srun prog_mocks.
      all: rewrite bytes_cmp_fn, (Nat.eqb_sym a f), Hf; srun prog_mocks; reflexivity.
    + exists l'.
      destruct ex; rewrite exec_loop; cbn [app]; srun prog_mocks.
      all: erewrite get_vec_vec by (cbn [heap nth_error]; apply nth_error_succ); srun prog_mocks.
      all: rewrite map_length, Hlt; srun prog_mocks.
      all: erewrite get_vec_vec by (cbn [heap nth_error]; apply nth_error_succ); srun prog_mocks.
      all: rewrite map_length, Hlt, Nat2Z.id, (proj2 (Z.leb_le 0 _) (Nat2Z.is_nonneg _)), nth_names; srun prog_mocks.
      all: rewrite bytes_cmp_fn, (Nat.eqb_sym a f), Hf; srun prog_mocks.
      all: rewrite Hrange; srun prog_mocks; exact IH'.
Qed.

(* successfully_mocked_call(name) is "the name is in the list", for every list; nothing is changed *)
Theorem successfully_mocked_call_refines :
  forall succ f unl q tl tr n,
    (List.length succ + 1 < n)%nat -> Z.of_nat (List.length succ) < 2147483647 ->
    run_fun prog_mocks n "successfully_mocked_call" [VLit (fn_name f)] (mw unl q (names_vec succ :: tl) tr) =
    Fine (VInt (if existsb (Nat.eqb f) succ then 1 else 0), mw unl q (names_vec succ :: tl) tr).
Proof.
  intros succ f unl q tl tr n Hn Hlen.
  destruct (succ_loop_spec succ [] n f None unl q tl tr ltac:(lia) Hlen) as [l' HL].
  unfold succ_loop, succ_locals in HL. cbn [fbody code_successfully_mocked_call app List.length] in HL.
  change (Z.of_nat 0) with 0 in HL.
  destruct n as [|n]; [lia|].
  unfold run_fun, find_fun. cbn [alookup prog_mocks String.eqb Ascii.eqb Bool.eqb].
  unfold mk_call at 1. unfold find_fun. cbn [alookup prog_mocks String.eqb Ascii.eqb Bool.eqb].
  cbn [bind_params fparams fbody code_successfully_mocked_call].
  srun prog_mocks. rewrite HL. clear HL.
  destruct (existsb (Nat.eqb f) succ); srun prog_mocks; reflexivity.
Qed.

(* ------------------------------------------------------------------------------------------ *)
(* remove_never_call_expectation_for(function): the loop removes the entry at position i and then advances, so
   the entry that slides into position i is not looked at.  The vector may list any selection of the records. *)
Definition dflt : mexp := mkexp 0 0 0 [] 0 0.
Definition sel (q : list mexp) (idx : list nat) : list mexp := map (fun i => nth i q dflt) idx.
Definition ptrs (idx : list nat) : list val := map (fun i => VPtr (S i) 0) idx.

Definition mwi (unl : Z) (idx : list nat) (q : list mexp) (tl : list obj) (tr : list (string * list val)) : world :=
  mkw (OVec (ptrs idx) :: map exp_rec q ++ tl)
      [("global_expectation_queue", VPtr 0 0); ("UNLIMITED_TIME_TO_LIVE", VInt unl);
       ("successfully_mocked_calls", VPtr (S (List.length q)) 0)] [] tr.

Lemma mw_is_mwi unl q tl tr : mw unl q tl tr = mwi unl (seq 0 (List.length q)) q tl tr.
Proof. reflexivity. Qed.

Section RemoveNever.
Variable unl : Z.
Variable q : list mexp.
Variable f : nat.

Definition hit (a : nat) : bool := for_fn f (nth a q dflt) && is_never unl (nth a q dflt).

(* what is left of the part of the vector not yet looked at, and the records handed to destroy_expectation()
   (newest first) *)
Fixpoint rn_idx (fuel : nat) (rest : list nat) : list nat :=
  match fuel with
  | O => rest
  | S k =>
      match rest with
      | [] => []
      | a :: r => if hit a then match r with [] => [] | b :: r' => b :: rn_idx k r' end else a :: rn_idx k r
      end
  end.
Fixpoint rn_trace (fuel : nat) (rest : list nat) (tr : list (string * list val)) : list (string * list val) :=
  match fuel with
  | O => tr
  | S k =>
      match rest with
      | [] => tr
      | a :: r => if hit a then match r with
                                | [] => ("destroy_expectation", [VPtr (S a) 0]) :: tr
                                | b :: r' => rn_trace k r' (("destroy_expectation", [VPtr (S a) 0]) :: tr)
                                end
                  else rn_trace k r tr
      end
  end.

Definition rn_loop : stmt :=
  match fbody code_remove_never_call_expectation_for with SSeq (SSeq _ l) _ => l | _ => SSkip end.

Lemma nth_error_rec (i : nat) tl : (i < List.length q)%nat ->
  nth_error (map exp_rec q ++ tl) i = Some (exp_rec (nth i q dflt)).
Proof.
  intro H. rewrite nth_error_app1 by (rewrite map_length; exact H).
  rewrite nth_error_map. rewrite (nth_error_nth' q dflt H). reflexivity.
Qed.

Lemma nth_ptrs (pre : list nat) a rest : nth (List.length pre) (ptrs (pre ++ a :: rest)) (VInt 0) = VPtr (S a) 0.
Proof. unfold ptrs. rewrite map_app. rewrite app_nth2 by (rewrite map_length; lia). rewrite map_length, Nat.sub_diag. reflexivity. Qed.

Lemma remove_nth_ptrs (pre : list nat) a rest : remove_nth (List.length pre) (ptrs (pre ++ a :: rest)) = ptrs (pre ++ rest).
Proof. unfold ptrs. rewrite !map_app. cbn [map]. rewrite <- (map_length (fun i => VPtr (S i) 0) pre). apply remove_nth_at. Qed.

Lemma list_set_vec0 (v v' : obj) h : list_set 0 v' (v :: h) = v' :: h.
Proof. reflexivity. Qed.

Lemma length_ptrs idx : List.length (ptrs idx) = List.length idx.
Proof. unfold ptrs. apply map_length. Qed.

Lemma call_is_never_call_i :
  forall idx a tl tr n, (1 <= n)%nat -> unl_ok unl -> (a < List.length q)%nat ->
    mk_call prog_mocks (cexec prog_mocks n) "is_never_call" [VPtr (S a) 0] (mwi unl idx q tl tr) =
    Fine (VInt (if is_never unl (nth a q dflt) then 1 else 0), mwi unl idx q tl tr).
Proof.
  intros idx a tl tr n Hn Hu Ha. destruct n as [|n]; [lia|].
  unfold mk_call, find_fun. cbn [alookup prog_mocks String.eqb Ascii.eqb Bool.eqb].
  cbn [bind_params fparams fbody code_is_never_call]. unfold mwi.
  srun prog_mocks.
  erewrite get_field_rec by (cbn [heap nth_error]; apply nth_error_rec; exact Ha).
  cbn [alookup String.eqb Ascii.eqb Bool.eqb]. srun prog_mocks.
  rewrite (in_range_I32 (- unl)) by (unfold unl_ok in Hu; lia). srun prog_mocks.
  rewrite wrap_IBool_b. srun prog_mocks. reflexivity.
Qed.

Ltac iter_i Hlt Ha :=
  rewrite exec_loop; cbn [app]; srun prog_mocks;
  rewrite length_ptrs, Hlt; srun prog_mocks;
  rewrite length_ptrs, Hlt, Nat2Z.id, (proj2 (Z.leb_le 0 _) (Nat2Z.is_nonneg _)), nth_ptrs;
  srun prog_mocks;
  erewrite get_field_rec by (cbn [heap nth_error]; apply nth_error_rec; exact Ha);
  cbn [alookup String.eqb Ascii.eqb Bool.eqb]; srun prog_mocks;
  rewrite bytes_cmp_fn.

Lemma rn_loop_spec : forall fuel rest pre n ex tl tr,
  unl_ok unl -> (List.length rest <= fuel)%nat -> (List.length rest < n)%nat ->
  Z.of_nat (List.length (pre ++ rest)) < 2147483647 ->
  Forall (fun i => (i < List.length q)%nat) (pre ++ rest) ->
  exists l',
    cexec prog_mocks n rn_loop (find_locals f (List.length pre) ex) (mwi unl (pre ++ rest) q tl tr) =
    Fine (FNormal, l', mwi unl (pre ++ rn_idx fuel rest) q tl (rn_trace fuel rest tr)).
Proof.
  induction fuel as [|fuel IH]; intros rest pre n ex tl tr Hu Hfuel Hn Hlen Hall.
  - destruct rest; [|cbn in Hfuel; lia].
    destruct n as [|n]; [cbn in Hn; lia|].
    unfold rn_loop, find_locals, mwi. cbn [fbody code_remove_never_call_expectation_for rn_idx rn_trace].
    destruct ex; eexists; rewrite exec_loop; cbn [app]; srun prog_mocks.
    all: rewrite length_ptrs, ?app_nil_r, Z.ltb_irrefl; reflexivity.
  - destruct rest as [|a r].
    + destruct n as [|n]; [cbn in Hn; lia|].
      unfold rn_loop, find_locals, mwi. cbn [fbody code_remove_never_call_expectation_for rn_idx rn_trace].
      destruct ex; eexists; rewrite exec_loop; cbn [app]; srun prog_mocks.
      all: rewrite length_ptrs, ?app_nil_r, Z.ltb_irrefl; reflexivity.
    + destruct n as [|n]; [cbn in Hn; lia|].
      assert (Hlt : Z.of_nat (List.length pre) <? Z.of_nat (List.length (pre ++ a :: r)) = true)
        by (apply Z.ltb_lt; rewrite app_length; cbn [List.length]; lia).
      assert (Hrange : in_range I32 (Z.of_nat (List.length pre) + 1) = true)
        by (apply in_range_I32; rewrite app_length in Hlen; cbn [List.length] in Hlen; lia).
      assert (Ha : (a < List.length q)%nat).
      { rewrite Forall_forall in Hall. apply Hall. apply in_or_app. right. left. reflexivity. }
      assert (Hn1 : (1 <= n)%nat) by (cbn [List.length] in Hn; lia).
      pose proof (call_is_never_call_i (pre ++ a :: r) a tl tr n Hn1 Hu Ha) as Hcall.
      unfold rn_loop, find_locals. cbn [fbody code_remove_never_call_expectation_for].
      cbn [rn_idx rn_trace]. unfold hit, for_fn.
      destruct (Nat.eqb (efn (nth a q dflt)) f) eqn:Hf; cbn [andb].
      * destruct (is_never unl (nth a q dflt)) eqn:Hnv.
        -- (* removed: the vector is pre ++ r, the record goes to destroy_expectation(), i advances *)
           destruct r as [|b r'].
           ++ unfold mwi in *.
              destruct ex; eexists; iter_i Hlt Ha; rewrite Hf; srun prog_mocks;
                rewrite Hcall; srun prog_mocks.
              all: rewrite length_ptrs, Hlt, Nat2Z.id, (proj2 (Z.leb_le 0 _) (Nat2Z.is_nonneg _)), nth_ptrs, remove_nth_ptrs; srun prog_mocks.
              all: rewrite Hrange; srun prog_mocks.
              all: destruct n as [|n]; [lia|]; rewrite exec_loop; srun prog_mocks.
              all: rewrite length_ptrs, app_nil_r.
              all: replace (Z.of_nat (List.length pre) + 1 <? Z.of_nat (List.length pre)) with false by (symmetry; apply Z.ltb_ge; lia).
              all: srun prog_mocks; reflexivity.
           ++ (* the entry behind it slides into position i and is skipped *)
              destruct (IH r' (pre ++ [b]) n (Some (VPtr (S a) 0)) tl (("destroy_expectation", [VPtr (S a) 0]) :: tr) Hu) as [l' IH'];
                [cbn [List.length] in Hfuel; lia | cbn [List.length] in Hn; lia
                | rewrite <- app_assoc; cbn [app]; rewrite app_length in *; cbn [List.length] in *; lia
                | rewrite <- app_assoc; cbn [app]; rewrite Forall_forall in *; intros x Hx; apply Hall;
                  apply in_app_or in Hx; apply in_or_app; destruct Hx as [Hx|Hx]; [left; exact Hx|right; right; exact Hx] |].
              exists l'.
              unfold rn_loop, find_locals, mwi in *. cbn [fbody code_remove_never_call_expectation_for app] in *.
              rewrite <- !app_assoc in IH'. cbn [app] in IH'.
              rewrite app_length in IH'. cbn [List.length] in IH'.
              replace (Z.of_nat (List.length pre + 1)) with (Z.of_nat (List.length pre) + 1) in IH' by lia.
              destruct ex; iter_i Hlt Ha; rewrite Hf; srun prog_mocks;
                rewrite Hcall; srun prog_mocks.
              all: rewrite length_ptrs, Hlt, Nat2Z.id, (proj2 (Z.leb_le 0 _) (Nat2Z.is_nonneg _)), nth_ptrs, remove_nth_ptrs; srun prog_mocks.
              all: rewrite Hrange; srun prog_mocks.
              all: exact IH'.
        -- (* an entry for f that is not a never-expectation: on to the next *)
           destruct (IH r (pre ++ [a]) n (Some (VPtr (S a) 0)) tl tr Hu) as [l' IH'];
             [cbn [List.length] in Hfuel; lia | cbn [List.length] in Hn; lia
             | rewrite <- app_assoc; exact Hlen | rewrite <- app_assoc; exact Hall |].
           exists l'.
           unfold rn_loop, find_locals, mwi in *. cbn [fbody code_remove_never_call_expectation_for app] in *.
           rewrite <- !app_assoc in IH'. cbn [app] in IH'.
           rewrite app_length in IH'. cbn [List.length] in IH'.
           replace (Z.of_nat (List.length pre + 1)) with (Z.of_nat (List.length pre) + 1) in IH' by lia.
           destruct ex; iter_i Hlt Ha; rewrite Hf; srun prog_mocks;
             rewrite Hcall; srun prog_mocks; rewrite Hrange; srun prog_mocks; exact IH'.
      * (* another function's entry *)
        destruct (IH r (pre ++ [a]) n (Some (VPtr (S a) 0)) tl tr Hu) as [l' IH'];
          [cbn [List.length] in Hfuel; lia | cbn [List.length] in Hn; lia
          | rewrite <- app_assoc; exact Hlen | rewrite <- app_assoc; exact Hall |].
        exists l'.
        unfold rn_loop, find_locals, mwi in *. cbn [fbody code_remove_never_call_expectation_for app] in *.
        rewrite <- !app_assoc in IH'. cbn [app] in IH'.
        rewrite app_length in IH'. cbn [List.length] in IH'.
        replace (Z.of_nat (List.length pre + 1)) with (Z.of_nat (List.length pre) + 1) in IH' by lia.
        destruct ex; iter_i Hlt Ha; rewrite Hf; srun prog_mocks;
          rewrite Hrange; srun prog_mocks; exact IH'.
Qed.
End RemoveNever.

(* remove_never_call_expectation_for(function): always returns false; the vector afterwards lists rn_idx of the
   positions; every removed record was handed to destroy_expectation() exactly once *)
Theorem remove_never_refines :
  forall q f unl tl tr n,
    unl_ok unl -> (List.length q + 1 < n)%nat -> Z.of_nat (List.length q) < 2147483647 ->
    run_fun prog_mocks n "remove_never_call_expectation_for" [VLit (fn_name f)] (mw unl q tl tr) =
    Fine (VInt 0, mwi unl (rn_idx unl q f (List.length q) (seq 0 (List.length q))) q tl
                      (rn_trace unl q f (List.length q) (seq 0 (List.length q)) tr)).
Proof.
  intros q f unl tl tr n Hu Hn Hlen.
  destruct (rn_loop_spec unl q f (List.length q) (seq 0 (List.length q)) [] n None tl tr Hu) as [l' HL].
  - rewrite seq_length. lia.
  - rewrite seq_length. lia.
  - cbn [app]. rewrite seq_length. exact Hlen.
  - cbn [app]. apply Forall_forall. intros i Hi. apply in_seq in Hi. lia.
  - destruct n as [|n]; [lia|].
    unfold rn_loop, find_locals in HL. cbn [fbody code_remove_never_call_expectation_for app List.length] in HL.
    change (Z.of_nat 0) with 0 in HL.
    rewrite mw_is_mwi.
    unfold run_fun, find_fun. cbn [alookup prog_mocks String.eqb Ascii.eqb Bool.eqb].
    unfold mk_call at 1. unfold find_fun. cbn [alookup prog_mocks String.eqb Ascii.eqb Bool.eqb].
    cbn [bind_params fparams fbody code_remove_never_call_expectation_for].
    srun prog_mocks. rewrite HL. clear HL. srun prog_mocks. reflexivity.
Qed.

(* ... and that selection is Mocks.remove_never *)
Lemma sel_rn_idx unl q f : forall fuel idx, (List.length idx <= fuel)%nat ->
  sel q (rn_idx unl q f fuel idx) = remove_never unl (sel q idx) f.
Proof.
  induction fuel as [|fuel IH]; intros idx H.
  - destruct idx; [reflexivity|cbn in H; lia].
  - destruct idx as [|a r]; [reflexivity|].
    cbn [rn_idx sel map remove_never]. unfold hit.
    destruct (for_fn f (nth a q dflt) && is_never unl (nth a q dflt)).
    + destruct r as [|b r']; [reflexivity|]. cbn [map]. f_equal. apply IH. cbn [List.length] in H. lia.
    + cbn [map]. f_equal. apply IH. cbn [List.length] in H. lia.
Qed.

Lemma sel_seq q : sel q (seq 0 (List.length q)) = q.
Proof. unfold sel. apply map_nth_seq. Qed.

Lemma rn_idx_in unl q f : forall fuel idx i, In i (rn_idx unl q f fuel idx) -> In i idx.
Proof.
  induction fuel as [|fuel IH]; intros idx i H; [exact H|].
  destruct idx as [|a r]; [exact H|]. cbn [rn_idx] in H.
  destruct (hit unl q f a).
  - destruct r as [|b r']; [contradiction|]. destruct H as [<-|H]; [right; left; reflexivity|]. right. right. exact (IH r' i H).
  - destruct H as [<-|H]; [left; reflexivity|]. right. exact (IH r i H).
Qed.

Lemma queue_z_mwi unl idx q tl tr :
  Forall (fun i => (i < List.length q)%nat) idx -> queue_z (mwi unl idx q tl tr) = model_queue_z (sel q idx).
Proof. intro H. unfold mwi, ptrs, sel. apply queue_z_sel. exact H. Qed.

Theorem remove_never_is_the_models :
  forall q f unl tl tr n,
    unl_ok unl -> (List.length q + 1 < n)%nat -> Z.of_nat (List.length q) < 2147483647 ->
    exists w',
      run_fun prog_mocks n "remove_never_call_expectation_for" [VLit (fn_name f)] (mw unl q tl tr) = Fine (VInt 0, w') /\
      queue_z w' = model_queue_z (remove_never unl q f).
Proof.
  intros q f unl tl tr n Hu Hn Hlen.
  eexists. split; [apply remove_never_refines; assumption|].
  rewrite queue_z_mwi.
  - rewrite sel_rn_idx by (rewrite seq_length; lia). rewrite sel_seq. reflexivity.
  - apply Forall_forall. intros i Hi. apply rn_idx_in in Hi. apply in_seq in Hi. lia.
Qed.
