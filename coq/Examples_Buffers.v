(* Examples_Buffers.v — the buffer analysis on concrete programs: non-vacuity (programs of the
   shape found in cgreen are accepted and run within their capacity) and witnesses (the shapes
   cgreen had before the repairs are rejected, and a concrete run of them overflows). *)
From Coq Require Import List NArith Bool.
From CgreenVerif Require Import Buffers.
Import ListNotations.
Local Open Scope N_scope.

(* the text reporter's finish_suite as it is: prepend[100] filled by a bounded snprintf, copied
   into buf[1000], counts appended from 100-byte static buffers.
   buffers: 0 = buf[1000] (local), 1 = prepend[100] (local), 2 = a format_*() static buff[100] *)
Definition ex_caps : list N := [1000; 100; 100].
Definition ex_locals : list bufid := [0%nat; 1%nat].
Definition ex_finish : prog :=
  Seq (Op (mkws 1 false (Limit 100) [PLit 3; PAny; PLit 3]))
  (Seq (Op (mkws 0 false Unlimited [PBuf 1]))
  (Seq (If (Seq (Op (mkws 2 false Unlimited [PMax 27])) (Op (mkws 0 true Unlimited [PBuf 2]))) Skip)
  (Seq (If (Op (mkws 0 true Unlimited [PLit 2])) Skip)
       (Seq (Op (mkws 2 false Unlimited [PMax 29])) (Op (mkws 0 true Unlimited [PBuf 2])))))).

Example ex_finish_accepted : fprog_ok ex_caps ex_locals (mkfp [] ex_finish) = true.
Proof. vm_compute. reflexivity. Qed.

(* a suite name of 5000 characters: everything stays inside, buf ends up 99 + 27 + 2 + 29 long *)
Example ex_finish_runs :
  fst (run 10 ex_caps ex_finish [None; None; Some 0] [[5000]; []; [0]; [27]; []; [0]; []; [29]; []])
  = Ok [Some 157; Some 99; Some 29].
Proof. vm_compute. reflexivity. Qed.

(* the same function with the heading written straight into buf by a bounded snprintf and the
   counts appended by strcat (seeded change C20d): each call looks bounded, together they are
   not; the analysis rejects it and a 990-character name overflows buf by 18 bytes *)
Definition ex_finish_direct : prog :=
  Seq (Op (mkws 0 false (Limit 1000) [PLit 3; PAny; PLit 3]))
  (Seq (Op (mkws 2 false Unlimited [PMax 27])) (Op (mkws 0 true Unlimited [PBuf 2]))).

Example ex_finish_direct_rejected : fprog_ok ex_caps ex_locals (mkfp [] ex_finish_direct) = false.
Proof. vm_compute. reflexivity. Qed.

Example ex_finish_direct_refuted :
  fst (run 10 ex_caps ex_finish_direct [None; None; Some 0] [[990]; [20]; []]) = Overflow 0 17.
Proof. vm_compute. reflexivity. Qed.

(* panic() before the repair (6261fd6): sprintf of the heading, vsprintf of the message at its
   end, both unlimited, into buffer[1000] *)
Definition ex_old_panic : prog :=
  Seq (Op (mkws 0 false Unlimited [PMax 28; PAny; PMax 13])) (Op (mkws 0 true Unlimited [PAny])).

Example ex_old_panic_rejected : fprog_ok [1000] [0%nat] (mkfp [] ex_old_panic) = false.
Proof. vm_compute. reflexivity. Qed.

Example ex_old_panic_refuted :
  fst (run 10 [1000] ex_old_panic [None] [[21; 30; 5]; [960]]) = Overflow 0 17.
Proof. vm_compute. reflexivity. Qed.

(* panic() as it is: the heading limited to the buffer, the message limited to what is left *)
Definition ex_panic : prog :=
  Seq (Op (mkws 0 false (Limit 1000) [PMax 28; PAny; PMax 13])) (Op (mkws 0 true (Remaining 0) [PAny])).

Example ex_panic_accepted : fprog_ok [1000] [0%nat] (mkfp [] ex_panic) = true.
Proof. vm_compute. reflexivity. Qed.

Example ex_panic_runs :
  fst (run 10 [1000] ex_panic [None] [[21; 30; 5]; [5000]]) = Ok [Some 999].
Proof. vm_compute. reflexivity. Qed.

(* the path separator appended by strcat to a suite_path that strncat may have filled (before
   b51361c / a4c4c90): rejected; three 3000-character names overflow by one byte *)
Definition ex_old_path : prog :=
  Seq (Op (mkws 0 false Unlimited []))
      (Loop (Seq (If (Op (mkws 0 true Unlimited [PLit 1])) Skip) (Op (mkws 0 true (Remaining 0) [PAny])))).

Example ex_old_path_rejected : fprog_ok [4096] [] (mkfp [] ex_old_path) = false.
Proof. vm_compute. reflexivity. Qed.

Example ex_old_path_refuted :
  fst (run 10 [4096] ex_old_path [Some 0] [[]; [3]; [1]; [3000]; [0]; []; [3000]; [0]; []]) = Overflow 0 1.
Proof. vm_compute. reflexivity. Qed.

(* a size argument computed as sizeof - strlen - k wraps when k is larger than what is left *)
Example ex_wrap :
  step [10] [Some 9] (mkws 0 true (Remaining 2) [PAny]) [50] = Overflow 0 50.
Proof. vm_compute. reflexivity. Qed.
