(* Xml.v — executable model of what src/xml_reporter.c writes: attribute escaping (with the
   1000-byte cut of vsnprintf into char[1000]), the per-test elements, one document per suite.
   Bytes are N.  Hand-written model, tied to the code by byte-for-byte comparison with the files
   the real reporter writes (the time attribute is an input).  No proofs here. *)
From Coq Require Import List NArith Bool Arith.
Import ListNotations.
Local Open Scope N_scope.

Definition hexdigit (n : N) : N := if n <? 10 then 48 + n else 87 + n.      (* 0-9 a-f *)
Definition is_ctrl (c : N) : bool := (c <? 32) && negb ((c =? 9) || (c =? 10) || (c =? 13)).

(* concat_escaped(): one input byte *)
Definition esc_char (c : N) : list N :=
  if c =? 34 then [38; 113; 117; 111; 116; 59]            (* &quot; *)
  else if c =? 38 then [38; 97; 109; 112; 59]              (* &amp; *)
  else if c =? 60 then [38; 108; 116; 59]                  (* &lt; *)
  else if c =? 62 then [38; 103; 116; 59]                  (* &gt; *)
  else if c =? 39 then [38; 97; 112; 111; 115; 59]         (* &apos; *)
  else if is_ctrl c then [92; 120; hexdigit (c / 16); hexdigit (c mod 16)]   (* \xNN *)
  else [c].
Definition escape (s : list N) : list N := flat_map esc_char s.

(* the message attribute of a failure: formatted text cut to 999 bytes, then escaped *)
Definition message_att (text : list N) : list N := escape (firstn 999 text).

(* what an XML parser gives back for an attribute value made of the five entities and plain
   characters (no white-space normalisation: see the known finding) *)
Fixpoint unescape (s : list N) : list N :=
  match s with
  | 38 :: 113 :: 117 :: 111 :: 116 :: 59 :: r => 34 :: unescape r
  | 38 :: 97 :: 109 :: 112 :: 59 :: r => 38 :: unescape r
  | 38 :: 108 :: 116 :: 59 :: r => 60 :: unescape r
  | 38 :: 103 :: 116 :: 59 :: r => 62 :: unescape r
  | 38 :: 97 :: 112 :: 111 :: 115 :: 59 :: r => 39 :: unescape r
  | c :: r => c :: unescape r
  | [] => []
  end.

(* ---- documents ---- *)
(* an element: name, attributes (name, already-escaped value), children, and how the reporter
   lays it out: Block = start tag line, children, end tag line (also when there are no
   children); Leaf = <name .../>; LeafSkipped = "<name />" one tab deeper (xml_show_skip) *)
Inductive style := Block | Leaf | LeafSkipped.
Inductive xnode := El (name : list N) (atts : list (list N * list N)) (kids : list xnode) (st : style).

Definition tabs (d : nat) : list N := repeat 9 d.
Definition att_text (a : list N * list N) : list N := 32 :: fst a ++ [61; 34] ++ snd a ++ [34].   (*  name="value" *)

(* serialisation as the reporter lays it out: one tag per line, indented by depth tabs *)
Fixpoint ser (d : nat) (n : xnode) : list N :=
  match n with
  | El name atts kids st =>
      match st with
      | Block => tabs d ++ [60] ++ name ++ flat_map att_text atts ++ [62; 10] ++
                 flat_map (ser (S d)) kids ++ tabs d ++ [60; 47] ++ name ++ [62; 10]
      | Leaf => tabs d ++ [60] ++ name ++ flat_map att_text atts ++ [47; 62; 10]
      | LeafSkipped => tabs (S d) ++ [60] ++ name ++ flat_map att_text atts ++ [32; 47; 62; 10]
      end
  end.

Definition str (s : list N) := s.
(* names used by the reporter *)
Definition n_testsuite := [116; 101; 115; 116; 115; 117; 105; 116; 101].
Definition n_testcase := [116; 101; 115; 116; 99; 97; 115; 101].
Definition n_failure := [102; 97; 105; 108; 117; 114; 101].
Definition n_error := [101; 114; 114; 111; 114].
Definition n_skipped := [115; 107; 105; 112; 112; 101; 100].
Definition n_location := [108; 111; 99; 97; 116; 105; 111; 110].
Definition a_name := [110; 97; 109; 101].
Definition a_classname := [99; 108; 97; 115; 115; 110; 97; 109; 101].
Definition a_time := [116; 105; 109; 101].
Definition a_message := [109; 101; 115; 115; 97; 103; 101].
Definition a_type := [116; 121; 112; 101].
Definition a_file := [102; 105; 108; 101].
Definition a_line := [108; 105; 110; 101].
Definition v_fatal := [70; 97; 116; 97; 108].

(* what a test produced, in order *)
Inductive titem := IFail (text file : list N) (line : list N)        (* line: decimal digits *)
                 | ISkip
                 | IError (text file : list N) (line : list N).       (* text: cgreen's own message *)

Definition location (file line : list N) : xnode := El n_location [(a_file, escape file); (a_line, line)] [] Leaf.
Definition item_node (it : titem) : xnode :=
  match it with
  | IFail text file line => El n_failure [(a_message, message_att text)] [location file line] Block
  | ISkip => El n_skipped [] [] LeafSkipped
  | IError text file line => El n_error [(a_type, v_fatal); (a_message, text)] [location file line] Block
  end.

Record tcase := mkcase { tc_class : list (list N); tc_name : list N; tc_time : list N; tc_items : list titem }.

Fixpoint join (sep : N) (l : list (list N)) : list N :=
  match l with [] => [] | [x] => x | x :: r => x ++ sep :: join sep r end.

(* classname: the suite path with '/' between the escaped segments *)
Definition case_node (c : tcase) : xnode :=
  El n_testcase [(a_classname, join 47 (map escape (tc_class c))); (a_name, escape (tc_name c)); (a_time, tc_time c)]
     (map item_node (tc_items c)) Block.

Definition header : list N :=
  [60;63;120;109;108;32;118;101;114;115;105;111;110;61;34;49;46;48;34;32;101;110;99;111;100;105;110;103;61;34;73;83;79;45;56;56;53;57;45;49;34;32;63;62;10].
  (* <?xml version="1.0" encoding="ISO-8859-1" ?>\n *)

(* one file per suite: the suite at nesting depth d (its own tests at depth d+1) *)
Definition suite_doc (d : nat) (path : list (list N)) (cases : list tcase) : list N :=
  header ++ ser d (El n_testsuite [(a_name, escape (join 45 path))] (map case_node cases) Block).
