(* CLite.v - a small imperative language with a fuelled, executable semantics.

   tools/srccode.py translates whole C functions of /repo (loops, early returns, pointer walks
   over byte buffers, records reached through pointers, CgreenVector calls) into programs of
   this language, on every run (Gen/Code.v).  Lemmas_Code*.v prove that those programs compute
   what the hand-written models compute, for every input; Properties_*.v restate that.  So a
   change of such a function changes the program the theorems are about.

   The semantics is deliberately strict: every access outside an object, every read of an
   unassigned local, every signed overflow at a point where C converts is `Stuck`, so a
   refinement theorem `run ... = Fine ...` also says that the function performs no such access.

   No proofs in this file (it is extracted). *)
From Coq Require Import List ZArith Bool String Lia.
Import ListNotations.
Local Open Scope string_scope.
Local Open Scope list_scope.
Local Open Scope Z_scope.

(* ------------------------------------------------------------------------------------------ *)
(* values and memory *)
Inductive val :=
| VInt (z : Z)
| VPtr (b : nat) (off : Z)          (* object b of the heap, element offset off *)
| VLit (bytes : list Z)             (* a string literal / a caller's constant string: its bytes, no NUL *)
| VFun (name : string).             (* address of a function *)

Inductive obj :=
| ORec (fields : list (string * val))   (* a struct reached through a pointer *)
| OVec (items : list val)               (* a CgreenVector (list semantics: see Lemmas_Vector) *)
| OBytes (bytes : list Z)               (* char array of exactly this many bytes, each 0..255 *)
| OFreed.

Record world := mkw {
  heap : list obj;
  globs : list (string * val);            (* file-scope variables *)
  streams : list (string * list val);     (* what the external functions will return, per name *)
  wtrace : list (string * list val)        (* calls of external functions, newest first *)
}.

(* C integer types that matter *)
Inductive ity := I8 | U8 | I32 | U32 | I64 | U64 | IBool.

Definition ity_range (t : ity) : Z * Z :=
  match t with
  | I8 => (-128, 127) | U8 => (0, 255)
  | I32 => (-2147483648, 2147483647) | U32 => (0, 4294967295)
  | I64 => (-9223372036854775808, 9223372036854775807) | U64 => (0, 18446744073709551615)
  | IBool => (0, 1)
  end.
Definition ity_signed (t : ity) : bool := match t with I8 | I32 | I64 => true | _ => false end.

(* conversion to an integer type as C defines it on this platform: modulo 2^n *)
Definition wrap (t : ity) (z : Z) : Z :=
  match t with
  | IBool => if z =? 0 then 0 else 1
  | _ => let '(lo, hi) := ity_range t in
         let m := hi - lo + 1 in
         let r := (z - lo) mod m in r + lo
  end.
Definition in_range (t : ity) (z : Z) : bool :=
  let '(lo, hi) := ity_range t in (lo <=? z) && (z <=? hi).

Inductive unop := ONeg | ONot | OBitNot.
Inductive binop := OAdd | OSub | OMul | ODiv | OMod | OEq | ONe | OLt | OLe | OGt | OGe | OAnd | OOr.

Inductive expr :=
| EConst (z : Z)
| EStr (bytes : list Z)                      (* string literal *)
| EVar (x : string)                          (* parameter or local *)
| EGlob (x : string)
| EFun (f : string)                          (* &function *)
| EField (e : expr) (f : string)             (* e->f (f may be a dotted path into nested structs) *)
| ELoad (t : ity) (e : expr)                 (* *e, e pointing into bytes; t = type of the element *)
| EIndex (a : expr) (i : expr)               (* a[i], a an array of pointers or of structs (an OVec object) *)
| EUn (o : unop) (e : expr)
| EBin (o : binop) (a b : expr)              (* && and || are lazy *)
| EArith (t : ity) (e : expr)                (* result of an arithmetic operation of type t: wraps when
                                                unsigned, undefined (Stuck) on signed overflow *)
| ECast (t : ity) (e : expr)                 (* conversion: always modulo *)
| ECond (c a b : expr)
| ECall (f : string) (args : list expr)
| ECallPtr (fe : expr) (label : string) (args : list expr).   (* call through a function pointer *)

Inductive lval :=
| LVar (x : string)
| LGlob (x : string)
| LField (e : expr) (f : string)
| LStore (t : ity) (e : expr)                (* *e = ... *)
| LIndex (a : expr) (i : expr).              (* a[i] = ..., a an array of pointers *)

Inductive stmt :=
| SSkip
| SAssign (l : lval) (e : expr)
| SExpr (e : expr)
| SSeq (a b : stmt)
| SIf (c : expr) (a b : stmt)
| SLoop (c : expr) (body incr : stmt)        (* while (c) { body; incr }  - `continue` goes to incr *)
| SBreak
| SContinue
| SReturn (e : option expr).

Record fundef := mkfun { fname : string; fparams : list string; fbody : stmt }.

Inductive cres (A : Type) :=
| Fine (a : A)
| Stuck (why : string)      (* undefined behaviour or a construct outside the semantics *)
| NoFuel.
Arguments Fine {A}. Arguments Stuck {A}. Arguments NoFuel {A}.

Definition bindr {A B} (r : cres A) (f : A -> cres B) : cres B :=
  match r with Fine a => f a | Stuck w => Stuck w | NoFuel => NoFuel end.
Notation "'do' x <- r ; k" := (bindr r (fun x => k)) (at level 200, x pattern, r at level 100, k at level 200).

(* ------------------------------------------------------------------------------------------ *)
(* association lists *)
Fixpoint alookup {A} (k : string) (l : list (string * A)) : option A :=
  match l with
  | [] => None
  | (k', v) :: l' => if String.eqb k k' then Some v else alookup k l'
  end.
Fixpoint aset {A} (k : string) (v : A) (l : list (string * A)) : list (string * A) :=
  match l with
  | [] => [(k, v)]
  | (k', v') :: l' => if String.eqb k k' then (k, v) :: l' else (k', v') :: aset k v l'
  end.

Fixpoint list_set {A} (n : nat) (v : A) (l : list A) : list A :=
  match l, n with
  | [], _ => []
  | _ :: l', O => v :: l'
  | x :: l', S n' => x :: list_set n' v l'
  end.

Definition set_heap (h : list obj) (w : world) := mkw h (globs w) (streams w) (wtrace w).
Definition set_globs (g : list (string * val)) (w : world) := mkw (heap w) g (streams w) (wtrace w).

Definition alloc (o : obj) (w : world) : val * world :=
  (VPtr (List.length (heap w)) 0, set_heap (heap w ++ [o]) w).

(* ------------------------------------------------------------------------------------------ *)
(* byte strings in memory *)
Fixpoint strlen_from (l : list Z) : option nat :=       (* index of the first 0 *)
  match l with
  | [] => None
  | c :: l' => if c =? 0 then Some O else match strlen_from l' with Some n => Some (S n) | None => None end
  end.

(* the bytes of the C string a value points to (without the NUL) *)
Definition cstring (w : world) (v : val) : cres (list Z) :=
  match v with
  | VLit l => Fine l
  | VPtr b off =>
      match nth_error (heap w) b with
      | Some (OBytes l) =>
          if (0 <=? off) && (off <=? Z.of_nat (List.length l)) then
            let tl := skipn (Z.to_nat off) l in
            match strlen_from tl with
            | Some n => Fine (firstn n tl)
            | None => Stuck "string not terminated inside its object"
            end
          else Stuck "string pointer outside its object"
      | _ => Stuck "not a pointer to bytes"
      end
  | _ => Stuck "not a string"
  end.

Definition load_byte (w : world) (v : val) : cres Z :=
  match v with
  | VLit l => Stuck "byte access to a literal"
  | VPtr b off =>
      match nth_error (heap w) b with
      | Some (OBytes l) =>
          if (0 <=? off) && (off <? Z.of_nat (List.length l)) then Fine (nth (Z.to_nat off) l 0)
          else Stuck "read outside the object"
      | _ => Stuck "read through a pointer that does not point to bytes"
      end
  | _ => Stuck "read through a non-pointer"
  end.

(* write a run of bytes at a pointer; every byte must lie inside the object *)
Fixpoint splice (l : list Z) (at_ : nat) (src : list Z) : list Z :=
  match at_, l with
  | O, _ => src ++ skipn (List.length src) l
  | S n, x :: l' => x :: splice l' n src
  | S _, [] => []
  end.

Definition store_bytes (w : world) (v : val) (src : list Z) : cres world :=
  match v with
  | VPtr b off =>
      match nth_error (heap w) b with
      | Some (OBytes l) =>
          if (0 <=? off) && (off + Z.of_nat (List.length src) <=? Z.of_nat (List.length l)) then
            Fine (set_heap (list_set b (OBytes (splice l (Z.to_nat off) src)) (heap w)) w)
          else Stuck "write outside the object"
      | _ => Stuck "write through a pointer that does not point to bytes"
      end
  | _ => Stuck "write through a non-pointer"
  end.

(* bytes [off, off+n) of an object *)
Definition load_bytes (w : world) (v : val) (n : Z) : cres (list Z) :=
  match v with
  | VLit l => if (0 <=? n) && (n <=? Z.of_nat (List.length l) + 1) then Fine (firstn (Z.to_nat n) (l ++ [0]))
              else Stuck "read outside a literal"
  | VPtr b off =>
      match nth_error (heap w) b with
      | Some (OBytes l) =>
          if (0 <=? off) && (0 <=? n) && (off + n <=? Z.of_nat (List.length l)) then
            Fine (firstn (Z.to_nat n) (skipn (Z.to_nat off) l))
          else Stuck "read outside the object"
      | _ => Stuck "not a pointer to bytes"
      end
  | _ => Stuck "not a pointer"
  end.

Definition is_space (c : Z) : bool := (c =? 32) || ((9 <=? c) && (c <=? 13)).

Fixpoint index_of (c : Z) (l : list Z) : option nat :=
  match l with
  | [] => None
  | x :: l' => if x =? c then Some O else match index_of c l' with Some n => Some (S n) | None => None end
  end.

(* lexicographic comparison of byte strings as strcmp does it (unsigned bytes) *)
Fixpoint bytes_cmp (a b : list Z) : Z :=
  match a, b with
  | [], [] => 0
  | [], _ :: _ => -1
  | _ :: _, [] => 1
  | x :: a', y :: b' => if x =? y then bytes_cmp a' b' else if x <? y then -1 else 1
  end.

(* ------------------------------------------------------------------------------------------ *)
(* records and vectors *)
Definition get_field (w : world) (v : val) (f : string) : cres val :=
  match v with
  | VPtr b 0 =>
      match nth_error (heap w) b with
      | Some (ORec fs) => match alookup f fs with Some x => Fine x | None => Stuck ("no field " ++ f)%string end
      | Some OFreed => Stuck "use after free"
      | _ => Stuck ("field " ++ f ++ " of a non-record")%string
      end
  | VInt 0 => Stuck ("field " ++ f ++ " of NULL")%string
  | _ => Stuck ("field " ++ f ++ " of a non-pointer")%string
  end.

Definition set_field (w : world) (v : val) (f : string) (x : val) : cres world :=
  match v with
  | VPtr b 0 =>
      match nth_error (heap w) b with
      | Some (ORec fs) => Fine (set_heap (list_set b (ORec (aset f x fs)) (heap w)) w)
      | Some OFreed => Stuck "use after free"
      | _ => Stuck ("field " ++ f ++ " of a non-record")%string
      end
  | _ => Stuck ("field " ++ f ++ " of a non-pointer")%string
  end.

Definition get_vec (w : world) (v : val) : cres (nat * list val) :=
  match v with
  | VPtr b 0 =>
      match nth_error (heap w) b with
      | Some (OVec l) => Fine (b, l)
      | Some OFreed => Stuck "vector used after free"
      | _ => Stuck "not a vector"
      end
  | VInt 0 => Stuck "NULL vector"
  | _ => Stuck "not a vector"
  end.

Fixpoint remove_nth {A} (n : nat) (l : list A) : list A :=
  match l, n with
  | [], _ => []
  | _ :: l', O => l'
  | x :: l', S n' => x :: remove_nth n' l'
  end.

(* fnmatch(pattern, string, 0) for patterns of literal characters and '*' *)
Fixpoint glob_z (p s : list Z) : bool :=
  match p with
  | [] => match s with [] => true | _ => false end
  | c :: p' =>
      if c =? 42 then
        (fix star (s : list Z) : bool :=
           glob_z p' s || match s with [] => false | _ :: s' => star s' end) s
      else match s with
           | c' :: s' => (c =? c') && glob_z p' s'
           | [] => false
           end
  end.

(* the conversions of printf that cgreen's translated functions use *)
Definition hex_digit (d : Z) : Z := if d <? 10 then 48 + d else 87 + d.
Fixpoint hex_digits (fuel : nat) (n : Z) (acc : list Z) : list Z :=
  match fuel with
  | O => acc
  | S f => if n <? 16 then hex_digit n :: acc else hex_digits f (n / 16) (hex_digit (n mod 16) :: acc)
  end.
Definition hex_of (n : Z) : list Z := hex_digits 20 n [].
Fixpoint dec_digits (fuel : nat) (n : Z) (acc : list Z) : list Z :=
  match fuel with
  | O => acc
  | S f => if n <? 10 then (48 + n) :: acc else dec_digits f (n / 10) ((48 + n mod 10) :: acc)
  end.
Definition dec_of (n : Z) : list Z := if n <? 0 then 45 :: dec_digits 25 (- n) [] else dec_digits 25 n [].
Definition pad_left (width : nat) (c : Z) (l : list Z) : list Z := repeat c (width - List.length l) ++ l.

Fixpoint format_c (fuel : nat) (w : world) (fmt : list Z) (args : list val) : cres (list Z) :=
  match fuel with
  | O => Stuck "format too long"
  | S f =>
      match fmt with
      | [] => Fine []
      | 37 :: 37 :: r => do t <- format_c f w r args; Fine (37 :: t)                       (* %% *)
      | 37 :: 99 :: r =>                                                                    (* %c *)
          match args with
          | VInt c :: a' => do t <- format_c f w r a'; Fine (wrap U8 c :: t)
          | _ => Stuck "printf: %c without an integer argument"
          end
      | 37 :: 48 :: 50 :: 120 :: r =>                                                       (* %02x *)
          match args with
          | VInt n :: a' => do t <- format_c f w r a'; Fine (pad_left 2 48 (hex_of (wrap U32 n)) ++ t)
          | _ => Stuck "printf: %02x without an integer argument"
          end
      | 37 :: 100 :: r =>                                                                   (* %d *)
          match args with
          | VInt n :: a' => do t <- format_c f w r a'; Fine (dec_of (wrap I32 n) ++ t)
          | _ => Stuck "printf: %d without an integer argument"
          end
      | 37 :: 115 :: r =>                                                                   (* %s *)
          match args with
          | v :: a' => do sv <- cstring w v; do t <- format_c f w r a'; Fine (sv ++ t)
          | _ => Stuck "printf: %s without an argument"
          end
      | 37 :: _ => Stuck "printf: a conversion outside the modelled set"
      | c :: r => do t <- format_c f w r args; Fine (c :: t)
      end
  end.

Definition ranges_overlap (a b : val) (n : Z) : bool :=
  match a, b with
  | VPtr b1 o1, VPtr b2 o2 => Nat.eqb b1 b2 && (o1 <? o2 + n) && (o2 <? o1 + n)
  | _, _ => false
  end.

(* ------------------------------------------------------------------------------------------ *)
(* functions of libc and of cgreen's vector that have a meaning here; everything else is an
   external call: it is recorded in the wtrace and answers from its stream (0 when empty) *)
Definition pop_stream (f : string) (w : world) : val * world :=
  match alookup f (streams w) with
  | Some (v :: rest) => (v, mkw (heap w) (globs w) (aset f rest (streams w)) (wtrace w))
  | _ => (VInt 0, w)
  end.

Definition external (f : string) (args : list val) (w : world) : cres (val * world) :=
  let '(v, w1) := pop_stream f w in
  Fine (v, mkw (heap w1) (globs w1) (streams w1) ((f, args) :: wtrace w1)).

Definition builtin (f : string) (args : list val) (w : world) : cres (val * world) :=
  match f, args with
  | "cgreen_vector_size", [v] =>
      match v with
      | VInt 0 => Fine (VInt 0, w)           (* cgreen_vector_size(NULL) is 0 *)
      | _ => do bl <- get_vec w v; Fine (VInt (Z.of_nat (List.length (snd bl))), w)
      end
  | "cgreen_vector_get", [v; VInt i] =>
      do bl <- get_vec w v;
      if (0 <=? i) && (i <? Z.of_nat (List.length (snd bl))) then Fine (nth (Z.to_nat i) (snd bl) (VInt 0), w)
      else Stuck "cgreen_vector_get: position outside the vector"
  | "cgreen_vector_add", [v; x] =>
      do bl <- get_vec w v;
      Fine (VInt 0, set_heap (list_set (fst bl) (OVec (snd bl ++ [x])) (heap w)) w)
  | "cgreen_vector_remove", [v; VInt i] =>
      do bl <- get_vec w v;
      if (0 <=? i) && (i <? Z.of_nat (List.length (snd bl))) then
        Fine (nth (Z.to_nat i) (snd bl) (VInt 0),
            set_heap (list_set (fst bl) (OVec (remove_nth (Z.to_nat i) (snd bl))) (heap w)) w)
      else Stuck "cgreen_vector_remove: position outside the vector"
  | "create_cgreen_vector", [_] => Fine (alloc (OVec []) w)
  | "destroy_cgreen_vector", [v] =>
      match v with
      | VInt 0 => Fine (VInt 0, w)
      | _ => do bl <- get_vec w v; Fine (VInt 0, set_heap (list_set (fst bl) OFreed (heap w)) w)
      end
  | "strlen", [s] => do l <- cstring w s; Fine (VInt (Z.of_nat (List.length l)), w)
  | "strcmp", [a; b] => do x <- cstring w a; do y <- cstring w b; Fine (VInt (bytes_cmp x y), w)
  | "strncmp", [a; b; VInt n] =>
      do x <- cstring w a; do y <- cstring w b;
      Fine (VInt (bytes_cmp (firstn (Z.to_nat n) x) (firstn (Z.to_nat n) y)), w)
  | "strchr", [s; VInt c] =>
      do l <- cstring w s;
      match s with
      | VPtr b off =>
          match index_of c (l ++ [0]) with
          | Some n => Fine (VPtr b (off + Z.of_nat n), w)
          | None => Fine (VInt 0, w)
          end
      | _ => Stuck "strchr on a literal"
      end
  | "isspace", [VInt c] => Fine (VInt (if is_space c then 1 else 0), w)
  | "stack_array", [VInt n] =>
      if (0 <=? n) then Fine (alloc (OBytes (repeat 255 (Z.to_nat n))) w) else Stuck "array of a negative size"
  | "malloc", [VInt n] =>
      if (0 <=? n) then Fine (alloc (OBytes (repeat 255 (Z.to_nat n))) w)   (* contents indeterminate: not 0 *)
      else Stuck "malloc of a negative size"
  | "free", [p] =>
      match p with
      | VInt 0 => Fine (VInt 0, w)
      | VPtr b 0 =>
          match nth_error (heap w) b with
          | Some (OBytes _) => Fine (VInt 0, set_heap (list_set b OFreed (heap w)) w)
          | Some OFreed => Stuck "double free"
          | _ => Fine (VInt 0, w)
          end
      | VPtr _ _ => Stuck "free of a pointer into the middle of a block"
      | _ => Fine (VInt 0, w)
      end
  | "strcpy", [d; s] =>
      do l <- cstring w s; do w' <- store_bytes w d (l ++ [0]); Fine (d, w')
  | "memcpy", [d; s; VInt n] =>
      if ranges_overlap d s n then Stuck "memcpy of overlapping ranges"
      else do l <- load_bytes w s n; do w' <- store_bytes w d l; Fine (d, w')
  | "memset", [VPtr b o; VInt c; VInt n] =>      (* on anything but a pointer to bytes (a va_list): an opaque external call *)
      if 0 <=? n then do w' <- store_bytes w (VPtr b o) (repeat (wrap U8 c) (Z.to_nat n)); Fine (VPtr b o, w')
      else Stuck "memset of a negative size"
  | "strdup", [s] | "string_dup", [s] =>
      do l <- cstring w s; Fine (alloc (OBytes (l ++ [0])) w)
  | "strcat", [d; s] =>
      do dl <- cstring w d; do l <- cstring w s;
      match d with
      | VPtr b off => do w' <- store_bytes w (VPtr b (off + Z.of_nat (List.length dl))) (l ++ [0]); Fine (d, w')
      | _ => Stuck "strcat onto a literal"
      end
  | "realloc", [p; VInt n] =>
      if 0 <=? n then
        match p with
        | VInt 0 => Fine (alloc (OBytes (repeat 255 (Z.to_nat n))) w)
        | VPtr b 0 =>
            match nth_error (heap w) b with
            | Some (OBytes l) =>
                let l' := firstn (Z.to_nat n) l ++ repeat 255 (Z.to_nat n - List.length l) in
                let '(v, w1) := alloc (OBytes l') w in
                Fine (v, set_heap (list_set b OFreed (heap w1)) w1)
            | _ => Stuck "realloc of something that is not a byte block"
            end
        | _ => Stuck "realloc of a pointer into the middle of a block"
        end
      else Stuck "realloc to a negative size"
  | "snprintf", d :: VInt n :: fmt :: fargs =>
      do f <- cstring w fmt; do out <- format_c 4000 w f fargs;
      if 1 <=? n then
        do w' <- store_bytes w d (firstn (Z.to_nat (n - 1)) out ++ [0]);
        Fine (VInt (Z.of_nat (List.length out)), w')
      else Fine (VInt (Z.of_nat (List.length out)), w)
  | "fnmatch", [p; s; VInt 0] =>
      do pl <- cstring w p; do sl <- cstring w s; Fine (VInt (if glob_z pl sl then 0 else 1), w)
  | "memmove", [d; s; VInt n] =>
      do l <- load_bytes w s n; do w' <- store_bytes w d l; Fine (d, w')
  | _, _ => external f args w
  end.

(* ------------------------------------------------------------------------------------------ *)
(* evaluation *)
Definition locals := list (string * val).

Definition truthy (v : val) : bool :=
  match v with VInt z => negb (z =? 0) | _ => true end.

Definition bool_val (b : bool) : val := VInt (if b then 1 else 0).

Definition val_eq (a b : val) : cres bool :=
  match a, b with
  | VInt x, VInt y => Fine (x =? y)
  | VPtr b1 o1, VPtr b2 o2 => Fine (Nat.eqb b1 b2 && (o1 =? o2))
  | VPtr _ _, VInt 0 | VInt 0, VPtr _ _ => Fine false
  | VLit _, VInt 0 | VInt 0, VLit _ => Fine false
  | VFun f, VFun g => Fine (String.eqb f g)
  | VFun _, VInt 0 | VInt 0, VFun _ => Fine false
  | _, _ => Stuck "comparison of unrelated values"
  end.

Definition arith (o : binop) (a b : val) : cres val :=
  match o, a, b with
  | OAdd, VInt x, VInt y => Fine (VInt (x + y))
  | OSub, VInt x, VInt y => Fine (VInt (x - y))
  | OMul, VInt x, VInt y => Fine (VInt (x * y))
  | ODiv, VInt x, VInt y => if y =? 0 then Stuck "division by zero" else Fine (VInt (Z.quot x y))
  | OMod, VInt x, VInt y => if y =? 0 then Stuck "division by zero" else Fine (VInt (Z.rem x y))
  | OAdd, VPtr b o, VInt y => Fine (VPtr b (o + y))
  | OAdd, VInt x, VPtr b o => Fine (VPtr b (o + x))
  | OSub, VPtr b o, VInt y => Fine (VPtr b (o - y))
  | OSub, VPtr b1 o1, VPtr b2 o2 => if Nat.eqb b1 b2 then Fine (VInt (o1 - o2)) else Stuck "difference of pointers into different objects"
  | OEq, _, _ => do r <- val_eq a b; Fine (bool_val r)
  | ONe, _, _ => do r <- val_eq a b; Fine (bool_val (negb r))
  | OLt, VInt x, VInt y => Fine (bool_val (x <? y))
  | OLe, VInt x, VInt y => Fine (bool_val (x <=? y))
  | OGt, VInt x, VInt y => Fine (bool_val (x >? y))
  | OGe, VInt x, VInt y => Fine (bool_val (x >=? y))
  | OLt, VPtr b1 o1, VPtr b2 o2 => if Nat.eqb b1 b2 then Fine (bool_val (o1 <? o2)) else Stuck "order of pointers into different objects"
  | OLe, VPtr b1 o1, VPtr b2 o2 => if Nat.eqb b1 b2 then Fine (bool_val (o1 <=? o2)) else Stuck "order of pointers into different objects"
  | OGt, VPtr b1 o1, VPtr b2 o2 => if Nat.eqb b1 b2 then Fine (bool_val (o1 >? o2)) else Stuck "order of pointers into different objects"
  | OGe, VPtr b1 o1, VPtr b2 o2 => if Nat.eqb b1 b2 then Fine (bool_val (o1 >=? o2)) else Stuck "order of pointers into different objects"
  | _, _, _ => Stuck "operator applied to values it has no meaning for"
  end.

Section Sem.
(* calls of translated functions, supplied by the fuelled interpreter below *)
Variable call : string -> list val -> world -> cres (val * world).

Fixpoint eval (e : expr) (l : locals) (w : world) {struct e} : cres (val * world) :=
  match e with
  | EConst z => Fine (VInt z, w)
  | EStr s => Fine (VLit s, w)
  | EVar x => match alookup x l with Some v => Fine (v, w) | None => Stuck ("local " ++ x ++ " read before it is assigned")%string end
  | EGlob x => match alookup x (globs w) with Some v => Fine (v, w) | None => Stuck ("unknown global " ++ x)%string end
  | EFun f => Fine (VFun f, w)
  | EField e1 f => do vw <- eval e1 l w; do x <- get_field (snd vw) (fst vw) f; Fine (x, snd vw)
  | ELoad t e1 =>
      do vw <- eval e1 l w; do b <- load_byte (snd vw) (fst vw);
      Fine (VInt (wrap t b), snd vw)
  | EIndex a i =>
      do vw <- eval a l w; do iw <- eval i l (snd vw);
      do bl <- get_vec (snd iw) (fst vw);
      match fst iw with
      | VInt n => if (0 <=? n) && (n <? Z.of_nat (List.length (snd bl))) then Fine (nth (Z.to_nat n) (snd bl) (VInt 0), snd iw)
                  else Stuck "array index outside the array"
      | _ => Stuck "array index is not an integer"
      end
  | EUn o e1 =>
      do vw <- eval e1 l w;
      match o, fst vw with
      | ONeg, VInt z => Fine (VInt (- z), snd vw)
      | ONot, v => Fine (bool_val (negb (truthy v)), snd vw)
      | OBitNot, VInt z => Fine (VInt (- z - 1), snd vw)
      | _, _ => Stuck "unary operator on a pointer"
      end
  | EBin OAnd a b =>
      do vw <- eval a l w;
      if truthy (fst vw) then (do vw2 <- eval b l (snd vw); Fine (bool_val (truthy (fst vw2)), snd vw2))
      else Fine (VInt 0, snd vw)
  | EBin OOr a b =>
      do vw <- eval a l w;
      if truthy (fst vw) then Fine (VInt 1, snd vw)
      else (do vw2 <- eval b l (snd vw); Fine (bool_val (truthy (fst vw2)), snd vw2))
  | EBin o a b =>
      do vw <- eval a l w; do vw2 <- eval b l (snd vw);
      do r <- arith o (fst vw) (fst vw2); Fine (r, snd vw2)
  | EArith t e1 =>
      do vw <- eval e1 l w;
      match fst vw with
      | VInt z => if ity_signed t then (if in_range t z then Fine (VInt z, snd vw) else Stuck "signed overflow")
                  else Fine (VInt (wrap t z), snd vw)
      | v => Fine (v, snd vw)
      end
  | ECast t e1 =>
      do vw <- eval e1 l w;
      match fst vw with
      | VInt z => Fine (VInt (wrap t z), snd vw)
      | v => match t with IBool => Fine (bool_val (truthy v), snd vw) | _ => Fine (v, snd vw) end
      end
  | ECond c a b =>
      do vw <- eval c l w;
      if truthy (fst vw) then eval a l (snd vw) else eval b l (snd vw)
  | ECall f args =>
      do aw <- (fix evs (es : list expr) (w : world) : cres (list val * world) :=
                  match es with
                  | [] => Fine ([], w)
                  | e1 :: es' => do vw <- eval e1 l w; do rw <- evs es' (snd vw); Fine (fst vw :: fst rw, snd rw)
                  end) args w;
      call f (fst aw) (snd aw)
  | ECallPtr fe label args =>
      do fw <- eval fe l w;
      do aw <- (fix evs (es : list expr) (w : world) : cres (list val * world) :=
                  match es with
                  | [] => Fine ([], w)
                  | e1 :: es' => do vw <- eval e1 l w; do rw <- evs es' (snd vw); Fine (fst vw :: fst rw, snd rw)
                  end) args (snd fw);
      match fst fw with
      | VFun f => call f (fst aw) (snd aw)
      | VInt 0 => Stuck ("call through the NULL pointer " ++ label)%string
      | _ => external label (fst aw) (snd aw)
      end
  end.

Fixpoint eval_list (es : list expr) (l : locals) (w : world) : cres (list val * world) :=
  match es with
  | [] => Fine ([], w)
  | e1 :: es' => do vw <- eval e1 l w; do rw <- eval_list es' l (snd vw); Fine (fst vw :: fst rw, snd rw)
  end.

Definition assign (lv : lval) (v : val) (l : locals) (w : world) : cres (locals * world) :=
  match lv with
  | LVar x => Fine (aset x v l, w)
  | LGlob x => Fine (l, set_globs (aset x v (globs w)) w)
  | LField e f => do pw <- eval e l w; do w' <- set_field (snd pw) (fst pw) f v; Fine (l, w')
  | LStore t e =>
      do pw <- eval e l w;
      match v with
      | VInt z => do w' <- store_bytes (snd pw) (fst pw) [wrap U8 z]; Fine (l, w')
      | _ => Stuck "storing a pointer into bytes"
      end
  | LIndex a i =>
      do vw <- eval a l w; do iw <- eval i l (snd vw);
      do bl <- get_vec (snd iw) (fst vw);
      match fst iw with
      | VInt n => if (0 <=? n) && (n <? Z.of_nat (List.length (snd bl)))
                  then Fine (l, set_heap (list_set (fst bl) (OVec (list_set (Z.to_nat n) v (snd bl))) (heap (snd iw))) (snd iw))
                  else Stuck "array index outside the array"
      | _ => Stuck "array index is not an integer"
      end
  end.
End Sem.

Inductive flow := FNormal | FBreak | FContinue | FReturn (v : val).

Section Prog.
Variable prog : list (string * fundef).     (* name -> definition *)

Definition find_fun (f : string) (p : list (string * fundef)) : option fundef := alookup f p.

Fixpoint bind_params (ps : list string) (vs : list val) : option locals :=
  match ps, vs with
  | [], [] => Some []
  | p :: ps', v :: vs' => match bind_params ps' vs' with Some l => Some ((p, v) :: l) | None => None end
  | _, _ => None
  end.

(* a call: of a translated function (run by `rec`, the interpreter with less fuel) or of a
   function that has a meaning of its own *)
Definition mk_call (rec : stmt -> locals -> world -> cres (flow * locals * world))
           (f : string) (args : list val) (w : world) : cres (val * world) :=
  match find_fun f prog with
  | Some d =>
      match bind_params (fparams d) args with
      | Some l0 =>
          do r <- rec (fbody d) l0 w;
          match r with
          | (FReturn v, _, w') => Fine (v, w')
          | (_, _, w') => Fine (VInt 0, w')
          end
      | None => Stuck ("wrong number of arguments for " ++ f)%string
      end
  | None => builtin f args w
  end.

(* fuel is consumed by loop iterations and by calls of translated functions only *)
Fixpoint cexec (fuel : nat) (s : stmt) (l : locals) (w : world) {struct fuel} : cres (flow * locals * world) :=
  match fuel with
  | O => NoFuel
  | S n =>
      (fix ex (s : stmt) (l : locals) (w : world) {struct s} : cres (flow * locals * world) :=
         match s with
         | SSkip => Fine (FNormal, l, w)
         | SAssign lv e =>
             do vw <- eval (mk_call (cexec n)) e l w;
             do lw <- assign (mk_call (cexec n)) lv (fst vw) l (snd vw);
             Fine (FNormal, fst lw, snd lw)
         | SExpr e => do vw <- eval (mk_call (cexec n)) e l w; Fine (FNormal, l, snd vw)
         | SSeq a b =>
             do r <- ex a l w;
             match r with
             | (FNormal, l1, w1) => ex b l1 w1
             | other => Fine other
             end
         | SIf c a b =>
             do vw <- eval (mk_call (cexec n)) c l w;
             if truthy (fst vw) then ex a l (snd vw) else ex b l (snd vw)
         | SLoop c body incr =>
             do vw <- eval (mk_call (cexec n)) c l w;
             if truthy (fst vw) then
               do r <- ex body l (snd vw);
               match r with
               | (FBreak, l1, w1) => Fine (FNormal, l1, w1)
               | (FReturn v, l1, w1) => Fine (FReturn v, l1, w1)
               | (_, l1, w1) =>
                   do r2 <- ex incr l1 w1;
                   match r2 with
                   | (FNormal, l2, w2) => cexec n (SLoop c body incr) l2 w2
                   | other => Fine other
                   end
               end
             else Fine (FNormal, l, snd vw)
         | SBreak => Fine (FBreak, l, w)
         | SContinue => Fine (FContinue, l, w)
         | SReturn None => Fine (FReturn (VInt 0), l, w)
         | SReturn (Some e) => do vw <- eval (mk_call (cexec n)) e l w; Fine (FReturn (fst vw), l, snd vw)
         end) s l w
  end.

(* run a translated function on argument values *)
Definition run_fun (fuel : nat) (f : string) (args : list val) (w : world) : cres (val * world) :=
  match find_fun f prog with
  | Some _ => mk_call (cexec fuel) f args w
  | None => Stuck ("no such function: " ++ f)%string
  end.
End Prog.
