(* The percent-doubling routine of src/message_formatting.c (double_all_percent_signs_in with
   count_percent_signs, copy_while_doubling_percent_signs, next_percent_sign), translated from the
   current source on every run (Gen/Code_percent.v), computes Printf.double_percent - the function
   C10's round-trip theorem is about - for every text, in a block of exactly the size it allocates.
   Statements only; proofs are in Lemmas_Code_Percent.v. *)
From Coq Require Import List ZArith NArith String Bool.
From CgreenVerif Require Import CLite Printf Lemmas_Code_Percent.
From CgreenVerif.Gen Require Import Code_percent.
Import ListNotations.
Local Open Scope string_scope. Local Open Scope list_scope. Local Open Scope Z_scope.

(* for every text of bytes 1..255 (any length below 2^62): the function returns a new block that holds the
   text with every '%' written twice, then the terminator, and nothing else (the block has exactly
   strlen + count + 1 bytes); the original block is unchanged; the run performs no access outside the
   two blocks (it is Fine, never Stuck) *)
Theorem Code_double_all_percent_signs_in :
  forall s g st tr n,
    text_ok s -> Z.of_nat (List.length s) < 4611686018427387904 -> (2 * pcts s + 12 < n)%nat ->
    run_fun prog_percent n "double_all_percent_signs_in" [VPtr 0 0] (mkw [OBytes (s ++ [0])] g st tr) =
    Fine (VPtr 1 0, mkw [OBytes (s ++ [0]); OBytes (dbl s ++ [0])] g st tr).
Proof. exact double_all_percent_signs_in_refines. Qed.
Print Assumptions Code_double_all_percent_signs_in.

Theorem Code_result_is_the_doubled_string :
  forall s g st tr n,
    text_ok s -> Z.of_nat (List.length s) < 4611686018427387904 -> (2 * pcts s + 12 < n)%nat ->
    exists v w',
      run_fun prog_percent n "double_all_percent_signs_in" [VPtr 0 0] (mkw [OBytes (s ++ [0])] g st tr) = Fine (v, w') /\
      cstring w' v = Fine (dbl s) /\ cstring w' (VPtr 0 0) = Fine s.
Proof. exact double_all_percent_signs_in_string. Qed.
Print Assumptions Code_result_is_the_doubled_string.

(* ... and dbl is the model function of Printf.v *)
Theorem Code_dbl_is_double_percent :
  forall l : list N, dbl (map Z.of_N l) = map Z.of_N (Printf.double_percent l).
Proof. exact dbl_is_double_percent. Qed.

(* non-vacuity *)
Example Code_double_percent_example :
  run_fun prog_percent 30 "double_all_percent_signs_in" [VPtr 0 0] (mkw [OBytes ([97; 37; 37; 98; 37] ++ [0])] [] [] []) =
  Fine (VPtr 1 0, mkw [OBytes [97; 37; 37; 98; 37; 0]; OBytes [97; 37; 37; 37; 37; 98; 37; 37; 0]] [] [] []).
Proof. vm_compute. reflexivity. Qed.
