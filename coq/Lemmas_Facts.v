(* Lemmas_Facts.v — the facts regenerated from /repo's sources (Gen/Facts.v) satisfy what the
   theorems need.  A source change that alters a verdict expression, drops a counter fold or
   renumbers the record enum breaks one of these lemmas. *)
From Coq Require Import List ZArith Bool Lia.
From CgreenVerif Require Import Defs Runner Spec_Runner Lemmas_Runner.
From CgreenVerif.Gen Require Import Facts.
Import ListNotations.
Local Open Scope Z_scope.

(* run_test_suite(): success exactly when no failure and no exception was totalled *)
Lemma verdict_suite_spec tp tf ts te : verdict_suite tp tf ts te = true <-> tf = 0 /\ te = 0.
Proof.
  unfold verdict_suite.
  destruct (tf =? 0) eqn:Hf; destruct (te =? 0) eqn:He; cbn;
    rewrite ?Z.eqb_eq, ?Z.eqb_neq in *; split; intros H; try discriminate; try lia; try reflexivity.
Qed.

(* run_single_test(): looks at failures only *)
Lemma verdict_single_spec tp tf ts te : verdict_single tp tf ts te = true <-> tf = 0.
Proof.
  unfold verdict_single.
  destruct (tf =? 0) eqn:Hf; cbn; rewrite ?Z.eqb_eq, ?Z.eqb_neq in *; split; intros H;
    try discriminate; try lia; try reflexivity.
Qed.

Definition rk_foldsb (rk : rkind) : bool := rk_fold_p rk && rk_fold_f rk && rk_fold_s rk && rk_fold_e rk.
Lemma rk_foldsb_ok rk : rk_foldsb rk = true -> rk_folds rk.
Proof.
  unfold rk_foldsb, rk_folds. intros H.
  repeat (apply andb_prop in H; destruct H as [H ?]). auto.
Qed.

Definition builtin_reporters : list rkind := [rk_text; rk_cute; rk_xml; rk_libxml; rk_cdash].

(* every built-in reporter folds all four suite counters into its totals *)
Lemma builtin_fold_all : forallb rk_foldsb builtin_reporters = true.
Proof. vm_compute. reflexivity. Qed.

Lemma builtin_rk_folds rk : In rk builtin_reporters -> rk_folds rk.
Proof.
  intros H. apply rk_foldsb_ok. pose proof builtin_fold_all as HA.
  rewrite forallb_forall in HA. apply HA. exact H.
Qed.

(* the record codes are distinct and positive (0 means "nothing to read") *)
Lemma msg_codes_ok : NoDup msg_codes /\ Forall (fun z => 0 < z) msg_codes /\ length msg_codes = 5%nat.
Proof.
  unfold msg_codes. repeat split.
  - repeat (constructor; [cbn; intuition discriminate|]). constructor.
  - repeat constructor.
Qed.

(* ---- mock engine constants and predicates as they stand in src/mocks.c ---- *)
Lemma unlimited_pos : 0 < unlimited_ttl.
Proof. reflexivity. Qed.

Lemma is_always_src_ok ttl : is_always_src ttl unlimited_ttl = (ttl =? unlimited_ttl).
Proof. reflexivity. Qed.
Lemma is_never_src_ok ttl : is_never_src ttl unlimited_ttl = (ttl =? - unlimited_ttl).
Proof. reflexivity. Qed.
Lemma ttl_sources_ok :
  ttl_expect_default unlimited_ttl = 1 /\ ttl_always unlimited_ttl = unlimited_ttl /\
  ttl_never unlimited_ttl = - unlimited_ttl.
Proof. repeat split. Qed.
Lemma vector_step_pos : 0 < vector_step.
Proof. reflexivity. Qed.
