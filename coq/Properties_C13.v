(* C13 — Forked, in-process and single-test execution give the same results. *)
From Coq Require Import List ZArith Bool.
From CgreenVerif Require Import Defs Runner Spec_Runner Lemmas_Runner Lemmas_Facts Lemmas_Props Examples_Runner.
From CgreenVerif.Gen Require Import Facts.
Import ListNotations.
Local Open Scope Z_scope.

(* For tests that complete normally (and do not communicate through user memory), a forked
   run and a CGREEN_NO_FORK run of the same tree produce the same verdict, totals and event
   list: both are the specification's.  The proof rests on run_the_test_code() re-establishing
   all per-test framework state (figures, expectations, mock mode) before each test. *)
Theorem C13_forked_inprocess_agree :
  forall rk cap n,
    In rk builtin_reporters -> (1 <= cap)%nat -> is_suite n -> ok_tree InProcess cap n ->
    exists v pf pi,
      run_suite rk verdict_suite Forked cap n = Finished v pf /\
      run_suite rk verdict_suite InProcess cap n = Finished v pi /\
      out pf = out pi /\ tot pf = tot pi /\ c pf = c pi /\ out pf = spec_events [] czero n.
Proof. exact forked_inprocess_agree. Qed.
Print Assumptions C13_forked_inprocess_agree.

(* a run in the runner's own process (CGREEN_NO_FORK) followed by a forked run with the same
   reporter: the second run's report is the specification's for its tree - nothing the first
   run's tests did to the framework state (figures, mock mode, pending expectations) reaches it *)
Theorem C13_earlier_in_process_run_leaves_no_trace :
  forall rk cap n1 n2,
    In rk builtin_reporters -> (1 <= cap)%nat ->
    is_suite n1 -> ok_tree InProcess cap n1 -> is_suite n2 -> ok_tree Forked cap n2 ->
    exists v1 v2 p1 p2,
      run_two rk verdict_suite InProcess Forked cap n1 n2 = (Finished v1 p1, Finished v2 p2) /\
      out p2 = spec_events [] (total n1) n2 ++ spec_events [] czero n1 /\ tot p2 = cadd (total n1) (total n2).
Proof. exact second_run_unaffected. Qed.
Print Assumptions C13_earlier_in_process_run_leaves_no_trace.

(* the reset: after AReset nothing an earlier test did to the framework is visible *)
Theorem C13_reset_restores_framework_state :
  forall f g l, glob f = glob g -> exec f (AReset :: l) = exec g (AReset :: l).
Proof. exact exec_reset_irrelevant. Qed.
Print Assumptions C13_reset_restores_framework_state.

Theorem C13_example_premises_hold : ok_tree InProcess 4096 ex_green /\ ok_tree InProcess 4096 ex_green2.
Proof. split; [exact ex_green_ok | exact (proj1 ex_green2_ok)]. Qed.
