(* C17 — All reporters agree on what happened. *)
From Coq Require Import List ZArith Bool.
From CgreenVerif Require Import Defs Runner Spec_Runner Lemmas_Runner Lemmas_Facts Lemmas_Props Examples_Runner.
From CgreenVerif.Gen Require Import Facts.
Import ListNotations.
Local Open Scope Z_scope.

(* Any two built-in reporters (their start/finish_suite counter handling re-derived from
   source) give the same verdict, the same totals, the same per-suite counters and the same
   event list - hence the same attribution of failures and exceptions - for every tree and
   execution mode. *)
Theorem C17_reporters_agree :
  forall rk1 rk2 m cap n,
    In rk1 builtin_reporters -> In rk2 builtin_reporters ->
    (1 <= cap)%nat -> is_suite n -> ok_tree m cap n ->
    exists v p1 p2,
      run_suite rk1 verdict_suite m cap n = Finished v p1 /\
      run_suite rk2 verdict_suite m cap n = Finished v p2 /\
      tot p1 = tot p2 /\ c p1 = c p2 /\ out p1 = out p2.
Proof. exact reporters_agree. Qed.
Print Assumptions C17_reporters_agree.

(* ... also when one reporter object serves two consecutive runs (as cgreen-runner does for several
   libraries): both verdicts, the totals after each run and everything reported are the same for
   any two built-in reporters, and the totals after the second run are the sum over both runs *)
Theorem C17_reporters_agree_over_consecutive_runs :
  forall rk1 rk2 m1 m2 cap n1 n2,
    In rk1 builtin_reporters -> In rk2 builtin_reporters -> (1 <= cap)%nat ->
    is_suite n1 -> ok_tree m1 cap n1 -> is_suite n2 -> ok_tree m2 cap n2 ->
    exists v1 v2 p1 p2 q1 q2,
      run_two rk1 verdict_suite m1 m2 cap n1 n2 = (Finished v1 p1, Finished v2 p2) /\
      run_two rk2 verdict_suite m1 m2 cap n1 n2 = (Finished v1 q1, Finished v2 q2) /\
      tot p1 = tot q1 /\ tot p2 = tot q2 /\ out p2 = out q2 /\ tot p2 = cadd (total n1) (total n2).
Proof. exact reporters_agree_two_runs. Qed.
Print Assumptions C17_reporters_agree_over_consecutive_runs.

Theorem C17_example_premises_hold : ok_tree Forked 4096 ex_tree /\ is_suite ex_tree /\ unique_names ex_tree.
Proof. exact ex_tree_ok. Qed.
