(* The expectation-queue functions of src/mocks.c, translated from the current source on every run
   (Gen/Code_mocks.v), compute what Mocks.v says - for every queue.  These theorems tie the
   hand-written mock engine model used by C06 and C07 (find_exp, have_always, have_never,
   remove_first, after_use) to the code: the queue is a CgreenVector (list semantics, justified by
   Lemmas_Vector) of pointers to expectation records in a heap.  Statements only; proofs are in
   Lemmas_Code_Mocks.v and Lemmas_Code_Mocks2.v.  (mock_(), expect_() and the tally are not
   translated yet: they are tied by the correspondence runs only.) *)
From Coq Require Import List ZArith String Bool.
From CgreenVerif Require Import CLite Mocks CodeCheck Lemmas_Code_Mocks Lemmas_Code_Mocks2.
From CgreenVerif.Gen Require Import Code_mocks.
Import ListNotations.
Local Open Scope string_scope. Local Open Scope list_scope. Local Open Scope Z_scope.

(* C06: find_expectation(function) returns the earliest entry of the queue declared for that
   function (or NULL), whatever other functions' entries lie before it, and changes nothing *)
Theorem Code_find_expectation_is_find_exp :
  forall q f unl tl tr n,
    (List.length q + 1 < n)%nat -> Z.of_nat (List.length q) < 2147483647 ->
    exists v,
      run_fun prog_mocks n "find_expectation" [VLit (fn_name f)] (mw unl q tl tr) = Fine (v, mw unl q tl tr) /\
      match find_exp q f with
      | Some e => exists p, v = VPtr (S p) 0 /\ nth_error q p = Some e /\
                            nth_error (heap (mw unl q tl tr)) (S p) = Some (exp_rec e)
      | None => v = VInt 0
      end.
Proof. exact find_expectation_is_find_exp. Qed.
Print Assumptions Code_find_expectation_is_find_exp.

(* C07: declarations after an always / never expectation are recognised by exactly these scans *)
Theorem Code_have_always_is_have_always :
  forall q f unl tl tr n,
    (List.length q + 1 < n)%nat -> Z.of_nat (List.length q) < 2147483647 ->
    run_fun prog_mocks n "have_always_expectation_for" [VLit (fn_name f)] (mw unl q tl tr) =
    Fine (VInt (if have_always unl q f then 1 else 0), mw unl q tl tr).
Proof. exact have_always_refines. Qed.
Print Assumptions Code_have_always_is_have_always.

Theorem Code_have_never_is_have_never :
  forall q f unl tl tr n,
    unl_ok unl -> (List.length q + 1 < n)%nat -> Z.of_nat (List.length q) < 2147483647 ->
    run_fun prog_mocks n "have_never_call_expectation_for" [VLit (fn_name f)] (mw unl q tl tr) =
    Fine (VInt (if have_never unl q f then 1 else 0), mw unl q tl tr).
Proof. exact have_never_refines. Qed.
Print Assumptions Code_have_never_is_have_never.

(* C06: remove_expectation_for(function) takes the first entry for that function out of the vector
   and nothing else; what the vector then lists is Mocks.remove_first *)
Theorem Code_remove_expectation_for_is_remove_first :
  forall q f unl tl tr n,
    (List.length q + 1 < n)%nat -> Z.of_nat (List.length q) < 2147483647 ->
    exists w',
      run_fun prog_mocks n "remove_expectation_for" [VLit (fn_name f)] (mw unl q tl tr) = Fine (VInt 0, w') /\
      queue_z w' = model_queue_z (remove_first q f).
Proof.
  intros q f unl tl tr n Hn Hlen. eexists. split; [apply remove_expectation_for_refines; assumption|].
  destruct (find_pos f q) as [p|] eqn:Hp.
  - rewrite queue_z_mwr, (remove_first_is_remove_nth _ _ _ Hp). reflexivity.
  - rewrite queue_z_mw, (remove_first_none _ _ Hp). reflexivity.
Qed.
Print Assumptions Code_remove_expectation_for_is_remove_first.

(* C06: after a call was served by the entry find_expectation() returned, the queue is
   Mocks.after_use's: always-expectations stay, any other has one call less left and leaves the
   queue when none is left (so times(n) serves exactly n calls) *)
Theorem Code_destroy_if_time_to_die_is_after_use :
  forall pre e rest unl tl tr n,
    (List.length (pre ++ e :: rest) + 3 < n)%nat -> Z.of_nat (List.length (pre ++ e :: rest)) < 2147483647 ->
    ttl_ok e -> find_pos (efn e) (pre ++ e :: rest) = Some (List.length pre) ->
    exists w',
      run_fun prog_mocks n "destroy_expectation_if_time_to_die" [VPtr (S (List.length pre)) 0]
              (mw unl (pre ++ e :: rest) tl tr) = Fine (VInt 0, w') /\
      queue_z w' = model_queue_z (after_use unl (pre ++ e :: rest) (efn e) e).
Proof. exact destroy_if_time_to_die_is_after_use. Qed.
Print Assumptions Code_destroy_if_time_to_die_is_after_use.

(* non-vacuity: a concrete queue; f1's first entry is the second of the queue *)
Example Code_find_expectation_example :
  run_fun prog_mocks 10 "find_expectation" [VLit (fn_name 1)]
          (mw 254886233 [mkexp 0 1 1 [] 0 0; mkexp 1 2 2 [] 0 0; mkexp 1 3 1 [] 0 0] [] []) =
  Fine (VPtr 2 0, mw 254886233 [mkexp 0 1 1 [] 0 0; mkexp 1 2 2 [] 0 0; mkexp 1 3 1 [] 0 0] [] []).
Proof. vm_compute. reflexivity. Qed.
