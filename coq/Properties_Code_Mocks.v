(* The expectation-queue functions of src/mocks.c, translated from the current source on every run
   (Gen/Code_mocks.v), compute what Mocks.v says - for every queue.  These theorems tie the
   hand-written mock engine model used by C06 and C07 (find_exp, have_always, have_never,
   remove_first, after_use) to the code: the queue is a CgreenVector (list semantics, justified by
   Lemmas_Vector) of pointers to expectation records in a heap.  Statements only; proofs are in
   Lemmas_Code_Mocks.v, Lemmas_Code_Mocks2.v and Lemmas_Code_Mocks3.v.  (expect_(), always_expect_(),
   never_expect_(), tally_mocks() and trigger_unfulfilled_expectations() are translated and compared with the
   model on enumerated queues by the extracted interpreter, not proved; mock_() is not translated.) *)
From Coq Require Import List ZArith String Bool.
From CgreenVerif Require Import CLite Mocks CodeCheck Lemmas_Code_Mocks Lemmas_Code_Mocks2 Lemmas_Code_Mocks3.
From CgreenVerif.Gen Require Import Code_mocks.
Import ListNotations.
Local Open Scope string_scope. Local Open Scope list_scope. Local Open Scope Z_scope.

(* C06: find_expectation(function) returns the earliest entry of the queue declared for that
   function (or NULL), whatever other functions' entries lie before it, and changes nothing *)
Theorem Code_find_expectation_is_find_exp :
  forall q f unl tl tr n,
    (List.length q + 1 < n)%nat -> Z.of_nat (List.length q) < 2147483647 ->
    exists v,
      run_fun prog_mocks n "find_expectation" [VLit (fn_name f)] (mw unl q tl tr) = Fine (v, mw unl q tl tr) /\
      match find_exp q f with
      | Some e => exists p, v = VPtr (S p) 0 /\ nth_error q p = Some e /\
                            nth_error (heap (mw unl q tl tr)) (S p) = Some (exp_rec e)
      | None => v = VInt 0
      end.
Proof. exact find_expectation_is_find_exp. Qed.
Print Assumptions Code_find_expectation_is_find_exp.

(* C07: declarations after an always / never expectation are recognised by exactly these scans *)
Theorem Code_have_always_is_have_always :
  forall q f unl tl tr n,
    (List.length q + 1 < n)%nat -> Z.of_nat (List.length q) < 2147483647 ->
    run_fun prog_mocks n "have_always_expectation_for" [VLit (fn_name f)] (mw unl q tl tr) =
    Fine (VInt (if have_always unl q f then 1 else 0), mw unl q tl tr).
Proof. exact have_always_refines. Qed.
Print Assumptions Code_have_always_is_have_always.

Theorem Code_have_never_is_have_never :
  forall q f unl tl tr n,
    unl_ok unl -> (List.length q + 1 < n)%nat -> Z.of_nat (List.length q) < 2147483647 ->
    run_fun prog_mocks n "have_never_call_expectation_for" [VLit (fn_name f)] (mw unl q tl tr) =
    Fine (VInt (if have_never unl q f then 1 else 0), mw unl q tl tr).
Proof. exact have_never_refines. Qed.
Print Assumptions Code_have_never_is_have_never.

(* C06: remove_expectation_for(function) takes the first entry for that function out of the vector
   and nothing else; what the vector then lists is Mocks.remove_first *)
Theorem Code_remove_expectation_for_is_remove_first :
  forall q f unl tl tr n,
    (List.length q + 1 < n)%nat -> Z.of_nat (List.length q) < 2147483647 ->
    exists w',
      run_fun prog_mocks n "remove_expectation_for" [VLit (fn_name f)] (mw unl q tl tr) = Fine (VInt 0, w') /\
      queue_z w' = model_queue_z (remove_first q f).
Proof.
  intros q f unl tl tr n Hn Hlen. eexists. split; [apply remove_expectation_for_refines; assumption|].
  destruct (find_pos f q) as [p|] eqn:Hp.
  - rewrite queue_z_mwr, (remove_first_is_remove_nth _ _ _ Hp). reflexivity.
  - rewrite queue_z_mw, (remove_first_none _ _ Hp). reflexivity.
Qed.
Print Assumptions Code_remove_expectation_for_is_remove_first.

(* C06: after a call was served by the entry find_expectation() returned, the queue is
   Mocks.after_use's: always-expectations stay, any other has one call less left and leaves the
   queue when none is left (so times(n) serves exactly n calls) *)
Theorem Code_destroy_if_time_to_die_is_after_use :
  forall pre e rest unl tl tr n,
    (List.length (pre ++ e :: rest) + 3 < n)%nat -> Z.of_nat (List.length (pre ++ e :: rest)) < 2147483647 ->
    ttl_ok e -> find_pos (efn e) (pre ++ e :: rest) = Some (List.length pre) ->
    exists w',
      run_fun prog_mocks n "destroy_expectation_if_time_to_die" [VPtr (S (List.length pre)) 0]
              (mw unl (pre ++ e :: rest) tl tr) = Fine (VInt 0, w') /\
      queue_z w' = model_queue_z (after_use unl (pre ++ e :: rest) (efn e) e).
Proof. exact destroy_if_time_to_die_is_after_use. Qed.
Print Assumptions Code_destroy_if_time_to_die_is_after_use.

(* C07: remove_never_call_expectation_for(function) - what a declaration after a never-expectation does to
   the queue - leaves exactly Mocks.remove_never's entries (the loop removes at position i and then advances,
   so the entry that slides into position i is not examined: the model says the same), for every queue; each
   removed record is handed to destroy_expectation() once *)
Theorem Code_remove_never_is_remove_never :
  forall q f unl tl tr n,
    unl_ok unl -> (List.length q + 1 < n)%nat -> Z.of_nat (List.length q) < 2147483647 ->
    exists w',
      run_fun prog_mocks n "remove_never_call_expectation_for" [VLit (fn_name f)] (mw unl q tl tr) = Fine (VInt 0, w') /\
      queue_z w' = model_queue_z (remove_never unl q f).
Proof. exact remove_never_is_the_models. Qed.
Print Assumptions Code_remove_never_is_remove_never.

Theorem Code_remove_never_refines :
  forall q f unl tl tr n,
    unl_ok unl -> (List.length q + 1 < n)%nat -> Z.of_nat (List.length q) < 2147483647 ->
    run_fun prog_mocks n "remove_never_call_expectation_for" [VLit (fn_name f)] (mw unl q tl tr) =
    Fine (VInt 0, mwi unl (rn_idx unl q f (List.length q) (seq 0 (List.length q))) q tl
                      (rn_trace unl q f (List.length q) (seq 0 (List.length q)) tr)).
Proof. exact remove_never_refines. Qed.
Print Assumptions Code_remove_never_refines.

(* C07: successfully_mocked_call(name) - which decides the message kind of an unexpected call - is "the
   name is in the list of successfully mocked calls", for every list; nothing is changed *)
Theorem Code_successfully_mocked_call :
  forall succ f unl q tl tr n,
    (List.length succ + 1 < n)%nat -> Z.of_nat (List.length succ) < 2147483647 ->
    run_fun prog_mocks n "successfully_mocked_call" [VLit (fn_name f)] (mw unl q (names_vec succ :: tl) tr) =
    Fine (VInt (if existsb (Nat.eqb f) succ then 1 else 0), mw unl q (names_vec succ :: tl) tr).
Proof. exact successfully_mocked_call_refines. Qed.
Print Assumptions Code_successfully_mocked_call.

(* non-vacuity: f0 has two never-expectations next to each other (the second one survives), f1 is untouched *)
Example Code_remove_never_example :
  exists w', run_fun prog_mocks 10 "remove_never_call_expectation_for" [VLit (fn_name 0)]
                     (mw 254886233 [mkexp 0 1 (-254886233) [] 0 0; mkexp 0 2 (-254886233) [] 0 0; mkexp 1 3 1 [] 0 0] [] []) = Fine (VInt 0, w') /\
             queue_z w' = model_queue_z [mkexp 0 2 (-254886233) [] 0 0; mkexp 1 3 1 [] 0 0].
Proof. eexists. split; [vm_compute; reflexivity|vm_compute; reflexivity]. Qed.

(* non-vacuity: a concrete queue; f1's first entry is the second of the queue *)
Example Code_find_expectation_example :
  run_fun prog_mocks 10 "find_expectation" [VLit (fn_name 1)]
          (mw 254886233 [mkexp 0 1 1 [] 0 0; mkexp 1 2 2 [] 0 0; mkexp 1 3 1 [] 0 0] [] []) =
  Fine (VPtr 2 0, mw 254886233 [mkexp 0 1 1 [] 0 0; mkexp 1 2 2 [] 0 0; mkexp 1 3 1 [] 0 0] [] []).
Proof. vm_compute. reflexivity. Qed.
