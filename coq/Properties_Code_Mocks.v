(* The expectation-queue functions of src/mocks.c, translated from the current source on every run
   (Gen/Code_mocks.v), compute what Mocks.v says - for every queue.  These theorems tie the
   hand-written mock engine model used by C06 and C07 (find_exp, have_always, have_never,
   remove_first, after_use) to the code: the queue is a CgreenVector (list semantics, justified by
   Lemmas_Vector) of pointers to expectation records in a heap.  Statements only; proofs are in
   Lemmas_Code_Mocks.v .. Lemmas_Code_Mocks4.v.  (expect_(), always_expect_(), never_expect_() and tally_mocks()
   are translated and compared with the model on enumerated queues by the extracted interpreter, not proved;
   trigger_unfulfilled_expectations() is proved for entries without a times() clause and compared on the others;
   mock_() is not translated.) *)
From Coq Require Import List ZArith String Bool.
From CgreenVerif Require Import CLite Mocks CodeCheck Lemmas_Code_Mocks Lemmas_Code_Mocks2 Lemmas_Code_Mocks3 Lemmas_Code_Mocks4.
From CgreenVerif.Gen Require Import Code_mocks.
Import ListNotations.
Local Open Scope string_scope. Local Open Scope list_scope. Local Open Scope Z_scope.

(* C06: find_expectation(function) returns the earliest entry of the queue declared for that
   function (or NULL), whatever other functions' entries lie before it, and changes nothing *)
Theorem Code_find_expectation_is_find_exp :
  forall q f unl tl tr n,
    (List.length q + 1 < n)%nat -> Z.of_nat (List.length q) < 2147483647 ->
    exists v,
      run_fun prog_mocks n "find_expectation" [VLit (fn_name f)] (mw unl q tl tr) = Fine (v, mw unl q tl tr) /\
      match find_exp q f with
      | Some e => exists p, v = VPtr (S p) 0 /\ nth_error q p = Some e /\
                            nth_error (heap (mw unl q tl tr)) (S p) = Some (exp_rec e)
      | None => v = VInt 0
      end.
Proof. exact find_expectation_is_find_exp. Qed.
Print Assumptions Code_find_expectation_is_find_exp.

(* C07: declarations after an always / never expectation are recognised by exactly these scans *)
Theorem Code_have_always_is_have_always :
  forall q f unl tl tr n,
    (List.length q + 1 < n)%nat -> Z.of_nat (List.length q) < 2147483647 ->
    run_fun prog_mocks n "have_always_expectation_for" [VLit (fn_name f)] (mw unl q tl tr) =
    Fine (VInt (if have_always unl q f then 1 else 0), mw unl q tl tr).
Proof. exact have_always_refines. Qed.
Print Assumptions Code_have_always_is_have_always.

Theorem Code_have_never_is_have_never :
  forall q f unl tl tr n,
    unl_ok unl -> (List.length q + 1 < n)%nat -> Z.of_nat (List.length q) < 2147483647 ->
    run_fun prog_mocks n "have_never_call_expectation_for" [VLit (fn_name f)] (mw unl q tl tr) =
    Fine (VInt (if have_never unl q f then 1 else 0), mw unl q tl tr).
Proof. exact have_never_refines. Qed.
Print Assumptions Code_have_never_is_have_never.

(* C06: remove_expectation_for(function) takes the first entry for that function out of the vector
   and nothing else; what the vector then lists is Mocks.remove_first *)
Theorem Code_remove_expectation_for_is_remove_first :
  forall q f unl tl tr n,
    (List.length q + 1 < n)%nat -> Z.of_nat (List.length q) < 2147483647 ->
    exists w',
      run_fun prog_mocks n "remove_expectation_for" [VLit (fn_name f)] (mw unl q tl tr) = Fine (VInt 0, w') /\
      queue_z w' = model_queue_z (remove_first q f).
Proof.
  intros q f unl tl tr n Hn Hlen. eexists. split; [apply remove_expectation_for_refines; assumption|].
  destruct (find_pos f q) as [p|] eqn:Hp.
  - rewrite queue_z_mwr, (remove_first_is_remove_nth _ _ _ Hp). reflexivity.
  - rewrite queue_z_mw, (remove_first_none _ _ Hp). reflexivity.
Qed.
Print Assumptions Code_remove_expectation_for_is_remove_first.

(* C06: after a call was served by the entry find_expectation() returned, the queue is
   Mocks.after_use's: always-expectations stay, any other has one call less left and leaves the
   queue when none is left (so times(n) serves exactly n calls) *)
Theorem Code_destroy_if_time_to_die_is_after_use :
  forall pre e rest unl tl tr n,
    (List.length (pre ++ e :: rest) + 3 < n)%nat -> Z.of_nat (List.length (pre ++ e :: rest)) < 2147483647 ->
    ttl_ok e -> find_pos (efn e) (pre ++ e :: rest) = Some (List.length pre) ->
    exists w',
      run_fun prog_mocks n "destroy_expectation_if_time_to_die" [VPtr (S (List.length pre)) 0]
              (mw unl (pre ++ e :: rest) tl tr) = Fine (VInt 0, w') /\
      queue_z w' = model_queue_z (after_use unl (pre ++ e :: rest) (efn e) e).
Proof. exact destroy_if_time_to_die_is_after_use. Qed.
Print Assumptions Code_destroy_if_time_to_die_is_after_use.

(* C07: remove_never_call_expectation_for(function) - what a declaration after a never-expectation does to
   the queue - leaves exactly Mocks.remove_never's entries (the loop removes at position i and then advances,
   so the entry that slides into position i is not examined: the model says the same), for every queue; each
   removed record is handed to destroy_expectation() once *)
Theorem Code_remove_never_is_remove_never :
  forall q f unl tl tr n,
    unl_ok unl -> (List.length q + 1 < n)%nat -> Z.of_nat (List.length q) < 2147483647 ->
    exists w',
      run_fun prog_mocks n "remove_never_call_expectation_for" [VLit (fn_name f)] (mw unl q tl tr) = Fine (VInt 0, w') /\
      queue_z w' = model_queue_z (remove_never unl q f).
Proof. exact remove_never_is_the_models. Qed.
Print Assumptions Code_remove_never_is_remove_never.

Theorem Code_remove_never_refines :
  forall q f unl tl tr n,
    unl_ok unl -> (List.length q + 1 < n)%nat -> Z.of_nat (List.length q) < 2147483647 ->
    run_fun prog_mocks n "remove_never_call_expectation_for" [VLit (fn_name f)] (mw unl q tl tr) =
    Fine (VInt 0, mwi unl (rn_idx unl q f (List.length q) (seq 0 (List.length q))) q tl
                      (rn_trace unl q f (List.length q) (seq 0 (List.length q)) tr)).
Proof. exact remove_never_refines. Qed.
Print Assumptions Code_remove_never_refines.

(* C07: successfully_mocked_call(name) - which decides the message kind of an unexpected call - is "the
   name is in the list of successfully mocked calls", for every list; nothing is changed *)
Theorem Code_successfully_mocked_call :
  forall succ f unl q tl tr n,
    (List.length succ + 1 < n)%nat -> Z.of_nat (List.length succ) < 2147483647 ->
    run_fun prog_mocks n "successfully_mocked_call" [VLit (fn_name f)] (mw unl q (names_vec succ :: tl) tr) =
    Fine (VInt (if existsb (Nat.eqb f) succ then 1 else 0), mw unl q (names_vec succ :: tl) tr).
Proof. exact successfully_mocked_call_refines. Qed.
Print Assumptions Code_successfully_mocked_call.

(* non-vacuity: f0 has two never-expectations next to each other (the second one survives), f1 is untouched *)
Example Code_remove_never_example :
  exists w', run_fun prog_mocks 10 "remove_never_call_expectation_for" [VLit (fn_name 0)]
                     (mw 254886233 [mkexp 0 1 (-254886233) [] 0 0; mkexp 0 2 (-254886233) [] 0 0; mkexp 1 3 1 [] 0 0] [] []) = Fine (VInt 0, w') /\
             queue_z w' = model_queue_z [mkexp 0 2 (-254886233) [] 0 0; mkexp 1 3 1 [] 0 0].
Proof. eexists. split; [vm_compute; reflexivity|vm_compute; reflexivity]. Qed.

(* C07, the end-of-test tally: trigger_unfulfilled_expectations(queue, reporter) tells the reporter exactly what
   Mocks.mstep's MTally says, entry by entry in queue order - nothing for an always-expectation, one pass
   ("was never called") for a never-expectation no call matched and nothing for one that was called (mock_()
   reported each offending call), one failure ("Expected call was not made") for every other entry still in
   the queue - with the declaration's line and the function's name; for every queue whose entries carry no
   times() clause (their constraint vector is NULL in this world; entries with times() are compared with the
   model by the extracted interpreter).  The queue and the records are unchanged, the run is Fine. *)
Theorem Code_trigger_unfulfilled_is_the_models_tally :
  forall q unl mode succ x tl tr n,
    unl_ok unl -> (List.length q + 1 < n)%nat -> Z.of_nat (List.length q) < 2147483647 -> Forall no_times q ->
    run_fun prog_mocks n "trigger_unfulfilled_expectations" [VPtr 0 0; rp q] (tw_ unl q x tl tr) =
    Fine (VInt 0, tw_ unl q x tl (rev (map (ev_of_res q) (snd (fst (mstep unl (mkms q mode succ) MTally)))) ++ tr)).
Proof. exact trigger_unfulfilled_is_the_models_tally. Qed.
Print Assumptions Code_trigger_unfulfilled_is_the_models_tally.

(* non-vacuity: an always-, a called never-, an uncalled never- and a plain expectation *)
Example Code_trigger_unfulfilled_example :
  exists tr', run_fun prog_mocks 12 "trigger_unfulfilled_expectations" [VPtr 0 0; rp [mkexp 0 1 254886233 [] 0 0; mkexp 1 2 (-254886233) [] 0 1; mkexp 2 3 (-254886233) [] 0 0; mkexp 3 4 1 [] 0 0]]
                      (tw_ 254886233 [mkexp 0 1 254886233 [] 0 0; mkexp 1 2 (-254886233) [] 0 1; mkexp 2 3 (-254886233) [] 0 0; mkexp 3 4 1 [] 0 0] (OVec []) [] []) =
              Fine (VInt 0, tw_ 254886233 [mkexp 0 1 254886233 [] 0 0; mkexp 1 2 (-254886233) [] 0 1; mkexp 2 3 (-254886233) [] 0 0; mkexp 3 4 1 [] 0 0] (OVec []) [] tr') /\
              map (fun ev => match snd ev with _ :: _ :: VInt l :: VInt r :: _ => (l, r) | _ => (0, 0) end) tr' = [(4, 0); (3, 1)].
Proof. eexists. split; vm_compute; reflexivity. Qed.

(* non-vacuity: a concrete queue; f1's first entry is the second of the queue *)
Example Code_find_expectation_example :
  run_fun prog_mocks 10 "find_expectation" [VLit (fn_name 1)]
          (mw 254886233 [mkexp 0 1 1 [] 0 0; mkexp 1 2 2 [] 0 0; mkexp 1 3 1 [] 0 0] [] []) =
  Fine (VPtr 2 0, mw 254886233 [mkexp 0 1 1 [] 0 0; mkexp 1 2 2 [] 0 0; mkexp 1 3 1 [] 0 0] [] []).
Proof. vm_compute. reflexivity. Qed.
