(* C14 — A per-test time limit stops the test and fails the run in every mode.
   The exit status of the alarm handler, of die(), the parser and the validation of
   CGREEN_PER_TEST_TIMEOUT and the places where it is checked and armed are translated from
   src/posix_runner_platform.c and src/runner.c on every run.  Time is not modelled: a test
   that is still running when its alarm goes off is a process that ends, at whatever index k
   of its step list it has reached, with exit(timeout_exit_status). *)
From Coq Require Import List ZArith NArith Bool.
From CgreenVerif Require Import Defs CStr Runner Spec_Runner Lemmas_Runner Lemmas_Facts Lemmas_Props Timeout Lemmas_Timeout.
From CgreenVerif.Gen Require Import Facts.
Import ListNotations.
Local Open Scope Z_scope.

(* a value that is not accepted aborts the run with failure status before any test runs, under
   run_test_suite (forked or in-process) and run_single_test alike *)
Theorem C14_invalid_value_aborts : forall v rk vexpr m cap n name,
  setting_accepted v = false ->
  run_suite_env v rk vexpr m cap n = Aborted die_exit_status /\
  run_single_env v rk vexpr cap name n = Aborted die_exit_status /\
  env_exit_ok (Aborted die_exit_status) = false.
Proof.
  exact (fun v rk vexpr m cap n name H =>
    conj (proj1 (rejected_aborts_with_failure v rk vexpr m cap n H))
         (conj (rejected_aborts_single v rk vexpr cap name n H) (proj2 (rejected_aborts_with_failure v rk vexpr m cap n H)))).
Qed.
Print Assumptions C14_invalid_value_aborts.

(* what is accepted: the whole text is blanks, an optional sign, digits - and the number is a
   positive int.  Everything else (empty, zero, negative, non-numeric, trailing characters,
   out of range) is rejected. *)
Theorem C14_accepted_values_are_positive_integers : forall s,
  setting_accepted (Some s) = true -> exists v n, signed_prefix s = (v, S n, []) /\ 0 < v <= 2147483647.
Proof. exact accepted_is_positive_integer. Qed.
Print Assumptions C14_accepted_values_are_positive_integers.

(* forked: a test stopped at ANY state up to the end of its code (before or after delivering
   failures) is exactly one exception, keeps what it delivered, and makes the verdict failure *)
Theorem C14_overrun_forked : forall s t k,
  wf_test t -> tskip t = false -> (k <= length (child_steps s t))%nat ->
  exceptions (own s (overrun t k)) = 1 /\
  passes (own s (overrun t k)) = passes (count_msgs (own_msgs s (overrun t k))) /\
  failures (own s (overrun t k)) = failures (count_msgs (own_msgs s (overrun t k))) /\
  forall n, In (s, overrun t k) (tests_of n) -> ~ all_good n.
Proof.
  exact (fun s t k Hw Hs Hk =>
    match overrun_forked s t k Hw Hs Hk with
    | conj H1 (conj H2 (conj H3 (conj _ H5))) => conj H1 (conj H2 (conj H3 H5))
    end).
Qed.
Print Assumptions C14_overrun_forked.

(* ... and tests that finish in time are credited exactly their own results, whatever ran
   before them (the overrunning test included) *)
Theorem C14_in_time_unaffected :
  forall rk cap n1 n2 s t d1 cl1 d2 cl2,
    In rk builtin_reporters -> (1 <= cap)%nat ->
    is_suite n1 -> ok_tree Forked cap n1 -> unique_names n1 -> In (s, t) (tests_of n1) ->
    is_suite n2 -> ok_tree Forked cap n2 -> unique_names n2 -> In (s, t) (tests_of n2) ->
    forall p1 p2 v1 v2,
      run_suite rk verdict_suite Forked cap n1 = Finished v1 p1 ->
      run_suite rk verdict_suite Forked cap n2 = Finished v2 p2 ->
      In (ETestDone (tid t) d1 cl1) (out p1) -> In (ETestDone (tid t) d2 cl2) (out p2) ->
      d1 = own s t /\ d2 = own s t /\ cl1 = cl2.
Proof. exact order_independent. Qed.
Print Assumptions C14_in_time_unaffected.

(* in the runner's own process (CGREEN_NO_FORK, run_single_test, cgreen-runner with one match):
   the process that runs the overrunning test ends - at whatever state the test is - with a
   failing status *)
Theorem C14_overrun_in_process : forall cap s t k p,
  tskip t = false -> no_die (firstn k (full_steps s t)) ->
  exists d p', run_test_inproc cap s (overrun t k) p = Dead d p' /\ exit_ok (Crashed d p') = false.
Proof. exact overrun_inprocess. Qed.
Print Assumptions C14_overrun_in_process.

(* the alarm handler's status as it stands in the sources *)
Theorem C14_handler_status_is_failure : timeout_exit_status <> 0 /\ die_exit_status <> 0.
Proof. exact (conj timeout_status_fails die_status_fails). Qed.
