(* C10 — Failure messages show the asserted expression and values literally.
   The formats are the string literals of the current sources (Gen/Facts.v). *)
From Coq Require Import List ZArith NArith Bool.
From CgreenVerif Require Import Defs CStr Printf Lemmas_Printf.
From CgreenVerif.Gen Require Import Facts.
Import ListNotations.
Local Open Scope N_scope.

(* doubling every '%' and expanding with no arguments gives the text back, for every text *)
Theorem C10_double_roundtrip : forall s, printf_m (double_percent s) [] = POk s.
Proof. exact double_percent_roundtrip. Qed.
Print Assumptions C10_double_roundtrip.

(* what the reporter shows is the literal message - never a missing argument (= nothing
   derived from unrelated memory, no crash), whatever the expression texts and operands *)
Theorem C10_shown_is_literal :
  forall row atx etx ops m, lit_msg row atx etx ops = POk m -> shown_msg row atx etx ops = POk m.
Proof. exact shown_is_literal. Qed.
Print Assumptions C10_shown_is_literal.

(* a format applied to arguments that fit it: no missing argument, no bad conversion, every
   %s / %ld / %lx argument literally in the output *)
Theorem C10_well_typed_format :
  forall fmt args ks, sig SNorm fmt = Some ks -> Forall2 fits args ks ->
    exists o, printf_m fmt args = POk o /\ Forall2 (fun a k => k <> ANarrow -> literal_of a o) args ks.
Proof. exact printf_typed. Qed.
Print Assumptions C10_well_typed_format.

(* the tables of the current sources: value constraints use full-width conversions only *)
Theorem C10_formats_of_the_sources :
  forallb int_rowb (firstn 5 constraint_formats) = true /\
  forallb (fun row => negb (nonempty (snd row))) (firstn 4 (skipn 5 constraint_formats)) = true /\
  forallb str_rowb (skipn 9 constraint_formats) = true /\ length constraint_formats = 17%nat.
Proof. exact table_rows_ok. Qed.
Print Assumptions C10_formats_of_the_sources.

(* value constraints *)
Theorem C10_value_constraint_message :
  forall row atx etx a e, int_rowb row = true ->
    exists m, lit_msg row atx etx (OInts a e) = POk m /\ shown_msg row atx etx (OInts a e) = POk m /\
              contains m atx /\ contains m etx /\
              (str_eqb atx (dec a) || str_eqb atx s_true || str_eqb atx s_false = false ->
               (contains m (dec a) \/ contains m (hex64 a)) /\
               (has_sub (fst (fst row)) s_not_ = false -> contains m (dec e) \/ contains m (hex64 e))).
Proof. exact int_message. Qed.
Print Assumptions C10_value_constraint_message.

(* is_null, is_non_null, is_true, is_false *)
Theorem C10_unary_constraint_message :
  forall name avm atx etx ops,
    exists m, lit_msg (name, avm, []) atx etx ops = POk m /\ shown_msg (name, avm, []) atx etx ops = POk m /\
              contains m atx.
Proof. exact unary_message. Qed.

(* string constraints *)
Theorem C10_string_constraint_message :
  forall row atx etx a e, str_rowb row = true ->
    exists m, lit_msg row atx etx (OStrs a e) = POk m /\ shown_msg row atx etx (OStrs a e) = POk m /\
              contains m atx /\ contains m etx /\
              (str_eqb atx s_true || str_eqb atx s_false = false -> contains m a).
Proof. exact str_message. Qed.
Print Assumptions C10_string_constraint_message.

(* legacy assertions *)
Theorem C10_legacy_equal_message :
  forall xt tried expected,
    exists m, printf_m fmt_assert_equal_ [PStr xt; PInt expected; PInt tried] = POk m /\
              contains m xt /\ (contains m (dec expected) \/ contains m (hex64 expected)) /\
              (contains m (dec tried) \/ contains m (hex64 tried)).
Proof. exact legacy_equal_message. Qed.
Theorem C10_legacy_string_equal_message :
  forall xt tried expected,
    exists m, printf_m fmt_assert_string_equal_ [PStr xt; PStr expected; PStr tried] = POk m /\
              contains m xt /\ contains m expected /\ contains m tried.
Proof. exact legacy_string_equal_message. Qed.
Print Assumptions C10_legacy_string_equal_message.

(* non-vacuity: is_equal_to(7 %s) on the expression a % b *)
Example C10_example :
  shown_msg (nth 0 constraint_formats ([], [], [])) [97; 32; 37; 32; 98] [55; 32; 37; 115] (OInts 1 2) =
  lit_msg (nth 0 constraint_formats ([], [], [])) [97; 32; 37; 32; 98] [55; 32; 37; 115] (OInts 1 2).
Proof. vm_compute. reflexivity. Qed.
