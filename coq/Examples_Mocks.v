(* Examples_Mocks.v — non-vacuity for the mock theorems, and the sentinel corner. *)
From Coq Require Import List ZArith Bool Lia.
From CgreenVerif Require Import Defs Mocks Lemmas_Mocks Lemmas_Facts.
From CgreenVerif.Gen Require Import Facts.
Import ListNotations.
Local Open Scope Z_scope.

Definition U := unlimited_ttl.

(* expect(f0, will_return(1)); expect(f1); expect(f0, times(2), will_return(2)); always_expect(f0, will_return(9)) *)
Definition ex_ops : list mop :=
  [MExpect 0 1 [CRet 1]; MExpect 1 2 []; MExpect 0 3 [CTimes 2; CRet 2]; MAlways 0 4 [CRet 9];
   MCall 1 []; MCall 0 []; MCall 0 []; MCall 0 []; MCall 0 []; MCall 0 []; MTally].

(* f0's calls return 1, then 2 twice, then 9 for ever: declaration order per function, although
   f1's expectation sits in between and is consumed first *)
Example ex_returns :
  map snd (snd (mrun U ms_init ex_ops)) = [0; 0; 0; 0; 0; 1; 2; 2; 9; 9; 0].
Proof. vm_compute. reflexivity. Qed.

Example ex_all_ok : all_ok (snd (mrun U ms_init ex_ops)).
Proof.
  intros rv r Hin Hr. vm_compute in Hin.
  repeat (destruct Hin as [<-|Hin]; [cbn in Hr; try contradiction; repeat (destruct Hr as [<-|Hr]; [reflexivity|]); contradiction|]).
  contradiction.
Qed.

(* a state that meets the premises of times_n_serves_n *)
Example ex_times_premises :
  let s := fst (mrun U ms_init [MExpect 1 1 []; MExpect 0 2 [CTimes 3; CRet 5]; MExpect 0 3 []]) in
  exists e rest, abs (queue s) 0 = e :: rest /\ ettl e = Z.of_nat 3 /\ Z.of_nat 3 < U /\
                 unknown_param (econs e) (map fst (@nil (nat * Z))) = None.
Proof. cbn zeta. do 2 eexists. vm_compute. repeat split; reflexivity. Qed.

(* the sentinel: expect(f, times(UNLIMITED_TIME_TO_LIVE)) is indistinguishable from
   always_expect(f) - the corner excluded by the premise n < U (known finding) *)
Example times_sentinel_is_always_refuted :
  snd (mrun U ms_init [MExpect 0 1 [CTimes U]; MTally]) = [([], 0); ([], 0)].
Proof. vm_compute. reflexivity. Qed.

Example times_ordinary_unmet_is_reported :
  snd (mrun U ms_init [MExpect 0 1 [CTimes 5]; MTally]) = [([], 0); ([mkres 0 1 false 9], 0)].
Proof. vm_compute. reflexivity. Qed.
