(* CStr.v — C strings and the libc functions cgreen's comparators call, as executable models
   with their own specification lemmas.  A C string is the list of its bytes up to the NUL
   (so it contains no 0); a char* that may be NULL is an option. *)
From Coq Require Import List ZArith NArith Bool Lia.
Import ListNotations.
Local Open Scope Z_scope.

Definition str := list N.
Definition ostr := option str.

Definition is_null (s : ostr) : bool := match s with None => true | Some _ => false end.

(* (int)x for a value that may exceed 31 bits *)
Definition wrap_s32 (z : Z) : Z := ((z + 2147483648) mod 4294967296) - 2147483648.

Definition strlen_z (s : ostr) : Z := match s with Some l => Z.of_nat (length l) | None => 0 end.

(* strcmp: sign of the first difference (unsigned bytes); NULL is not a valid argument - the
   comparators only call it after their own NULL checks - and is totalised to "differs" *)
Fixpoint cmp_bytes (a b : str) : Z :=
  match a, b with
  | [], [] => 0
  | [], _ :: _ => -1
  | _ :: _, [] => 1
  | x :: a', y :: b' => if (x =? y)%N then cmp_bytes a' b' else if (x <? y)%N then -1 else 1
  end.
Definition strcmp_m (a b : ostr) : Z :=
  match a, b with
  | Some x, Some y => cmp_bytes x y
  | _, _ => 2
  end.

Fixpoint prefixb (p s : str) : bool :=
  match p, s with
  | [], _ => true
  | x :: p', y :: s' => (x =? y)%N && prefixb p' s'
  | _ :: _, [] => false
  end.

(* index of the first occurrence of needle n in haystack h *)
Fixpoint find_sub (h n : str) : option nat :=
  if prefixb n h then Some 0%nat
  else match h with
       | [] => None
       | _ :: h' => option_map S (find_sub h' n)
       end.

(* strstr: pointer to the first occurrence, i.e. the suffix that starts there *)
Definition strstr_m (h n : ostr) : ostr :=
  match h, n with
  | Some x, Some y => match find_sub x y with Some i => Some (skipn i x) | None => None end
  | _, _ => None
  end.

(* cgreen's static strpos(): offset of the first occurrence or UINT_MAX *)
Definition strpos_m (h n : ostr) : Z :=
  match h, n with
  | Some x, Some y => match find_sub x y with Some i => Z.of_nat i | None => 4294967295 end
  | _, _ => 4294967295
  end.

(* &s[i] *)
Definition str_from (s : ostr) (i : Z) : ostr :=
  match s with Some l => Some (skipn (Z.to_nat i) l) | None => None end.

(* memcmp over the first n bytes: 0 iff equal *)
Definition memcmp_m (a b : list N) (n : nat) : Z := cmp_bytes (firstn n a) (firstn n b).

(* ------------------------------------------------------------------------------------ *)
Lemma cmp_bytes_eq a : forall b, cmp_bytes a b = 0 <-> a = b.
Proof.
  induction a as [|x a IH]; intros [|y b]; cbn [cmp_bytes]; try (split; [discriminate|discriminate]); try tauto.
  destruct (x =? y)%N eqn:E.
  - apply N.eqb_eq in E. subst. rewrite IH. split; [intros ->; reflexivity | intros H; inversion H; reflexivity].
  - apply N.eqb_neq in E. destruct (x <? y)%N; split; try discriminate; intros H; inversion H; contradiction.
Qed.

Lemma prefixb_spec p : forall s, prefixb p s = true <-> exists t, s = p ++ t.
Proof.
  induction p as [|x p IH]; intros s; cbn [prefixb].
  - split; [intros _; exists s; reflexivity | reflexivity].
  - destruct s as [|y s].
    + split; [discriminate | intros [t H]; discriminate].
    + rewrite andb_true_iff, N.eqb_eq, IH. split.
      * intros [-> [t ->]]. exists t. reflexivity.
      * intros [t H]. inversion H; subst. split; [reflexivity | exists t; reflexivity].
Qed.

Lemma find_sub_some h : forall n i,
  find_sub h n = Some i -> exists t, skipn i h = n ++ t /\ (i <= length h)%nat.
Proof.
  induction h as [|x h IH]; intros n i; cbn [find_sub].
  - destruct (prefixb n []) eqn:E; [|discriminate]. intros H; inversion H; subst.
    apply prefixb_spec in E. destruct E as [t E]. exists t. cbn. auto.
  - destruct (prefixb n (x :: h)) eqn:E.
    + intros H; inversion H; subst. apply prefixb_spec in E. destruct E as [t E]. exists t. cbn [skipn length]. split; [exact E | lia].
    + destruct (find_sub h n) as [j|] eqn:F; [|discriminate]. cbn. intros H; inversion H; subst.
      destruct (IH n j F) as (t & H1 & H2). exists t. cbn [skipn length]. split; [exact H1 | lia].
Qed.

Lemma find_sub_none h : forall n, find_sub h n = None -> forall p t, h <> p ++ n ++ t.
Proof.
  induction h as [|x h IH]; intros n; cbn [find_sub].
  - destruct (prefixb n []) eqn:E; [discriminate|]. intros _ p t H.
    destruct p; cbn in H; [|discriminate].
    assert (prefixb n [] = true) by (apply prefixb_spec; exists t; exact H). congruence.
  - destruct (prefixb n (x :: h)) eqn:E; [discriminate|].
    destruct (find_sub h n) eqn:F; [discriminate|]. intros _ p t H.
    destruct p as [|y p]; cbn in H.
    + assert (prefixb n (x :: h) = true) by (apply prefixb_spec; exists t; exact H). congruence.
    + inversion H; subst. exact (IH n F p t eq_refl).
Qed.

(* containment: an occurrence exists iff the haystack is prefix ++ needle ++ suffix *)
Lemma find_sub_iff h n : (exists i, find_sub h n = Some i) <-> exists p t, h = p ++ n ++ t.
Proof.
  split.
  - intros [i H]. destruct (find_sub_some h n i H) as (t & H1 & _).
    exists (firstn i h), t. rewrite <- H1. symmetry. apply firstn_skipn.
  - intros (p & t & H). destruct (find_sub h n) as [i|] eqn:F; [exists i; reflexivity|].
    exfalso. exact (find_sub_none h n F p t H).
Qed.

(* the first occurrence is at offset 0 iff the needle is a prefix *)
Lemma find_sub_zero h n : find_sub h n = Some 0%nat <-> exists t, h = n ++ t.
Proof.
  rewrite <- prefixb_spec. destruct h as [|x h]; cbn [find_sub].
  - destruct (prefixb n []); split; congruence.
  - destruct (prefixb n (x :: h)); [tauto|]. destruct (find_sub h n); cbn; split; congruence.
Qed.

Lemma wrap_s32_id z : -2147483648 <= z < 2147483648 -> wrap_s32 z = z.
Proof. intros H. unfold wrap_s32. rewrite Z.mod_small by lia. lia. Qed.

(* ---- number parsing for CGREEN_PER_TEST_TIMEOUT (src/runner.c) ---- *)
Definition c_isspace (c : N) : bool := (N.eqb c 32) || ((N.leb 9 c) && (N.leb c 13)).
Definition c_isdigit (c : N) : bool := (N.leb 48 c) && (N.leb c 57).
Fixpoint skip_spaces (s : list N) : list N := match s with c :: r => if c_isspace c then skip_spaces r else s | [] => [] end.
Fixpoint digits_val (s : list N) (acc : Z) (n : nat) : Z * nat * list N :=      (* value, digits read, rest *)
  match s with
  | c :: r => if c_isdigit c then digits_val r (acc * 10 + (Z.of_N c - 48)) (S n) else (acc, n, s)
  | [] => (acc, n, [])
  end.
Definition signed_prefix (s : list N) : Z * nat * list N :=
  match skip_spaces s with
  | 45 :: r => match digits_val r 0 0 with (v, n, rest) => (- v, n, rest) end
  | 43 :: r => digits_val r 0 0
  | r => digits_val r 0 0
  end%N.
(* atoi(): value of the longest blanks-sign-digits prefix, 0 if there are no digits (within int) *)
Definition atoi_m (s : list N) : Z := match signed_prefix s with (v, _, _) => wrap_s32 v end.
(* strtol() with the checks "some digits, nothing after them, fits an int"; anything else is 0 *)
Definition strtol_full_m (s : list N) : Z :=
  match signed_prefix s with
  | (v, n, rest) => match n, rest with
                    | S _, [] => if (Z.leb (-2147483648) v) && (Z.leb v 2147483647) then v else 0
                    | _, _ => 0
                    end
  end.
