(* cgreen-runner's test selection predicate - test_matches_pattern() with context_name_of() and
   test_name_of() of tools/runner.c, translated whole from the current source on every run
   (Gen/Code_tool.v) - computes RunnerTool.item_matches, the predicate C09's selection theorems
   are about, for every pattern, context name and test name.
   Statements only; proofs are in Lemmas_Code_Tool.v. *)
From Coq Require Import List ZArith NArith String Bool.
From CgreenVerif Require Import CLite RunnerTool Lemmas_Code_Percent Lemmas_Code_Tool.
From CgreenVerif.Gen Require Import Code_tool.
Import ListNotations.
Local Open Scope string_scope. Local Open Scope list_scope. Local Open Scope Z_scope.

(* the heap: object 0 is the test item (its two names are the caller's strings), object 1 the
   pattern with its terminator.  For every pattern of bytes 1..255 and all names: the function
   returns 1 exactly when the model's item_matches holds; the copies it makes of the two halves of
   the pattern (blocks 2 and 3) are freed, exactly once each; pattern, item, file-scope variables
   and external calls are untouched; the run is Fine - the '\0' stored over the colon lies inside
   the copy, fnmatch() is handed terminated strings, nothing is read after it was freed. *)
Theorem Code_test_matches_pattern :
  forall p c nm g st tr n,
    Forall (fun x => (1 <= x <= 255)%N) p -> (2 <= n)%nat ->
    run_fun prog_tool n "test_matches_pattern" [VPtr 1 0; VPtr 0 0] (tw (zs c) (zs nm) (zs p) [] g st tr) =
    Fine (VInt (if item_matches p (mkitem c nm) then 1 else 0), tw (zs c) (zs nm) (zs p) [OFreed; OFreed] g st tr).
Proof. exact test_matches_pattern_is_item_matches. Qed.
Print Assumptions Code_test_matches_pattern.

(* the two halves: what context_name_of() and test_name_of() hand to fnmatch() *)
Theorem Code_pattern_halves :
  forall p c nm, matches_z (zs p) (zs c) (zs nm) = item_matches p (mkitem c nm).
Proof. exact matches_z_is_item_matches. Qed.
Print Assumptions Code_pattern_halves.

(* CLite's fnmatch (literals and '*') is the model's glob *)
Theorem Code_fnmatch_is_glob : forall p s, glob_z (zs p) (zs s) = glob p s.
Proof. exact glob_z_is_glob. Qed.

(* non-vacuity: "ab:c*" against (ab, cd) matches; against (ab, dc) does not; "x" has the default context *)
Example Code_matches_example :
  run_fun prog_tool 5 "test_matches_pattern" [VPtr 1 0; VPtr 0 0] (tw [97; 98] [99; 100] [97; 98; 58; 99; 42] [] [] [] []) =
  Fine (VInt 1, tw [97; 98] [99; 100] [97; 98; 58; 99; 42] [OFreed; OFreed] [] [] []).
Proof. vm_compute. reflexivity. Qed.
Example Code_matches_example_no :
  run_fun prog_tool 5 "test_matches_pattern" [VPtr 1 0; VPtr 0 0] (tw [97; 98] [100; 99] [97; 98; 58; 99; 42] [] [] [] []) =
  Fine (VInt 0, tw [97; 98] [100; 99] [97; 98; 58; 99; 42] [OFreed; OFreed] [] [] []).
Proof. vm_compute. reflexivity. Qed.
Example Code_matches_example_default :
  item_matches [120%N] (mkitem DEFAULT [120%N]) = true /\ item_matches [120%N] (mkitem [97%N] [120%N]) = false.
Proof. split; vm_compute; reflexivity. Qed.
