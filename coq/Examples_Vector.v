(* Examples_Vector.v — non-vacuity examples for the container theorems, and the witness that
   the code as it stood before the repair (fix: ce19ecc) went out of bounds. *)
From Coq Require Import List ZArith Bool.
From CgreenVerif Require Import Defs Vector Lemmas_Vector.
From CgreenVerif.Gen Require Import Facts.
Import ListNotations.
Local Open Scope Z_scope.

Definition adds (n : nat) : list vop := map (fun i => VAdd (Z.of_nat (S i))) (seq 0 n).

(* a run that crosses two growth boundaries and removes at head, middle and tail *)
Example vector_run_across_boundaries :
  match vrun vector_src vempty (adds 201 ++ [VRemove 0; VRemove 100; VRemove 198; VGet 0; VGet 197; VGet 198; VSize]) with
  | Ok (_, outs) => outs = [OItem (Some 1); OItem (Some 102); OItem (Some 201); OItem (Some 2); OItem (Some 200); OItem None; OSize 198]
  | _ => False
  end.
Proof. vm_compute. reflexivity. Qed.

(* the premises of the theorems are met by the translated sources *)
Example sources_meet_their_specifications :
  vsrc_ok vector_src /\ ssrc_ok suite_test_src /\ ssrc_ok suite_suite_src /\ bsrc_ok crumb_src.
Proof. repeat split; try apply vector_src_ok; try apply suite_test_src_ok; try apply suite_suite_src_ok; apply crumb_src_ok. Qed.

(* the guards and indices of cgreen_vector_remove()/get() as they stood before the repair *)
Definition old_vector_src : vsrc :=
  mkvsrc 100 (fun size space => size =? space) (fun size => size)
    (fun position size => (position <? 0) || (position >? size))
    (fun i size => i <? size) (fun i => i + 1) (fun i => i) (fun size => size)
    (fun position size => (position <? 0) || (position >? size)).

(* exactly one growth step of elements, then any removal: out of bounds (99 and 101 are fine) *)
Example old_remove_refuted :
  vrun old_vector_src vempty (adds 100 ++ [VRemove 0]) = OutOfBounds /\
  (exists r, vrun old_vector_src vempty (adds 99 ++ [VRemove 0]) = Ok r) /\
  (exists r, vrun old_vector_src vempty (adds 101 ++ [VRemove 0]) = Ok r).
Proof. split; [vm_compute; reflexivity|]. split; vm_compute; eexists; reflexivity. Qed.

Example suite_example :
  match srun suite_test_src suite_suite_src sempty [(false, 1); (true, 2); (false, 3)] with
  | Ok a => sitems a = [Some 1; Some 2; Some 3] | _ => False end.
Proof. vm_compute. reflexivity. Qed.

Example crumb_example :
  crun crumb_src cempty [Some 1; Some 2; None; Some 3; None; None] =
  Ok (mkcrumb 0 2 [Some 1; Some 3], [Some 1; Some 2; Some 1; Some 3; Some 1; None]).
Proof. vm_compute. reflexivity. Qed.
