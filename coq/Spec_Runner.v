(* Spec_Runner.v — the abstract specification of a run: what is reported is defined directly
   from what each test does when run alone (`own`), with no pipe, no counters being reset
   and folded, no processes.  Short enough to read in minutes.  Lemmas_Runner.v proves that
   the concrete runner (Runner.v) refines it. *)
From Coq Require Import List ZArith Bool Lia.
From CgreenVerif Require Import Defs Runner.
Import ListNotations.
Local Open Scope Z_scope.

(* records a test's process sends, when it runs alone from the initial framework state *)
Definition own_msgs (s : suiteinfo) (t : test) : list msg := snd (fst (exec fw_init (test_steps s t))).
Definition own_death (s : suiteinfo) (t : test) : option death := snd (exec fw_init (test_steps s t)).

Definition clean (k : cnt) : bool := (failures k =? 0) && (exceptions k =? 0).

(* events reported for one test (newest first), given the breadcrumb of its suite *)
Definition spec_test (path : list nat) (s : suiteinfo) (t : test) : list event :=
  let cr := tid t :: path in
  if tskip t then
    [ETestDone (tid t) (own s t) (clean (own s t)); ESkipShown cr; EStartTest (tid t)]
  else
    let m := own_msgs s t in
    ETestDone (tid t) (own s t) (clean (own s t)) ::
    (if abnormal m (own_death s t) then [EIncomplete cr (sig_text (own_death s t))]
     else if has_skip m then [ESkipShown cr] else []) ++ [EChild (tid t) m; EStartTest (tid t)].

(* what the direct tests of a suite contribute *)
Fixpoint direct_sum (s : suiteinfo) (l : list node) : cnt :=
  match l with
  | [] => czero
  | Tn t :: l' => cadd (own s t) (direct_sum s l')
  | Sn _ _ :: l' => direct_sum s l'
  end.

Fixpoint direct_events (path : list nat) (s : suiteinfo) (l : list node) : list event :=
  match l with
  | [] => []
  | Tn t :: l' => direct_events path s l' ++ spec_test path s t
  | Sn _ _ :: l' => direct_events path s l'
  end.

(* total over a whole tree *)
Definition subs_total (rec : node -> cnt) : list node -> cnt :=
  fix subs (l : list node) : cnt :=
    match l with
    | [] => czero
    | n' :: l' => match n' with
                  | Sn _ _ => cadd (rec n') (subs l')
                  | Tn _ => subs l'
                  end
    end.

Fixpoint total (n : node) : cnt :=
  match n with
  | Tn t => own nosuite t
  | Sn s ch => cadd (subs_total total ch) (direct_sum s ch)
  end.

(* events of a whole run of node n entered with breadcrumb `path` and totals `tot0`
   (newest first) *)
Definition subs_events (s : suiteinfo) (rec : node -> list event) : list node -> list event :=
  fix subs (l : list node) : list event :=
    match l with
    | [] => []
    | n' :: l' =>
        match n' with
        | Sn _ _ =>
            subs l'
            ++ (if s_has_teardown s then [EFixture (sid s) true] else [])
            ++ rec n'
            ++ (if s_has_setup s then [EFixture (sid s) false] else [])
        | Tn _ => subs l'
        end
    end.

Fixpoint spec_events (path : list nat) (tot0 : cnt) (n : node) : list event :=
  match n with
  | Tn t => spec_test path nosuite t
  | Sn s ch =>
      let here := (1000 + sid s)%nat :: path in
      (match path with [] => [ETotals (cadd tot0 (total (Sn s ch)))] | _ => [] end)
      ++ [ESuiteDone (sid s) (direct_sum s ch) (length path)]
      ++ direct_events here s ch ++ subs_events s (spec_events here tot0) ch ++ [EStartSuite (sid s)]
  end.

(* the verdict the specification demands: failure iff some check failed or some test
   ended abnormally *)
Definition all_good (n : node) : Prop := failures (total n) = 0 /\ exceptions (total n) = 0.
