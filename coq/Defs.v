(* Defs.v — types shared between the generated facts (Gen/Facts.v) and the models. *)
From Coq Require Import List ZArith Bool String.
Import ListNotations.

(* How a built-in reporter treats the four counters (instantiated from source in Gen/Facts.v) *)
Record rkind := mkrk {
  rk_start_resets : bool;       (* *_start_suite zeroes passes/failures/skips/exceptions *)
  rk_fold_p : bool; rk_fold_f : bool; rk_fold_s : bool; rk_fold_e : bool;
                                (* *_finish_suite adds the counter to its total *)
  rk_suite_via_finish_test : bool  (* *_finish_suite goes through reporter_finish_test *)
}.

(* translated pieces of the container code (src/vector.c, src/suite.c, src/breadcrumb.c); see Vector.v *)
Record vsrc := mkvsrc {
  v_step : Z;                       (* increase_space(): vector->space += step *)
  v_must_grow : Z -> Z -> bool;     (* cgreen_vector_add(): size space => grow first *)
  v_add_index : Z -> Z;             (* cgreen_vector_add(): index written, from size *)
  v_illegal_remove : Z -> Z -> bool;(* cgreen_vector_remove(): position size => PANIC *)
  v_shift_cond : Z -> Z -> bool;    (* loop condition: i size *)
  v_shift_src : Z -> Z;             (* items[dst i] = items[src i] *)
  v_shift_dst : Z -> Z;
  v_clear_index : Z -> Z;           (* items[..] = NULL, from size *)
  v_illegal_get : Z -> Z -> bool    (* cgreen_vector_get(): position size => PANIC *)
}.

Record ssrc := mkssrc {
  s_new_size : Z -> Z;        (* suite->size++ *)
  s_alloc_count : Z -> Z;     (* realloc(tests, sizeof(UnitTest) * <this>), from the new size *)
  s_write_index : Z -> Z      (* tests[<this>] = ..., from the new size *)
}.

Record bsrc := mkbsrc {
  b_must_grow : Z -> Z -> bool;   (* depth (already incremented) space *)
  b_push_index : Z -> Z;          (* trail[<this>] = name, from the incremented depth *)
  b_current_index : Z -> Z        (* get_current_from_breadcrumb: trail[<this>] *)
}.

(* translated pieces of the value transports through mocks (C12); see Values.v *)
Record valsrc := mkvalsrc {
  vs_ret_macro : Z -> Z;        (* will_return(value): the cast the macro applies *)
  vs_ret_store : Z -> Z;        (* create_return_value_constraint(): value stored in the expectation *)
  vs_ret_load : Z -> Z;         (* mock_(): value returned from the stored integer *)
  vs_dbl_copy : bool;           (* doubles are only copied: stored as double, boxed by mock_(), box/unbox copy the field *)
  vs_bv_alloc1 : Z -> Z; vs_bv_copy1 : Z -> Z; vs_bv_size : Z -> Z;   (* create_return_by_value_constraint(): malloc, memcpy, recorded size *)
  vs_bv_alloc2 : Z -> Z; vs_bv_copy2 : Z -> Z;                         (* stored_result_or_default_for(): malloc, memcpy from the recorded size *)
  vs_set_macro : Z -> Z;        (* will_set_contents_of_output_parameter(..., size): cast of size *)
  vs_set_store : Z -> Z;        (* create_set_parameter_value_constraint(): recorded size *)
  vs_set_len : Z -> Z;          (* set_contents(): memmove length from the recorded size *)
  vs_set_dst_actual : bool; vs_set_src_expected : bool;   (* memmove(actual pointer, recorded source pointer, ..) *)
  vs_cap_store : Z -> Z;        (* create_capture_parameter_constraint(): recorded size *)
  vs_cap_use_offset : Z -> bool -> bool;   (* capture_parameter(): size, bigendian => offset branch *)
  vs_cap_offset : Z -> Z;       (* offset into the actual's union in that branch *)
  vs_cap_len_off : Z -> Z; vs_cap_len : Z -> Z   (* memmove lengths of the two branches *)
}.

(* abstract double arithmetic and libm for the translated double comparisons (C15); see Doubles.v *)
Inductive ext := ENegInf | EFin (z : Z) | EPosInf | ENan.     (* floor(log10 x) as a double: an integer, an infinity or NaN *)
Definition ex_add (a b : ext) : ext :=
  match a, b with
  | ENan, _ | _, ENan => ENan
  | EFin x, EFin y => EFin (x + y)
  | ENegInf, EPosInf | EPosInf, ENegInf => ENan
  | ENegInf, _ | _, ENegInf => ENegInf
  | EPosInf, _ | _, EPosInf => EPosInf
  end.
Definition ex_neg (a : ext) : ext := match a with ENegInf => EPosInf | EPosInf => ENegInf | EFin z => EFin (- z) | ENan => ENan end.
Definition ex_sub (a b : ext) : ext := ex_add a (ex_neg b).
Record fenv (F : Type) := mkfenv { f_sub : F -> F -> F; f_add : F -> F -> F; f_abs : F -> F; f_lt : F -> F -> bool }.
Arguments f_sub {F}. Arguments f_add {F}. Arguments f_abs {F}. Arguments f_lt {F}.
Record libm (F : Type) := mklibm { l_flog10 : F -> ext; l_pow10 : ext -> F }.
Arguments l_flog10 {F}. Arguments l_pow10 {F}.
