(* Defs.v — types shared between the generated facts (Gen/Facts.v) and the models. *)
From Coq Require Import List ZArith Bool String.
Import ListNotations.

(* How a built-in reporter treats the four counters (instantiated from source in Gen/Facts.v) *)
Record rkind := mkrk {
  rk_start_resets : bool;       (* *_start_suite zeroes passes/failures/skips/exceptions *)
  rk_fold_p : bool; rk_fold_f : bool; rk_fold_s : bool; rk_fold_e : bool;
                                (* *_finish_suite adds the counter to its total *)
  rk_suite_via_finish_test : bool  (* *_finish_suite goes through reporter_finish_test *)
}.
