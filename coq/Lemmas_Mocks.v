(* Lemmas_Mocks.v — the global expectation queue behaves as one FIFO per mocked function. *)
From Coq Require Import List ZArith Bool Lia Arith.
From CgreenVerif Require Import Defs Mocks.
Import ListNotations.
Local Open Scope Z_scope.

Section Proofs.
Variable U : Z.
Hypothesis U_pos : 0 < U.

Notation is_always := (is_always U).
Notation is_never := (is_never U).
Notation mstep := (mstep U).
Notation mrun := (mrun U).

(* the expectations of function f, oldest first *)
Definition abs (q : list mexp) (f : nat) : list mexp := filter (for_fn f) q.

Lemma for_fn_true f e : for_fn f e = true <-> efn e = f.
Proof. unfold for_fn. apply Nat.eqb_eq. Qed.
Lemma for_fn_false f e : for_fn f e = false <-> efn e <> f.
Proof. unfold for_fn. apply Nat.eqb_neq. Qed.

Lemma for_fn_other f g e : f <> g -> for_fn f e = true -> for_fn g e = false.
Proof. intros Hne H. apply for_fn_true in H. apply for_fn_false. congruence. Qed.

(* ---- list lemmas ---- *)
Lemma find_is_head q f : find_exp q f = hd_error (abs q f).
Proof.
  unfold abs. induction q as [|e q IH]; [reflexivity|]. cbn [find_exp filter].
  destruct (for_fn f e); [reflexivity | exact IH].
Qed.

Lemma abs_remove_first_same q f : abs (remove_first q f) f = tl (abs q f).
Proof.
  unfold abs. induction q as [|e q IH]; [reflexivity|]. cbn [remove_first filter].
  destruct (for_fn f e) eqn:He; [reflexivity|]. cbn [filter]. rewrite He. exact IH.
Qed.

Lemma abs_remove_first_other q f g : f <> g -> abs (remove_first q f) g = abs q g.
Proof.
  intros Hne. unfold abs. induction q as [|e q IH]; [reflexivity|]. cbn [remove_first filter].
  destruct (for_fn f e) eqn:He.
  - rewrite (for_fn_other f g e Hne He). reflexivity.
  - cbn [filter]. rewrite IH. reflexivity.
Qed.

Lemma abs_update_first_same q f e' :
  efn e' = f ->
  abs (update_first q f e') f = match abs q f with [] => [] | _ :: t => e' :: t end.
Proof.
  intros Hf. unfold abs. induction q as [|e q IH]; [reflexivity|]. cbn [update_first filter].
  destruct (for_fn f e) eqn:He.
  - cbn [filter]. assert (for_fn f e' = true) by (apply for_fn_true; exact Hf). rewrite H. reflexivity.
  - cbn [filter]. rewrite He. exact IH.
Qed.

Lemma abs_update_first_other q f g e' :
  f <> g -> efn e' = f -> abs (update_first q f e') g = abs q g.
Proof.
  intros Hne Hf. unfold abs. induction q as [|e q IH]; [reflexivity|]. cbn [update_first filter].
  destruct (for_fn f e) eqn:He.
  - cbn [filter]. rewrite (for_fn_other f g e Hne He).
    assert (for_fn g e' = false) by (apply for_fn_false; congruence). rewrite H. reflexivity.
  - cbn [filter]. rewrite IH. reflexivity.
Qed.

Lemma abs_app q1 q2 f : abs (q1 ++ q2) f = abs q1 f ++ abs q2 f.
Proof. unfold abs. apply filter_app. Qed.

Lemma abs_idem q f : abs (abs q f) f = abs q f.
Proof.
  unfold abs. induction q as [|e q IH]; [reflexivity|]. cbn [filter].
  destruct (for_fn f e) eqn:He; [cbn [filter]; rewrite He, IH; reflexivity | exact IH].
Qed.

Lemma existsb_abs (P : mexp -> bool) q f :
  existsb (fun e => for_fn f e && P e) q = existsb (fun e => for_fn f e && P e) (abs q f).
Proof.
  unfold abs. induction q as [|e q IH]; [reflexivity|]. cbn [existsb filter].
  destruct (for_fn f e) eqn:He; cbn [existsb andb]; rewrite ?He; cbn [andb orb]; rewrite IH; reflexivity.
Qed.

Lemma have_always_abs q f : have_always U q f = have_always U (abs q f) f.
Proof. unfold have_always. apply existsb_abs. Qed.
Lemma have_never_abs q f : have_never U q f = have_never U (abs q f) f.
Proof. unfold have_never. apply existsb_abs. Qed.

(* ---- at most one never-entry per function: then the removal loop's index skipping is
        invisible ---- *)
Definition nevers (q : list mexp) (f : nat) : list mexp := filter (fun e => for_fn f e && is_never e) q.
Definition one_never (q : list mexp) : Prop := forall f, (length (nevers q f) <= 1)%nat.

Definition drop_never (q : list mexp) (f : nat) : list mexp :=
  filter (fun e => negb (for_fn f e && is_never e)) q.

Lemma nevers_none_drop q f : nevers q f = [] -> drop_never q f = q.
Proof.
  unfold nevers, drop_never. induction q as [|e q IH]; [reflexivity|]. cbn [filter].
  destruct (for_fn f e && is_never e); cbn [negb]; [discriminate|]. intros H. rewrite (IH H). reflexivity.
Qed.

Lemma remove_never_none q f : nevers q f = [] -> remove_never U q f = q.
Proof.
  unfold nevers. induction q as [|e q IH]; [reflexivity|]. cbn [filter remove_never].
  destruct (for_fn f e && is_never e); [discriminate|]. intros H. rewrite (IH H). reflexivity.
Qed.

Lemma remove_never_is_drop q f :
  (length (nevers q f) <= 1)%nat -> remove_never U q f = drop_never q f.
Proof.
  unfold nevers, drop_never. induction q as [|e q IH]; [reflexivity|]. cbn [filter remove_never].
  destruct (for_fn f e && is_never e) eqn:He; cbn [negb length].
  - intros H. assert (Hn : nevers q f = []).
    { unfold nevers. destruct (filter (fun e0 => for_fn f e0 && is_never e0) q); [reflexivity | cbn in H; lia]. }
    fold (drop_never q f). rewrite (nevers_none_drop q f Hn). destruct q as [|e2 q']; [reflexivity|].
    f_equal. unfold nevers in Hn. cbn [filter] in Hn.
    destruct (for_fn f e2 && is_never e2) eqn:He2; [discriminate|].
    apply remove_never_none. exact Hn.
  - intros H. rewrite (IH H). reflexivity.
Qed.

Lemma abs_drop_never_other q f g : f <> g -> abs (drop_never q f) g = abs q g.
Proof.
  intros Hne. unfold abs, drop_never. induction q as [|e q IH]; [reflexivity|]. cbn [filter].
  destruct (for_fn f e) eqn:He; cbn [andb].
  - rewrite (for_fn_other f g e Hne He). destruct (is_never e); cbn [negb filter];
      rewrite ?(for_fn_other f g e Hne He); exact IH.
  - cbn [negb filter]. rewrite IH. reflexivity.
Qed.

Lemma abs_drop_never_same q f : abs (drop_never q f) f = drop_never (abs q f) f.
Proof.
  unfold abs, drop_never. induction q as [|e q IH]; [reflexivity|]. cbn [filter].
  destruct (for_fn f e) eqn:He; cbn [andb].
  - destruct (is_never e) eqn:Hn; cbn [negb filter]; rewrite ?He; cbn [andb]; rewrite ?Hn; cbn [negb]; rewrite IH; reflexivity.
  - cbn [negb filter]. rewrite He. exact IH.
Qed.

Lemma nevers_abs q f : nevers (abs q f) f = nevers q f.
Proof.
  unfold nevers, abs. induction q as [|e q IH]; [reflexivity|]. cbn [filter].
  destruct (for_fn f e) eqn:He; cbn [andb filter]; rewrite ?He; cbn [andb]; rewrite IH; reflexivity.
Qed.

(* ---- the invariant is preserved ---- *)
Lemma nevers_nil_iff q f : have_never U q f = false <-> nevers q f = [].
Proof.
  unfold have_never, nevers. induction q as [|e q IH]; [cbn; tauto|]. cbn [existsb filter].
  destruct (for_fn f e && is_never e); cbn [orb]; [split; discriminate | exact IH].
Qed.

Lemma nevers_app q1 q2 f : nevers (q1 ++ q2) f = nevers q1 f ++ nevers q2 f.
Proof. unfold nevers. apply filter_app. Qed.

Lemma nevers_drop_len q f g : (length (nevers (drop_never q f) g) <= length (nevers q g))%nat.
Proof.
  unfold nevers, drop_never. induction q as [|e q IH]; [cbn; lia|]. cbn [filter].
  destruct (negb (for_fn f e && is_never e)); cbn [filter];
    destruct (for_fn g e && is_never e); cbn [length]; lia.
Qed.

Lemma nevers_remove_first_len q f g : (length (nevers (remove_first q f) g) <= length (nevers q g))%nat.
Proof.
  unfold nevers. induction q as [|e q IH]; [cbn; lia|]. cbn [remove_first filter].
  destruct (for_fn f e).
  - destruct (for_fn g e && is_never e); cbn [length]; lia.
  - cbn [filter]. destruct (for_fn g e && is_never e); cbn [length]; lia.
Qed.

Lemma nevers_update_first_len q f e e' g :
  find_exp q f = Some e -> efn e' = f -> is_never e' = is_never e ->
  length (nevers (update_first q f e') g) = length (nevers q g).
Proof.
  intros Hfind Hf Hn. unfold nevers. revert Hfind. induction q as [|x q IH]; [discriminate|].
  cbn [find_exp update_first filter]. destruct (for_fn f x) eqn:Hx.
  - intros H; inversion H; subst x. cbn [filter].
    assert (Hg : for_fn g e' = for_fn g e).
    { unfold for_fn. apply for_fn_true in Hx. rewrite Hx, Hf. reflexivity. }
    rewrite Hg, Hn. destruct (for_fn g e && is_never e); reflexivity.
  - intros H. cbn [filter]. destruct (for_fn g x && is_never x); cbn [length]; rewrite (IH H); reflexivity.
Qed.

Lemma find_exp_fn q f e : find_exp q f = Some e -> efn e = f.
Proof.
  induction q as [|x q IH]; [discriminate|]. cbn [find_exp]. destruct (for_fn f x) eqn:Hx; [|exact IH].
  intros H; inversion H; subst. apply for_fn_true. exact Hx.
Qed.

Lemma is_never_dec_false e : is_never e = false -> 0 < ettl e - 1 ->
  is_never (mkexp (efn e) (eline e) (ettl e - 1) (econs e) (encalled e) (entrig e)) = false.
Proof.
  unfold Mocks.is_never. cbn [ettl]. intros _ H. apply Z.eqb_neq. lia.
Qed.

Lemma after_use_one_never q f e e1 :
  one_never q -> find_exp q f = Some e -> is_never e = false ->
  efn e1 = f -> ettl e1 = ettl e ->
  one_never (after_use U q f e1).
Proof.
  intros Hinv Hfind Hnv Hf Httl g. unfold after_use.
  assert (Hn1 : is_never e1 = is_never e) by (unfold Mocks.is_never; rewrite Httl; reflexivity).
  destruct (Mocks.is_always U e1).
  - rewrite (nevers_update_first_len q f e e1 g Hfind Hf Hn1). apply Hinv.
  - cbn [ettl]. destruct (ettl e1 - 1 <=? 0) eqn:Hle.
    + eapply Nat.le_trans; [apply nevers_remove_first_len | apply Hinv].
    + rewrite (nevers_update_first_len q f e _ g Hfind); [apply Hinv | exact Hf |].
      rewrite Hnv. rewrite <- Hn1 in Hnv. apply is_never_dec_false; [exact Hnv|]. apply Z.leb_gt in Hle. lia.
Qed.

Lemma declare_one_never s f line cs ttl :
  one_never (queue s) -> one_never (queue (fst (declare U s f line cs ttl))).
Proof.
  intros Hinv. unfold declare. destruct (have_always U (queue s) f); [exact Hinv|].
  destruct (have_never U (queue s) f) eqn:Hn; cbn [fst queue].
  - intros g. rewrite (remove_never_is_drop (queue s) f (Hinv f)).
    eapply Nat.le_trans; [apply nevers_drop_len | apply Hinv].
  - intros g. rewrite nevers_app, app_length. apply nevers_nil_iff in Hn.
    unfold nevers at 2. cbn [filter efn]. destruct (Nat.eq_dec f g) as [->|Hne].
    + rewrite Hn. cbn [length]. destruct (for_fn g _ && is_never _); cbn [length]; lia.
    + assert (Hfg : for_fn g (mkexp f line ttl cs 0 0) = false) by (apply for_fn_false; cbn; exact Hne).
      rewrite Hfg. cbn [andb length]. specialize (Hinv g). lia.
Qed.

Lemma mstep_one_never s o : one_never (queue s) -> one_never (queue (fst (fst (mstep s o)))).
Proof.
  intros Hinv. destruct o as [f line cs|f line cs|f line cs|f args|m| |]; cbn [Mocks.mstep].
  - pose proof (declare_one_never s f line cs (expect_ttl U cs) Hinv) as H.
    destruct (declare U s f line cs (expect_ttl U cs)) as [s' r]. exact H.
  - pose proof (declare_one_never s f line cs U Hinv) as H.
    destruct (declare U s f line cs U) as [s' r]. exact H.
  - pose proof (declare_one_never s f line cs (- U) Hinv) as H.
    destruct (declare U s f line cs (- U)) as [s' r]. exact H.
  - destruct (find_exp (queue s) f) as [e|] eqn:Hfind; [|exact Hinv].
    pose proof (find_exp_fn _ _ _ Hfind) as Hfn.
    destruct (Mocks.is_never U e) eqn:Hnv; cbn [fst queue].
    + intros g. erewrite nevers_update_first_len; [apply Hinv | exact Hfind | exact Hfn | reflexivity].
    + destruct (unknown_param (econs e) (map fst args)) as [[p seen]|]; cbn [fst queue];
        (eapply after_use_one_never; [exact Hinv | exact Hfind | exact Hnv | exact Hfn | reflexivity]).
  - exact Hinv.
  - cbn [fst queue]. intros g. cbn. lia.
  - cbn [fst queue]. intros g. cbn. lia.
Qed.

(* ---- a queue that holds entries of one function only ---- *)
Definition only (f : nat) (l : list mexp) : Prop := Forall (fun e => for_fn f e = true) l.

Lemma abs_only q f : only f (abs q f).
Proof. unfold only, abs. apply Forall_forall. intros e He. apply filter_In in He. tauto. Qed.

Lemma only_abs l f : only f l -> abs l f = l.
Proof.
  unfold only, abs. induction 1 as [|e l He _ IH]; [reflexivity|]. cbn [filter]. rewrite He, IH. reflexivity.
Qed.

Lemma only_update_first l f e' : only f l -> update_first l f e' = match l with [] => [] | _ :: t => e' :: t end.
Proof. destruct 1 as [|e l He _]; [reflexivity|]. cbn [update_first]. rewrite He. reflexivity. Qed.

Lemma only_remove_first l f : only f l -> remove_first l f = tl l.
Proof. destruct 1 as [|e l He _]; [reflexivity|]. cbn [remove_first]. rewrite He. reflexivity. Qed.

Lemma abs_after_use q f e1 : efn e1 = f -> abs (after_use U q f e1) f = after_use U (abs q f) f e1.
Proof.
  intros Hf. unfold after_use. pose proof (abs_only q f) as Ho.
  destruct (Mocks.is_always U e1).
  - rewrite abs_update_first_same by exact Hf. rewrite only_update_first by exact Ho. reflexivity.
  - cbn [ettl]. destruct (ettl e1 - 1 <=? 0).
    + rewrite abs_remove_first_same, only_remove_first by exact Ho. reflexivity.
    + rewrite abs_update_first_same by (cbn; exact Hf). rewrite only_update_first by exact Ho. reflexivity.
Qed.

Lemma abs_after_use_other q f g e1 : f <> g -> efn e1 = f -> abs (after_use U q f e1) g = abs q g.
Proof.
  intros Hne Hf. unfold after_use. destruct (Mocks.is_always U e1).
  - apply abs_update_first_other; assumption.
  - cbn [ettl]. destruct (ettl e1 - 1 <=? 0).
    + apply abs_remove_first_other; assumption.
    + apply abs_update_first_other; [assumption | cbn; exact Hf].
Qed.

(* ---- the simulation: the global queue, seen from function f, is f's own queue ---- *)
Definition concerns (f : nat) (o : mop) : bool :=
  match o with
  | MExpect g _ _ | MAlways g _ _ | MNever g _ _ | MCall g _ => Nat.eqb g f
  | _ => true
  end.

Record sim (f : nat) (s sf : mstate) : Prop := mksim {
  sim_q : abs (queue s) f = queue sf;
  sim_m : mmode_ s = mmode_ sf;
  sim_s : existsb (Nat.eqb f) (succ s) = existsb (Nat.eqb f) (succ sf);
  sim_inv : one_never (queue s)
}.

Definition about (f : nat) (r : list mres) : list mres := filter (fun x => Nat.eqb (rfn x) f) r.

Lemma about_all f r : Forall (fun x => rfn x = f) r -> about f r = r.
Proof.
  unfold about. induction 1 as [|x r Hx _ IH]; [reflexivity|]. cbn [filter].
  rewrite Hx, Nat.eqb_refl, IH. reflexivity.
Qed.

Lemma about_none f g r : f <> g -> Forall (fun x => rfn x = g) r -> about f r = [].
Proof.
  intros Hne. unfold about. induction 1 as [|x r Hx _ IH]; [reflexivity|]. cbn [filter].
  rewrite Hx. assert (Nat.eqb g f = false) by (apply Nat.eqb_neq; congruence). rewrite H. exact IH.
Qed.

(* the results of an operation on g are about g *)
Lemma declare_about s g line cs ttl : Forall (fun x => rfn x = g) (snd (declare U s g line cs ttl)).
Proof.
  unfold declare. destruct (have_always U (queue s) g); [repeat constructor|].
  destruct (have_never U (queue s) g); cbn; repeat constructor.
Qed.

Lemma param_results_about g line cs args : Forall (fun x => rfn x = g) (param_results g line cs args).
Proof.
  unfold param_results. apply Forall_forall. intros x Hx.
  apply in_flat_map in Hx. destruct Hx as (a & _ & Hx). apply in_flat_map in Hx. destruct Hx as (c & _ & Hx).
  destruct c; cbn in Hx; try contradiction. destruct (Nat.eqb name (fst a)); cbn in Hx; [|contradiction].
  destruct Hx as [<-|[]]. reflexivity.
Qed.

Definition op_fn (o : mop) : option nat :=
  match o with
  | MExpect g _ _ | MAlways g _ _ | MNever g _ _ | MCall g _ => Some g
  | _ => None
  end.

(* an operation on another function leaves f's queue alone and reports nothing about f *)
Lemma step_other f g s sf o :
  f <> g -> op_fn o = Some g -> sim f s sf ->
  sim f (fst (fst (mstep s o))) sf /\ about f (snd (fst (mstep s o))) = [].
Proof.
  intros Hne Ho [Hq Hm Hs Hinv].
  assert (Hgf : g <> f) by congruence.
  assert (Hdecl : forall line cs ttl,
            sim f (fst (declare U s g line cs ttl)) sf /\ about f (snd (declare U s g line cs ttl)) = []).
  { intros line cs ttl. split.
    - pose proof (declare_one_never s g line cs ttl Hinv) as Hinv'.
      unfold declare in *. destruct (have_always U (queue s) g); [constructor; assumption|].
      destruct (have_never U (queue s) g); cbn [fst queue mmode_ succ] in *; constructor; cbn [queue mmode_ succ]; auto.
      + rewrite (remove_never_is_drop (queue s) g (Hinv g)). rewrite abs_drop_never_other by exact Hgf. exact Hq.
      + rewrite abs_app. unfold abs at 2. cbn [filter].
        assert (Hx : for_fn f (mkexp g line ttl cs 0 0) = false) by (apply for_fn_false; cbn; exact Hgf).
        rewrite Hx, app_nil_r. exact Hq.
    - apply (about_none f g); [exact Hne | apply declare_about]. }
  destruct o as [g' line cs|g' line cs|g' line cs|g' args|m| |]; cbn in Ho; inversion Ho; subst g'; cbn [Mocks.mstep].
  - match goal with |- context [declare U s g ?l ?c ?t] => destruct (Hdecl l c t) as [H1 H2]; destruct (declare U s g l c t) as [s' r]; cbn [fst snd] in *; auto end.
  - match goal with |- context [declare U s g ?l ?c ?t] => destruct (Hdecl l c t) as [H1 H2]; destruct (declare U s g l c t) as [s' r]; cbn [fst snd] in *; auto end.
  - match goal with |- context [declare U s g ?l ?c ?t] => destruct (Hdecl l c t) as [H1 H2]; destruct (declare U s g l c t) as [s' r]; cbn [fst snd] in *; auto end.
  - pose proof (mstep_one_never s (MCall g args) Hinv) as Hinv'. cbn [Mocks.mstep] in Hinv'.
    destruct (find_exp (queue s) g) as [e|] eqn:Hfind.
    + pose proof (find_exp_fn _ _ _ Hfind) as Hfn.
      destruct (Mocks.is_never U e); cbn [fst snd] in *.
      * split; [constructor; cbn [queue mmode_ succ]; auto|].
        -- rewrite abs_update_first_other; [exact Hq | exact Hgf | exact Hfn].
        -- apply (about_none f g); [exact Hne | repeat constructor].
      * destruct (unknown_param (econs e) (map fst args)) as [[p seen]|]; cbn [fst snd] in *.
        -- split; [constructor; cbn [queue mmode_ succ]; auto|].
           ++ rewrite abs_after_use_other; [exact Hq | exact Hgf | exact Hfn].
           ++ cbn [existsb]. assert (Nat.eqb f g = false) by (apply Nat.eqb_neq; exact Hne). rewrite H. exact Hs.
           ++ apply (about_none f g); [exact Hne | repeat constructor].
        -- split; [constructor; cbn [queue mmode_ succ]; auto|].
           ++ rewrite abs_after_use_other; [exact Hq | exact Hgf | exact Hfn].
           ++ cbn [existsb]. assert (Nat.eqb f g = false) by (apply Nat.eqb_neq; exact Hne). rewrite H. exact Hs.
           ++ apply (about_none f g); [exact Hne | apply param_results_about].
    + cbn [fst snd]. split; [constructor; auto|].
      apply (about_none f g); [exact Hne|]. destruct (mmode_ s); repeat constructor.
Qed.

(* what the tally reports for one entry *)
Definition tally_entry (e : mexp) : list mres :=
  if is_always e then []
  else if is_never e then (if entrig e =? 0 then [mkres (efn e) (eline e) true 8] else [])
  else match filter (fun c => match c with CTimes _ => true | _ => false end) (econs e) with
       | [] => [mkres (efn e) (eline e) false 10]
       | ts => map (fun c => match c with
                             | CTimes n => mkres (efn e) (eline e) (encalled e =? n) 9
                             | _ => mkres (efn e) (eline e) false 9 end) ts
       end.

Lemma tally_is_flat_map s : snd (fst (mstep s MTally)) = flat_map tally_entry (queue s).
Proof. reflexivity. Qed.

Lemma tally_entry_about e : Forall (fun x => rfn x = efn e) (tally_entry e).
Proof.
  unfold tally_entry. destruct (is_always e); [constructor|].
  destruct (is_never e); [destruct (entrig e =? 0); repeat constructor|].
  destruct (filter _ (econs e)) as [|c ts]; [repeat constructor|].
  apply Forall_forall. intros x Hx. apply in_map_iff in Hx. destruct Hx as (c' & <- & _). destruct c'; reflexivity.
Qed.

Lemma about_tally f q : about f (flat_map tally_entry q) = flat_map tally_entry (abs q f).
Proof.
  unfold about, abs. induction q as [|e q IH]; [reflexivity|]. cbn [flat_map filter].
  rewrite filter_app, IH. fold (about f (tally_entry e)). unfold for_fn.
  destruct (Nat.eqb (efn e) f) eqn:He.
  - cbn [flat_map]. f_equal. apply about_all. apply Nat.eqb_eq in He. rewrite <- He. apply tally_entry_about.
  - rewrite (about_none f (efn e)); [reflexivity | apply Nat.eqb_neq in He; congruence | apply tally_entry_about].
Qed.

Lemma sim_find f s sf : sim f s sf -> find_exp (queue s) f = find_exp (queue sf) f.
Proof. intros [Hq _ _ _]. rewrite !find_is_head, <- Hq, abs_idem. reflexivity. Qed.

Lemma sim_only f s sf : sim f s sf -> only f (queue sf).
Proof. intros [Hq _ _ _]. rewrite <- Hq. apply abs_only. Qed.

Lemma declare_same f s sf line cs ttl :
  sim f s sf ->
  sim f (fst (declare U s f line cs ttl)) (fst (declare U sf f line cs ttl)) /\
  snd (declare U s f line cs ttl) = snd (declare U sf f line cs ttl).
Proof.
  intros Hsim. pose proof (declare_one_never s f line cs ttl (sim_inv _ _ _ Hsim)) as Hinv'.
  destruct Hsim as [Hq Hm Hs Hinv]. unfold declare in *.
  rewrite (have_always_abs (queue s) f), (have_never_abs (queue s) f), Hq in *.
  destruct (have_always U (queue sf) f); [split; [constructor; assumption | reflexivity]|].
  destruct (have_never U (queue sf) f); cbn [fst snd queue mmode_ succ] in *; (split; [|reflexivity]);
    constructor; cbn [queue mmode_ succ]; auto.
  - rewrite (remove_never_is_drop (queue s) f (Hinv f)).
    rewrite abs_drop_never_same, Hq. symmetry. apply remove_never_is_drop.
    rewrite <- Hq, nevers_abs. apply Hinv.
  - rewrite abs_app, Hq. unfold abs. cbn [filter].
    assert (Hx : for_fn f (mkexp f line ttl cs 0 0) = true) by (apply for_fn_true; reflexivity).
    rewrite Hx. reflexivity.
Qed.

(* an operation on f, or a global one (mode, tally, clear), is mirrored by f's own machine *)
Lemma step_same f s sf o :
  (op_fn o = Some f \/ op_fn o = None) -> sim f s sf ->
  sim f (fst (fst (mstep s o))) (fst (fst (mstep sf o))) /\
  about f (snd (fst (mstep s o))) = snd (fst (mstep sf o)) /\
  (op_fn o = Some f -> snd (fst (mstep s o)) = snd (fst (mstep sf o)) /\ snd (mstep s o) = snd (mstep sf o)).
Proof.
  intros Ho Hsim.
  assert (Hdecl : forall line cs ttl,
    let r := declare U s f line cs ttl in let rf := declare U sf f line cs ttl in
    sim f (fst r) (fst rf) /\ about f (snd r) = snd rf /\ snd r = snd rf).
  { intros line cs ttl. cbn zeta. destruct (declare_same f s sf line cs ttl Hsim) as [H1 H2].
    split; [exact H1|]. split; [|exact H2]. rewrite <- H2. apply about_all. apply declare_about. }
  destruct o as [g line cs|g line cs|g line cs|g args|m| |]; cbn in Ho;
    try (destruct Ho as [Ho|Ho]; [inversion Ho; subst g | discriminate]).
  - cbn [Mocks.mstep]. destruct (Hdecl line cs (expect_ttl U cs)) as (H1 & H2 & H3).
    destruct (declare U s f line cs (expect_ttl U cs)) as [s' r]; destruct (declare U sf f line cs (expect_ttl U cs)) as [sf' rf].
    cbn [fst snd] in *. subst. auto.
  - cbn [Mocks.mstep]. destruct (Hdecl line cs U) as (H1 & H2 & H3).
    destruct (declare U s f line cs U) as [s' r]; destruct (declare U sf f line cs U) as [sf' rf].
    cbn [fst snd] in *. subst. auto.
  - cbn [Mocks.mstep]. destruct (Hdecl line cs (- U)) as (H1 & H2 & H3).
    destruct (declare U s f line cs (- U)) as [s' r]; destruct (declare U sf f line cs (- U)) as [sf' rf].
    cbn [fst snd] in *. subst. auto.
  - (* a call of f *)
    pose proof (mstep_one_never s (MCall f args) (sim_inv _ _ _ Hsim)) as Hinv'.
    pose proof (sim_only f s sf Hsim) as Ho'.
    cbn [Mocks.mstep] in *. rewrite <- (sim_find f s sf Hsim).
    destruct Hsim as [Hq Hm Hs Hinv].
    destruct (find_exp (queue s) f) as [e|] eqn:Hfind.
    + pose proof (find_exp_fn _ _ _ Hfind) as Hfn.
      destruct (Mocks.is_never U e); cbn [fst snd] in *.
      * split; [constructor; cbn [queue mmode_ succ]; auto|].
        -- rewrite abs_update_first_same by exact Hfn. rewrite only_update_first by exact Ho'. rewrite Hq. reflexivity.
        -- split; [|auto]. apply about_all. repeat constructor.
      * destruct (unknown_param (econs e) (map fst args)) as [[p seen]|]; cbn [fst snd] in *.
        -- split; [constructor; cbn [queue mmode_ succ]; auto|].
           ++ rewrite abs_after_use by exact Hfn. rewrite Hq. reflexivity.
           ++ cbn [existsb]. rewrite Hs. reflexivity.
           ++ split; [|auto]. apply about_all. repeat constructor.
        -- split; [constructor; cbn [queue mmode_ succ]; auto|].
           ++ rewrite abs_after_use by exact Hfn. rewrite Hq. reflexivity.
           ++ cbn [existsb]. rewrite Hs. reflexivity.
           ++ split; [|auto]. apply about_all. apply param_results_about.
    + cbn [fst snd]. rewrite Hm, Hs. split; [constructor; auto|]. split; [|auto].
      apply about_all. destruct (mmode_ sf); repeat constructor.
  - (* mode *) destruct Hsim as [Hq Hm Hs Hinv]. cbn [Mocks.mstep fst snd]. split; [constructor; cbn; auto|]. split; [reflexivity|discriminate].
  - (* tally *) destruct Hsim as [Hq Hm Hs Hinv]. split; [cbn [Mocks.mstep fst snd]; constructor; cbn; auto; intros g; cbn; lia|].
    split; [|discriminate]. rewrite !tally_is_flat_map, about_tally, Hq. reflexivity.
  - (* clear *) destruct Hsim as [Hq Hm Hs Hinv]. cbn [Mocks.mstep fst snd]. split; [constructor; cbn; auto; intros g; cbn; lia|]. split; [reflexivity|discriminate].
Qed.

Lemma about_idem f l : about f (about f l) = about f l.
Proof.
  unfold about. induction l as [|x l IH]; [reflexivity|]. cbn [filter].
  destruct (Nat.eqb (rfn x) f) eqn:Hx; [cbn [filter]; rewrite Hx, IH; reflexivity | exact IH].
Qed.

(* ---- whole histories ---- *)
Definition ops_of (f : nat) (ops : list mop) : list mop := filter (concerns f) ops.

(* what a history shows about f: for every operation that concerns f (its declarations and
   calls, and the global mode/tally/clear), the checks reported about f and the value returned *)
Fixpoint view (f : nat) (ops : list mop) (R : list (list mres * Z)) : list (list mres * Z) :=
  match ops, R with
  | o :: ops', (r, v) :: R' => (if concerns f o then [(about f r, v)] else []) ++ view f ops' R'
  | _, _ => []
  end.

(* operations that do not concern f report nothing about f *)
Fixpoint silent_elsewhere (f : nat) (ops : list mop) (R : list (list mres * Z)) : Prop :=
  match ops, R with
  | o :: ops', (r, v) :: R' => (concerns f o = false -> about f r = []) /\ silent_elsewhere f ops' R'
  | _, _ => True
  end.

Lemma concerns_cases f o :
  (concerns f o = true /\ (op_fn o = Some f \/ op_fn o = None)) \/
  (concerns f o = false /\ exists g, f <> g /\ op_fn o = Some g).
Proof.
  destruct o as [g ? ?|g ? ?|g ? ?|g ?|?| |]; cbn [concerns op_fn]; try (left; split; [reflexivity|right; reflexivity]);
    (destruct (Nat.eqb g f) eqn:H; [apply Nat.eqb_eq in H; subst; left; split; [reflexivity|left; reflexivity]
                                   | apply Nat.eqb_neq in H; right; split; [reflexivity|exists g; split; [congruence|reflexivity]]]).
Qed.

Lemma mrun_cons s o ops :
  mrun s (o :: ops) =
  (fst (mrun (fst (fst (mstep s o))) ops),
   (snd (fst (mstep s o)), snd (mstep s o)) :: snd (mrun (fst (fst (mstep s o))) ops)).
Proof.
  cbn [Mocks.mrun]. destruct (mstep s o) as [[s1 r] v]. cbn [fst snd].
  destruct (mrun s1 ops) as [s2 rs]. reflexivity.
Qed.

(* DECOMPOSITION: what any history shows about f is exactly what f's own machine shows when
   it is fed only the operations that concern f; operations on other functions are silent
   about f.  Hence expectations of different functions never influence one another, and a
   call is served from f's own FIFO. *)
Theorem decomposition f : forall ops s sf,
  sim f s sf ->
  view f ops (snd (mrun s ops)) = map (fun rv => (about f (fst rv), snd rv)) (snd (mrun sf (ops_of f ops))) /\
  view f ops (snd (mrun s ops)) = snd (mrun sf (ops_of f ops)) /\
  silent_elsewhere f ops (snd (mrun s ops)).
Proof.
  induction ops as [|o ops IH]; intros s sf Hsim; [cbn; auto|].
  rewrite mrun_cons. cbn [snd view silent_elsewhere ops_of filter].
  destruct (concerns_cases f o) as [[Hc Ho]|[Hc (g & Hne & Ho)]]; rewrite Hc.
  - destruct (step_same f s sf o Ho Hsim) as (Hsim' & Hab & Hret).
    fold (ops_of f ops). rewrite mrun_cons. cbn [snd map fst app].
    destruct (IH _ _ Hsim') as (IH1 & IH2 & IH3).
    assert (Hv : snd (mstep s o) = snd (mstep sf o)).
    { destruct Ho as [Ho|Ho]; [apply Hret; exact Ho|].
      destruct o; cbn in Ho; try discriminate; reflexivity. }
    assert (Hidem : about f (snd (fst (mstep sf o))) = snd (fst (mstep sf o))).
    { rewrite <- Hab. apply about_idem. }
    repeat split.
    + rewrite Hidem, Hab, Hv. f_equal. exact IH1.
    + rewrite Hab, Hv. f_equal. exact IH2.
    + intros; discriminate.
    + exact IH3.
  - destruct (step_other f g s sf o Hne Ho Hsim) as (Hsim' & Hab).
    fold (ops_of f ops). cbn [app]. destruct (IH _ _ Hsim') as (IH1 & IH2 & IH3).
    repeat split; auto.
Qed.

Lemma sim_init f : sim f ms_init ms_init.
Proof. constructor; try reflexivity. intros g. cbn. lia. Qed.

(* ---- f's own FIFO: readable facts ---- *)
(* what serving a call from entry e reports and returns *)
Definition serve_results (e : mexp) (args : list (nat * Z)) : list mres :=
  param_results (efn e) (eline e) (econs e) args.

Definition used (e : mexp) : mexp :=
  mkexp (efn e) (eline e) (ettl e) (econs e) (bump_called (econs e) (encalled e)) (entrig e + 1).
Definition aged (e : mexp) : mexp :=
  mkexp (efn e) (eline e) (ettl e - 1) (econs e) (encalled e) (entrig e).

(* a call is checked against, and takes its value from, the EARLIEST pending expectation of
   the function - whatever else is in the queue, before or after it *)
Lemma call_served_by_earliest s f e rest args :
  abs (queue s) f = e :: rest -> is_never e = false ->
  unknown_param (econs e) (map fst args) = None ->
  snd (fst (mstep s (MCall f args))) = serve_results e args /\
  snd (mstep s (MCall f args)) = ret_of (econs e) /\
  abs (queue (fst (fst (mstep s (MCall f args))))) f =
    (if is_always e then used e :: rest
     else if ettl e - 1 <=? 0 then rest else aged (used e) :: rest).
Proof.
  intros Habs Hnv Hunk.
  assert (Hfind : find_exp (queue s) f = Some e) by (rewrite find_is_head, Habs; reflexivity).
  pose proof (find_exp_fn _ _ _ Hfind) as Hfn.
  assert (Hff : for_fn f e = true) by (apply for_fn_true; exact Hfn).
  cbn [Mocks.mstep]. rewrite Hfind, Hnv, Hunk. cbn [fst snd queue].
  unfold serve_results. split; [rewrite Hfn; reflexivity|]. split; [reflexivity|].
  fold (used e). rewrite abs_after_use by exact Hfn. rewrite Habs. unfold after_use.
  change (Mocks.is_always U (used e)) with (is_always e).
  destruct (is_always e).
  - cbn [update_first]. rewrite Hff. reflexivity.
  - change (ettl (used e)) with (ettl e). cbn [ettl]. destruct (ettl e - 1 <=? 0).
    + cbn [remove_first]. rewrite Hff. reflexivity.
    + cbn [update_first]. rewrite Hff. reflexivity.
Qed.

(* no pending expectation for f: strict mocks report one failure, loose and learning mocks
   nothing; the call returns 0 and the queue is untouched *)
Lemma call_without_expectation s f args :
  abs (queue s) f = [] ->
  mstep s (MCall f args) =
  (s, match mmode_ s with
      | MStrict => [mkres f 0 false (if existsb (Nat.eqb f) (succ s) then 5 else 4)]
      | _ => []
      end, 0).
Proof.
  intros Habs. cbn [Mocks.mstep].
  assert (Hfind : find_exp (queue s) f = None) by (rewrite find_is_head, Habs; reflexivity).
  rewrite Hfind. reflexivity.
Qed.

(* a call that meets a never-expectation: one failure per offending call, returns 0 *)
Lemma call_violates_never s f e rest args :
  abs (queue s) f = e :: rest -> is_never e = true ->
  snd (fst (mstep s (MCall f args))) = [mkres f (eline e) false 3] /\ snd (mstep s (MCall f args)) = 0.
Proof.
  intros Habs Hnv.
  assert (Hfind : find_exp (queue s) f = Some e) by (rewrite find_is_head, Habs; reflexivity).
  cbn [Mocks.mstep]. rewrite Hfind, Hnv. split; reflexivity.
Qed.

(* iterating calls on the head entry *)
Fixpoint n_calls (s : mstate) (f : nat) (args : list (nat * Z)) (n : nat) : mstate * list (list mres * Z) :=
  match n with
  | O => (s, [])
  | S n' => let '(s1, r, v) := mstep s (MCall f args) in
            let '(s2, rs) := n_calls s1 f args n' in (s2, (r, v) :: rs)
  end.

Lemma used_fields e : efn (used e) = efn e /\ eline (used e) = eline e /\ econs (used e) = econs e /\ ettl (used e) = ettl e.
Proof. repeat split. Qed.
Lemma aged_fields e : efn (aged e) = efn e /\ eline (aged e) = eline e /\ econs (aged e) = econs e /\ ettl (aged e) = ettl e - 1.
Proof. repeat split. Qed.

(* times(n), 1 <= n < the sentinel: exactly n consecutive calls are served by the expectation,
   then it is gone and the next entry of the function is at the head *)
Lemma times_n_serves_n (n : nat) : forall s f e rest args,
  abs (queue s) f = e :: rest -> ettl e = Z.of_nat (S n) -> Z.of_nat (S n) < U ->
  unknown_param (econs e) (map fst args) = None ->
  snd (n_calls s f args (S n)) = repeat (serve_results e args, ret_of (econs e)) (S n) /\
  abs (queue (fst (n_calls s f args (S n)))) f = rest.
Proof.
  induction n as [|n IH]; intros s f e rest args Habs Httl Hlt Hunk.
  - cbn [n_calls].
    assert (Hnv : is_never e = false) by (unfold Mocks.is_never; rewrite Httl; apply Z.eqb_neq; cbn; lia).
    assert (Hal : is_always e = false) by (unfold Mocks.is_always; rewrite Httl; apply Z.eqb_neq; lia).
    destruct (call_served_by_earliest s f e rest args Habs Hnv Hunk) as (H1 & H2 & H3).
    destruct (mstep s (MCall f args)) as [[s1 r] v]. cbn [fst snd] in *. subst.
    rewrite Hal, Httl in H3. cbn in H3. split; [reflexivity | exact H3].
  - assert (Hnv : is_never e = false) by (unfold Mocks.is_never; rewrite Httl; apply Z.eqb_neq; lia).
    assert (Hal : is_always e = false) by (unfold Mocks.is_always; rewrite Httl; apply Z.eqb_neq; lia).
    destruct (call_served_by_earliest s f e rest args Habs Hnv Hunk) as (H1 & H2 & H3).
    change (n_calls s f args (S (S n))) with
      (let '(s1, r, v) := mstep s (MCall f args) in
       let '(s2, rs) := n_calls s1 f args (S n) in (s2, (r, v) :: rs)).
    destruct (mstep s (MCall f args)) as [[s1 r] v]. cbn [fst snd] in *. subst r v.
    rewrite Hal in H3. assert (Hgt : (ettl e - 1 <=? 0) = false) by (apply Z.leb_gt; lia). rewrite Hgt in H3.
    assert (Ht' : ettl (aged (used e)) = Z.of_nat (S n)) by (cbn [aged used ettl]; lia).
    assert (Hlt' : Z.of_nat (S n) < U) by lia.
    destruct (IH s1 f (aged (used e)) rest args H3 Ht' Hlt' Hunk) as [IH1 IH2].
    destruct (n_calls s1 f args (S n)) as [s2 rs]. cbn [fst snd] in *.
    split; [|exact IH2]. rewrite IH1. reflexivity.
Qed.

(* always_expect: every call is served by it, for ever *)
Lemma always_serves_every_call (n : nat) : forall s f e rest args,
  abs (queue s) f = e :: rest -> is_always e = true ->
  unknown_param (econs e) (map fst args) = None ->
  snd (n_calls s f args n) = repeat (serve_results e args, ret_of (econs e)) n /\
  exists e', abs (queue (fst (n_calls s f args n))) f = e' :: rest /\ is_always e' = true /\
             efn e' = efn e /\ eline e' = eline e /\ econs e' = econs e.
Proof.
  induction n as [|n IH]; intros s f e rest args Habs Hal Hunk.
  - cbn [n_calls fst snd repeat]. split; [reflexivity|]. exists e. auto.
  - assert (Hnv : is_never e = false).
    { unfold Mocks.is_never, Mocks.is_always in *. apply Z.eqb_eq in Hal. apply Z.eqb_neq. lia. }
    destruct (call_served_by_earliest s f e rest args Habs Hnv Hunk) as (H1 & H2 & H3).
    cbn [n_calls]. destruct (mstep s (MCall f args)) as [[s1 r] v]. cbn [fst snd] in *. subst r v.
    rewrite Hal in H3.
    destruct (IH s1 f (used e) rest args H3 Hal Hunk) as [IH1 (e' & IH2 & IH3 & IH4 & IH5 & IH6)].
    destruct (n_calls s1 f args n) as [s2 rs]. cbn [fst snd] in *.
    split; [rewrite IH1; reflexivity|]. exists e'. auto.
Qed.

(* ---- the end-of-test sweep ---- *)
Definition has_times (e : mexp) : list mcon := filter (fun c => match c with CTimes _ => true | _ => false end) (econs e).

Lemma tally_always e : is_always e = true -> tally_entry e = [].
Proof. unfold tally_entry. intros ->. reflexivity. Qed.

Lemma tally_never_honoured e :
  is_always e = false -> is_never e = true -> entrig e = 0 ->
  tally_entry e = [mkres (efn e) (eline e) true 8].
Proof. unfold tally_entry. intros -> -> ->. reflexivity. Qed.

Lemma tally_never_violated e :
  is_always e = false -> is_never e = true -> entrig e <> 0 -> tally_entry e = [].
Proof. unfold tally_entry. intros -> -> H. apply Z.eqb_neq in H. rewrite H. reflexivity. Qed.

Lemma tally_plain_unmet e :
  is_always e = false -> is_never e = false -> has_times e = [] ->
  tally_entry e = [mkres (efn e) (eline e) false 10].
Proof. unfold tally_entry, has_times. intros -> -> ->. reflexivity. Qed.

Lemma tally_counted e n :
  is_always e = false -> is_never e = false -> has_times e = [CTimes n] ->
  tally_entry e = [mkres (efn e) (eline e) (encalled e =? n) 9].
Proof. unfold tally_entry, has_times. intros -> -> ->. reflexivity. Qed.

(* ---- a test passes iff every function's own history passes ---- *)
Definition all_ok (R : list (list mres * Z)) : Prop :=
  forall rv r, In rv R -> In r (fst rv) -> rok r = true.

Lemma in_about f r l : In r (about f l) <-> In r l /\ rfn r = f.
Proof. unfold about. rewrite filter_In, Nat.eqb_eq. tauto. Qed.

Lemma in_view f : forall ops R rv',
  In rv' (view f ops R) -> exists rv, In rv R /\ fst rv' = about f (fst rv).
Proof.
  induction ops as [|o ops IH]; intros R rv' H; [destruct H|].
  destruct R as [|[r v] R]; [destruct H|]. cbn [view] in H. apply in_app_or in H. destruct H as [H|H].
  - destruct (concerns f o); [|destruct H]. destruct H as [<-|[]]. exists (r, v). split; [left; reflexivity | reflexivity].
  - destruct (IH R rv' H) as (rv & H1 & H2). exists rv. split; [right; exact H1 | exact H2].
Qed.

Lemma in_R_in_view : forall ops R rv r,
  length R = length ops -> In rv R -> In r (fst rv) ->
  silent_elsewhere (rfn r) ops R ->
  exists rv', In rv' (view (rfn r) ops R) /\ In r (fst rv').
Proof.
  induction ops as [|o ops IH]; intros R rv r Hlen Hin Hr Hsil.
  - destruct R; [destruct Hin | discriminate].
  - destruct R as [|[r0 v0] R]; [destruct Hin|]. cbn [length] in Hlen. cbn [silent_elsewhere] in Hsil.
    destruct Hsil as [Hs1 Hs2]. cbn [view]. destruct Hin as [<-|Hin].
    + cbn [fst] in Hr. destruct (concerns (rfn r) o) eqn:Hc.
      * exists (about (rfn r) r0, v0). split; [left; reflexivity|]. cbn [fst]. apply in_about. auto.
      * specialize (Hs1 eq_refl). assert (Hx : In r (about (rfn r) r0)) by (apply in_about; auto).
        rewrite Hs1 in Hx. destruct Hx.
    + destruct (IH R rv r (eq_add_S _ _ Hlen) Hin Hr Hs2) as (rv' & H1 & H2).
      exists rv'. split; [apply in_or_app; right; exact H1 | exact H2].
Qed.

Lemma mrun_length : forall ops s, length (snd (mrun s ops)) = length ops.
Proof.
  induction ops as [|o ops IH]; intros s; [reflexivity|]. rewrite mrun_cons. cbn [snd length]. rewrite IH. reflexivity.
Qed.

Theorem pass_iff_every_function_passes ops :
  all_ok (snd (mrun ms_init ops)) <-> forall f, all_ok (snd (mrun ms_init (ops_of f ops))).
Proof.
  split.
  - intros H f rv' r Hin Hr.
    destruct (decomposition f ops ms_init ms_init (sim_init f)) as (_ & Heq & _).
    rewrite <- Heq in Hin. destruct (in_view f ops _ rv' Hin) as (rv & H1 & H2).
    rewrite H2 in Hr. apply in_about in Hr. exact (H rv r H1 (proj1 Hr)).
  - intros H rv r Hin Hr.
    destruct (decomposition (rfn r) ops ms_init ms_init (sim_init (rfn r))) as (_ & Heq & Hsil).
    destruct (in_R_in_view ops _ rv r (mrun_length ops ms_init) Hin Hr Hsil) as (rv' & H1 & H2).
    rewrite Heq in H1. exact (H (rfn r) rv' r H1 H2).
Qed.

End Proofs.
