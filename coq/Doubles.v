(* Doubles.v — the double comparisons of src/constraint.c (translated into Gen/Facts.v over an
   abstract float environment) instantiated with IEEE-754 binary64 arithmetic from Flocq
   (round to nearest even), plus the executable entry points used by the correspondence run.
   No proofs here (Lemmas_Doubles.v). *)
From Coq Require Import ZArith Bool List.
From Flocq Require Import Core BinarySingleNaN Binary Bits.
From CgreenVerif Require Import Defs.
From CgreenVerif.Gen Require Import Facts.
Local Open Scope Z_scope.

Definition F64 := BinarySingleNaN.binary_float 53 1024.
#[global] Instance prec53 : Prec_gt_0 53. Proof. reflexivity. Qed.
#[global] Instance emax1024 : Prec_lt_emax 53 1024. Proof. reflexivity. Qed.

Definition E64 : fenv F64 :=
  mkfenv F64 (BinarySingleNaN.Bminus mode_NE) (BinarySingleNaN.Bplus mode_NE) BinarySingleNaN.Babs BinarySingleNaN.Bltb.

Definition of_bits (b : Z) : F64 := B2BSN 53 1024 (b64_of_bits b).
Definition abs_tol : F64 := of_bits abs_tol_bits.

(* the three comparisons with the tolerance function `acc` left open (it is libm's) *)
Definition eq_m (acc : Z -> F64 -> F64) (figs : Z) (x y : F64) : bool := doubles_are_equal_src F64 E64 acc abs_tol figs x y.
Definition lesser_m (acc : Z -> F64 -> F64) (figs : Z) (x y : F64) : bool := double_is_lesser_src F64 E64 acc abs_tol figs x y.
Definition greater_m (acc : Z -> F64 -> F64) (figs : Z) (x y : F64) : bool := double_is_greater_src F64 E64 acc abs_tol figs x y.

(* the constraints as the user sees them: actual a, expected e *)
Definition is_equal_to_double_m acc figs (e a : F64) : bool := order_want_double F64 (eq_m acc figs) e a.
Definition is_not_equal_to_double_m acc figs (e a : F64) : bool :=
  if do_not_want_double_negates then negb (is_equal_to_double_m acc figs e a) else is_equal_to_double_m acc figs e a.
Definition is_less_than_double_m acc figs (e a : F64) : bool := order_want_lesser_double F64 (lesser_m acc figs) e a.
Definition is_greater_than_double_m acc figs (e a : F64) : bool := order_want_greater_double F64 (greater_m acc figs) e a.

(* accuracy() over a libm given as a table: the correspondence run supplies, per probe, the value
   the real libm returned; the theorems quantify over every libm *)
Definition accuracy_m (L : libm F64) (figs : Z) (largest : F64) : F64 := accuracy_src F64 E64 L figs largest.

(* entry point for the correspondence run: everything on bit patterns; acc_bits = what the real
   accuracy() returned for (figs, the `largest` this comparison computes) *)
Definition eq_bits (acc_bits figs x y : Z) : bool := eq_m (fun _ _ => of_bits acc_bits) figs (of_bits x) (of_bits y).
Definition lesser_bits (acc_bits figs e a : Z) : bool := is_less_than_double_m (fun _ _ => of_bits acc_bits) figs (of_bits e) (of_bits a).
Definition greater_bits (acc_bits figs e a : Z) : bool := is_greater_than_double_m (fun _ _ => of_bits acc_bits) figs (of_bits e) (of_bits a).
(* the argument accuracy() receives in each comparison (so the probe can ask the real one) *)
Definition BSN2B (x : F64) : binary64 :=
  match x with
  | BinarySingleNaN.B754_zero s => Binary.B754_zero 53 1024 s
  | BinarySingleNaN.B754_infinity s => Binary.B754_infinity 53 1024 s
  | BinarySingleNaN.B754_nan => b64_of_bits 9221120237041090560
  | BinarySingleNaN.B754_finite s m e H => Binary.B754_finite 53 1024 s m e H
  end.
Definition to_bits (x : F64) : Z := bits_of_b64 (BSN2B x).
Definition fmax_c (a b : F64) : F64 := if BinarySingleNaN.Bltb b a then a else b.      (* C's max(a, b) *)
Definition eq_largest_bits (x y : Z) : Z := to_bits (fmax_c (BinarySingleNaN.Babs (of_bits x)) (BinarySingleNaN.Babs (of_bits y))).
Definition ord_largest_bits (e a : Z) : Z := to_bits (fmax_c (of_bits e) (of_bits a)).
Definition accuracy_exponent (k : ext) (figs : Z) : ext :=
  match accuracy_src ext (mkfenv ext (fun a _ => a) (fun a _ => a) (fun a => a) (fun _ _ => false)) (mklibm ext (fun _ => k) (fun e => e)) figs ENan with e => e end.
