(* Lemmas_Xml.v — what the xml reporter writes is well-formed, for every text. *)
From Coq Require Import List NArith Bool Arith Lia.
From CgreenVerif Require Import Xml.
Import ListNotations.
Local Open Scope N_scope.

(* ---------------------------------------------------------------- attribute values *)
(* XML 1.0: AttValue ::= QUOTE ([^<& QUOTE] | Reference)* QUOTE with the five predefined entities;
   Char ::= #x9 | #xA | #xD | [#x20-...] (every byte >= 0x20 is a character of ISO-8859-1) *)
Definition xml_char (c : N) : bool := (32 <=? c) || (c =? 9) || (c =? 10) || (c =? 13).
Definition plain (c : N) : Prop := xml_char c = true /\ c <> 60 /\ c <> 38 /\ c <> 34.
Definition entities : list (list N) :=
  [[38; 113; 117; 111; 116; 59]; [38; 97; 109; 112; 59]; [38; 108; 116; 59]; [38; 103; 116; 59]; [38; 97; 112; 111; 115; 59]].

Inductive att_legal : list N -> Prop :=
| al_nil : att_legal []
| al_char c r : plain c -> att_legal r -> att_legal (c :: r)
| al_ent e r : In e entities -> att_legal r -> att_legal (e ++ r).

Lemma att_legal_app a b : att_legal a -> att_legal b -> att_legal (a ++ b).
Proof.
  induction 1; intros Hb; cbn [app]; [exact Hb| |].
  - constructor; auto.
  - rewrite <- app_assoc. constructor; auto.
Qed.

Lemma hexdigit_plain n : n < 16 -> plain (hexdigit n).
Proof.
  intros H. unfold hexdigit. destruct (N.ltb_spec n 10); unfold plain, xml_char.
  - assert (E : 32 <=? 48 + n = true) by (apply N.leb_le; lia). rewrite E. cbn [orb]. repeat split; lia.
  - assert (E : 32 <=? 87 + n = true) by (apply N.leb_le; lia). rewrite E. cbn [orb]. repeat split; lia.
Qed.

Lemma ent_legal e : In e entities -> att_legal e.
Proof. intros H. rewrite <- (app_nil_r e). apply al_ent; [exact H|constructor]. Qed.

Lemma esc_char_legal c : att_legal (esc_char c).
Proof.
  unfold esc_char.
  destruct (N.eqb_spec c 34); [apply ent_legal; cbn; auto|].
  destruct (N.eqb_spec c 38); [apply ent_legal; cbn; auto|].
  destruct (N.eqb_spec c 60); [apply ent_legal; cbn; auto|].
  destruct (N.eqb_spec c 62); [apply ent_legal; cbn; auto 6|].
  destruct (N.eqb_spec c 39); [apply ent_legal; cbn; auto 6|].
  destruct (is_ctrl c) eqn:Ec.
  - unfold is_ctrl in Ec. apply andb_prop in Ec. destruct Ec as [Hlt _]. apply N.ltb_lt in Hlt.
    constructor; [unfold plain, xml_char; cbn; repeat split; discriminate|].
    constructor; [unfold plain, xml_char; cbn; repeat split; discriminate|].
    constructor; [apply hexdigit_plain; apply N.div_lt_upper_bound; lia|].
    constructor; [apply hexdigit_plain; apply N.mod_lt; lia|constructor].
  - constructor; [|constructor]. unfold plain. repeat split; try assumption.
    unfold is_ctrl in Ec. unfold xml_char.
    destruct (N.leb_spec 32 c) as [H|H]; [reflexivity|].
    assert (Hl : c <? 32 = true) by (apply N.ltb_lt; exact H). rewrite Hl in Ec. cbn [andb] in Ec.
    apply negb_false_iff in Ec. cbn [orb]. exact Ec.
Qed.

(* T1: whatever the text - metacharacters, '%', control bytes, any length - what goes between
   the quotes is legal attribute content *)
Theorem escape_legal s : att_legal (escape s).
Proof. induction s as [|c s IH]; cbn [escape flat_map]; [constructor|]. apply att_legal_app; [apply esc_char_legal|exact IH]. Qed.

Corollary message_att_legal text : att_legal (message_att text).
Proof. apply escape_legal. Qed.

(* ---------------------------------------------------------------- decoding *)
Lemma unescape_esc_char c r : is_ctrl c = false -> unescape (esc_char c ++ r) = c :: unescape r.
Proof.
  intros Hc. unfold esc_char.
  destruct (N.eqb_spec c 34) as [->|N1]; [reflexivity|].
  destruct (N.eqb_spec c 38) as [->|N2]; [reflexivity|].
  destruct (N.eqb_spec c 60) as [->|N3]; [reflexivity|].
  destruct (N.eqb_spec c 62) as [->|N4]; [reflexivity|].
  destruct (N.eqb_spec c 39) as [->|N5]; [reflexivity|].
  rewrite Hc. cbn [app].
  (* c is not '&': the first branch that could apply needs c = 38 *)
  destruct c as [|p]; [reflexivity|].
  destruct (N.eq_dec (N.pos p) 38) as [E|E]; [contradiction|].
  cbn [unescape].
  repeat (destruct p as [p|p|]; try reflexivity; try (exfalso; apply E; reflexivity)).
Qed.

(* T2: a message without control characters decodes to exactly the text (the first 999 bytes of
   it when it is longer: an unaltered prefix) *)
Theorem unescape_escape s : forallb (fun c => negb (is_ctrl c)) s = true -> unescape (escape s) = s.
Proof.
  induction s as [|c s IH]; intros H; [reflexivity|].
  cbn [forallb] in H. apply andb_prop in H. destruct H as [Hc Hs]. apply negb_true_iff in Hc.
  cbn [escape flat_map]. fold (escape s). rewrite unescape_esc_char by exact Hc. rewrite IH by exact Hs. reflexivity.
Qed.

Corollary message_decodes_to_prefix text :
  forallb (fun c => negb (is_ctrl c)) text = true -> unescape (message_att text) = firstn 999 text.
Proof.
  intros H. unfold message_att. apply unescape_escape.
  rewrite forallb_forall in *. intros c Hin. apply H. revert Hin. generalize 999%nat. intros n.
  revert text H. induction n as [|n IH]; intros [|x t] H Hin; cbn [firstn] in Hin; try contradiction.
  destruct Hin as [->|Hin]; [left; reflexivity|right]. apply (IH t); [intros; apply H; right; assumption|exact Hin].
Qed.

(* ---------------------------------------------------------------- documents *)
(* a grammar of what `ser` can produce, stated on bytes: element, empty-element tag, white
   space between elements *)
Definition is_ws (c : N) : bool := (c =? 9) || (c =? 10) || (c =? 32).
Definition name_char (c : N) : bool := ((97 <=? c) && (c <=? 122)) || ((65 <=? c) && (c <=? 90)).
Definition xml_name (n : list N) : Prop := n <> [] /\ forallb name_char n = true.
Definition att_wf (a : list N * list N) : Prop := xml_name (fst a) /\ att_legal (snd a).

Inductive wf_content : list N -> Prop :=
| wc_nil : wf_content []
| wc_ws w r : forallb is_ws w = true -> wf_content r -> wf_content (w ++ r)
| wc_el e r : wf_element e -> wf_content r -> wf_content (e ++ r)
with wf_element : list N -> Prop :=
| we_block name atts content :
    xml_name name -> Forall att_wf atts -> wf_content content ->
    wf_element ([60] ++ name ++ flat_map att_text atts ++ [62] ++ content ++ [60; 47] ++ name ++ [62])
| we_leaf name atts sp :
    xml_name name -> Forall att_wf atts -> forallb is_ws sp = true ->
    wf_element ([60] ++ name ++ flat_map att_text atts ++ sp ++ [47; 62]).

Fixpoint node_ok (n : xnode) : Prop :=
  match n with
  | El name atts kids st =>
      xml_name name /\ Forall att_wf atts /\
      (fix all (l : list xnode) : Prop := match l with [] => True | k :: r => node_ok k /\ all r end) kids /\
      (match st with Block => True | _ => kids = [] end)
  end.

Lemma tabs_ws d : forallb is_ws (tabs d) = true.
Proof. induction d; [reflexivity|]. cbn [tabs repeat forallb]. exact IHd. Qed.

(* every node the reporter can emit is: leading tabs, one well-formed element, a newline *)
Lemma ser_wf : forall n d, node_ok n ->
  exists lead e, ser d n = lead ++ e ++ [10] /\ forallb is_ws lead = true /\ wf_element e.
Proof.
  fix IH 1. intros [name atts kids st] d (Hn & Ha & Hk & Hst). destruct st; cbn [ser].
  - (* Block *)
    assert (Hc : wf_content ([10] ++ flat_map (ser (S d)) kids ++ tabs d)).
    { apply (wc_ws [10]); [reflexivity|].
      induction kids as [|k r IHr]; cbn [flat_map].
      - rewrite <- (app_nil_r (tabs d)). apply (wc_ws (tabs d) []); [apply tabs_ws|constructor].
      - destruct Hk as (Hk1 & Hk2). destruct (IH k (S d) Hk1) as (lead & e & -> & Hl & He).
        rewrite <- !app_assoc. apply (wc_ws lead); [exact Hl|]. apply (wc_el e); [exact He|].
        apply (wc_ws [10]); [reflexivity|]. apply IHr. exact Hk2. }
    exists (tabs d), ([60] ++ name ++ flat_map att_text atts ++ [62] ++ ([10] ++ flat_map (ser (S d)) kids ++ tabs d) ++ [60; 47] ++ name ++ [62]).
    split; [|split; [apply tabs_ws|constructor; assumption]].
    repeat (progress (rewrite <- ?app_assoc; cbn [app])); reflexivity.
  - exists (tabs d), ([60] ++ name ++ flat_map att_text atts ++ [] ++ [47; 62]).
    split; [|split; [apply tabs_ws|constructor; auto]].
    repeat (progress (rewrite <- ?app_assoc; cbn [app])); reflexivity.
  - exists (tabs (S d)), ([60] ++ name ++ flat_map att_text atts ++ [32] ++ [47; 62]).
    split; [|split; [apply tabs_ws|constructor; auto]].
    repeat (progress (rewrite <- ?app_assoc; cbn [app])); reflexivity.
Qed.

(* the nodes the reporter builds are ok for every name, text and file *)
Lemma digits_legal l : forallb (fun c => (48 <=? c) && (c <=? 57) || (c =? 46)) l = true -> att_legal l.
Proof.
  induction l as [|c l IH]; intros H; [constructor|]. cbn [forallb] in H. apply andb_prop in H. destruct H as [Hc Hl].
  constructor; [|apply IH; exact Hl]. unfold plain, xml_char.
  apply orb_prop in Hc. destruct Hc as [Hc|Hc].
  - apply andb_prop in Hc. destruct Hc as [H1 H2]. apply N.leb_le in H1, H2.
    assert (E : 32 <=? c = true) by (apply N.leb_le; lia). rewrite E. repeat split; cbn; lia.
  - apply N.eqb_eq in Hc. subst c. repeat split; cbn; discriminate.
Qed.

Lemma join_escape_legal sep l : plain sep -> att_legal (join sep (map escape l)).
Proof.
  intros Hs. induction l as [|x r IH]; [constructor|]. cbn [map join].
  destruct (map escape r) as [|y r'] eqn:E; [apply escape_legal|].
  apply att_legal_app; [apply escape_legal|]. constructor; [exact Hs|exact IH].
Qed.

Definition numeric (l : list N) : Prop := forallb (fun c => (48 <=? c) && (c <=? 57) || (c =? 46)) l = true.
Definition item_ok (it : titem) : Prop :=
  match it with
  | IFail _ _ line => numeric line
  | ISkip => True
  | IError text _ line => att_legal text /\ numeric line       (* cgreen's own fixed texts *)
  end.

Lemma name_ok l : forallb name_char l = true -> l <> [] -> xml_name l.
Proof. intros H Hn. split; assumption. Qed.

Ltac xname := split; [discriminate|reflexivity].

Lemma location_ok file line : numeric line -> node_ok (location file line).
Proof.
  intros H. cbn [location node_ok]. split; [xname|]. split; [|split; [exact I|reflexivity]].
  constructor; [split; [xname|apply escape_legal]|]. constructor; [split; [xname|apply digits_legal; exact H]|constructor].
Qed.

Lemma v_fatal_legal : att_legal v_fatal.
Proof. unfold v_fatal. repeat (constructor; [unfold plain, xml_char; cbn; repeat split; discriminate|]). constructor. Qed.

Lemma item_node_ok it : item_ok it -> node_ok (item_node it).
Proof.
  destruct it as [text file line| |text file line]; intros H; cbn [item_node].
  - cbn [node_ok]. split; [xname|]. split; [|split; [split; [apply location_ok; exact H|exact I]|exact I]].
    constructor; [split; [xname|apply message_att_legal]|constructor].
  - cbn [node_ok]. split; [xname|]. split; [constructor|split; [exact I|reflexivity]].
  - destruct H as [Ht Hl]. cbn [node_ok]. split; [xname|]. split; [|split; [split; [apply location_ok; exact Hl|exact I]|exact I]].
    constructor; [split; [xname|apply v_fatal_legal]|]. constructor; [split; [xname|exact Ht]|constructor].
Qed.

Definition case_ok (c : tcase) : Prop := numeric (tc_time c) /\ Forall item_ok (tc_items c).

Lemma kids_ok (f : tcase -> xnode) : True. Proof. exact I. Qed.

Lemma case_node_ok c : case_ok c -> node_ok (case_node c).
Proof.
  intros (Ht & Hi). cbn [case_node node_ok]. split; [xname|]. split; [|split; [|exact I]].
  - constructor; [split; [xname|]|].
    + apply join_escape_legal. unfold plain, xml_char. cbn. repeat split; discriminate.
    + constructor; [split; [xname|apply escape_legal]|]. constructor; [split; [xname|apply digits_legal; exact Ht]|constructor].
  - induction (tc_items c) as [|it r IH]; cbn [map]; [exact I|]. inversion Hi; subst. split; [apply item_node_ok; assumption|apply IH; assumption].
Qed.

(* T3: the file written for a suite is the XML declaration followed by one well-formed element,
   for every suite path, test name, message, file name and any number of tests and failures *)
Theorem suite_doc_wf d path cases : Forall case_ok cases ->
  exists lead e, suite_doc d path cases = header ++ lead ++ e ++ [10] /\ forallb is_ws lead = true /\ wf_element e.
Proof.
  intros H. unfold suite_doc.
  destruct (ser_wf (El n_testsuite [(a_name, escape (join 45 path))] (map case_node cases) Block) d) as (lead & e & E & Hl & He).
  - cbn [node_ok]. split; [xname|]. split; [|split; [|exact I]].
    + constructor; [split; [xname|apply escape_legal]|constructor].
    + induction cases as [|c r IH]; cbn [map]; [exact I|]. inversion H; subst. split; [apply case_node_ok; assumption|apply IH; assumption].
  - exists lead, e. rewrite E. auto.
Qed.
