(* Lemmas_Buffers.v — soundness of the static bound analysis of Buffers.v: a program accepted
   by `check` never writes past a buffer's capacity and never reads an indeterminate buffer, for
   any lengths of the caller-supplied strings, any branch taken and any number of loop
   iterations; a table accepted by `all_ok` keeps every static buffer within its capacity over
   any sequence of calls. *)
From Coq Require Import List NArith Bool Lia Arith.
From CgreenVerif Require Import Buffers.
Import ListNotations.
Local Open Scope N_scope.

(* ------------------------------------------------------------------ lists *)
Lemma length_set_nth (st : list (option N)) b v : length (set_nth st b v) = length st.
Proof. revert b; induction st as [|x st IH]; intros [|b]; cbn [set_nth length]; auto. Qed.

Lemma nth_set_nth_eq (st : list (option N)) b v : (b < length st)%nat -> nth b (set_nth st b v) None = v.
Proof.
  revert b; induction st as [|x st IH]; intros [|b] H; cbn [set_nth nth length] in *; try lia; auto.
  apply IH. lia.
Qed.

Lemma nth_set_nth_neq (st : list (option N)) b b' v : b <> b' -> nth b' (set_nth st b v) None = nth b' st None.
Proof.
  revert b b'; induction st as [|x st IH]; intros [|b] [|b'] H; cbn [set_nth nth]; auto; try congruence.
Qed.

(* ------------------------------------------------------------------ approximation *)
Definition approx (st : state) (ab : astate) : Prop :=
  length st = length ab /\
  forall b u, nth b ab None = Some u -> exists l, nth b st None = Some l /\ l <= u.

Lemma approx_set st ab b l u :
  approx st ab -> (b < length ab)%nat -> l <= u -> approx (set_nth st b (Some l)) (set_nth ab b (Some u)).
Proof.
  intros [Hlen H] Hb Hle. split; [rewrite !length_set_nth; exact Hlen|].
  intros b' u' Hu'. destruct (Nat.eq_dec b b') as [<-|Hne].
  - rewrite nth_set_nth_eq in Hu' by exact Hb. injection Hu' as <-.
    exists l. rewrite nth_set_nth_eq by (rewrite Hlen; exact Hb). auto.
  - rewrite nth_set_nth_neq in Hu' by exact Hne. rewrite nth_set_nth_neq by exact Hne. auto.
Qed.

Lemma text_sound st ab ps lens :
  approx st ab -> reads_ok ab ps = true ->
  exists L, text_len st ps lens = inl (Some L) /\ forall U, text_ub ab ps = Some U -> L <= U.
Proof.
  intros [Hlen H]. revert lens. induction ps as [|p ps IH]; intros lens Hr.
  - exists 0. split; [reflexivity|]. cbn [text_ub]. intros U HU. injection HU as <-. lia.
  - destruct p as [n|n|b|]; cbn [reads_ok] in Hr.
    + destruct (IH lens Hr) as (L & HL & HU). exists (n + L). cbn [text_len text_ub]. rewrite HL. split; [reflexivity|].
      intros U. destruct (text_ub ab ps) as [c|]; [|discriminate]. intros HX; injection HX as <-. specialize (HU c eq_refl). lia.
    + destruct (IH (tl lens) Hr) as (L & HL & HU). exists (N.min n (hd 0 lens) + L). cbn [text_len text_ub]. rewrite HL. split; [reflexivity|].
      intros U. destruct (text_ub ab ps) as [c|]; [|discriminate]. intros HX; injection HX as <-. specialize (HU c eq_refl). lia.
    + destruct (nth b ab None) as [u|] eqn:Hb; [|discriminate].
      destruct (H b u Hb) as (l & Hl & Hle).
      destruct (IH lens Hr) as (L & HL & HU). exists (l + L). cbn [text_len text_ub]. rewrite Hl, HL, Hb. split; [reflexivity|].
      intros U. destruct (text_ub ab ps) as [c|]; [|discriminate]. intros HX; injection HX as <-. specialize (HU c eq_refl). lia.
    + destruct (IH (tl lens) Hr) as (L & HL & HU). exists (hd 0 lens + L). cbn [text_len text_ub]. rewrite HL. split; [reflexivity|].
      intros U HX. discriminate.
Qed.

Lemma check_op_sound caps st ab ab' w lens :
  approx st ab -> check_op caps ab w = Some ab' ->
  exists st', step caps st w lens = Ok st' /\ approx st' ab'.
Proof.
  intros Ha Hc. unfold check_op in Hc.
  destruct (Nat.ltb (w_target w) (length ab)) eqn:Hb; cbn [negb] in Hc; [|discriminate].
  apply Nat.ltb_lt in Hb.
  destruct (reads_ok ab (w_pieces w)) eqn:Hr; cbn [negb] in Hc; [|discriminate].
  destruct (text_sound st ab (w_pieces w) lens Ha Hr) as (L & HL & HU).
  unfold step. rewrite HL.
  set (b := w_target w) in *. set (cap := cap_of caps b) in *.
  assert (Hoff : forall off, (if w_append w then nth b ab None else Some 0) = Some off ->
                 exists o, (if w_append w then nth b st None else Some 0) = Some o /\ o <= off /\
                           (w_append w = false -> o = 0)).
  { intros off Ho. destruct (w_append w).
    - destruct Ha as [_ Ha]. destruct (Ha b off Ho) as (l & Hl & Hle). exists l. repeat split; auto. discriminate.
    - injection Ho as <-. exists 0. repeat split; auto. lia. }
  destruct (if w_append w then nth b ab None else Some 0) as [off|] eqn:Ho; [|discriminate].
  destruct (Hoff off eq_refl) as (o & Heq & Hole & Hnapp). rewrite Heq. clear Hoff.
  destruct (w_limit w) as [|n|k].
  - (* Unlimited *)
    destruct (text_ub ab (w_pieces w)) as [U|] eqn:HUb; [|discriminate].
    specialize (HU U eq_refl).
    destruct (N.leb_spec (off + U + 1) cap) as [Hfit|]; [|discriminate]. injection Hc as <-.
    destruct (N.eqb_spec (L + 1) 0) as [|_]; [lia|].
    destruct (N.ltb_spec cap (o + (L + 1))) as [|_]; [lia|].
    eexists; split; [reflexivity|]. replace (o + (L + 1) - 1) with (o + L) by lia.
    apply approx_set; auto. lia.
  - (* Limit n *)
    destruct (N.eqb_spec n 0) as [Hn0|Hn].
    + injection Hc as <-. replace (N.min (L + 1) n) with 0 by lia. cbn [N.eqb]. eexists; split; [reflexivity|exact Ha].
    + set (s := match text_ub ab (w_pieces w) with Some L0 => N.min (L0 + 1) n | None => n end) in *.
      assert (Hs : N.min (L + 1) n <= s).
      { unfold s. destruct (text_ub ab (w_pieces w)) as [U|]; [specialize (HU U eq_refl)|]; lia. }
      destruct (N.leb_spec (off + s) cap) as [Hfit|]; [|discriminate]. injection Hc as <-.
      destruct (N.eqb_spec (N.min (L + 1) n) 0) as [|_]; [lia|].
      destruct (N.ltb_spec cap (o + N.min (L + 1) n)) as [|_]; [lia|].
      eexists; split; [reflexivity|]. apply approx_set; auto. lia.
  - (* Remaining k *)
    destruct (w_append w) eqn:Happ; cbn [andb] in Hc; [|discriminate].
    destruct (N.leb_spec (off + k) cap) as [Hk|]; [|discriminate]. injection Hc as <-.
    destruct (N.leb_spec (o + k) cap) as [_|]; [|lia].
    destruct (N.eqb_spec (N.min (L + 1) (cap - o - k)) 0) as [Hz|Hnz].
    + eexists; split; [reflexivity|].
      (* nothing stored: the old string stays *)
      destruct Ha as [Hlen Hall]. split; [rewrite length_set_nth; exact Hlen|].
      intros b' u' Hu'. destruct (Nat.eq_dec b b') as [<-|Hne].
      * rewrite nth_set_nth_eq in Hu' by exact Hb. injection Hu' as <-. exists o. split; [exact Heq|lia].
      * rewrite nth_set_nth_neq in Hu' by exact Hne. auto.
    + destruct (N.ltb_spec cap (o + N.min (L + 1) (cap - o - k))) as [|_]; [lia|].
      eexists; split; [reflexivity|]. apply approx_set; auto. lia.
Qed.

(* ------------------------------------------------------------------ joins and order *)
Lemma length_join a b : length a = length b -> length (join a b) = length a.
Proof. revert b; induction a as [|x a IH]; intros [|y b] H; cbn [join length] in *; try lia. f_equal. apply IH. lia. Qed.

Lemma nth_join a b i : length a = length b -> nth i (join a b) None = join1 (nth i a None) (nth i b None).
Proof.
  revert b i; induction a as [|x a IH]; intros [|y b] i H; cbn [join length] in *; try lia.
  - destruct i; reflexivity.
  - destruct i as [|i]; cbn [nth]; [reflexivity|]. apply IH. lia.
Qed.

Lemma approx_join_l st a b : length a = length b -> approx st a -> approx st (join a b).
Proof.
  intros Hl [Hlen H]. split; [rewrite length_join by exact Hl; exact Hlen|].
  intros i u Hu. rewrite nth_join in Hu by exact Hl.
  destruct (nth i a None) as [x|] eqn:Hx; [|discriminate]. destruct (nth i b None) as [y|]; [|discriminate].
  injection Hu as <-. destruct (H i x Hx) as (l & Hl' & Hle). exists l. split; [exact Hl'|lia].
Qed.

Lemma approx_join_r st a b : length a = length b -> approx st b -> approx st (join a b).
Proof.
  intros Hl [Hlen H]. split; [rewrite length_join by exact Hl; lia|].
  intros i u Hu. rewrite nth_join in Hu by exact Hl.
  destruct (nth i a None) as [x|]; [|discriminate]. destruct (nth i b None) as [y|] eqn:Hy; [|discriminate].
  injection Hu as <-. destruct (H i y Hy) as (l & Hl' & Hle). exists l. split; [exact Hl'|lia].
Qed.

Lemma le_ab_length a b : le_ab a b = true -> length a = length b.
Proof.
  revert b; induction a as [|x a IH]; intros [|y b] H; cbn [le_ab length] in *; try discriminate; auto.
  apply andb_prop in H as [_ H]. f_equal. apply IH. exact H.
Qed.

Lemma le_ab_nth a b i : le_ab a b = true -> le1 (nth i a None) (nth i b None) = true.
Proof.
  revert b i; induction a as [|x a IH]; intros [|y b] i H; cbn [le_ab] in *; try discriminate.
  - destruct i; reflexivity.
  - apply andb_prop in H as [H1 H2]. destruct i as [|i]; cbn [nth]; [exact H1|]. apply IH. exact H2.
Qed.

Lemma approx_le st a b : le_ab a b = true -> approx st a -> approx st b.
Proof.
  intros Hle [Hlen H]. split; [rewrite <- (le_ab_length _ _ Hle); exact Hlen|].
  intros i u Hu. pose proof (le_ab_nth a b i Hle) as Hi. rewrite Hu in Hi. cbn [le1] in Hi.
  destruct (nth i a None) as [x|] eqn:Hx; [|discriminate].
  apply N.leb_le in Hi. destruct (H i x Hx) as (l & Hl & Hl2). exists l. split; [exact Hl|lia].
Qed.

Lemma check_op_length caps ab ab' w : check_op caps ab w = Some ab' -> length ab' = length ab.
Proof.
  unfold check_op. destruct (negb _); [discriminate|]. destruct (negb _); [discriminate|].
  destruct (if w_append w then _ else _) as [off|]; [|discriminate].
  destruct (w_limit w) as [|n|k].
  - destruct (text_ub _ _); [|discriminate]. destruct (_ <=? _); [|discriminate]. intros H; injection H as <-. apply length_set_nth.
  - destruct (n =? 0); [intros H; injection H as <-; reflexivity|].
    destruct (_ <=? _); [|discriminate]. intros H; injection H as <-. apply length_set_nth.
  - destruct (_ && _); [|discriminate]. intros H; injection H as <-. apply length_set_nth.
Qed.

Lemma check_length caps p : forall ab ab', check caps p ab = Some ab' -> length ab' = length ab.
Proof.
  induction p as [|w|p IHp q IHq|p IHp q IHq|p IHp]; intros ab ab' H; cbn [check] in H.
  - injection H as <-. reflexivity.
  - eapply check_op_length; eauto.
  - destruct (check caps p ab) as [ab1|] eqn:H1; [|discriminate]. rewrite (IHq _ _ H). eapply IHp; eauto.
  - destruct (check caps p ab) as [x|] eqn:H1; [|discriminate]. destruct (check caps q ab) as [y|] eqn:H2; [|discriminate].
    injection H as <-. rewrite length_join; [eapply IHp; eauto|]. rewrite (IHp _ _ H1), (IHq _ _ H2). reflexivity.
  - destruct (check caps p ab) as [post|] eqn:H1; [|discriminate].
    destruct (check caps p (join ab post)) as [post1|]; [|discriminate]. destruct (le_ab _ _); [|discriminate].
    injection H as <-. apply length_join. symmetry. eapply IHp; eauto.
Qed.

(* ------------------------------------------------------------------ soundness *)
Theorem check_sound caps p : forall ab ab', check caps p ab = Some ab' ->
  forall st r, approx st ab -> Exec caps p st r -> exists st', r = Ok st' /\ approx st' ab'.
Proof.
  induction p as [|w|p IHp q IHq|p IHp q IHq|p IHp]; intros ab ab' Hc st r Ha He; cbn [check] in Hc.
  - injection Hc as <-. inversion He; subst. eauto.
  - inversion He; subst. destruct (check_op_sound caps st ab ab' w lens Ha Hc) as (st' & -> & H'). eauto.
  - destruct (check caps p ab) as [ab1|] eqn:H1; [|discriminate].
    inversion He; subst.
    + match goal with H : Exec caps p st (Ok _) |- _ => destruct (IHp _ _ H1 _ _ Ha H) as (st2 & Heq & Ha2) end.
      injection Heq as <-. eapply IHq; eauto.
    + match goal with H : Exec caps p st _ |- _ => destruct (IHp _ _ H1 _ _ Ha H) as (st2 & Heq & _) end. discriminate.
    + match goal with H : Exec caps p st _ |- _ => destruct (IHp _ _ H1 _ _ Ha H) as (st2 & Heq & _) end. discriminate.
  - destruct (check caps p ab) as [x|] eqn:H1; [|discriminate]. destruct (check caps q ab) as [y|] eqn:H2; [|discriminate].
    injection Hc as <-.
    assert (Hl : length x = length y) by (rewrite (check_length _ _ _ _ H1), (check_length _ _ _ _ H2); reflexivity).
    inversion He; subst.
    + match goal with H : Exec caps p st _ |- _ => destruct (IHp _ _ H1 _ _ Ha H) as (st' & -> & Ha') end.
      eexists; split; [reflexivity|]. apply approx_join_l; auto.
    + match goal with H : Exec caps q st _ |- _ => destruct (IHq _ _ H2 _ _ Ha H) as (st' & -> & Ha') end.
      eexists; split; [reflexivity|]. apply approx_join_r; auto.
  - destruct (check caps p ab) as [post|] eqn:H1; [|discriminate].
    destruct (check caps p (join ab post)) as [post1|] eqn:H2; [|discriminate].
    destruct (le_ab post1 (join ab post)) eqn:Hle; [|discriminate]. injection Hc as <-.
    assert (Hl : length ab = length post) by (symmetry; eapply check_length; eauto).
    assert (Hinv : approx st (join ab post)) by (apply approx_join_l; auto).
    clear Ha H1. remember (Loop p) as lp eqn:Hlp. revert Hinv.
    induction He; try discriminate; injection Hlp as ->; intros Hinv.
    + eauto.
    + destruct (IHp _ _ H2 _ _ Hinv He1) as (st2 & Heq & Ha2). injection Heq as <-.
      apply IHHe2; [reflexivity|]. eapply approx_le; eauto.
    + destruct (IHp _ _ H2 _ _ Hinv He) as (st2 & Heq & _). discriminate.
    + destruct (IHp _ _ H2 _ _ Hinv He) as (st2 & Heq & _). discriminate.
Qed.

(* ------------------------------------------------------------------ functions and call sequences *)
Lemma nth_combine_seq {A} (l : list A) (d : A) b : (b < length l)%nat -> nth b (combine (seq 0 (length l)) l) (O, d) = (b, nth b l d).
Proof.
  intros H. rewrite combine_nth by (rewrite seq_length; reflexivity). rewrite seq_nth by exact H. reflexivity.
Qed.

Lemma nth_map_seq {A B} (f : nat * A -> B) (l : list A) (d : A) (db : B) b :
  (b < length l)%nat -> nth b (map f (combine (seq 0 (length l)) l)) db = f (b, nth b l d).
Proof.
  intros H. rewrite (nth_indep _ db (f (O, d))) by (rewrite map_length, combine_length, seq_length; lia).
  rewrite map_nth. rewrite nth_combine_seq by exact H. reflexivity.
Qed.

Lemma enter_approx caps locals st : statics_fit caps locals st -> approx (enter locals st) (entry_ab caps locals).
Proof.
  intros [Hlen H]. split.
  - unfold enter, entry_ab. rewrite !map_length, !combine_length, !seq_length. lia.
  - intros b u Hu. unfold entry_ab in Hu.
    destruct (Nat.lt_ge_cases b (length caps)) as [Hb|Hb].
    + rewrite (nth_map_seq _ caps 0 None b Hb) in Hu. cbn [fst snd] in Hu.
      destruct (is_local locals b) eqn:Hloc; [discriminate|]. injection Hu as <-.
      destruct (H b Hb Hloc) as (l & Hl & Hlt). exists l. split.
      * unfold enter. rewrite (nth_map_seq _ st None None b) by lia. cbn [fst snd]. rewrite Hloc. exact Hl.
      * unfold cap_of in Hlt. lia.
    + rewrite nth_overflow in Hu by (rewrite map_length, combine_length, seq_length; lia). discriminate.
Qed.

Theorem fprog_safe caps locals f : fprog_ok caps locals f = true ->
  forall st r, statics_fit caps locals st -> Exec caps (fp_body f) (enter locals st) r ->
  exists st', r = Ok st' /\ statics_fit caps locals st'.
Proof.
  unfold fprog_ok. intros Hok st r Hst He.
  destruct (check caps (fp_body f) (entry_ab caps locals)) as [post|] eqn:Hc; [|discriminate].
  destruct (check_sound caps _ _ _ Hc _ _ (enter_approx caps locals st Hst) He) as (st' & -> & [Hlen Ha]).
  eexists; split; [reflexivity|].
  pose proof (check_length _ _ _ _ Hc) as Hpl.
  assert (Hel : length (entry_ab caps locals) = length caps)
    by (unfold entry_ab; rewrite map_length, combine_length, seq_length; lia).
  split; [lia|]. intros b Hb Hloc.
  unfold post_ok in Hok. rewrite forallb_forall in Hok.
  specialize (Hok (b, nth b caps 0)).
  assert (Hin : In (b, nth b caps 0) (combine (seq 0 (length caps)) caps)).
  { rewrite <- (nth_combine_seq caps 0 b Hb). apply nth_In. rewrite combine_length, seq_length. lia. }
  specialize (Hok Hin). cbn [fst snd] in Hok. rewrite Hloc in Hok. cbn [orb] in Hok.
  destruct (nth b post None) as [u|] eqn:Hu; [|discriminate]. apply N.ltb_lt in Hok.
  destruct (Ha b u Hu) as (l & Hl & Hle). exists l. split; [exact Hl|]. unfold cap_of. lia.
Qed.

Theorem calls_safe caps locals fs : forallb (fprog_ok caps locals) fs = true ->
  forall st r, statics_fit caps locals st -> Calls caps locals fs st r ->
  exists st', r = Ok st' /\ statics_fit caps locals st'.
Proof.
  intros Hall st r Hst Hc. induction Hc as [st|f fs st st1 r He Hc IH|f fs st b n He|f fs st b He].
  - eauto.
  - cbn [forallb] in Hall. apply andb_prop in Hall as [Hf Hfs].
    destruct (fprog_safe caps locals f Hf st _ Hst He) as (st2 & Heq & Hst2). injection Heq as <-. auto.
  - cbn [forallb] in Hall. apply andb_prop in Hall as [Hf _].
    destruct (fprog_safe caps locals f Hf st _ Hst He) as (st2 & Heq & _). discriminate.
  - cbn [forallb] in Hall. apply andb_prop in Hall as [Hf _].
    destruct (fprog_safe caps locals f Hf st _ Hst He) as (st2 & Heq & _). discriminate.
Qed.

Lemma start_fits caps locals : forallb (fun c => 0 <? c) caps = true -> statics_fit caps locals (start_state caps).
Proof.
  intros Hpos. split; [unfold start_state; apply map_length|].
  intros b Hb _. exists 0. split.
  - unfold start_state. clear Hpos. revert b Hb. induction caps as [|c caps IH]; intros [|b] Hb; cbn [map nth length] in *; try lia; auto.
    apply IH. lia.
  - rewrite forallb_forall in Hpos. unfold cap_of. apply N.ltb_lt. apply Hpos. apply nth_In. exact Hb.
Qed.

(* the statement the property file uses: a table accepted by all_ok is safe from program start on,
   for every sequence of calls of functions of the table *)
Theorem table_safe caps locals table : all_ok caps locals table = true ->
  forall fs, (forall f, In f fs -> In f table) ->
  forall r, Calls caps locals fs (start_state caps) r ->
  exists st', r = Ok st' /\ statics_fit caps locals st'.
Proof.
  unfold all_ok. intros Hok fs Hsub r Hc. apply andb_prop in Hok as [Hpos Hall].
  assert (Hfs : forallb (fprog_ok caps locals) fs = true).
  { rewrite forallb_forall in Hall. apply forallb_forall. intros f Hf. apply Hall. apply Hsub. exact Hf. }
  exact (calls_safe caps locals fs Hfs _ _ (start_fits caps locals Hpos) Hc).
Qed.
