(* C15 — Double comparison obeys equality laws and the documented tolerance.
   The bodies of doubles_are_equal / double_is_lesser / double_is_greater / accuracy, the argument
   order of the compare_want_*_double callbacks, the negation in compare_do_not_want_double and
   the absolute tolerance are translated from src/constraint.c on every run (Gen/Facts.v) and
   interpreted over Flocq's IEEE-754 binary64 with round-to-nearest-even. *)
From Coq Require Import ZArith Bool Reals.
From Flocq Require Import Core BinarySingleNaN.
From CgreenVerif Require Import Defs Doubles Lemmas_Doubles.
From CgreenVerif.Gen Require Import Facts.
Local Open Scope Z_scope.

(* symmetric in its operands: for all finite doubles, any figures setting, any libm *)
Theorem C15_symmetric : forall acc figs (x y : F64),
  is_finite x = true -> is_finite y = true -> eq_m acc figs x y = eq_m acc figs y x.
Proof. exact eq_m_symmetric. Qed.
Print Assumptions C15_symmetric.

(* every finite value is equal to itself *)
Theorem C15_reflexive_finite : forall acc figs (x : F64), is_finite x = true -> eq_m acc figs x x = true.
Proof. exact eq_m_reflexive. Qed.
Print Assumptions C15_reflexive_finite.

(* equal / not-equal are exact complements *)
Theorem C15_complement : forall acc figs (e a : F64),
  is_not_equal_to_double_m acc figs e a = negb (is_equal_to_double_m acc figs e a).
Proof. exact not_equal_is_complement. Qed.
Print Assumptions C15_complement.

(* accepted at m figures => accepted at every fewer figures, for accuracy() as coded, under the
   one named hypothesis on libm that pow(10, .) is monotone on integer exponents (validated
   against the installed libm for every reachable exponent by the correspondence run) *)
Theorem C15_fewer_figures : forall (L : libm F64) n m (x y : F64),
  pow_monotone L -> n <= m -> eq_m (accuracy_m L) m x y = true -> eq_m (accuracy_m L) n x y = true.
Proof. exact fewer_figures_with_libm. Qed.
Print Assumptions C15_fewer_figures.

(* is_less_than_double / is_greater_than_double accept every strictly ordered pair, for any
   tolerance that is +infinity or finite with a clear sign bit (what pow returns) *)
Theorem C15_lesser_accepts_strict : forall acc figs (e a : F64),
  (forall L, tol_nonneg (acc figs L)) -> is_finite e = true -> is_finite a = true -> (B2R a < B2R e)%R ->
  is_less_than_double_m acc figs e a = true.
Proof. exact lesser_accepts_strict. Qed.
Print Assumptions C15_lesser_accepts_strict.

Theorem C15_greater_accepts_strict : forall acc figs (e a : F64),
  (forall L, tol_nonneg (acc figs L)) -> is_finite e = true -> is_finite a = true -> (B2R e < B2R a)%R ->
  is_greater_than_double_m acc figs e a = true.
Proof. exact greater_accepts_strict. Qed.
Print Assumptions C15_greater_accepts_strict.

(* THE TOLERANCE, two-sided and exact, against the tolerance value T the comparison is handed
   (what accuracy() returned; `acc` is any function that returns T for this figures setting, which
   is how the correspondence run feeds the model the value the real libm produced).  Rounding to
   nearest is monotone and T is itself a double, so no rounding slack is lost:
     accepted  ->  |x - y| < max(absolute tolerance, T)          as real numbers
     |x - y| <= u < T for some double u (its predecessor, say)  ->  accepted                      *)
Theorem C15_accepted_within_tolerance : forall acc figs (x y T : F64),
  (forall L, acc figs L = T) -> is_finite x = true -> is_finite y = true -> is_finite T = true ->
  eq_m acc figs x y = true -> (Rabs (B2R x - B2R y) < Rmax (B2R abs_tol) (B2R T))%R.
Proof. exact eq_accepted_within. Qed.
Print Assumptions C15_accepted_within_tolerance.

Theorem C15_within_tolerance_accepted : forall acc figs (x y T u : F64),
  (forall L, acc figs L = T) -> is_finite x = true -> is_finite y = true -> is_finite T = true -> is_finite u = true ->
  (B2R u < B2R T)%R -> (Rabs (B2R x - B2R y) <= B2R u)%R -> eq_m acc figs x y = true.
Proof. exact eq_within_accepted. Qed.
Print Assumptions C15_within_tolerance_accepted.

(* the documented bound max(|x|,|y|) * 10^(1-n), for every libm whose tolerance value is within a
   factor (1 + eps) of it - the hypothesis is what the probes measure (known finding: eps is a few
   ulps just below a power of ten, 0 elsewhere) *)
Theorem C15_accepted_documented_bound : forall acc figs (x y T : F64) (eps : R),
  (forall L, acc figs L = T) -> is_finite x = true -> is_finite y = true -> is_finite T = true ->
  (B2R T <= Rmax (Rabs (B2R x)) (Rabs (B2R y)) * Rpower 10 (1 - IZR figs) * (1 + eps))%R ->
  eq_m acc figs x y = true ->
  (Rabs (B2R x - B2R y) < Rmax (B2R abs_tol) (Rmax (Rabs (B2R x)) (Rabs (B2R y)) * Rpower 10 (1 - IZR figs) * (1 + eps)))%R.
Proof. exact eq_accepted_documented_bound. Qed.
Print Assumptions C15_accepted_documented_bound.

(* ordering: nothing out of order by the tolerance value or more is accepted *)
Theorem C15_lesser_accepted_within_tolerance : forall acc figs (e a T : F64),
  (forall L, acc figs L = T) -> is_finite e = true -> is_finite a = true -> is_finite T = true ->
  is_less_than_double_m acc figs e a = true -> (B2R a < B2R e + B2R T)%R.
Proof. exact lesser_accepted_within. Qed.
Print Assumptions C15_lesser_accepted_within_tolerance.

Theorem C15_greater_accepted_within_tolerance : forall acc figs (e a T : F64),
  (forall L, acc figs L = T) -> is_finite e = true -> is_finite a = true -> is_finite T = true ->
  is_greater_than_double_m acc figs e a = true -> (B2R e - B2R T < B2R a)%R.
Proof. exact greater_accepted_within. Qed.
Print Assumptions C15_greater_accepted_within_tolerance.

(* What remains outside the proof is libm alone: how far T = pow(10, 1 + floor(log10 L) - n) as
   computed is from the real 10^(1 + floor(log10 L) - n).  The part of that expression that is
   cgreen's - the exponent and the use of fabs - is pinned by the lemma below; the value of T is
   measured against exact rational arithmetic on every probe of the correspondence run. *)
Theorem C15_exponent_as_documented_partial : forall k n,
  accuracy_exponent (EFin k) n = EFin (1 + k - n) /\ accuracy_exponent ENegInf n = ENegInf.
Proof. intros k n. split; reflexivity. Qed.
Print Assumptions C15_exponent_as_documented_partial.
