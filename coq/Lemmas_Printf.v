(* Lemmas_Printf.v — percent doubling round-trips through printf; a well-typed format neither
   reads a missing argument nor drops one: every argument appears literally in the output. *)
From Coq Require Import List ZArith NArith Bool Lia.
From CgreenVerif Require Import Defs CStr Printf.
Import ListNotations.
Local Open Scope N_scope.

(* ---- the reason the scheme can work ---- *)
Theorem double_percent_roundtrip : forall s, printf_m (double_percent s) [] = POk s.
Proof.
  unfold printf_m. induction s as [|c s IH]; [reflexivity|]. cbn [double_percent].
  destruct (c =? 37) eqn:E.
  - apply N.eqb_eq in E. subst c. cbn [pf]. cbn. rewrite IH. reflexivity.
  - cbn [pf]. rewrite E, IH. reflexivity.
Qed.

(* ---- containment ---- *)
Definition contains (o x : str) : Prop := exists p t, o = p ++ x ++ t.

Lemma contains_here x t : contains (x ++ t) x.
Proof. exists [], t. reflexivity. Qed.
Lemma contains_cons c o x : contains o x -> contains (c :: o) x.
Proof. intros (p & t & ->). exists (c :: p), t. reflexivity. Qed.
Lemma contains_app_r a o x : contains o x -> contains (a ++ o) x.
Proof. intros (p & t & ->). exists (a ++ p), t. rewrite app_assoc. reflexivity. Qed.
Lemma contains_app_l o b x : contains o x -> contains (o ++ b) x.
Proof. intros (p & t & ->). exists p, (t ++ b). rewrite <- !app_assoc. reflexivity. Qed.

Lemma pcons_ok c r o : pcons c r = POk o -> exists o', r = POk o' /\ o = c :: o'.
Proof. destruct r; cbn; intros H; inversion H; eauto. Qed.
Lemma papp_ok s r o : papp s r = POk o -> exists o', r = POk o' /\ o = s ++ o'.
Proof. destruct r; cbn; intros H; inversion H; eauto. Qed.

(* ---- the signature of a format: which arguments it consumes, in order, and how ---- *)
Inductive aspec := AStr | AWide | ANarrow.      (* %s | %ld %lx | %d %x %02x (32 bits only) *)

Fixpoint sig (st : pst) (fmt : str) : option (list aspec) :=
  let cons k r := match r with Some ks => Some (k :: ks) | None => None end in
  match fmt with
  | [] => match st with SNorm => Some [] | _ => None end
  | c :: f =>
      match st with
      | SNorm => if c =? 37 then sig SPct f else sig SNorm f
      | SPct =>
          if c =? 37 then sig SNorm f
          else if c =? 115 then cons AStr (sig SNorm f)
          else if c =? 100 then cons ANarrow (sig SNorm f)
          else if c =? 120 then cons ANarrow (sig SNorm f)
          else if c =? 108 then sig SPctL f
          else if c =? 48 then sig SPct0 f
          else None
      | SPctL => if c =? 100 then cons AWide (sig SNorm f) else if c =? 120 then cons AWide (sig SNorm f) else None
      | SPct0 => if c =? 50 then sig SPct02 f else None
      | SPct02 => if c =? 120 then cons ANarrow (sig SNorm f) else None
      end
  end.

Definition fits (a : parg) (k : aspec) : Prop :=
  match a, k with
  | PStr _, AStr => True
  | PInt _, AWide => True
  | PInt _, ANarrow => True
  | _, _ => False
  end.

(* how an argument is rendered *)
Definition literal_of (a : parg) (o : str) : Prop :=
  match a with
  | PStr s => contains o s
  | PInt z => contains o (dec z) \/ contains o (hex64 z)
  end.

(* the result is a text in which every argument consumed by %s, %ld or %lx appears literally *)
Definition Good (res : pres) (args : list parg) (ks : list aspec) : Prop :=
  exists o, res = POk o /\ Forall2 (fun a k => k <> ANarrow -> literal_of a o) args ks.

Lemma literal_of_cons c a o : literal_of a o -> literal_of a (c :: o).
Proof. destruct a; cbn [literal_of]; [intros [H|H]; [left|right]|]; try apply contains_cons; auto. Qed.
Lemma literal_of_app x a o : literal_of a o -> literal_of a (x ++ o).
Proof. destruct a; cbn [literal_of]; [intros [H|H]; [left|right]|]; try apply contains_app_r; auto. Qed.

Lemma Forall2_weaken {A B} (P Q : A -> B -> Prop) l1 l2 :
  (forall a b, P a b -> Q a b) -> Forall2 P l1 l2 -> Forall2 Q l1 l2.
Proof. intros H. induction 1; constructor; auto. Qed.

Lemma good_lit c res args ks : Good res args ks -> Good (pcons c res) args ks.
Proof.
  intros (o & -> & H). exists (c :: o). split; [reflexivity|].
  eapply Forall2_weaken; [|exact H]. intros a k Hk Hn. apply literal_of_cons. auto.
Qed.

Lemma good_arg x a k res r ks :
  (k <> ANarrow -> literal_of a (x ++ [])) -> Good res r ks -> Good (papp x res) (a :: r) (k :: ks).
Proof.
  intros Hx (o & -> & H). exists (x ++ o). split; [reflexivity|]. constructor.
  - intros Hn. specialize (Hx Hn). rewrite app_nil_r in Hx.
    destruct a; cbn [literal_of] in *; [destruct Hx as [Hx|Hx]; [left|right]|]; apply contains_app_l; exact Hx.
  - eapply Forall2_weaken; [|exact H]. intros b kb Hb Hn. apply literal_of_app. auto.
Qed.

Ltac sig_some H :=
  match type of H with
  | match ?r with Some _ => _ | None => _ end = Some _ => destruct r as [?|] eqn:?; [|discriminate]
  end.

(* a format applied to arguments that fit its signature: never a missing argument, never a
   bad conversion, and every argument consumed by a full-width conversion appears literally *)
Lemma pf_typed : forall fmt st args ks,
  sig st fmt = Some ks -> Forall2 fits args ks -> Good (pf st fmt args) args ks.
Proof.
  induction fmt as [|c f IH]; intros st args ks Hs Hk.
  - destruct st; cbn in Hs; try discriminate. inversion Hs as [Hks]. rewrite <- Hks in Hk. inversion Hk.
    exists []. split; [reflexivity | constructor].
  - assert (Hconv : forall k x, (forall a r, fits a k -> pf st (c :: f) (a :: r) = papp (x a) (pf SNorm f r)) ->
                      (forall a, fits a k -> k <> ANarrow -> literal_of a (x a ++ [])) ->
                      match sig SNorm f with Some ks' => Some (k :: ks') | None => None end = Some ks ->
                      Good (pf st (c :: f) args) args ks).
    { intros k x Hpf Hlit Hsig. sig_some Hsig. inversion Hsig as [Hks]. rewrite <- Hks in Hk.
      inversion Hk as [|a k' r ks' Hfa Hfr]; subst. rewrite (Hpf a r Hfa).
      apply good_arg; [intros Hn; apply Hlit; assumption | eapply IH; eauto]. }
    destruct st; cbn [sig] in Hs.
    + (* SNorm *) cbn [pf]. destruct (c =? 37) eqn:E; [exact (IH _ _ _ Hs Hk) | apply good_lit; exact (IH _ _ _ Hs Hk)].
    + (* SPct *)
      destruct (c =? 37) eqn:E37; [cbn [pf]; rewrite E37; apply good_lit; exact (IH _ _ _ Hs Hk)|].
      destruct (c =? 115) eqn:E115.
      { apply (Hconv AStr (fun a => match a with PStr s => s | PInt _ => [] end)); [| |exact Hs].
        - intros a r Ha. cbn [pf]. rewrite E37, E115. destruct a; [destruct Ha | reflexivity].
        - intros a Ha _. destruct a; [destruct Ha|]. cbn [literal_of]. exists [], []. reflexivity. }
      destruct (c =? 100) eqn:E100.
      { apply (Hconv ANarrow (fun a => match a with PInt z => dec (wrap_s32 z) | PStr _ => [] end)); [| |exact Hs].
        - intros a r Ha. cbn [pf]. rewrite E37, E115, E100. destruct a; [reflexivity | destruct Ha].
        - intros a _ Hn. congruence. }
      destruct (c =? 120) eqn:E120.
      { apply (Hconv ANarrow (fun a => match a with PInt z => hex32 z | PStr _ => [] end)); [| |exact Hs].
        - intros a r Ha. cbn [pf]. rewrite E37, E115, E100, E120. destruct a; [reflexivity | destruct Ha].
        - intros a _ Hn. congruence. }
      destruct (c =? 108) eqn:E108; [cbn [pf]; rewrite E37, E115, E100, E120, E108; exact (IH _ _ _ Hs Hk)|].
      destruct (c =? 48) eqn:E48; [cbn [pf]; rewrite E37, E115, E100, E120, E108, E48; exact (IH _ _ _ Hs Hk) | discriminate].
    + (* SPctL *)
      destruct (c =? 100) eqn:E100.
      { apply (Hconv AWide (fun a => match a with PInt z => dec z | PStr _ => [] end)); [| |exact Hs].
        - intros a r Ha. cbn [pf]. rewrite E100. destruct a; [reflexivity | destruct Ha].
        - intros a Ha _. destruct a; [|destruct Ha]. cbn [literal_of]. left. exists [], []. reflexivity. }
      destruct (c =? 120) eqn:E120; [|discriminate].
      apply (Hconv AWide (fun a => match a with PInt z => hex64 z | PStr _ => [] end)); [| |exact Hs].
      * intros a r Ha. cbn [pf]. rewrite E100, E120. destruct a; [reflexivity | destruct Ha].
      * intros a Ha _. destruct a; [|destruct Ha]. cbn [literal_of]. right. exists [], []. reflexivity.
    + (* SPct0 *) destruct (c =? 50) eqn:E50; [cbn [pf]; rewrite E50; exact (IH _ _ _ Hs Hk) | discriminate].
    + (* SPct02 *) destruct (c =? 120) eqn:E120; [|discriminate].
      apply (Hconv ANarrow (fun a => match a with PInt z => pad2 (hex32 z) | PStr _ => [] end)); [| |exact Hs].
      * intros a r Ha. cbn [pf]. rewrite E120. destruct a; [reflexivity | destruct Ha].
      * intros a _ Hn. congruence.
Qed.

(* ------------------------------------------------------------------------------------ *)
(* the failure message, with the formats of the current sources *)
From CgreenVerif.Gen Require Import Facts.

Definition lit_msg := literal_message fmt_constraint_as_string_format fmt_expected_value_string_format
                                      fmt_actual_value_string_format.
Definition shown_msg := shown fmt_constraint_as_string_format fmt_expected_value_string_format
                              fmt_actual_value_string_format.

(* what the reporter shows IS the literal message: the percent doubling and the reporter's
   expansion with no arguments cancel exactly, for every text; in particular the expansion
   never asks for an argument (PMissingArg = reading unrelated memory) *)
Theorem shown_is_literal row atx etx ops m :
  lit_msg row atx etx ops = POk m -> shown_msg row atx etx ops = POk m.
Proof.
  unfold shown_msg, lit_msg, shown, failure_message. intros ->. apply double_percent_roundtrip.
Qed.

Lemma printf_typed fmt args ks :
  sig SNorm fmt = Some ks -> Forall2 fits args ks ->
  exists o, printf_m fmt args = POk o /\ Forall2 (fun a k => k <> ANarrow -> literal_of a o) args ks.
Proof. intros H1 H2. exact (pf_typed fmt SNorm args ks H1 H2). Qed.

Lemma fixed_formats_sig :
  sig SNorm fmt_constraint_as_string_format = Some [AStr; AStr] /\
  sig SNorm fmt_expected_value_string_format = Some [AStr] /\
  sig SNorm fmt_actual_value_string_format = Some [AStr].
Proof. vm_compute. auto. Qed.

Definition aspec_eqb (a b : aspec) : bool :=
  match a, b with AStr, AStr | AWide, AWide | ANarrow, ANarrow => true | _, _ => false end.
Definition sig_is (fmt : str) (ks : list aspec) : bool :=
  match sig SNorm fmt with
  | Some l => (Nat.eqb (length l) (length ks)) && forallb (fun p => aspec_eqb (fst p) (snd p)) (combine l ks)
  | None => false
  end.
Lemma sig_is_ok fmt ks : sig_is fmt ks = true -> sig SNorm fmt = Some ks.
Proof.
  unfold sig_is. destruct (sig SNorm fmt) as [l|]; [|discriminate]. intros H. apply andb_prop in H. destruct H as [Hl Hf].
  f_equal. apply Nat.eqb_eq in Hl. revert ks Hl Hf. induction l as [|a l IH]; intros [|k ks] Hl Hf; try discriminate; [reflexivity|].
  cbn in Hl, Hf. apply andb_prop in Hf. destruct Hf as [Ha Hf]. f_equal; [destruct a, k; try discriminate; reflexivity|].
  apply IH; [lia | exact Hf].
Qed.

Definition nonempty (s : str) : bool := match s with [] => false | _ => true end.

(* rows of the table: integer constraints that show values, constraints without expected
   value, string constraints *)
Definition int_rowb (row : str * str * str) : bool :=
  let '(name, avm, evm) := row in nonempty evm && sig_is avm [AWide] && sig_is evm [AWide].
Definition str_rowb (row : str * str * str) : bool :=
  let '(name, avm, evm) := row in nonempty evm && sig_is evm [AStr].

Lemma table_rows_ok :
  forallb int_rowb (firstn 5 constraint_formats) = true /\
  forallb (fun row => negb (nonempty (snd row))) (firstn 4 (skipn 5 constraint_formats)) = true /\
  forallb str_rowb (skipn 9 constraint_formats) = true /\ length constraint_formats = 17%nat.
Proof. vm_compute. auto. Qed.

Lemma contains_mid a b c x : contains b x -> contains (a ++ b ++ c) x.
Proof. intros H. apply contains_app_r. apply contains_app_l. exact H. Qed.

(* value constraints: the message contains the actual and the expected expression text, and -
   unless the actual expression IS the value's numeral (or true/false) - the decimal or
   hexadecimal numeral of the actual value, and of the expected one unless the constraint is a
   negated one.  For every text and every value. *)
Theorem int_message row atx etx a e :
  int_rowb row = true ->
  exists m, lit_msg row atx etx (OInts a e) = POk m /\ shown_msg row atx etx (OInts a e) = POk m /\
            contains m atx /\ contains m etx /\
            (str_eqb atx (dec a) || str_eqb atx s_true || str_eqb atx s_false = false ->
             (contains m (dec a) \/ contains m (hex64 a)) /\
             (has_sub (fst (fst row)) s_not_ = false -> contains m (dec e) \/ contains m (hex64 e))).
Proof.
  destruct row as [[name avm] evm]. intros Hrow. cbn [int_rowb] in Hrow.
  apply andb_prop in Hrow. destruct Hrow as [Hrow Hevm]. apply andb_prop in Hrow. destruct Hrow as [Hne Havm].
  apply sig_is_ok in Havm, Hevm. destruct fixed_formats_sig as (S1 & S2 & S3).
  destruct (printf_typed _ [PStr atx; PStr name] _ S1) as (o1 & P1 & L1); [repeat constructor|].
  destruct (printf_typed _ [PStr etx] _ S2) as (o2 & P2 & L2); [repeat constructor|].
  destruct (printf_typed _ [PInt a] _ Havm) as (o3 & P3 & L3); [repeat constructor|].
  destruct (printf_typed _ [PInt e] _ Hevm) as (o4 & P4 & L4); [repeat constructor|].
  assert (C1 : contains o1 atx) by (inversion L1 as [|? ? ? ? H]; apply H; discriminate).
  assert (C2 : contains o2 etx) by (inversion L2 as [|? ? ? ? H]; apply H; discriminate).
  assert (C3 : contains o3 (dec a) \/ contains o3 (hex64 a)) by (inversion L3 as [|? ? ? ? H]; apply H; discriminate).
  assert (C4 : contains o4 (dec e) \/ contains o4 (hex64 e)) by (inversion L4 as [|? ? ? ? H]; apply H; discriminate).
  assert (Hlit : exists m, lit_msg (name, avm, evm) atx etx (OInts a e) = POk m /\ contains m atx /\ contains m etx /\
            (str_eqb atx (dec a) || str_eqb atx s_true || str_eqb atx s_false = false ->
             (contains m (dec a) \/ contains m (hex64 a)) /\
             (has_sub name s_not_ = false -> contains m (dec e) \/ contains m (hex64 e)))).
  { unfold lit_msg, literal_message. rewrite P1. cbn [pbind]. destruct evm as [|x evm']; [discriminate|].
    rewrite P2. cbn [pbind].
    destruct (str_eqb atx (dec a) || str_eqb atx s_true || str_eqb atx s_false) eqn:Hnn.
    - eexists. split; [reflexivity|]. split; [apply contains_app_l; exact C1|]. split; [apply contains_app_r, contains_app_r; exact C2 | discriminate].
    - rewrite P3. cbn [pbind]. destruct (has_sub name s_not_) eqn:Hnot.
      + eexists. split; [reflexivity|]. split; [apply contains_app_l, contains_app_l; exact C1|].
        split; [apply contains_app_l, contains_app_r, contains_app_r; exact C2|]. intros _.
        split; [destruct C3 as [C|C]; [left|right]; apply contains_app_r; exact C | discriminate].
      + rewrite P4. cbn [pbind]. eexists. split; [reflexivity|].
        split; [apply contains_app_l; apply contains_app_l; exact C1|].
        split; [apply contains_app_l; apply contains_app_r, contains_app_r; exact C2|]. intros _.
        split; [destruct C3 as [C|C]; [left|right]; apply contains_app_r, contains_app_l; exact C|].
        intros _. destruct C4 as [C|C]; [left|right]; apply contains_app_r, contains_app_r, contains_app_r; exact C. }
  destruct Hlit as (m & Hm & H1 & H2 & H3). exists m. split; [exact Hm|]. split; [apply shown_is_literal; exact Hm|]. auto.
Qed.

(* constraints without an expected value (is_null, is_non_null, is_true, is_false) *)
Theorem unary_message name avm atx etx ops :
  exists m, lit_msg (name, avm, []) atx etx ops = POk m /\ shown_msg (name, avm, []) atx etx ops = POk m /\ contains m atx.
Proof.
  destruct fixed_formats_sig as (S1 & _ & _).
  destruct (printf_typed _ [PStr atx; PStr name] _ S1) as (o1 & P1 & L1); [repeat constructor|].
  assert (C1 : contains o1 atx) by (inversion L1 as [|? ? ? ? H]; apply H; discriminate).
  assert (Hm : lit_msg (name, avm, []) atx etx ops = POk o1) by (unfold lit_msg, literal_message; rewrite P1; reflexivity).
  exists o1. split; [exact Hm|]. split; [apply shown_is_literal; exact Hm | exact C1].
Qed.

(* string constraints: expression texts and the actual string content (and the expected one
   for the non-negated equality) literally - whatever bytes they contain *)
Theorem str_message row atx etx a e :
  str_rowb row = true ->
  exists m, lit_msg row atx etx (OStrs a e) = POk m /\ shown_msg row atx etx (OStrs a e) = POk m /\
            contains m atx /\ contains m etx /\
            (str_eqb atx s_true || str_eqb atx s_false = false -> contains m a).
Proof.
  destruct row as [[name avm] evm]. intros Hrow. cbn [str_rowb] in Hrow.
  apply andb_prop in Hrow. destruct Hrow as [Hne Hevm]. apply sig_is_ok in Hevm.
  destruct fixed_formats_sig as (S1 & S2 & S3).
  destruct (printf_typed _ [PStr atx; PStr name] _ S1) as (o1 & P1 & L1); [repeat constructor|].
  destruct (printf_typed _ [PStr etx] _ S2) as (o2 & P2 & L2); [repeat constructor|].
  destruct (printf_typed _ [PStr a] _ S3) as (o3 & P3 & L3); [repeat constructor|].
  destruct (printf_typed _ [PStr e] _ Hevm) as (o4 & P4 & L4); [repeat constructor|].
  assert (C1 : contains o1 atx) by (inversion L1 as [|? ? ? ? H]; apply H; discriminate).
  assert (C2 : contains o2 etx) by (inversion L2 as [|? ? ? ? H]; apply H; discriminate).
  assert (C3 : contains o3 a) by (inversion L3 as [|? ? ? ? H]; apply H; discriminate).
  assert (Hlit : exists m, lit_msg (name, avm, evm) atx etx (OStrs a e) = POk m /\ contains m atx /\ contains m etx /\
            (str_eqb atx s_true || str_eqb atx s_false = false -> contains m a)).
  { unfold lit_msg, literal_message. rewrite P1. cbn [pbind]. destruct evm as [|x evm']; [discriminate|].
    rewrite P2. cbn [pbind orb].
    destruct (str_eqb atx s_true || str_eqb atx s_false) eqn:Hnn.
    - eexists. split; [reflexivity|]. split; [apply contains_app_l; exact C1|]. split; [apply contains_app_r, contains_app_r; exact C2 | discriminate].
    - rewrite P3. cbn [pbind]. destruct (negb (has_sub name s_not_) || negb (has_sub name s_equal_)).
      + rewrite P4. cbn [pbind]. eexists. split; [reflexivity|].
        split; [apply contains_app_l; apply contains_app_l; exact C1|].
        split; [apply contains_app_l; apply contains_app_r, contains_app_r; exact C2|]. intros _.
        apply contains_app_r, contains_app_l; exact C3.
      + eexists. split; [reflexivity|]. split; [apply contains_app_l, contains_app_l; exact C1|].
        split; [apply contains_app_l, contains_app_r, contains_app_r; exact C2|]. intros _.
        apply contains_app_r; exact C3. }
  destruct Hlit as (m & Hm & H1 & H2 & H3). exists m. split; [exact Hm|]. split; [apply shown_is_literal; exact Hm|]. auto.
Qed.

(* the legacy assertions: a single expansion with full-width conversions *)
Lemma legacy_formats_sig :
  sig SNorm fmt_assert_equal_ = Some [AStr; AWide; AWide] /\
  sig SNorm fmt_assert_not_equal_ = Some [AStr; AWide] /\
  sig SNorm fmt_assert_string_equal_ = Some [AStr; AStr; AStr] /\
  sig SNorm fmt_assert_string_not_equal_ = Some [AStr; AStr].
Proof. vm_compute. auto. Qed.

Theorem legacy_equal_message xt tried expected :
  exists m, printf_m fmt_assert_equal_ [PStr xt; PInt expected; PInt tried] = POk m /\
            contains m xt /\ (contains m (dec expected) \/ contains m (hex64 expected)) /\
            (contains m (dec tried) \/ contains m (hex64 tried)).
Proof.
  destruct legacy_formats_sig as (S1 & _).
  destruct (printf_typed _ [PStr xt; PInt expected; PInt tried] _ S1) as (o & P & L); [repeat constructor|].
  exists o. split; [exact P|].
  inversion L as [|? ? ? ? H1 L']; subst. inversion L' as [|? ? ? ? H2 L'']; subst. inversion L'' as [|? ? ? ? H3 _]; subst.
  split; [apply H1; discriminate|]. split; [apply H2; discriminate | apply H3; discriminate].
Qed.

Theorem legacy_string_equal_message xt tried expected :
  exists m, printf_m fmt_assert_string_equal_ [PStr xt; PStr expected; PStr tried] = POk m /\
            contains m xt /\ contains m expected /\ contains m tried.
Proof.
  destruct legacy_formats_sig as (_ & _ & S3 & _).
  destruct (printf_typed _ [PStr xt; PStr expected; PStr tried] _ S3) as (o & P & L); [repeat constructor|].
  exists o. split; [exact P|].
  inversion L as [|? ? ? ? H1 L']; subst. inversion L' as [|? ? ? ? H2 L'']; subst. inversion L'' as [|? ? ? ? H3 _]; subst.
  split; [apply H1; discriminate|]. split; [apply H2; discriminate | apply H3; discriminate].
Qed.
