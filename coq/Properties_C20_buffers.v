(* C20, fixed-size formatting buffers — every `char x[N]` array of cgreen's reporters, tools and
   helpers and every call that writes a string into one, as translated from /repo's current
   sources on every run (Gen/Facts.v: buffer_caps, buffer_locals, buffer_progs; the functions
   the translator cannot express are named in buffer_unmodelled and left to the sanitizer runs).
   The model and its semantics are in Buffers.v; the analysis `all_ok` is proved sound in
   Lemmas_Buffers.v; that the current table passes it is checked here by computation. *)
From Coq Require Import List NArith Bool.
From CgreenVerif Require Import Buffers Lemmas_Buffers Examples_Buffers.
From CgreenVerif.Gen Require Import Facts.
Import ListNotations.
Local Open Scope N_scope.

Lemma buffer_table_ok : all_ok buffer_caps buffer_locals buffer_progs = true.
Proof. vm_compute. reflexivity. Qed.

(* From program start on and over any sequence of calls of the translated functions - with
   suite, test, file and context names, messages and every other caller-supplied string of ANY
   length, whichever branches are taken and however often the loops run - no call writes past the
   end of a buffer or appends to an indeterminate one, and every static buffer goes on holding a
   NUL-terminated string shorter than its capacity. *)
Theorem C20_formatting_buffers_safe :
  forall fs, (forall f, In f fs -> In f buffer_progs) ->
  forall r, Calls buffer_caps buffer_locals fs (start_state buffer_caps) r ->
  exists st', r = Ok st' /\ statics_fit buffer_caps buffer_locals st'.
Proof. exact (table_safe buffer_caps buffer_locals buffer_progs buffer_table_ok). Qed.
Print Assumptions C20_formatting_buffers_safe.

(* one function, entered in any state in which the static buffers hold strings that fit *)
Theorem C20_each_function_safe :
  forall f, In f buffer_progs ->
  forall st r, statics_fit buffer_caps buffer_locals st ->
    Exec buffer_caps (fp_body f) (enter buffer_locals st) r ->
    exists st', r = Ok st' /\ statics_fit buffer_caps buffer_locals st'.
Proof.
  exact (fun f Hin => fprog_safe buffer_caps buffer_locals f
           (proj1 (forallb_forall _ _) (proj2 (andb_prop _ _ buffer_table_ok)) f Hin)).
Qed.
Print Assumptions C20_each_function_safe.

(* the analysis itself, for any program: accepted means safe for all lengths, branches, iterations *)
Theorem C20_buffer_analysis_sound :
  forall caps p ab ab', check caps p ab = Some ab' ->
  forall st r, approx st ab -> Exec caps p st r -> exists st', r = Ok st' /\ approx st' ab'.
Proof. exact check_sound. Qed.
Print Assumptions C20_buffer_analysis_sound.
