(* C08 — Setup, body, teardown and mock tally run once each, in order, in one process. *)
From Coq Require Import List ZArith Bool.
From CgreenVerif Require Import Defs Runner Spec_Runner Lemmas_Runner Lemmas_Facts Lemmas_Props Examples_Runner.
Import ListNotations.
Local Open Scope Z_scope.

(* The event log of the process that runs a test (trace) is, for every test whose code
   neither dies nor is killed - whatever its checks do, pass or fail - exactly:
   the applicable setup (the suite's if it has one, else the context's BeforeEach, else
   nothing), the body, the matching teardown, the mock tally; once each, in this order, from
   any framework state, i.e. in forked, CGREEN_NO_FORK and run_single_test execution alike
   (all three go through the same step list, run by one exec = in one process). *)
Theorem C08_fixed_order :
  forall s t f, plain (tsetup t) -> plain (tbody t) -> plain (tteardown t) -> tkill t = None ->
    trace f (test_steps s t) = setup_tev s t ++ [TvPhase PhBody] ++ teardown_tev s t ++ [TvTally].
Proof. exact test_trace. Qed.
Print Assumptions C08_fixed_order.

(* for a dying test: nothing after the point of death (a prefix of the undisturbed trace) *)
Theorem C08_dying_test_prefix :
  forall l f k d, exists rest, trace f l = trace f (firstn k l ++ [Die d]) ++ rest.
Proof. exact trace_cut_prefix. Qed.
Print Assumptions C08_dying_test_prefix.

(* xEnsure tests run none of their code *)
Theorem C08_skipped_runs_nothing :
  forall m cap s t t' p, tid t = tid t' -> tskip t = true -> tskip t' = true ->
    run_test m cap s t p = run_test m cap s t' p.
Proof. exact xensure_runs_nothing. Qed.
Print Assumptions C08_skipped_runs_nothing.

(* a suite's setup and teardown bracket each of its sub-suites exactly once *)
Theorem C08_suite_fixtures_bracket_subsuites :
  forall s rec l, subs_events s rec l = concat (rev (map (bracketed s rec) l)).
Proof. exact subs_events_brackets. Qed.
Print Assumptions C08_suite_fixtures_bracket_subsuites.

(* and the concrete runner emits exactly those events (both execution modes) *)
Theorem C08_runner_emits_spec_events :
  forall rk vexpr m cap n,
    In rk builtin_reporters -> (1 <= cap)%nat -> is_suite n -> ok_tree m cap n ->
    exists f',
      run_suite rk vexpr m cap n =
      Finished (vexpr (passes (total n)) (failures (total n)) (skips (total n)) (exceptions (total n)))
               (mkp (node_c n) (total n) [] [] f' (spec_events [] czero n)).
Proof. exact (fun rk vexpr m cap n Hrk => run_suite_spec rk vexpr m cap n (builtin_rk_folds rk Hrk)). Qed.
Print Assumptions C08_runner_emits_spec_events.

(* non-vacuity *)
Example C08_example :
  trace fw_init (test_steps (mksuite 3 true false)
                            (mktest 1 false true true [Check false] [Check false; Expect] [Check true] None))
  = [TvPhase (PhSuiteSetup 3); TvPhase PhBody; TvPhase PhTeardown; TvTally].
Proof. reflexivity. Qed.
