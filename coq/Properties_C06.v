(* C06 — Mock calls consume expectations in declaration order, per function. *)
From Coq Require Import List ZArith Bool.
From CgreenVerif Require Import Defs Mocks Lemmas_Mocks Lemmas_Facts Examples_Mocks.
From CgreenVerif.Gen Require Import Facts.
Import ListNotations.
Local Open Scope Z_scope.

(* DECOMPOSITION.  For every history of declarations and calls, of any length, and every
   mocked function f: what the history shows about f - every check reported about f and
   every value returned to f's callers - is exactly what f's own machine shows when fed only
   the operations that concern f (its own declarations and calls, mode changes, tally,
   clear); operations on other functions report nothing about f.  The constant
   UNLIMITED_TIME_TO_LIVE is the one in src/mocks.c. *)
Theorem C06_functions_independent :
  forall f ops,
    view f ops (snd (mrun unlimited_ttl ms_init ops)) = snd (mrun unlimited_ttl ms_init (ops_of f ops)) /\
    silent_elsewhere f ops (snd (mrun unlimited_ttl ms_init ops)).
Proof.
  exact (fun f ops => let H := decomposition unlimited_ttl unlimited_pos f ops ms_init ms_init (sim_init unlimited_ttl f)
                      in conj (proj1 (proj2 H)) (proj2 (proj2 H))).
Qed.
Print Assumptions C06_functions_independent.

(* A call is checked against, and takes its return value from, the earliest pending
   expectation of the called function, wherever it sits in the global queue. *)
Theorem C06_earliest_pending :
  forall s f e rest args,
    abs (queue s) f = e :: rest -> is_never unlimited_ttl e = false ->
    unknown_param (econs e) (map fst args) = None ->
    snd (fst (mstep unlimited_ttl s (MCall f args))) = serve_results e args /\
    snd (mstep unlimited_ttl s (MCall f args)) = ret_of (econs e) /\
    abs (queue (fst (fst (mstep unlimited_ttl s (MCall f args))))) f =
      (if is_always unlimited_ttl e then used e :: rest
       else if ettl e - 1 <=? 0 then rest else aged (used e) :: rest).
Proof. exact (call_served_by_earliest unlimited_ttl). Qed.
Print Assumptions C06_earliest_pending.

(* times(n), 1 <= n < the sentinel, serves exactly n consecutive calls, then the next
   expectation of the function is at the head *)
Theorem C06_times_n_serves_exactly_n :
  forall n s f e rest args,
    abs (queue s) f = e :: rest -> ettl e = Z.of_nat (S n) -> Z.of_nat (S n) < unlimited_ttl ->
    unknown_param (econs e) (map fst args) = None ->
    snd (n_calls unlimited_ttl s f args (S n)) = repeat (serve_results e args, ret_of (econs e)) (S n) /\
    abs (queue (fst (n_calls unlimited_ttl s f args (S n)))) f = rest.
Proof. exact (times_n_serves_n unlimited_ttl unlimited_pos). Qed.
Print Assumptions C06_times_n_serves_exactly_n.

(* an always_expect serves every call once the earlier expectations are used up *)
Theorem C06_always_serves_every_call :
  forall n s f e rest args,
    abs (queue s) f = e :: rest -> is_always unlimited_ttl e = true ->
    unknown_param (econs e) (map fst args) = None ->
    snd (n_calls unlimited_ttl s f args n) = repeat (serve_results e args, ret_of (econs e)) n /\
    exists e', abs (queue (fst (n_calls unlimited_ttl s f args n))) f = e' :: rest /\
               is_always unlimited_ttl e' = true /\ efn e' = efn e /\ eline e' = eline e /\ econs e' = econs e.
Proof. exact (always_serves_every_call unlimited_ttl unlimited_pos). Qed.
Print Assumptions C06_always_serves_every_call.

(* the predicates and constants the model uses are those of the source *)
Theorem C06_source_facts :
  (forall ttl, is_always_src ttl unlimited_ttl = (ttl =? unlimited_ttl)) /\
  (forall ttl, is_never_src ttl unlimited_ttl = (ttl =? - unlimited_ttl)) /\
  ttl_expect_default unlimited_ttl = 1 /\ ttl_always unlimited_ttl = unlimited_ttl /\
  ttl_never unlimited_ttl = - unlimited_ttl /\ 0 < unlimited_ttl.
Proof.
  exact (conj is_always_src_ok (conj is_never_src_ok
          (conj (proj1 ttl_sources_ok) (conj (proj1 (proj2 ttl_sources_ok)) (conj (proj2 (proj2 ttl_sources_ok)) unlimited_pos))))).
Qed.
Print Assumptions C06_source_facts.

(* non-vacuity *)
Theorem C06_example_returns :
  map snd (snd (mrun unlimited_ttl ms_init ex_ops)) = [0; 0; 0; 0; 0; 1; 2; 2; 9; 9; 0].
Proof. exact ex_returns. Qed.
