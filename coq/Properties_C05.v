(* C05 — Every constraint passes exactly when its documented relation holds.
   The comparator bodies are the ones translated from src/constraint.c,
   src/string_comparison.c, src/assertions.c and include/cgreen/legacy.h on this run. *)
From Coq Require Import List ZArith NArith Bool.
From CgreenVerif Require Import Defs CStr Lemmas_Constraints.
From CgreenVerif.Gen Require Import Facts.
Import ListNotations.
Local Open Scope Z_scope.

(* pointer-sized integers: every pair of values (C's ==, <, > on intptr_t are exact) *)
Theorem C05_equal : forall a e, compare_want_value_src a e = true <-> a = e.
Proof. exact want_value_iff. Qed.
Theorem C05_not_equal : forall a e, compare_do_not_want_value_src a e = true <-> a <> e.
Proof. exact do_not_want_value_iff. Qed.
Theorem C05_greater : forall a e, compare_want_greater_value_src a e = true <-> a > e.
Proof. exact want_greater_iff. Qed.
Theorem C05_less : forall a e, compare_want_lesser_value_src a e = true <-> a < e.
Proof. exact want_lesser_iff. Qed.
Theorem C05_null : forall a, is_null_src a = true <-> a = 0.
Proof. exact is_null_iff. Qed.
Theorem C05_non_null : forall a, is_non_null_src a = true <-> a <> 0.
Proof. exact is_non_null_iff. Qed.
Theorem C05_true : forall a, is_true_src a = true <-> a <> 0.
Proof. exact is_true_iff. Qed.
Theorem C05_false : forall a, is_false_src a = true <-> a = 0.
Proof. exact is_false_iff. Qed.
Print Assumptions C05_less.

(* strings: every pair of byte strings *)
Theorem C05_equal_string : forall a e, compare_want_string_src (Some a) (Some e) = true <-> a = e.
Proof. exact want_string_iff. Qed.
Theorem C05_contains_string :
  forall a e, compare_want_substring_src (Some a) (Some e) = true <-> exists p t, a = p ++ e ++ t.
Proof. exact want_substring_iff. Qed.
Theorem C05_begins_with_string :
  forall a e, compare_want_beginning_of_string_src (Some a) (Some e) = true <-> exists t, a = e ++ t.
Proof. exact want_beginning_iff. Qed.
(* the code computes the start position in `int`: exact for strings shorter than 2^31 *)
Theorem C05_ends_with_string :
  forall a e, Z.of_nat (length a) < 2147483648 -> Z.of_nat (length e) < 2147483648 ->
    (compare_want_end_of_string_src (Some a) (Some e) = true <-> exists p, a = p ++ e).
Proof. exact want_end_iff. Qed.
Print Assumptions C05_ends_with_string.

(* NULL operands, as the code defines them *)
Theorem C05_string_equality_with_null :
  strings_are_equal_src None None = true /\
  (forall s, strings_are_equal_src None (Some s) = false) /\
  (forall s, strings_are_equal_src (Some s) None = false).
Proof. exact strings_are_equal_null. Qed.
Theorem C05_contains_with_null :
  forall s, string_contains_src None s = false /\ string_contains_src s None = false.
Proof. exact string_contains_null. Qed.

(* memory blocks of the given size (non-NULL, size >= 1: the domain the code accepts) *)
Theorem C05_contents : forall a e n, want_contents_m false a e n = true <-> firstn n a = firstn n e.
Proof. exact want_contents_iff. Qed.
Theorem C05_contents_null_rejected :
  forall a e n, want_contents_m true a e n = false /\ do_not_want_contents_m true a e n = false.
Proof. exact contents_null. Qed.

(* each negated form passes exactly when its positive form fails *)
Theorem C05_value_negation :
  forall a e, compare_do_not_want_value_src a e = negb (compare_want_value_src a e).
Proof. exact value_negation. Qed.
Theorem C05_string_negations :
  forall a e,
    compare_do_not_want_string_src a e = negb (compare_want_string_src a e) /\
    compare_do_not_want_substring_src a e = negb (compare_want_substring_src a e) /\
    compare_do_not_want_beginning_of_string_src a e = negb (compare_want_beginning_of_string_src a e) /\
    compare_do_not_want_end_of_string_src a e = negb (compare_want_end_of_string_src a e).
Proof. exact string_negations. Qed.
Theorem C05_contents_negation :
  forall a e n, do_not_want_contents_m false a e n = negb (want_contents_m false a e n).
Proof. exact contents_negation. Qed.

(* legacy assertions: functions and *_with_message macros *)
Theorem C05_legacy_functions :
  (forall a e, assert_equal_src a e = true <-> a = e) /\
  (forall a e, assert_not_equal_src a e = negb (assert_equal_src a e)) /\
  (forall a e, assert_string_equal_src (Some a) (Some e) = true <-> a = e) /\
  (forall a e, assert_string_not_equal_src a e = negb (assert_string_equal_src a e)).
Proof. exact legacy_functions_ok. Qed.
(* (base predicate, negated?) of assert_{true,false,equal,not_equal,double_equal,
   double_not_equal,string_equal,string_not_equal}_with_message: each positive/negative pair
   uses the same predicate with opposite polarity *)
Theorem C05_legacy_with_message_polarity :
  legacy_with_message = [(0, false); (0, true); (1, false); (1, true); (2, false); (2, true); (3, false); (3, true)]%nat.
Proof. exact legacy_polarity_ok. Qed.
Print Assumptions C05_legacy_with_message_polarity.

(* non-vacuity *)
Example C05_example :
  compare_want_end_of_string_src (Some [97; 98; 99]%N) (Some [98; 99]%N) = true /\
  compare_want_substring_src (Some [97; 98; 97; 98; 99]%N) (Some [97; 98; 99]%N) = true /\
  compare_want_lesser_value_src (-9223372036854775808) 9223372036854775807 = true.
Proof. repeat split. Qed.
