(* Examples_Runner.v — non-vacuity: a concrete, non-trivial suite tree meets the hypotheses
   of the runner theorems; and the witnesses of the two known corners that lie outside them. *)
From Coq Require Import List ZArith Bool Lia.
From CgreenVerif Require Import Defs Runner Spec_Runner Lemmas_Runner Lemmas_Facts Lemmas_Props.
From CgreenVerif.Gen Require Import Facts.
Import ListNotations.
Local Open Scope Z_scope.

Definition mk (i : nat) (body : list act) : test := mktest i false false false [] body [] None.

(* nested suites, an empty suite, a failing test, a test that skips itself and goes on, a
   test killed by SIGSEGV after a pass, an xEnsure test, a test killed by the framework's
   own kill point after teardown, fixtures *)
Definition ex_tree : node :=
  Sn (mksuite 0 true false)
     [ Tn (mk 0 [Check true; Check true]);
       Sn (mksuite 1 false true)
          [ Sn (mksuite 2 false false) [];
            Tn (mk 1 [Check true; Check false; Check true]);
            Tn (mk 2 [Check true; SkipTest; Check true]) ];
       Tn (mk 3 [Check true; Die (Signal 11); Check true]);
       Tn (mktest 4 true true true [Check true] [Check false] [] None);
       Tn (mktest 5 false true true [Check true] [SetMode Loose; CallUnexpected; Expect] [Check true] (Some (5%nat, Signal 9))) ].

Example ex_tree_ok : ok_tree Forked 4096 ex_tree /\ is_suite ex_tree /\ unique_names ex_tree.
Proof.
  split; [apply ok_treeb_ok; vm_compute; reflexivity|]. split; [exact I|].
  unfold unique_names. vm_compute. repeat (constructor; [cbn; intuition discriminate|]). constructor.
Qed.

Example ex_tree_not_good : ~ all_good ex_tree.
Proof. unfold all_good. vm_compute. intros [H _]. discriminate. Qed.

(* an all-green tree, also valid in-process *)
Definition ex_green : node :=
  Sn (mksuite 0 false false)
     [ Sn (mksuite 1 true true) [ Tn (mk 0 [Check true; SetFigs 3; SetMode Loose; Expect]) ;
                                  Tn (mk 1 [FigsCheck 7; CallUnexpected; Check true]) ];
       Tn (mk 2 []) ].

(* ex_green's first test leaves an expectation pending, so it is not all green; a tree that
   is: *)
Definition ex_green2 : node :=
  Sn (mksuite 0 false false)
     [ Sn (mksuite 1 true true) [ Tn (mk 0 [Check true; SetFigs 3; SetMode Loose; CallUnexpected]) ;
                                  Tn (mk 1 [FigsCheck 8; Check true]) ];
       Tn (mk 2 []); Tn (mktest 3 true false false [] [Check false] [] None) ].

Example ex_green2_ok : ok_tree InProcess 4096 ex_green2 /\ all_good ex_green2.
Proof. split; [apply ok_treeb_ok; vm_compute; reflexivity | unfold all_good; vm_compute; auto]. Qed.

(* in ex_green the second test would fail if the first one's settings leaked (figures 3 make
   FigsCheck 7 pass, loose mode hides the unexpected call): the reset makes it independent *)
Example ex_green_ok : ok_tree InProcess 4096 ex_green.
Proof. apply ok_treeb_ok; vm_compute; reflexivity. Qed.

(* ------------------------------------------------------------------------------------ *)
(* the two corners outside `regular`: what the faithful model does there (known findings) *)

(* a test that calls skip_test() and then dies is reported as skipped, not as an exception *)
Definition skip_then_die : node := Sn (mksuite 0 false false) [Tn (mk 0 [SkipTest; Die (Signal 11)])].
Example skip_then_die_refuted :
  exit_ok (run_suite rk_text verdict_suite Forked 4096 skip_then_die) = true /\ ~ all_good skip_then_die.
Proof. split; [vm_compute; reflexivity | unfold all_good; vm_compute; intros [_ H]; discriminate]. Qed.

(* a process killed by a signal after it sent the completion notice is not an exception *)
Definition die_after_completion : node :=
  Sn (mksuite 0 false false) [Tn (mktest 0 false false false [] [Check true] [] (Some (5%nat, Signal 11)))].
Example die_after_completion_refuted :
  exit_ok (run_suite rk_text verdict_suite Forked 4096 die_after_completion) = true /\
  ~ all_good die_after_completion.
Proof. split; [vm_compute; reflexivity | unfold all_good; vm_compute; intros [_ H]; discriminate]. Qed.

(* CGREEN_NO_FORK: a test that fails and then calls exit(0) ends the run with status 0 *)
Definition inproc_exit0 : node :=
  Sn (mksuite 0 false false) [Tn (mk 0 [Check false; Die (Exit 0)])].
Example inproc_exit0_refuted :
  exit_ok (run_suite rk_text verdict_suite InProcess 4096 inproc_exit0) = true /\ ~ all_good inproc_exit0.
Proof. split; [vm_compute; reflexivity | unfold all_good; vm_compute; intros [H _]; discriminate]. Qed.
