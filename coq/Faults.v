(* Faults.v — one failing system / library call on the result path of a test, on top of the
   runner model's read_results (Runner.v).  How each failing call is answered is the record
   `handling`, instantiated from the flags translated from the sources (Gen/Facts.v):
   src/messaging.c, src/posix_cgreen_pipe.c, src/reporter.c: setup_reporting,
   src/posix_runner_platform.c: in_child_process, the xml reporters' start_test.
   What the kernel does after a failed call is not modelled; `Undefined` stands for code that
   goes on with a value it must not use (queues[-1], a NULL FILE* ). *)
From Coq Require Import List ZArith Bool Arith.
From CgreenVerif Require Import Defs Runner.
From CgreenVerif.Gen Require Import Facts.
Import ListNotations.
Local Open Scope Z_scope.

Record handling := mkhandling {
  h_send_drops : bool;        (* send_cgreen_message() returns silently when its allocation fails *)
  h_open_strict : bool;       (* cgreen_pipe_open() reports the failure of either call *)
  h_msg_reports : bool;       (* start_cgreen_messaging() returns a negative handle *)
  h_setup_aborts : bool;      (* setup_reporting() ends the run on a negative handle *)
  h_fork_dies : bool;         (* in_child_process() ends the run when fork() fails *)
  h_tmpfile_stops : bool      (* the xml reporters end the run when tmpfile() fails *)
}.
Definition current_handling : handling :=
  mkhandling send_can_drop_silently pipe_open_reports_every_failure messaging_reports_pipe_failure
             setup_aborts_without_channel fork_failure_dies tmpfile_failure_stops_run.

Inductive fault :=
| FFork                   (* fork() for this test fails *)
| FPipe                   (* pipe() fails when the channel is set up *)
| FFcntlOpen              (* fcntl(O_NONBLOCK) fails when the channel is set up *)
| FTmpfile                (* tmpfile() for this test fails (xml reporters) *)
| FWrite (i : nat)        (* the test's process cannot write its record number i (0-based): it delivered i records *)
| FRead (j : nat)         (* the runner's read number j fails (fcntl, read or the allocation in receive): it saw j records *)
| FSendAlloc (i : nat).   (* the allocation for record number i fails in the test's process *)

Inductive foutcome :=
| RunAborted                           (* the run ends with failure status, nothing is reported as passed *)
| Undefined                            (* the code goes on with a value it must not use *)
| MayBlock (normal : list msg)         (* blocking channel: as normal up to its capacity, beyond it the writer waits for ever *)
| Seen (k : cnt) (st : rstatus).       (* what reporter_finish_test obtains for the test *)

Fixpoint drop_nth (i : nat) (m : list msg) : list msg :=
  match m, i with
  | [], _ => []
  | _ :: r, O => r
  | x :: r, S i' => x :: drop_nth i' r
  end.

Definition seen_of (p : list msg) : foutcome :=
  match read_results p czero false with (_, k, st) => Seen k st end.

(* m = the records the test's process produces when nothing fails (ending with the completion notice) *)
Definition under_fault (H : handling) (f : fault) (m : list msg) : foutcome :=
  match f with
  | FFork => if h_fork_dies H then RunAborted else Undefined
  | FPipe => if h_msg_reports H && h_setup_aborts H then RunAborted else Undefined
  | FFcntlOpen => if h_open_strict H then (if h_msg_reports H && h_setup_aborts H then RunAborted else Undefined)
                  else MayBlock m
  | FTmpfile => if h_tmpfile_stops H then RunAborted else Undefined
  | FWrite i => seen_of (firstn i m)            (* PANIC + SIGPIPE: the process is gone after i records *)
  | FRead j => seen_of (firstn j m)             (* receive returns 0: "nothing more to read" *)
  | FSendAlloc i => if h_send_drops H then seen_of (drop_nth i m) else seen_of m    (* no allocation: nothing to fail *)
  end.

(* the run cannot report success for this test: the run was aborted, or a failure was counted,
   or the test counts as an exception (no completion notice) *)
Definition not_success (o : foutcome) : bool :=
  match o with
  | RunAborted => true
  | Undefined => false
  | MayBlock _ => false
  | Seen k st => (0 <? failures k) || (0 <? exceptions k) || match st with NotReceived => true | _ => false end
  end.
