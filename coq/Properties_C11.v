(* C11 — XML reports are well-formed and complete for every run (xml reporter; the libxml2
   reporter's serialisation is libxml2's and is covered by the correspondence run only). *)
From Coq Require Import List NArith Bool.
From CgreenVerif Require Import Xml Lemmas_Xml.
Import ListNotations.
Local Open Scope N_scope.

(* whatever the text - XML metacharacters, '%' sequences, control bytes, non-ASCII bytes, any
   length - what the reporter puts between the quotes of an attribute is legal attribute
   content (no '<', no quote, every '&' starts one of the five predefined entities, every byte a
   character XML 1.0 allows) *)
Theorem C11_escaped_text_is_legal : forall s, att_legal (escape s).
Proof. exact escape_legal. Qed.
Print Assumptions C11_escaped_text_is_legal.

(* a failure message decodes to the text reported - to its first 999 bytes when it is longer -
   for every text without control characters (those XML 1.0 cannot carry: known finding);
   white-space normalisation by the parser is not modelled (known finding) *)
Theorem C11_message_decodes_to_text_or_prefix : forall text,
  forallb (fun c => negb (is_ctrl c)) text = true -> unescape (message_att text) = firstn 999 text.
Proof. exact message_decodes_to_prefix. Qed.
Print Assumptions C11_message_decodes_to_text_or_prefix.

(* the file written for a suite is the XML declaration followed by exactly one well-formed
   element, for every suite path, every number of tests, every test name, and per test every
   number of failures with any message and file name, skipped and error entries *)
Theorem C11_suite_document_well_formed : forall d path cases,
  Forall case_ok cases ->
  exists lead e, suite_doc d path cases = header ++ lead ++ e ++ [10] /\ forallb is_ws lead = true /\ wf_element e.
Proof. exact suite_doc_wf. Qed.
Print Assumptions C11_suite_document_well_formed.

(* each test is one testcase element carrying, in order, one element per item it produced *)
Theorem C11_one_testcase_per_test_with_its_items : forall c,
  case_node c = El n_testcase [(a_classname, join 47 (map escape (tc_class c))); (a_name, escape (tc_name c)); (a_time, tc_time c)]
                   (map item_node (tc_items c)) Block.
Proof. reflexivity. Qed.

(* as the escaping stood before the repair (2802955): a control byte went through unchanged *)
Example C11_control_byte_refuted_before_fix : ~ att_legal [1].
Proof.
  intros H. inversion H as [|c r Hp _|e r Hin _ E]; subst.
  - destruct Hp as (Hx & _). vm_compute in Hx. discriminate.
  - cbn in Hin. repeat (destruct Hin as [<-|Hin]; [discriminate|]). contradiction.
Qed.
