(* The path of one test through src/runner.c and src/posix_runner_platform.c, translated from the
   current source on every run (Gen/Code_runner.v, Gen/Code_platform.v) and run by the CLite
   interpreter.  These theorems tie the order of steps the runner model assumes (Runner.child_steps:
   reset, setup, body, teardown, mock tally; completion notice after them; verdict from the
   totals) to the code itself.  Statements only; proofs are in Lemmas_Code_Runner.v. *)
From Coq Require Import List ZArith String Bool.
From CgreenVerif Require Import CLite Runner Lemmas_Code_Runner.
From CgreenVerif.Gen Require Import Code_runner Code_platform.
Import ListNotations.
Local Open Scope string_scope. Local Open Scope list_scope. Local Open Scope Z_scope.

(* C08, C13: run_the_test_code() makes exactly these calls, in this order, whatever fixtures the
   suite and the context have and whether a time limit is set *)
Theorem Code_run_the_test_code_calls :
  forall hs ht cs ct td n,
    run_fun prog_runner (8 + n) "run_the_test_code" [VPtr 0 0; VPtr 1 0; VPtr 3 0]
            (test_world cs ct false (code_streams_v hs ht td (VFun "the limit"))) =
    Fine (VInt 0, mkw (heap (test_world cs ct false [])) []
                      (if td then spent_streams else unspent_timeout (VFun "the limit"))
                      (rev (test_code_calls_v hs ht cs ct td (VFun "the limit")))).
Proof. exact run_the_test_code_calls. Qed.
Print Assumptions Code_run_the_test_code_calls.

(* ... which are the phases of the model's child_steps: the suite's setup if it has one, otherwise the
   context's, once, before the body; the matching teardown once after it; then the mock tally *)
Theorem Code_calls_are_the_models_phases :
  forall hs ht cs ct td tv f,
    flat_map phase_of_call (test_code_calls_v hs ht cs ct td tv) =
    trace f (child_steps (mksuite 0 hs ht) (mktest 0 false cs ct [] [] [] None)).
Proof. exact calls_are_the_model_s_phases. Qed.
Print Assumptions Code_calls_are_the_models_phases.

(* C13: the per-test framework state is re-established before any fixture or test code runs *)
Theorem Code_reset_comes_first :
  forall hs ht cs ct td tv,
    firstn 3 (test_code_calls_v hs ht cs ct td tv) =
    [("significant_figures_for_assert_double_are", [VInt 8]); ("cgreen_mocks_are", [VInt 0]); ("clear_mocks", [])].
Proof. exact reset_comes_first. Qed.

(* C14: the limit handed to die_in() is the value of the environment variable, converted to unsigned *)
Theorem Code_limit_is_armed_with_the_value :
  forall tv n,
    run_fun prog_runner (8 + n) "run_the_test_code" [VPtr 0 0; VPtr 1 0; VPtr 3 0]
            (test_world false false false (code_streams_v false false true (VInt tv))) =
    Fine (VInt 0, mkw (heap (test_world false false false [])) [] spent_streams
                      (rev (test_code_calls_v false false false false true (VInt (wrap U32 tv))))).
Proof. exact run_the_test_code_limit_conversion. Qed.
Print Assumptions Code_limit_is_armed_with_the_value.

(* C08, C02: in the runner's own process a test is started, run (or only marked skipped), its
   completion notice sent after the mock tally, and finished - in this order *)
Theorem Code_run_test_in_the_current_process_calls :
  forall hs ht cs ct skip n,
    exists w',
      run_fun prog_runner (10 + n) "run_test_in_the_current_process" [VPtr 0 0; VPtr 1 0; VPtr 3 0]
              (test_world cs ct skip (inproc_streams hs ht)) = Fine (VInt 0, w') /\
      names_of (wtrace w') =
      ["cgreen_time_get_current_milliseconds"; "start_test"] ++
      (if skip then ["send_reporter_skipped_notification"]
       else map fst (test_code_calls_v hs ht cs ct false (VInt 0)) ++
            ["cgreen_time_get_current_milliseconds"; "cgreen_time_duration_in_milliseconds";
             "send_reporter_completion_notification"]) ++
      ["finish_test"].
Proof. exact run_test_in_the_current_process_calls. Qed.
Print Assumptions Code_run_test_in_the_current_process_calls.

(* C01, C14: the verdict functions as whole functions *)
Theorem Code_run_test_suite_verdict :
  forall tf te td n,
    exists w',
      run_fun prog_runner (5 + n) "run_test_suite" [VPtr 0 0; VPtr 1 0] (verdict_world tf te td) =
      Fine (VInt (if (tf =? 0) && (te =? 0) then 0 else 1), w') /\
      names_of (wtrace w') =
      ["per_test_timeout_defined"] ++ (if td then ["validate_per_test_timeout_value"] else []) ++
      ["setup_reporting"; "run_every_test"].
Proof. exact run_test_suite_verdict. Qed.
Print Assumptions Code_run_test_suite_verdict.

Theorem Code_run_single_test_verdict :
  forall tf te td n,
    exists w',
      run_fun prog_runner (5 + n) "run_single_test" [VPtr 0 0; VLit [116]; VPtr 1 0] (verdict_world tf te td) =
      Fine (VInt (if tf =? 0 then 0 else 1), w') /\
      names_of (wtrace w') =
      ["per_test_timeout_defined"] ++ (if td then ["validate_per_test_timeout_value"] else []) ++
      ["setup_reporting"; "run_named_test"].
Proof. exact run_single_test_verdict. Qed.

(* C19, C14: a failing fork() is answered by die(); die_in() installs the handler, then sets the alarm *)
Theorem Code_fork_failure_dies :
  forall n, exists w',
    run_fun prog_platform (3 + n) "in_child_process" [] (mkw [] [] [("fork", [VInt (-1)])] []) = Fine (VInt 0, w') /\
    names_of (wtrace w') = ["fflush"; "fork"; "die"].
Proof. exact in_child_process_fork_failure. Qed.

Theorem Code_in_child_process_result :
  forall n pid, pid >= 0 -> exists w',
    run_fun prog_platform (3 + n) "in_child_process" [] (mkw [] [] [("fork", [VInt pid])] []) =
      Fine (VInt (if pid =? 0 then 1 else 0), w') /\
    names_of (wtrace w') = ["fflush"; "fork"].
Proof. exact in_child_process_result. Qed.

Theorem Code_die_in_arms_the_alarm :
  forall n secs, exists w',
    run_fun prog_platform (3 + n) "die_in" [VInt secs] (mkw [] [("stderr", VInt 2)] [("signal", [VInt 0])] []) = Fine (VInt 0, w') /\
    rev (wtrace w') = [("signal", [VInt 14; VFun "stop_on_timeout"]); ("alarm", [VInt secs])].
Proof. exact die_in_arms_the_alarm. Qed.
Print Assumptions Code_die_in_arms_the_alarm.
