(* C01 — Run verdict is failure iff some test failed or ended abnormally.
   Statements only; proofs are in Lemmas_*.v. *)
From Coq Require Import List ZArith Bool.
From CgreenVerif Require Import Defs Runner Spec_Runner Lemmas_Runner Lemmas_Facts Lemmas_Props Examples_Runner.
From CgreenVerif.Gen Require Import Facts.
Import ListNotations.
Local Open Scope Z_scope.

(* For every built-in reporter (its counter handling is re-derived from source), every suite
   tree of any shape, forked or in-process, with the verdict expression re-derived from
   run_test_suite(): the status is success exactly when the specification's totals show no
   failure and no exception. *)
Theorem C01_verdict_iff :
  forall rk m cap n,
    In rk builtin_reporters -> (1 <= cap)%nat -> is_suite n -> ok_tree m cap n ->
    (exit_ok (run_suite rk verdict_suite m cap n) = true <-> all_good n).
Proof. exact (fun rk m cap n Hrk => verdict_iff rk m cap n (builtin_rk_folds rk Hrk)). Qed.
Print Assumptions C01_verdict_iff.

(* ... and those totals show none exactly when no test of the tree, run alone, has a failing
   check or ends abnormally. *)
Theorem C01_all_good_means_every_test :
  forall n, all_good n <->
            forall s t, In (s, t) (tests_of n) -> failures (own s t) = 0 /\ exceptions (own s t) = 0.
Proof. exact all_good_each. Qed.
Print Assumptions C01_all_good_means_every_test.

(* the verdict expressions as they stand in src/runner.c *)
Theorem C01_verdict_expression :
  forall tp tf ts te, verdict_suite tp tf ts te = true <-> tf = 0 /\ te = 0.
Proof. exact verdict_suite_spec. Qed.
Print Assumptions C01_verdict_expression.

Theorem C01_reporters_fold_all_counters : forall rk, In rk builtin_reporters -> rk_folds rk.
Proof. exact builtin_rk_folds. Qed.
Print Assumptions C01_reporters_fold_all_counters.

(* non-vacuity and the corners outside the premises (see known_findings.txt) *)
Theorem C01_example_premises_hold : ok_tree Forked 4096 ex_tree /\ is_suite ex_tree /\ unique_names ex_tree.
Proof. exact ex_tree_ok. Qed.
Theorem C01_skip_then_die_refuted :
  exit_ok (run_suite rk_text verdict_suite Forked 4096 skip_then_die) = true /\ ~ all_good skip_then_die.
Proof. exact skip_then_die_refuted. Qed.
Theorem C01_die_after_completion_refuted :
  exit_ok (run_suite rk_text verdict_suite Forked 4096 die_after_completion) = true /\ ~ all_good die_after_completion.
Proof. exact die_after_completion_refuted. Qed.
Theorem C01_inproc_exit0_refuted :
  exit_ok (run_suite rk_text verdict_suite InProcess 4096 inproc_exit0) = true /\ ~ all_good inproc_exit0.
Proof. exact inproc_exit0_refuted. Qed.
