(* Examples_Doubles.v — non-vacuity examples for C15 (computed inside Coq on concrete doubles). *)
From Coq Require Import ZArith Bool.
From Flocq Require Import Core BinarySingleNaN.
From CgreenVerif Require Import Defs Doubles Lemmas_Doubles.
Local Open Scope Z_scope.

(* 1.0 = 0x3ff0000000000000, 1.0 + 2^-52 = 0x3ff0000000000001, 2.0 = 0x4000000000000000; a tolerance of 1e-7 = 0x3e7ad7f29abcaf48 *)
Example finite_operands : is_finite (of_bits 4607182418800017408) = true /\ is_finite (of_bits 4611686018427387904) = true.
Proof. split; vm_compute; reflexivity. Qed.
Example neighbours_equal : eq_bits 4502148214488346440 8 4607182418800017408 4607182418800017409 = true.
Proof. vm_compute. reflexivity. Qed.
Example one_two_differ : eq_bits 4502148214488346440 8 4607182418800017408 4611686018427387904 = false.
Proof. vm_compute. reflexivity. Qed.
Example one_less_than_two : lesser_bits 4502148214488346440 8 4611686018427387904 4607182418800017408 = true.
Proof. vm_compute. reflexivity. Qed.
Example tolerance_is_nonneg : tol_nonneg (of_bits 4502148214488346440).
Proof. right. split; vm_compute; reflexivity. Qed.
