(* C07 — A strict-mock test passes exactly when calls made match calls declared. *)
From Coq Require Import List ZArith Bool.
From CgreenVerif Require Import Defs Mocks Lemmas_Mocks Lemmas_Facts Examples_Mocks.
From CgreenVerif.Gen Require Import Facts.
Import ListNotations.
Local Open Scope Z_scope.

(* A test passes (no failing check, during calls or in the end-of-test tally) exactly when,
   for every mocked function, that function's own history - its declarations and calls in
   order, on its own machine - passes. *)
Theorem C07_pass_iff_every_function_conforms :
  forall ops,
    all_ok (snd (mrun unlimited_ttl ms_init ops)) <->
    forall f, all_ok (snd (mrun unlimited_ttl ms_init (ops_of f ops))).
Proof. exact (pass_iff_every_function_passes unlimited_ttl unlimited_pos). Qed.
Print Assumptions C07_pass_iff_every_function_conforms.

(* the end-of-test sweep, entry by entry *)
Theorem C07_tally_always_yields_nothing :
  forall e, is_always unlimited_ttl e = true -> tally_entry unlimited_ttl e = [].
Proof. exact (tally_always unlimited_ttl). Qed.
Theorem C07_tally_never_honoured_is_a_pass :
  forall e, is_always unlimited_ttl e = false -> is_never unlimited_ttl e = true -> entrig e = 0 ->
            tally_entry unlimited_ttl e = [mkres (efn e) (eline e) true 8].
Proof. exact (tally_never_honoured unlimited_ttl). Qed.
Theorem C07_tally_never_violated_yields_nothing_more :
  forall e, is_always unlimited_ttl e = false -> is_never unlimited_ttl e = true -> entrig e <> 0 ->
            tally_entry unlimited_ttl e = [].
Proof. exact (tally_never_violated unlimited_ttl). Qed.
Theorem C07_tally_unmet_expectation_is_one_failure :
  forall e, is_always unlimited_ttl e = false -> is_never unlimited_ttl e = false -> has_times e = [] ->
            tally_entry unlimited_ttl e = [mkres (efn e) (eline e) false 10].
Proof. exact (tally_plain_unmet unlimited_ttl). Qed.
Theorem C07_tally_counted_expectation_is_one_check :
  forall e n, is_always unlimited_ttl e = false -> is_never unlimited_ttl e = false -> has_times e = [CTimes n] ->
              tally_entry unlimited_ttl e = [mkres (efn e) (eline e) (encalled e =? n) 9].
Proof. exact (tally_counted unlimited_ttl). Qed.
Print Assumptions C07_tally_counted_expectation_is_one_check.

(* what the tally reports is the concatenation over the queue, in declaration order *)
Theorem C07_tally_is_entrywise :
  forall s, snd (fst (mstep unlimited_ttl s MTally)) = flat_map (tally_entry unlimited_ttl) (queue s).
Proof. exact (tally_is_flat_map unlimited_ttl). Qed.

(* a violated never_expect: one failure per offending call, the call returns 0 *)
Theorem C07_violated_never :
  forall s f e rest args,
    abs (queue s) f = e :: rest -> is_never unlimited_ttl e = true ->
    snd (fst (mstep unlimited_ttl s (MCall f args))) = [mkres f (eline e) false 3] /\
    snd (mstep unlimited_ttl s (MCall f args)) = 0.
Proof. exact (call_violates_never unlimited_ttl). Qed.
Print Assumptions C07_violated_never.

(* a call with no pending expectation: strict - exactly one failure; loose, learning -
   nothing; it returns 0 and changes nothing *)
Theorem C07_call_without_expectation :
  forall s f args,
    abs (queue s) f = [] ->
    mstep unlimited_ttl s (MCall f args) =
    (s, match mmode_ s with
        | MStrict => [mkres f 0 false (if existsb (Nat.eqb f) (succ s) then 5 else 4)]
        | _ => []
        end, 0).
Proof. exact (call_without_expectation unlimited_ttl). Qed.
Print Assumptions C07_call_without_expectation.

(* times(0) is "never" (after the repair recorded in known_findings.txt); the model's rule *)
Theorem C07_times_zero_means_never :
  forall cs n, times_of cs = Some n -> n <= 0 -> expect_ttl unlimited_ttl cs = - unlimited_ttl.
Proof.
  intros cs n H Hn. unfold expect_ttl. rewrite H.
  destruct (n <=? 0) eqn:E; [reflexivity | apply Z.leb_gt in E; exfalso; apply (Z.lt_irrefl 0); apply (Z.lt_le_trans 0 n 0); assumption].
Qed.

(* non-vacuity, and the sentinel corner (known finding) *)
Theorem C07_example_passes : all_ok (snd (mrun unlimited_ttl ms_init ex_ops)).
Proof. exact ex_all_ok. Qed.
Theorem C07_times_sentinel_is_always_refuted :
  snd (mrun unlimited_ttl ms_init [MExpect 0 1 [CTimes unlimited_ttl]; MTally]) = [([], 0); ([], 0)].
Proof. exact times_sentinel_is_always_refuted. Qed.
