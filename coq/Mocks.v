(* Mocks.v — executable model of cgreen's mock engine (src/mocks.c): one global queue of
   recorded expectations, expect_/always_expect_/never_expect_, mock_, tally_mocks,
   clear_mocks, the mock mode.  No proofs here.  Function and parameter names and source
   lines are numbers (the harness uses the declaration index as the line). *)
From Coq Require Import List ZArith Bool Lia.
From CgreenVerif Require Import Defs.
Import ListNotations.
Local Open Scope Z_scope.

(* constraints of an expectation, in declaration order *)
Inductive mcon :=
| CParam (name : nat) (expected : Z)     (* when(name, is_equal_to(expected)) *)
| CTimes (n : Z)                          (* times(n) *)
| CRet (v : Z).                           (* will_return(v) *)

Record mexp := mkexp {
  efn : nat;
  eline : nat;
  ettl : Z;               (* time_to_live *)
  econs : list mcon;
  encalled : Z;           (* number_times_called *)
  entrig : Z              (* times_triggered *)
}.

Inductive mockmode := MStrict | MLoose | MLearning.

Record mstate := mkms {
  queue : list mexp;                (* global_expectation_queue, oldest first *)
  mmode_ : mockmode;                (* cgreen_mocks_are_ *)
  succ : list nat                   (* successfully_mocked_calls *)
}.
Definition ms_init := mkms [] MStrict [].

Inductive mop :=
| MExpect (f line : nat) (cs : list mcon)
| MAlways (f line : nat) (cs : list mcon)
| MNever (f line : nat) (cs : list mcon)
| MCall (f : nat) (args : list (nat * Z))       (* named actuals, positional *)
| MSetMode (m : mockmode)
| MTally
| MClear.

(* a reported check: where (declaration line; 0 = the test's own line) and whether it passed *)
Record mres := mkres { rfn : nat; rline : nat; rok : bool; rkind : nat }.
(* rfn: the mocked function the check is about (not printed by cgreen; the harness knows it
   from the declaration line) *)
(* rkind: 1 invalid-after-always, 2 invalid-after-never, 3 violated never, 4 unexpected call,
   5 called too many times, 6 unknown parameter, 7 parameter check, 8 never honoured,
   9 times check, 10 expected call not made *)

Section Engine.
Variable UNLIMITED : Z.    (* UNLIMITED_TIME_TO_LIVE, regenerated from source *)

Definition is_always (e : mexp) : bool := ettl e =? UNLIMITED.
Definition is_never (e : mexp) : bool := ettl e =? - UNLIMITED.
Definition for_fn (f : nat) (e : mexp) : bool := Nat.eqb (efn e) f.

Definition have_always (q : list mexp) (f : nat) : bool := existsb (fun e => for_fn f e && is_always e) q.
Definition have_never (q : list mexp) (f : nat) : bool := existsb (fun e => for_fn f e && is_never e) q.

(* find_expectation(): the first entry for the function *)
Fixpoint find_exp (q : list mexp) (f : nat) : option mexp :=
  match q with
  | [] => None
  | e :: q' => if for_fn f e then Some e else find_exp q' f
  end.

(* remove_expectation_for(): removes the first entry for the function *)
Fixpoint remove_first (q : list mexp) (f : nat) : list mexp :=
  match q with
  | [] => []
  | e :: q' => if for_fn f e then q' else e :: remove_first q' f
  end.

(* replace the first entry for the function *)
Fixpoint update_first (q : list mexp) (f : nat) (e' : mexp) : list mexp :=
  match q with
  | [] => []
  | e :: q' => if for_fn f e then e' :: q' else e :: update_first q' f e'
  end.

(* remove_never_call_expectation_for(): the loop removes at index i and then advances, so
   the entry that slides into position i is not examined *)
Fixpoint remove_never (q : list mexp) (f : nat) : list mexp :=
  match q with
  | [] => []
  | e :: q' =>
      if for_fn f e && is_never e
      then match q' with
           | [] => []
           | e2 :: q'' => e2 :: remove_never q'' f
           end
      else e :: remove_never q' f
  end.

Definition times_of (cs : list mcon) : option Z :=
  match find (fun c => match c with CTimes _ => true | _ => false end) cs with
  | Some (CTimes n) => Some n
  | _ => None
  end.

Definition ret_of (cs : list mcon) : Z :=
  match find (fun c => match c with CRet _ => true | _ => false end) cs with
  | Some (CRet v) => v
  | _ => 0
  end.

(* the common head of expect_/always_expect_/never_expect_ *)
Definition declare (s : mstate) (f line : nat) (cs : list mcon) (ttl : Z) : mstate * list mres :=
  if have_always (queue s) f then (s, [mkres f line false 1])
  else if have_never (queue s) f then
    (mkms (remove_never (queue s) f) (mmode_ s) (succ s), [mkres f line false 2])
  else
    (mkms (queue s ++ [mkexp f line ttl cs 0 0]) (mmode_ s) (succ s), []).

(* time_to_live of a plain expectation: 1, or n for times(n); times(0) is "never" *)
Definition expect_ttl (cs : list mcon) : Z :=
  match times_of cs with
  | Some n => if n <=? 0 then - UNLIMITED else n
  | None => 1
  end.

Definition bump_called (cs : list mcon) (n : Z) : Z :=
  n + Z.of_nat (length (filter (fun c => match c with CTimes _ => true | _ => false end) cs)).

(* first loop of mock_(): the first parameter constraint whose name is not an argument *)
Fixpoint unknown_param (cs : list mcon) (names : list nat) : option (nat * list mcon) :=
  match cs with
  | [] => None
  | CParam p _ :: cs' =>
      if existsb (Nat.eqb p) names then
        match unknown_param cs' names with Some (x, seen) => Some (x, CParam p 0 :: seen) | None => None end
      else Some (p, [])
  | c :: cs' =>
      match unknown_param cs' names with Some (x, seen) => Some (x, c :: seen) | None => None end
  end.

(* parameter checks: for each actual, in order, every constraint naming it, in order *)
Definition param_results (f line : nat) (cs : list mcon) (args : list (nat * Z)) : list mres :=
  flat_map (fun a => flat_map (fun c => match c with
                                        | CParam p ex => if Nat.eqb p (fst a) then [mkres f line (snd a =? ex) 7] else []
                                        | _ => [] end) cs) args.

(* destroy_expectation_if_time_to_die() on the first entry for f, after it has been updated *)
Definition after_use (q : list mexp) (f : nat) (e : mexp) : list mexp :=
  if is_always e then update_first q f e
  else let e' := mkexp (efn e) (eline e) (ettl e - 1) (econs e) (encalled e) (entrig e) in
       if ettl e' <=? 0 then remove_first q f else update_first q f e'.

Definition mstep (s : mstate) (o : mop) : mstate * list mres * Z :=
  match o with
  | MExpect f line cs => let '(s', r) := declare s f line cs (expect_ttl cs) in (s', r, 0)
  | MAlways f line cs => let '(s', r) := declare s f line cs UNLIMITED in (s', r, 0)
  | MNever f line cs => let '(s', r) := declare s f line cs (- UNLIMITED) in (s', r, 0)
  | MSetMode m => (mkms (queue s) m (succ s), [], 0)
  | MClear => (mkms [] (mmode_ s) [], [], 0)
  | MCall f args =>
      match find_exp (queue s) f with
      | None =>
          (s, match mmode_ s with
              | MStrict => [mkres f 0 false (if existsb (Nat.eqb f) (succ s) then 5 else 4)]
              | _ => []
              end, 0)
      | Some e =>
          if is_never e then
            (mkms (update_first (queue s) f (mkexp (efn e) (eline e) (ettl e) (econs e) (encalled e) (entrig e + 1)))
                  (mmode_ s) (succ s),
             [mkres f (eline e) false 3], 0)
          else
            let s1 := f :: succ s in
            let names := map fst args in
            match unknown_param (econs e) names with
            | Some (p, seen) =>
                (* counters seen before the offending constraint have been incremented *)
                let e1 := mkexp (efn e) (eline e) (ettl e) (econs e) (bump_called seen (encalled e)) (entrig e) in
                (mkms (after_use (queue s) f e1) (mmode_ s) s1, [mkres f (eline e) false 6], ret_of (econs e))
            | None =>
                let e1 := mkexp (efn e) (eline e) (ettl e) (econs e) (bump_called (econs e) (encalled e)) (entrig e + 1) in
                (mkms (after_use (queue s) f e1) (mmode_ s) s1,
                 param_results f (eline e) (econs e) args, ret_of (econs e))
            end
      end
  | MTally =>
      (mkms [] (mmode_ s) [],
       flat_map (fun e =>
                   if is_always e then []
                   else if is_never e then (if entrig e =? 0 then [mkres (efn e) (eline e) true 8] else [])
                   else match filter (fun c => match c with CTimes _ => true | _ => false end) (econs e) with
                        | [] => [mkres (efn e) (eline e) false 10]
                        | ts => map (fun c => match c with
                                              | CTimes n => mkres (efn e) (eline e) (encalled e =? n) 9
                                              | _ => mkres (efn e) (eline e) false 9 end) ts
                        end) (queue s), 0)
  end.

Fixpoint mrun (s : mstate) (ops : list mop) : mstate * list (list mres * Z) :=
  match ops with
  | [] => (s, [])
  | o :: ops' =>
      let '(s1, r, v) := mstep s o in
      let '(s2, rs) := mrun s1 ops' in
      (s2, (r, v) :: rs)
  end.

End Engine.
