(* Lemmas_Code_Cute.v - the CUTE reporter's per-test functions (src/cute_reporter.c: cute_start_test,
   cute_finish_test, cute_failed_to_complete), translated from the current source into the same program as
   the base reporter's (Gen/Code_reporter.v): the "#success" line is printed exactly when the test is
   credited no failure and no exception - Runner.finish_test's `clean` flag - for every content of the
   result pipe. *)
From Coq Require Import List ZArith String Bool Lia.
From CgreenVerif Require Import CLite Lemmas_CLite Runner Lemmas_Code_Reporter.
From CgreenVerif.Gen Require Import Code_reporter.
Import ListNotations.
Local Open Scope string_scope. Local Open Scope list_scope. Local Open Scope Z_scope.

(* the CuteMemo object: object 1 of the heap *)
Definition memo_obj (ec pe : Z) : obj :=
  ORec [("printer", VFun "printf"); ("vprinter", VFun "vprintf"); ("error_count", VInt ec); ("previous_error", VInt pe)].
Definition cute_extra (extra : list (string * val)) : list (string * val) := rep_extra (("memo", VPtr 1 0) :: extra).
Definition cw (ec pe : Z) (k : cnt) extra (pipe : list msg) (tr : list (string * list val)) : world :=
  rwt [memo_obj ec pe] k (cute_extra extra) pipe tr.

Definition starting_fmt : list Z := [35; 115; 116; 97; 114; 116; 105; 110; 103; 32; 37; 115; 10].          (* "#starting %s\n" *)
Definition success_fmt : list Z := [35; 115; 117; 99; 99; 101; 115; 115; 32; 37; 115; 32; 79; 75; 10].       (* "#success %s OK\n" *)
Definition error_fmt : list Z :=                                                                             (* "#error %s failed to complete\n" *)
  [35; 101; 114; 114; 111; 114; 32; 37; 115; 32; 102; 97; 105; 108; 101; 100; 32; 116; 111; 32; 99; 111; 109; 112; 108; 101; 116; 101; 10].

(* cute_start_test(): remembers failures + exceptions as they are now, clears previous_error, pushes the
   name on the breadcrumb, prints the "#starting" line *)
Theorem cute_start_test_refines :
  forall ec pe k extra pipe tr n name,
    (2 <= n)%nat -> -2147483648 <= failures k + exceptions k <= 2147483647 ->
    run_fun prog_reporter n "cute_start_test" [VPtr 0 0; name] (cw ec pe k extra pipe tr) =
    Fine (VInt 0, cw (failures k + exceptions k) 0 k extra pipe
                     (("printf", [VLit starting_fmt; name]) :: ("push_breadcrumb", [VInt 77; name]) :: tr)).
Proof.
  intros ec pe k extra pipe tr n name Hn Hr. destruct n as [|[|n]]; try lia.
  destruct k as [p f s e]. cbn [failures exceptions] in *.
  unfold run_fun, find_fun. cbn [alookup prog_reporter String.eqb Ascii.eqb Bool.eqb].
  unfold mk_call at 1. unfold find_fun. cbn [alookup prog_reporter String.eqb Ascii.eqb Bool.eqb].
  cbn [bind_params fparams fbody code_cute_start_test].
  unfold cw, rwt, rep_obj, cute_extra, rep_extra, memo_obj. cbn [passes failures skips exceptions].
  srun prog_reporter.
  rewrite (in_range_I32 (f + e)) by lia. srun prog_reporter.
  unfold mk_call at 1. unfold find_fun. cbn [alookup prog_reporter String.eqb Ascii.eqb Bool.eqb].
  cbn [bind_params fparams fbody code_reporter_start_test].
  srun prog_reporter. reflexivity.
Qed.

(* reporter_finish_test() as a call inside another function of the program *)
Lemma call_reporter_finish_test :
  forall tl pipe k extra tr n file line message,
    (List.length pipe + 1 < n)%nat -> bounded k (List.length pipe + 1) ->
    exists tr1,
      Forall is_recv tr1 /\
      mk_call prog_reporter (cexec prog_reporter n) "reporter_finish_test" [VPtr 0 0; file; line; message] (rwt tl k (rep_extra extra) pipe tr) =
      (let '(rest, k1, st) := read_results pipe k false in
       match st with
       | Received =>
           Fine (VInt 0, rwt tl k1 (rep_extra extra) rest ([("pop_breadcrumb", [VInt 77])] ++ tr1 ++ tr))
       | Skipped =>
           Fine (VInt 0, rwt tl k1 (rep_extra extra) rest
                          ([("pop_breadcrumb", [VInt 77]); ("show_skip", [VPtr 0 0; file; line])] ++ tr1 ++ tr))
       | NotReceived =>
           Fine (VInt 0, rwt tl (cadd k1 (mkcnt 0 0 0 1)) (rep_extra extra) rest
                          ([("pop_breadcrumb", [VInt 77]);
                            ("show_incomplete", [VPtr 0 0; file; line; message; VInt 0]);
                            ("memset", [VInt 0; VInt 0; VInt 24])] ++ tr1 ++ tr))
       end).
Proof.
  intros tl pipe k extra tr n file line message Hn Hb.
  destruct (reporter_finish_test_refines tl pipe k extra tr n file line message Hn Hb) as (tr1 & Hr & H).
  exists tr1. split; [exact Hr|]. exact H.
Qed.

(* the counters after reporter_finish_test() *)
Definition after_finish (pipe : list msg) (k : cnt) : cnt :=
  let '(_, k1, st) := read_results pipe k false in
  match st with NotReceived => cadd k1 (mkcnt 0 0 0 1) | _ => k1 end.
(* what it tells its reporter (newest first), besides reading the pipe *)
Definition finish_events (st : rstatus) (file line message : val) : list (string * list val) :=
  match st with
  | Received => [("pop_breadcrumb", [VInt 77])]
  | Skipped => [("pop_breadcrumb", [VInt 77]); ("show_skip", [VPtr 0 0; file; line])]
  | NotReceived => [("pop_breadcrumb", [VInt 77]); ("show_incomplete", [VPtr 0 0; file; line; message; VInt 0]);
                    ("memset", [VInt 0; VInt 0; VInt 24])]
  end.

Lemma read_results_fe_bound : forall p k sk,
  let k1 := snd (fst (read_results p k sk)) in
  failures k <= failures k1 /\ exceptions k <= exceptions k1 /\
  failures k1 + exceptions k1 <= failures k + exceptions k + Z.of_nat (List.length p).
Proof.
  induction p as [|m p IH]; intros k sk.
  - cbn [read_results fst snd List.length]. lia.
  - assert (HS : Z.of_nat (List.length (m :: p)) = Z.of_nat (List.length p) + 1) by (cbn [List.length]; lia).
    rewrite HS. destruct m; cbn [read_results].
    + specialize (IH (cadd k (mkcnt 1 0 0 0)) sk). cbn [cadd failures exceptions] in IH. cbn zeta in *. lia.
    + specialize (IH (cadd k (mkcnt 0 1 0 0)) sk). cbn [cadd failures exceptions] in IH. cbn zeta in *. lia.
    + destruct sk.
      * specialize (IH k true). cbn zeta in *. lia.
      * specialize (IH (cadd k (mkcnt 0 0 1 0)) true). cbn [cadd failures exceptions] in IH. cbn zeta in *. lia.
    + cbn [fst snd]. lia.
    + specialize (IH (cadd k (mkcnt 0 0 0 1)) sk). cbn [cadd failures exceptions] in IH. cbn zeta in *. lia.
Qed.

(* cute_finish_test(): the base's finish_test, then "#success" exactly when failures + exceptions are what
   cute_start_test() remembered *)
Theorem cute_finish_test_refines :
  forall ec pe pipe k extra tr n file line message,
    (List.length pipe + 2 < n)%nat -> bounded k (List.length pipe + 1) ->
    failures k + exceptions k + Z.of_nat (List.length pipe) + 1 <= 2147483647 ->
    exists tr1,
      Forall is_recv tr1 /\
      run_fun prog_reporter n "cute_finish_test" [VPtr 0 0; file; line; message] (cw ec pe k extra pipe tr) =
      (let k2 := after_finish pipe k in
       let st := snd (read_results pipe k false) in
       let rest := fst (fst (read_results pipe k false)) in
       Fine (VInt 0, cw ec pe k2 extra rest
                        ((if ec =? failures k2 + exceptions k2 then [("printf", [VLit success_fmt; VInt 0])] else []) ++
                         finish_events st file line message ++ tr1 ++
                         ("get_current_from_breadcrumb", [VInt 77]) :: tr))).
Proof.
  intros ec pe pipe k extra tr n file line message Hn Hb Hsum.
  destruct n as [|n]; [lia|].
  destruct (call_reporter_finish_test [memo_obj ec pe] pipe k (("memo", VPtr 1 0) :: extra)
              (("get_current_from_breadcrumb", [VInt 77]) :: tr) n file line message ltac:(lia) Hb) as (tr1 & Hr & HC).
  exists tr1. split; [exact Hr|].
  pose proof (read_results_fe_bound pipe k false) as Hex. cbn zeta in Hex.
  unfold after_finish.
  unfold run_fun, find_fun. cbn [alookup prog_reporter String.eqb Ascii.eqb Bool.eqb].
  unfold mk_call at 1. unfold find_fun. cbn [alookup prog_reporter String.eqb Ascii.eqb Bool.eqb].
  cbn [bind_params fparams fbody code_cute_finish_test].
  unfold cw at 1. unfold rwt at 1. unfold rep_obj, cute_extra, rep_extra at 1.
  destruct k as [p f s e]. cbn [passes failures skips exceptions].
  srun prog_reporter.
  match goal with |- context [mk_call _ _ "reporter_finish_test" _ ?w] =>
    change w with (rwt [memo_obj ec pe] (mkcnt p f s e) (rep_extra (("memo", VPtr 1 0) :: extra)) pipe
                       (("get_current_from_breadcrumb", [VInt 77]) :: tr)) end.
  rewrite HC. clear HC.
  destruct (read_results pipe (mkcnt p f s e) false) as [[rest k1] st]. cbn [fst snd] in *.
  destruct k1 as [p1 f1 s1 e1]. cbn [failures exceptions] in Hex.
  unfold bounded in Hb. cbn [passes failures skips exceptions] in Hb, Hsum.
  destruct st; cbn [finish_events]; unfold cw, rwt, rep_obj, cute_extra, rep_extra, memo_obj;
    cbn [passes failures skips exceptions cadd]; srun prog_reporter.
  all: match goal with |- context [in_range I32 ?z] => rewrite (in_range_I32 z) by lia end; srun prog_reporter.
  all: match goal with |- context [Z.eqb ?a ?z] => destruct (Z.eqb a z) eqn:Heq end; srun prog_reporter.
  all: try reflexivity.
Qed.

(* cute_failed_to_complete() - the reporter's show_incomplete - prints one "#error" line naming the test on
   top of the breadcrumb; nothing else happens *)
Theorem cute_failed_to_complete_refines :
  forall ec pe k extra pipe tr n file line message args,
    (1 <= n)%nat ->
    run_fun prog_reporter n "cute_failed_to_complete" [VPtr 0 0; file; line; message; args] (cw ec pe k extra pipe tr) =
    Fine (VInt 0, cw ec pe k extra pipe
                     (("printf", [VLit error_fmt; VInt 0]) :: ("get_current_from_breadcrumb", [VInt 77]) :: tr)).
Proof.
  intros ec pe k extra pipe tr n file line message args Hn. destruct n as [|n]; [lia|].
  destruct k as [p f s e].
  unfold run_fun, find_fun. cbn [alookup prog_reporter String.eqb Ascii.eqb Bool.eqb].
  unfold mk_call at 1. unfold find_fun. cbn [alookup prog_reporter String.eqb Ascii.eqb Bool.eqb].
  cbn [bind_params fparams fbody code_cute_failed_to_complete].
  unfold cw, rwt, rep_obj, cute_extra, rep_extra, memo_obj. cbn [passes failures skips exceptions].
  srun prog_reporter. reflexivity.
Qed.

(* ---- the link to the runner model ---- *)
(* the counters after reporter_finish_test() are base_finish_test's *)
Lemma after_finish_is_base_finish_test sig (p : pstate) :
  c (base_finish_test sig p) = after_finish (pipe p) (c p).
Proof.
  unfold base_finish_test, after_finish.
  destruct (read_results (pipe p) (c p) false) as [[rest k1] st]. destruct st; reflexivity.
Qed.

(* the comparison cute_finish_test() makes - failures + exceptions now against their sum at cute_start_test() -
   is Runner.finish_test's `clean` flag: no failure and no exception credited to the test *)
Theorem cute_success_is_clean :
  forall pipe k,
    let k2 := after_finish pipe k in
    let d := csub k2 k in
    (failures k + exceptions k =? failures k2 + exceptions k2) = ((failures d =? 0) && (exceptions d =? 0)).
Proof.
  intros pipe k. cbn zeta. unfold after_finish.
  pose proof (read_results_fe_bound pipe k false) as H. cbn zeta in H.
  destruct (read_results pipe k false) as [[rest k1] st]. cbn [fst snd] in H.
  destruct k as [p f s e], k1 as [p1 f1 s1 e1]. cbn [failures exceptions] in H.
  destruct st; unfold csub, cadd; cbn [passes failures skips exceptions].
  all: match goal with |- (?a =? ?b) = ((?x =? 0) && (?y =? 0)) =>
         destruct (Z.eqb_spec a b), (Z.eqb_spec x 0), (Z.eqb_spec y 0); cbn [andb]; try reflexivity; exfalso; lia end.
Qed.
