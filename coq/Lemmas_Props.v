(* Lemmas_Props.v — corollaries of the refinement theorem from which the property files
   (Properties_C01 ... ) are stated. *)
From Coq Require Import List ZArith Bool Lia.
From CgreenVerif Require Import Defs Runner Spec_Runner Lemmas_Runner Lemmas_Facts.
From CgreenVerif.Gen Require Import Facts.
Import ListNotations.
Local Open Scope Z_scope.

Lemma good_init : good p_init.  Proof. split; reflexivity. Qed.

(* a whole run, either mode, any reporter that folds all counters *)
Lemma run_suite_spec rk vexpr m cap n :
  rk_folds rk -> (1 <= cap)%nat -> is_suite n -> ok_tree m cap n ->
  exists f',
    run_suite rk vexpr m cap n =
    Finished (vexpr (passes (total n)) (failures (total n)) (skips (total n)) (exceptions (total n)))
             (mkp (node_c n) (total n) [] [] f' (spec_events [] czero n)).
Proof.
  intros Hrk Hcap Hs Hok.
  destruct (run_node_spec rk m cap Hrk Hcap n Hs p_init Hok good_init) as (f' & _ & H).
  exists f'. unfold run_suite. rewrite H. unfold verdict_of. cbn [tot p_init c crumb pipe pfw out].
  rewrite cadd_zero_l, app_nil_r. reflexivity.
Qed.

(* ------------------------------------------------------------------------------------ *)
(* non-negativity and sums *)
Lemma count_msgs_nonneg m :
  0 <= passes (count_msgs m) /\ 0 <= failures (count_msgs m) /\ 0 <= exceptions (count_msgs m).
Proof.
  induction m as [|x m IH]; [cbn; lia|]. rewrite count_msgs_cons.
  destruct x; unfold cadd; cbn [passes failures skips exceptions]; lia.
Qed.

Lemma own_nonneg s t :
  0 <= passes (own s t) /\ 0 <= failures (own s t) /\ 0 <= skips (own s t) /\ 0 <= exceptions (own s t).
Proof.
  rewrite own_eq. destruct (tskip t); [cbn; lia|].
  pose proof (count_msgs_nonneg (own_msgs s t)) as (H1 & H2 & H3).
  cbn [passes failures skips exceptions].
  destruct (has_skip (own_msgs s t)), (abnormal (own_msgs s t) (own_death s t)); lia.
Qed.

Definition own_list (n : node) : list cnt := map (fun st => own (fst st) (snd st)) (tests_of n).

Lemma sum_cnt_app l1 l2 : sum_cnt (l1 ++ l2) = cadd (sum_cnt l1) (sum_cnt l2).
Proof.
  induction l1 as [|x l1 IH]; cbn [app sum_cnt fold_right]; [rewrite cadd_zero_l; reflexivity|].
  fold (sum_cnt (l1 ++ l2)). fold (sum_cnt l1). rewrite IH, cadd_assoc. reflexivity.
Qed.

(* the specification's total is the sum of what each test does when run alone *)
Lemma total_is_sum : forall n, total n = sum_cnt (own_list n).
Proof.
  induction n as [t|s ch IH] using node_ind'.
  - unfold own_list. cbn. rewrite cadd_zero_r. reflexivity.
  - cbn [total]. unfold own_list. cbn [tests_of].
    induction ch as [|n ch IHch]; [reflexivity|].
    apply Forall_cons_iff in IH; destruct IH as [Hn Hch]. specialize (IHch Hch).
    cbn [subs_total direct_sum flat_map]. rewrite map_app, sum_cnt_app.
    destruct n as [t|s' ch'].
    + cbn [map sum_cnt fold_right fst snd]. rewrite <- IHch. cnt.
    + rewrite Hn. unfold own_list. rewrite <- IHch. cnt.
Qed.

Lemma sum_zero_iff (proj : cnt -> Z) (l : list cnt) :
  (forall a b, proj (cadd a b) = proj a + proj b) -> proj czero = 0 ->
  (forall x, In x l -> 0 <= proj x) ->
  (proj (sum_cnt l) = 0 <-> forall x, In x l -> proj x = 0).
Proof.
  intros Hadd Hz. induction l as [|x l IH]; intros Hnn.
  - cbn. split; [intros _ x []| intros _; exact Hz].
  - cbn [sum_cnt fold_right]. fold (sum_cnt l). rewrite Hadd.
    assert (Hl : forall y, In y l -> 0 <= proj y) by (intros y Hy; apply Hnn; right; exact Hy).
    assert (Hs : 0 <= proj (sum_cnt l)).
    { clear IH. induction l as [|y l IHl]; [cbn; rewrite Hz; lia|].
      cbn [sum_cnt fold_right]. fold (sum_cnt l). rewrite Hadd.
      assert (0 <= proj y) by (apply Hl; left; reflexivity).
      assert (0 <= proj (sum_cnt l)).
      { apply IHl; intros z Hz'; [apply Hnn; cbn in *; tauto | apply Hl; right; exact Hz']. }
      lia. }
    specialize (IH Hl). pose proof (Hnn x (or_introl eq_refl)) as Hx.
    split.
    + intros H y [Hy|Hy]; [subst; lia | apply IH; [lia | exact Hy]].
    + intros H. assert (proj x = 0) by (apply H; left; reflexivity).
      assert (proj (sum_cnt l) = 0) by (apply IH; intros y Hy; apply H; right; exact Hy). lia.
Qed.

(* "every executed check passed and every test ran to completion", test by test *)
Lemma all_good_each n :
  all_good n <->
  forall s t, In (s, t) (tests_of n) -> failures (own s t) = 0 /\ exceptions (own s t) = 0.
Proof.
  unfold all_good. rewrite total_is_sum.
  assert (Hnn : forall (proj : cnt -> Z), (forall s t, 0 <= proj (own s t)) ->
                forall x, In x (own_list n) -> 0 <= proj x).
  { intros proj Hp x Hx. unfold own_list in Hx. apply in_map_iff in Hx. destruct Hx as ([s t] & <- & _). apply Hp. }
  rewrite (sum_zero_iff failures (own_list n)); [ | reflexivity | reflexivity | apply Hnn; intros; apply own_nonneg ].
  rewrite (sum_zero_iff exceptions (own_list n)); [ | reflexivity | reflexivity | apply Hnn; intros; apply own_nonneg ].
  unfold own_list. split.
  - intros [H1 H2] s t Hin. split; [apply H1 | apply H2]; apply in_map_iff; exists (s, t); auto.
  - intros H. split; intros x Hx; apply in_map_iff in Hx; destruct Hx as ([s t] & <- & Hin); apply (H s t Hin).
Qed.

(* ------------------------------------------------------------------------------------ *)
(* C01 *)
Lemma verdict_iff rk m cap n :
  rk_folds rk -> (1 <= cap)%nat -> is_suite n -> ok_tree m cap n ->
  (exit_ok (run_suite rk verdict_suite m cap n) = true <-> all_good n).
Proof.
  intros Hrk Hcap Hs Hok.
  destruct (run_suite_spec rk verdict_suite m cap n Hrk Hcap Hs Hok) as (f' & H).
  rewrite H. cbn [exit_ok]. rewrite verdict_suite_spec. unfold all_good. tauto.
Qed.

(* ------------------------------------------------------------------------------------ *)
(* what the events of the specification say (C03, C04) *)
Lemma in_spec_test_done path s t i d cl :
  In (ETestDone i d cl) (spec_test path s t) -> i = tid t /\ d = own s t /\ cl = clean (own s t).
Proof.
  unfold spec_test. destruct (tskip t).
  - cbn. intros [H|[H|[H|[]]]]; inversion H; auto.
  - cbn [In]. intros [H|H]; [inversion H; auto|].
    apply in_app_or in H. destruct H as [H|H].
    + destruct (abnormal (own_msgs s t) (own_death s t)); [cbn in H; destruct H as [H|[]]; discriminate|].
      destruct (has_skip (own_msgs s t)); cbn in H; [destruct H as [H|[]]; discriminate | destruct H].
    + cbn in H. destruct H as [H|[H|[]]]; discriminate.
Qed.

Lemma in_direct_events e path s l :
  In e (direct_events path s l) -> exists t, In (Tn t) l /\ In e (spec_test path s t).
Proof.
  induction l as [|n l IH]; cbn [direct_events]; [intros []|].
  destruct n as [t|s' ch'].
  - intros H. apply in_app_or in H. destruct H as [H|H].
    + destruct (IH H) as (t' & H1 & H2). exists t'. split; [right; exact H1 | exact H2].
    + exists t. split; [left; reflexivity | exact H].
  - intros H. destruct (IH H) as (t' & H1 & H2). exists t'. split; [right; exact H1 | exact H2].
Qed.

Definition is_test_event (e : event) : bool :=
  match e with
  | ETestDone _ _ _ | EIncomplete _ _ | ESkipShown _ | EChild _ _ | EStartTest _ => true
  | _ => false
  end.

(* every per-test event of a run comes from the specification of one test of the tree, at the
   breadcrumb of that test's suite *)
Lemma in_spec_events : forall n path tot0 e,
  is_test_event e = true -> In e (spec_events path tot0 n) ->
  exists s t path', In (s, t) (tests_of n) /\ In e (spec_test path' s t).
Proof.
  induction n as [t|s ch IH] using node_ind'; intros path tot0 e He Hin.
  - exists nosuite, t, path. split; [left; reflexivity | exact Hin].
  - cbn [spec_events] in Hin.
    apply in_app_or in Hin. destruct Hin as [Hin|Hin].
    { destruct path; cbn in Hin; [destruct Hin as [<-|[]]; discriminate | destruct Hin]. }
    apply in_app_or in Hin. destruct Hin as [Hin|Hin].
    { cbn in Hin. destruct Hin as [<-|[]]; discriminate. }
    apply in_app_or in Hin. destruct Hin as [Hin|Hin].
    { apply in_direct_events in Hin. destruct Hin as (t & H1 & H2).
      exists s, t, ((1000 + sid s)%nat :: path). split; [|exact H2].
      cbn [tests_of]. apply in_flat_map. exists (Tn t). split; [exact H1 | left; reflexivity]. }
    apply in_app_or in Hin. destruct Hin as [Hin|Hin].
    2:{ cbn in Hin. destruct Hin as [<-|[]]; discriminate. }
    (* inside a sub-suite *)
    set (here := (1000 + sid s)%nat :: path) in *.
    assert (Hsub : exists n', In n' ch /\ is_suite n' /\ In e (spec_events here tot0 n')).
    { clear IH. induction ch as [|n ch IHch]; [destruct Hin|].
      cbn [subs_events] in Hin. destruct n as [t|s' ch'].
      - destruct (IHch Hin) as (n' & H1 & H2 & H3). exists n'. split; [right; exact H1 | auto].
      - apply in_app_or in Hin. destruct Hin as [Hin|Hin].
        { destruct (IHch Hin) as (n' & H1 & H2 & H3). exists n'. split; [right; exact H1 | auto]. }
        apply in_app_or in Hin. destruct Hin as [Hin|Hin].
        { destruct (s_has_teardown s); cbn in Hin; [destruct Hin as [<-|[]]; discriminate | destruct Hin]. }
        apply in_app_or in Hin. destruct Hin as [Hin|Hin].
        { exists (Sn s' ch'). split; [left; reflexivity | split; [exact I | exact Hin]]. }
        destruct (s_has_setup s); cbn in Hin; [destruct Hin as [<-|[]]; discriminate | destruct Hin]. }
    destruct Hsub as (n' & H1 & H2 & H3).
    rewrite Forall_forall in IH. destruct (IH n' H1 here tot0 e He H3) as (s0 & t0 & path' & H4 & H5).
    exists s0, t0, path'. split; [|exact H5].
    cbn [tests_of]. apply in_flat_map. exists n'. split; [exact H1|].
    destruct n'; [destruct H2 | exact H4].
Qed.

(* the result credited to a test is what it does when run alone, whatever else is in the tree *)
Lemma credited_is_own n path tot0 i d cl :
  In (ETestDone i d cl) (spec_events path tot0 n) ->
  exists s t, In (s, t) (tests_of n) /\ i = tid t /\ d = own s t /\ cl = clean (own s t).
Proof.
  intros H. destruct (in_spec_events n path tot0 (ETestDone i d cl) eq_refl H) as (s & t & path' & H1 & H2).
  exists s, t. split; [exact H1|]. exact (in_spec_test_done path' s t i d cl H2).
Qed.

(* an exception line carries the name of the test that ended abnormally, innermost first *)
Lemma incomplete_names_producer n path tot0 cr sg :
  In (EIncomplete cr sg) (spec_events path tot0 n) ->
  exists s t, In (s, t) (tests_of n) /\ hd_error cr = Some (tid t) /\ tskip t = false /\
              abnormal (own_msgs s t) (own_death s t) = true /\ sg = sig_text (own_death s t).
Proof.
  intros H. destruct (in_spec_events n path tot0 (EIncomplete cr sg) eq_refl H) as (s & t & path' & H1 & H2).
  exists s, t. split; [exact H1|]. unfold spec_test in H2. destruct (tskip t) eqn:Hsk.
  - cbn in H2. destruct H2 as [H2|[H2|[H2|[]]]]; discriminate.
  - cbn [In] in H2. destruct H2 as [H2|H2]; [discriminate|].
    apply in_app_or in H2. destruct H2 as [H2|H2].
    + destruct (abnormal (own_msgs s t) (own_death s t)) eqn:Hab.
      * cbn in H2. destruct H2 as [H2|[]]. inversion H2; subst. cbn. repeat split; auto.
      * destruct (has_skip (own_msgs s t)); cbn in H2; [destruct H2 as [H2|[]]; discriminate | destruct H2].
    + cbn in H2. destruct H2 as [H2|[H2|[]]]; discriminate.
Qed.

(* ------------------------------------------------------------------------------------ *)
(* completeness: every test of the tree gets its events *)
Lemma spec_test_has_done path s t :
  In (ETestDone (tid t) (own s t) (clean (own s t))) (spec_test path s t).
Proof. unfold spec_test. destruct (tskip t); left; reflexivity. Qed.

Lemma direct_events_has path s l t e :
  In (Tn t) l -> In e (spec_test path s t) -> In e (direct_events path s l).
Proof.
  induction l as [|n l IH]; [intros []|]. intros [->|H] He; cbn [direct_events].
  - apply in_or_app. right. exact He.
  - destruct n; [apply in_or_app; left|]; apply IH; assumption.
Qed.

Lemma test_done_present : forall n path tot0 s t,
  is_suite n -> In (s, t) (tests_of n) ->
  In (ETestDone (tid t) (own s t) (clean (own s t))) (spec_events path tot0 n).
Proof.
  induction n as [t0|s0 ch IH] using node_ind'; intros path tot0 s t Hs Hin; [destruct Hs|].
  cbn [tests_of] in Hin. apply in_flat_map in Hin. destruct Hin as (n' & Hn' & Hin).
  cbn [spec_events]. apply in_or_app. right. apply in_or_app. right.
  destruct n' as [t'|s' ch'].
  - destruct Hin as [Hin|[]]. inversion Hin; subst.
    apply in_or_app. left. eapply direct_events_has; [exact Hn' | apply spec_test_has_done].
  - apply in_or_app. right. apply in_or_app. left.
    rewrite Forall_forall in IH.
    pose proof (IH (Sn s' ch') Hn' ((1000 + sid s0)%nat :: path) tot0 s t I Hin) as Hev.
    clear IH Hs. induction ch as [|n ch IHch]; [destruct Hn'|].
    cbn [subs_events]. destruct Hn' as [->|Hn'].
    + apply in_or_app. right. apply in_or_app. right. apply in_or_app. left. exact Hev.
    + destruct n; [apply IHch; exact Hn' | apply in_or_app; left; apply IHch; exact Hn'].
Qed.

(* tests are told apart by their names *)
Definition unique_names (n : node) : Prop := NoDup (map (fun st => tid (snd st)) (tests_of n)).

Lemma unique_names_inj n s1 t1 s2 t2 :
  unique_names n -> In (s1, t1) (tests_of n) -> In (s2, t2) (tests_of n) -> tid t1 = tid t2 ->
  (s1, t1) = (s2, t2).
Proof.
  unfold unique_names. generalize (tests_of n) as l.
  induction l as [|x l IH]; [intros _ []|].
  cbn [map]. intros Hnd H1 H2 He. apply NoDup_cons_iff in Hnd. destruct Hnd as [Hx Hnd].
  destruct H1 as [->|H1], H2 as [->|H2]; auto.
  - exfalso. apply Hx. apply in_map_iff. exists (s2, t2). cbn. auto.
  - exfalso. apply Hx. apply in_map_iff. exists (s1, t1). cbn. auto.
Qed.

(* the results credited to a test are its own results, in every tree that contains it *)
Lemma credited_exactly_own n path tot0 s t d cl :
  is_suite n -> unique_names n -> In (s, t) (tests_of n) ->
  (In (ETestDone (tid t) d cl) (spec_events path tot0 n) <-> d = own s t /\ cl = clean (own s t)).
Proof.
  intros Hs Hu Hin. split.
  - intros H. destruct (credited_is_own n path tot0 _ _ _ H) as (s' & t' & H1 & H2 & H3 & H4).
    pose proof (unique_names_inj n s t s' t' Hu Hin H1 H2) as He. inversion He; subst. auto.
  - intros [-> ->]. apply test_done_present; assumption.
Qed.

Lemma ok_tree_weaken cap n : ok_tree InProcess cap n -> ok_tree Forked cap n.
Proof. intros H s t Hin. destruct (H s t Hin) as [H1 _]. split; [exact H1 | exact I]. Qed.

(* ------------------------------------------------------------------------------------ *)
(* decidable form of the hypotheses (used by the Examples and by the harness to say which
   generated scenarios lie inside the theorems' premises) *)
Definition wf_testb (t : test) : bool :=
  forallb user_act (tsetup t) && forallb user_act (tbody t) && forallb user_act (tteardown t).
Definition regularb (s : suiteinfo) (t : test) : bool :=
  match own_death s t with
  | Some _ =>
      if abnormal (own_msgs s t) (own_death s t)
      then negb (has_skip (own_msgs s t)) && negb (existsb is_compl_msg (own_msgs s t))
      else match rev (own_msgs s t) with
           | MCompletion :: r => negb (existsb is_compl_msg (rev r))
           | _ => false
           end
  | None => true
  end.
Definition fitsb (cap : nat) (s : suiteinfo) (t : test) : bool := Nat.leb (length (own_msgs s t)) cap.
Definition no_pokeb (t : test) : bool :=
  forallb (fun a => negb (is_poke a)) (tsetup t ++ tbody t ++ tteardown t).
Definition test_okb (m : xmode) (cap : nat) (s : suiteinfo) (t : test) : bool :=
  wf_testb t && fitsb cap s t && regularb s t &&
  match m with
  | Forked => true
  | InProcess => (match own_death s t with None => true | Some _ => false end) && no_pokeb t
  end.
Definition ok_treeb (m : xmode) (cap : nat) (n : node) : bool :=
  forallb (fun st => test_okb m cap (fst st) (snd st)) (tests_of n).

Lemma no_compl_b m : existsb is_compl_msg m = false -> no_compl m.
Proof.
  unfold no_compl. induction m as [|x m IH]; [intros _ []|].
  cbn [existsb]. intros H [Hx|Hx]; apply orb_false_elim in H; destruct H as [H1 H2].
  - subst x. discriminate.
  - exact (IH H2 Hx).
Qed.

Lemma test_okb_ok m cap s t : test_okb m cap s t = true -> test_ok m cap s t.
Proof.
  unfold test_okb, test_ok, ok_test. intros H.
  apply andb_prop in H; destruct H as [H Hm]. apply andb_prop in H; destruct H as [H Hr].
  apply andb_prop in H; destruct H as [Hw Hf].
  split; [repeat split|].
  - unfold wf_testb in Hw. apply andb_prop in Hw; destruct Hw as [Hw _]. apply andb_prop in Hw; tauto.
  - unfold wf_testb in Hw. apply andb_prop in Hw; destruct Hw as [Hw _]. apply andb_prop in Hw; tauto.
  - unfold wf_testb in Hw. apply andb_prop in Hw; tauto.
  - unfold fits. apply Nat.leb_le. exact Hf.
  - unfold regular, regularb in *. destruct (own_death s t); [|exact I].
    destruct (abnormal (own_msgs s t) (Some d)).
    + apply andb_prop in Hr; destruct Hr as [H1 H2]. apply negb_true_iff in H1, H2.
      split; [exact H1 | apply no_compl_b; exact H2].
    + destruct (rev (own_msgs s t)) as [|x r] eqn:Hrev; [discriminate|].
      destruct x; try discriminate. apply negb_true_iff in Hr.
      exists (rev r). split; [|apply no_compl_b; exact Hr].
      rewrite <- (rev_involutive (own_msgs s t)), Hrev. reflexivity.
  - destruct m; [exact I|]. apply andb_prop in Hm; destruct Hm as [H1 H2].
    split; [destruct (own_death s t); [discriminate | reflexivity] | exact H2].
Qed.

Lemma ok_treeb_ok m cap n : ok_treeb m cap n = true -> ok_tree m cap n.
Proof.
  unfold ok_treeb, ok_tree. rewrite forallb_forall. intros H s t Hin.
  apply test_okb_ok. exact (H (s, t) Hin).
Qed.

(* ------------------------------------------------------------------------------------ *)
(* C02: dying tests *)
Lemma exec_dies_at_end f l d : snd (exec f (l ++ [Die d])) <> None.
Proof.
  rewrite exec_app. destruct (exec f l) as [[f1 m1] [d1|]]; cbn; discriminate.
Qed.

Lemma killed_dies s t k d : tkill t = Some (k, d) -> own_death s t <> None.
Proof. intros H. unfold own_death, test_steps. rewrite H. apply exec_dies_at_end. Qed.

Lemma firstn_app_le {A} k (l1 l2 : list A) : (k <= length l1)%nat -> firstn k (l1 ++ l2) = firstn k l1.
Proof. intros H. rewrite firstn_app. replace (k - length l1)%nat with 0%nat by lia. cbn. apply app_nil_r. Qed.

(* killed at any point up to the mock tally: the completion notice was never sent *)
Lemma killed_before_completion s t k d :
  wf_test t -> tkill t = Some (k, d) -> (k <= length (child_steps s t))%nat -> no_compl (own_msgs s t).
Proof.
  intros Hwf Hk Hle. unfold own_msgs, test_steps. rewrite Hk. unfold full_steps.
  rewrite firstn_app_le by exact Hle. apply exec_no_compl.
  rewrite forallb_app. cbn [forallb is_complete negb andb]. rewrite andb_true_r.
  apply firstn_forallb. apply child_steps_no_complete. exact Hwf.
Qed.

(* test code never sends an `exception` record (only the C++ build's catch blocks do) *)
Lemma repeat_fail_exc n : exceptions (count_msgs (repeat MFail n)) = 0.
Proof.
  induction n as [|n IH]; [reflexivity|]. cbn [repeat]. rewrite count_msgs_cons.
  unfold cadd; cbn [exceptions]. lia.
Qed.

Lemma step_no_exception f a : exceptions (count_msgs (snd (fst (step f a)))) = 0.
Proof.
  destruct a; cbn [step fst snd]; try reflexivity.
  - destruct b; reflexivity.
  - destruct (figs f <=? k); reflexivity.
  - destruct (mode f); reflexivity.
  - destruct (glob f =? v); reflexivity.
  - apply repeat_fail_exc.
Qed.

Lemma exec_no_exception l : forall f, exceptions (count_msgs (snd (fst (exec f l)))) = 0.
Proof.
  induction l as [|a l IH]; intros f; [reflexivity|]. cbn [exec].
  pose proof (step_no_exception f a) as Hs.
  destruct (step f a) as [[f1 m1] [d|]]; cbn [fst snd] in *; [exact Hs|].
  specialize (IH f1). destruct (exec f1 l) as [[f2 m2] d2]; cbn [fst snd] in *.
  rewrite count_msgs_app. unfold cadd; cbn [exceptions]. lia.
Qed.

(* a test that dies (and had not called skip_test()) is exactly one exception, and what it
   delivered before dying is counted *)
Lemma dying_test_own s t :
  tskip t = false -> abnormal (own_msgs s t) (own_death s t) = true ->
  exceptions (own s t) = 1 /\
  passes (own s t) = passes (count_msgs (own_msgs s t)) /\
  failures (own s t) = failures (count_msgs (own_msgs s t)).
Proof.
  intros Hsk Hd. rewrite own_eq, Hsk. cbn [passes failures exceptions].
  rewrite Hd. unfold own_msgs. rewrite exec_no_exception. auto.
Qed.

(* results delivered before the point of death are a prefix of what the test delivers when
   it is left alone *)
Lemma exec_cut_prefix l : forall f k d,
  exists rest, snd (fst (exec f l)) = snd (fst (exec f (firstn k l ++ [Die d]))) ++ rest.
Proof.
  induction l as [|a l IH]; intros f k d.
  - destruct k; cbn; exists []; reflexivity.
  - destruct k as [|k].
    + cbn [firstn app]. cbn [exec step]. cbn [fst snd app]. eexists; reflexivity.
    + cbn [firstn app exec]. destruct (step f a) as [[f1 m1] [d1|]]; cbn [fst snd].
      * exists []. rewrite app_nil_r. reflexivity.
      * destruct (IH f1 k d) as [rest Hr].
        destruct (exec f1 l) as [[f2 m2] d2]; destruct (exec f1 (firstn k l ++ [Die d])) as [[f3 m3] d3].
        cbn [fst snd] in *. exists rest. rewrite Hr, app_assoc. reflexivity.
Qed.

Definition with_kill (t : test) (k : nat) (d : death) : test :=
  mktest (tid t) (tskip t) (tctx_setup t) (tctx_teardown t) (tsetup t) (tbody t) (tteardown t) (Some (k, d)).

Lemma delivered_is_prefix s t k d :
  tkill t = None ->
  exists rest, own_msgs s t = own_msgs s (with_kill t k d) ++ rest.
Proof.
  intros Hk. unfold own_msgs, test_steps. rewrite Hk. cbn [tkill with_kill].
  change (full_steps s (with_kill t k d)) with (full_steps s t).
  apply exec_cut_prefix.
Qed.

(* killed by a signal at any point, or gone before the completion notice: abnormal *)
Lemma signal_is_abnormal m sg : abnormal m (Some (Signal sg)) = true.
Proof. reflexivity. Qed.

Lemma exit_before_completion_is_abnormal m code : no_compl m -> abnormal m (Some (Exit code)) = true.
Proof.
  intros Hn. cbn. apply negb_true_iff. destruct (existsb is_compl_msg m) eqn:H; [|reflexivity].
  exfalso. apply existsb_exists in H. destruct H as (x & Hx & Hc). destruct x; try discriminate. exact (Hn Hx).
Qed.

(* a dying test anywhere makes the verdict failure *)
Lemma dying_test_fails_run n s t :
  In (s, t) (tests_of n) -> tskip t = false -> abnormal (own_msgs s t) (own_death s t) = true -> ~ all_good n.
Proof.
  intros Hin Hsk Hd Hg. rewrite all_good_each in Hg. destruct (Hg s t Hin) as [_ He].
  destruct (dying_test_own s t Hsk Hd) as [H1 _]. lia.
Qed.

(* ------------------------------------------------------------------------------------ *)
(* statements used by the C04 / C13 / C17 files *)
Lemma order_independent rk cap n1 n2 s t d1 cl1 d2 cl2 :
  In rk builtin_reporters -> (1 <= cap)%nat ->
  is_suite n1 -> ok_tree Forked cap n1 -> unique_names n1 -> In (s, t) (tests_of n1) ->
  is_suite n2 -> ok_tree Forked cap n2 -> unique_names n2 -> In (s, t) (tests_of n2) ->
  forall p1 p2 v1 v2,
    run_suite rk verdict_suite Forked cap n1 = Finished v1 p1 ->
    run_suite rk verdict_suite Forked cap n2 = Finished v2 p2 ->
    In (ETestDone (tid t) d1 cl1) (out p1) -> In (ETestDone (tid t) d2 cl2) (out p2) ->
    d1 = own s t /\ d2 = own s t /\ cl1 = cl2.
Proof.
  intros Hrk Hcap Hs1 Hok1 Hu1 Hin1 Hs2 Hok2 Hu2 Hin2 p1 p2 v1 v2 H1 H2 E1 E2.
  destruct (run_suite_spec rk verdict_suite Forked cap n1 (builtin_rk_folds rk Hrk) Hcap Hs1 Hok1) as (f1 & R1).
  destruct (run_suite_spec rk verdict_suite Forked cap n2 (builtin_rk_folds rk Hrk) Hcap Hs2 Hok2) as (f2 & R2).
  rewrite R1 in H1. rewrite R2 in H2. inversion H1; subst. inversion H2; subst. cbn [out] in *.
  apply (credited_exactly_own n1 [] czero s t d1 cl1 Hs1 Hu1 Hin1) in E1.
  apply (credited_exactly_own n2 [] czero s t d2 cl2 Hs2 Hu2 Hin2) in E2.
  destruct E1 as [-> ->], E2 as [-> ->]. auto.
Qed.

Lemma forked_inprocess_agree rk cap n :
  In rk builtin_reporters -> (1 <= cap)%nat -> is_suite n -> ok_tree InProcess cap n ->
  exists v pf pi,
    run_suite rk verdict_suite Forked cap n = Finished v pf /\
    run_suite rk verdict_suite InProcess cap n = Finished v pi /\
    out pf = out pi /\ tot pf = tot pi /\ c pf = c pi /\ out pf = spec_events [] czero n.
Proof.
  intros Hrk Hcap Hs Hok.
  destruct (run_suite_spec rk verdict_suite Forked cap n (builtin_rk_folds rk Hrk) Hcap Hs (ok_tree_weaken cap n Hok)) as (f1 & R1).
  destruct (run_suite_spec rk verdict_suite InProcess cap n (builtin_rk_folds rk Hrk) Hcap Hs Hok) as (f2 & R2).
  do 3 eexists. split; [exact R1|]. split; [exact R2|]. cbn. auto.
Qed.

Lemma reporters_agree rk1 rk2 m cap n :
  In rk1 builtin_reporters -> In rk2 builtin_reporters ->
  (1 <= cap)%nat -> is_suite n -> ok_tree m cap n ->
  exists v p1 p2,
    run_suite rk1 verdict_suite m cap n = Finished v p1 /\
    run_suite rk2 verdict_suite m cap n = Finished v p2 /\
    tot p1 = tot p2 /\ c p1 = c p2 /\ out p1 = out p2.
Proof.
  intros H1 H2 Hcap Hs Hok.
  destruct (run_suite_spec rk1 verdict_suite m cap n (builtin_rk_folds rk1 H1) Hcap Hs Hok) as (f1 & R1).
  destruct (run_suite_spec rk2 verdict_suite m cap n (builtin_rk_folds rk2 H2) Hcap Hs Hok) as (f2 & R2).
  do 3 eexists. split; [exact R1|]. split; [exact R2|]. cbn. auto.
Qed.

(* two consecutive runs with one reporter: the second goes on from the first one's totals, whatever
   the reporter; so the reporters agree on both verdicts, the totals and everything reported *)
Lemma two_runs_spec rk vexpr m1 m2 cap n1 n2 :
  rk_folds rk -> (1 <= cap)%nat -> is_suite n1 -> ok_tree m1 cap n1 -> is_suite n2 -> ok_tree m2 cap n2 ->
  exists f1 f2,
    run_two rk vexpr m1 m2 cap n1 n2 =
    (Finished (vexpr (passes (total n1)) (failures (total n1)) (skips (total n1)) (exceptions (total n1)))
              (mkp (node_c n1) (total n1) [] [] f1 (spec_events [] czero n1)),
     let t := cadd (total n1) (total n2) in
     Finished (vexpr (passes t) (failures t) (skips t) (exceptions t))
              (mkp (node_c n2) t [] [] f2 (spec_events [] (total n1) n2 ++ spec_events [] czero n1))).
Proof.
  intros Hrk Hcap Hs1 Hok1 Hs2 Hok2.
  destruct (run_node_spec rk m1 cap Hrk Hcap n1 Hs1 p_init Hok1 good_init) as (f1 & Hg1 & H1).
  cbn [tot p_init c crumb pipe pfw out] in H1. rewrite cadd_zero_l, app_nil_r in H1.
  set (p1 := mkp (node_c n1) (total n1) [] [] f1 (spec_events [] czero n1)) in *.
  assert (Hgood : good p1) by (split; [reflexivity|exact Hg1]).
  destruct (run_node_spec rk m2 cap Hrk Hcap n2 Hs2 p1 Hok2 Hgood) as (f2 & _ & H2).
  exists f1, f2. unfold run_two, run_suite_from. rewrite H1. rewrite H2.
  unfold verdict_of. subst p1. cbn [tot c crumb pipe pfw out]. reflexivity.
Qed.

Lemma reporters_agree_two_runs rk1 rk2 m1 m2 cap n1 n2 :
  In rk1 builtin_reporters -> In rk2 builtin_reporters -> (1 <= cap)%nat ->
  is_suite n1 -> ok_tree m1 cap n1 -> is_suite n2 -> ok_tree m2 cap n2 ->
  exists v1 v2 p1 p2 q1 q2,
    run_two rk1 verdict_suite m1 m2 cap n1 n2 = (Finished v1 p1, Finished v2 p2) /\
    run_two rk2 verdict_suite m1 m2 cap n1 n2 = (Finished v1 q1, Finished v2 q2) /\
    tot p1 = tot q1 /\ tot p2 = tot q2 /\ out p2 = out q2 /\ tot p2 = cadd (total n1) (total n2).
Proof.
  intros H1 H2 Hcap Hs1 Hok1 Hs2 Hok2.
  destruct (two_runs_spec rk1 verdict_suite m1 m2 cap n1 n2 (builtin_rk_folds rk1 H1) Hcap Hs1 Hok1 Hs2 Hok2) as (f1 & f2 & R1).
  destruct (two_runs_spec rk2 verdict_suite m1 m2 cap n1 n2 (builtin_rk_folds rk2 H2) Hcap Hs1 Hok1 Hs2 Hok2) as (g1 & g2 & R2).
  do 6 eexists. split; [exact R1|]. split; [exact R2|]. cbn. auto.
Qed.

(* a run in the runner's own process followed by a forked run with the same reporter: whatever the
   first run's tests did to the framework state, the second run reports exactly the specification's
   events for its tree (every test its own results) *)
Lemma second_run_unaffected rk cap n1 n2 :
  In rk builtin_reporters -> (1 <= cap)%nat ->
  is_suite n1 -> ok_tree InProcess cap n1 -> is_suite n2 -> ok_tree Forked cap n2 ->
  exists v1 v2 p1 p2,
    run_two rk verdict_suite InProcess Forked cap n1 n2 = (Finished v1 p1, Finished v2 p2) /\
    out p2 = spec_events [] (total n1) n2 ++ spec_events [] czero n1 /\ tot p2 = cadd (total n1) (total n2).
Proof.
  intros H Hcap Hs1 Hok1 Hs2 Hok2.
  destruct (two_runs_spec rk verdict_suite InProcess Forked cap n1 n2 (builtin_rk_folds rk H) Hcap Hs1 Hok1 Hs2 Hok2) as (f1 & f2 & R).
  do 4 eexists. split; [exact R|]. cbn. auto.
Qed.

(* ------------------------------------------------------------------------------------ *)
(* C18: a test that sends more records than the pipe holds *)
Lemma deliver_overflow cap m :
  (cap < length m)%nat -> deliver cap [] m = (firstn cap m, Some (Signal sigpipe)).
Proof.
  intros H. unfold deliver. cbn [length app]. rewrite Nat.sub_0_r.
  assert (Hl : (length m <=? cap)%nat = false) by (apply Nat.leb_gt; exact H).
  rewrite Hl. reflexivity.
Qed.

(* the records of a test process: anything but a completion notice, then at most one *)
Lemma exec_steps_shape l f :
  forallb (fun a => negb (is_complete a)) l = true ->
  forall tail, Forall (fun a => a = AComplete \/ exists d, a = Die d) tail ->
  exists m', no_compl m' /\
    (snd (fst (exec f (l ++ tail))) = m' \/ exists r, snd (fst (exec f (l ++ tail))) = m' ++ MCompletion :: r /\ Forall (fun x => x = MCompletion) r).
Proof.
  intros Hl tail Ht. rewrite exec_app.
  pose proof (exec_no_compl l f Hl) as Hn.
  destruct (exec f l) as [[f1 m1] [d1|]]; cbn [fst snd] in *.
  - exists m1. auto.
  - revert f1. induction Ht as [|a tail Ha Ht IH]; intros f1.
    + exists m1. cbn. rewrite app_nil_r. auto.
    + destruct Ha as [->|[d ->]].
      * cbn [exec step]. specialize (IH f1).
        destruct (exec f1 tail) as [[f2 m2] d2] eqn:He. cbn [fst snd] in *.
        exists m1. split; [exact Hn|]. right.
        (* everything after is completions only *)
        assert (Hm2 : Forall (fun x => x = MCompletion) m2).
        { clear IH. revert f1 f2 m2 d2 He. induction Ht as [|b tail Hb Ht IHt]; intros f1 f2 m2 d2 He.
          - cbn in He. inversion He; subst. constructor.
          - destruct Hb as [->|[d ->]].
            + cbn [exec step] in He. destruct (exec f1 tail) as [[f3 m3] d3] eqn:He3.
              inversion He; subst. constructor; [reflexivity|]. cbn [app]. eapply IHt; exact He3.
            + cbn in He. inversion He; subst. constructor. }
        exists m2. cbn [app]. auto.
      * cbn. exists m1. rewrite app_nil_r. auto.
Qed.

Lemma own_msgs_shape s t :
  wf_test t ->
  exists m', no_compl m' /\
    (own_msgs s t = m' \/ exists r, own_msgs s t = m' ++ MCompletion :: r /\ Forall (fun x => x = MCompletion) r).
Proof.
  intros Hwf. unfold own_msgs, test_steps, full_steps.
  pose proof (child_steps_no_complete s t Hwf) as Hc.
  destruct (tkill t) as [[k d]|].
  - destruct (Nat.le_gt_cases k (length (child_steps s t))) as [Hle|Hgt].
    + rewrite firstn_app_le by exact Hle.
      apply (exec_steps_shape (firstn k (child_steps s t)) fw_init (firstn_forallb _ k _ Hc) [Die d]).
      constructor; [right; eexists; reflexivity | constructor].
    + rewrite firstn_all2 by (rewrite app_length; cbn [length]; lia).
      rewrite <- app_assoc.
      apply (exec_steps_shape (child_steps s t) fw_init Hc ([AComplete] ++ [Die d])).
      constructor; [left; reflexivity|]. constructor; [right; eexists; reflexivity | constructor].
  - apply (exec_steps_shape (child_steps s t) fw_init Hc [AComplete]).
    constructor; [left; reflexivity | constructor].
Qed.

Lemma in_firstn {A} (x : A) k l : In x (firstn k l) -> In x l.
Proof.
  revert k; induction l as [|a l IH]; intros k; destruct k as [|k]; cbn [firstn].
  - intros [].
  - intros [].
  - intros [].
  - intros [->|Hin]; [left; reflexivity | right; exact (IH k Hin)].
Qed.

Lemma firstn_no_compl k m : no_compl m -> no_compl (firstn k m).
Proof. unfold no_compl. intros H Hin. apply H. eapply in_firstn; exact Hin. Qed.

(* the overflowing test: the writer gets SIGPIPE; the parent counts the records that fitted
   (a prefix), reports one exception, and leaves the pipe empty for the next test *)
Lemma run_test_forked_overflow cap s t p :
  wf_test t -> tskip t = false -> (1 <= cap)%nat -> (cap < length (own_msgs s t))%nat -> good p ->
  let dm := firstn cap (own_msgs s t) in
  no_compl dm -> has_skip dm = false ->
  exists evs,
    run_test_forked cap s t p =
    mkp (cadd (c p) (cadd (count_msgs dm) (mkcnt 0 0 0 1))) (tot p) (crumb p) [] (pfw p) (evs ++ out p).
Proof.
  intros Hwf Hsk Hcap Hov [Hpipe Hfw] dm Hn Hs.
  unfold run_test_forked. rewrite Hsk.
  unfold start_test, push, emit. cbn [pipe c tot crumb pfw out]. rewrite Hpipe.
  destruct (exec_from_any (pfw p) s t Hfw) as (Hm & Hd & _).
  destruct (exec (pfw p) (test_steps s t)) as [[f' m] d] eqn:He. cbn [fst snd] in *. subst m.
  rewrite (deliver_overflow cap _ Hov). fold dm.
  unfold set_pipe. cbn [pipe c tot crumb pfw out].
  erewrite (finish_test_nocompl (tid t) _ _ dm (crumb p)); [ | exact Hn | reflexivity | reflexivity ].
  rewrite Hs. cbn [c tot crumb pipe pfw out].
  assert (Hc : credit dm = count_msgs dm).
  { unfold credit, skip_cnt. rewrite Hs. cbn [negb andb]. cnt. }
  rewrite Hc. eexists (_ :: _ :: _ :: _ :: nil). cbn [app]. reflexivity.
Qed.

(* when the only record that does not fit is the end-of-test marker (or more), what fitted
   contains no marker *)
Lemma overflow_prefix_no_compl cap s t :
  wf_test t -> (cap < length (own_msgs s t))%nat ->
  (forall m' r, own_msgs s t = m' ++ MCompletion :: r -> no_compl m' -> (cap <= length m')%nat) ->
  no_compl (firstn cap (own_msgs s t)).
Proof.
  intros Hwf Hov Hlast. destruct (own_msgs_shape s t Hwf) as (m' & Hn & [Hm|(r & Hm & _)]).
  - rewrite Hm. apply firstn_no_compl. exact Hn.
  - specialize (Hlast m' r Hm Hn). rewrite Hm. rewrite firstn_app_le by exact Hlast.
    apply firstn_no_compl. exact Hn.
Qed.

(* ------------------------------------------------------------------------------------ *)
(* C08: what runs around a test, in which order *)
Definition plain_act (a : act) : bool :=
  match a with AReset | ATally | AComplete | Mark _ | Die _ => false | _ => true end.
Definition plain (l : list act) : Prop := forallb plain_act l = true.

Lemma trace_app f l1 l2 :
  trace f (l1 ++ l2) =
  match exec f l1 with
  | (_, _, Some _) => trace f l1
  | (f1, _, None) => trace f l1 ++ trace f1 l2
  end.
Proof.
  revert f; induction l1 as [|a l1 IH]; intros f; cbn [app trace exec]; [reflexivity|].
  destruct (step f a) as [[f1 m1] [d|]]; [reflexivity|].
  rewrite IH. destruct (exec f1 l1) as [[f2 m2] [d|]]; [reflexivity | rewrite app_assoc; reflexivity].
Qed.

Lemma plain_runs_silently l : forall f, plain l -> trace f l = [] /\ snd (exec f l) = None.
Proof.
  unfold plain. induction l as [|a l IH]; intros f H; [split; reflexivity|].
  cbn [forallb] in H. apply andb_prop in H; destruct H as [Ha Hl].
  cbn [trace exec].
  assert (Hs : snd (step f a) = None /\ tev_of a = []) by (destruct a; cbn in *; try discriminate; auto).
  destruct Hs as [Hs1 Hs2]. destruct (step f a) as [[f1 m1] d]; cbn [snd] in Hs1; subst d.
  destruct (IH f1 Hl) as [H1 H2]. rewrite Hs2, H1. split; [reflexivity|].
  destruct (exec f1 l) as [[f2 m2] d2]; cbn [snd] in *; exact H2.
Qed.

Definition setup_tev (s : suiteinfo) (t : test) : list tev :=
  if s_has_setup s then [TvPhase (PhSuiteSetup (sid s))] else if tctx_setup t then [TvPhase PhSetup] else [].
Definition teardown_tev (s : suiteinfo) (t : test) : list tev :=
  if s_has_teardown s then [TvPhase (PhSuiteTeardown (sid s))] else if tctx_teardown t then [TvPhase PhTeardown] else [].

Lemma trace_cons_silent f a l :
  plain_act a = true -> trace f (a :: l) = trace (fst (fst (step f a))) l.
Proof.
  intros H. cbn [trace].
  assert (Hs : snd (step f a) = None /\ tev_of a = []) by (destruct a; cbn in *; try discriminate; auto).
  destruct Hs as [Hs1 Hs2]. destruct (step f a) as [[f1 m1] d]; cbn [fst snd] in *; subst d. rewrite Hs2. reflexivity.
Qed.

(* setup, body, teardown and the tally run once each, in this order, in one process, also
   when checks fail: the applicable fixture is the suite's if it has one, else the context's *)
Lemma trace_skip_plain l rest f : plain l -> exists f', trace f (l ++ rest) = trace f' rest.
Proof.
  intros H. rewrite trace_app. destruct (plain_runs_silently l f H) as [H1 H2].
  destruct (exec f l) as [[f1 m1] d1]; cbn [snd] in H2; subst d1. rewrite H1. exists f1. reflexivity.
Qed.

Lemma test_trace s t f :
  plain (tsetup t) -> plain (tbody t) -> plain (tteardown t) -> tkill t = None ->
  trace f (test_steps s t) = setup_tev s t ++ [TvPhase PhBody] ++ teardown_tev s t ++ [TvTally].
Proof.
  intros Hs Hb Ht Hk. unfold test_steps. rewrite Hk. unfold full_steps, child_steps.
  assert (T4 : forall g, trace g ([ATally] ++ [AComplete]) = [TvTally]) by (intros; reflexivity).
  assert (T3 : forall g, trace g (teardown_steps s t ++ [ATally] ++ [AComplete]) = teardown_tev s t ++ [TvTally]).
  { intros g. unfold teardown_steps, teardown_tev.
    destruct (s_has_teardown s); [|destruct (tctx_teardown t)].
    - change ((Mark (PhSuiteTeardown (sid s)) :: tteardown t) ++ [ATally] ++ [AComplete])
        with (Mark (PhSuiteTeardown (sid s)) :: (tteardown t ++ [ATally] ++ [AComplete])).
      cbn [trace step tev_of]. destruct (trace_skip_plain (tteardown t) ([ATally] ++ [AComplete]) g Ht) as [g' Hg].
      rewrite Hg, T4. reflexivity.
    - change ((Mark PhTeardown :: tteardown t) ++ [ATally] ++ [AComplete])
        with (Mark PhTeardown :: (tteardown t ++ [ATally] ++ [AComplete])).
      cbn [trace step tev_of]. destruct (trace_skip_plain (tteardown t) ([ATally] ++ [AComplete]) g Ht) as [g' Hg].
      rewrite Hg, T4. reflexivity.
    - cbn [app]. apply T4. }
  assert (T2 : forall g, trace g ((Mark PhBody :: tbody t) ++ teardown_steps s t ++ [ATally] ++ [AComplete]) =
                         [TvPhase PhBody] ++ teardown_tev s t ++ [TvTally]).
  { intros g.
    change ((Mark PhBody :: tbody t) ++ teardown_steps s t ++ [ATally] ++ [AComplete])
      with (Mark PhBody :: (tbody t ++ teardown_steps s t ++ [ATally] ++ [AComplete])).
    cbn [trace step tev_of].
    destruct (trace_skip_plain (tbody t) (teardown_steps s t ++ [ATally] ++ [AComplete]) g Hb) as [g' Hg].
    rewrite Hg, T3. reflexivity. }
  assert (T1 : forall g, trace g (setup_steps s t ++ (Mark PhBody :: tbody t) ++ teardown_steps s t ++ [ATally] ++ [AComplete]) =
                         setup_tev s t ++ [TvPhase PhBody] ++ teardown_tev s t ++ [TvTally]).
  { intros g. unfold setup_steps, setup_tev.
    destruct (s_has_setup s); [|destruct (tctx_setup t)].
    - match goal with |- trace g ((Mark ?ph :: ?l) ++ ?r) = _ => change ((Mark ph :: l) ++ r) with (Mark ph :: (l ++ r)) end.
      cbn [trace step tev_of]. 
      destruct (trace_skip_plain (tsetup t) ((Mark PhBody :: tbody t) ++ teardown_steps s t ++ [ATally] ++ [AComplete]) g Hs) as [g' Hg].
      rewrite Hg, T2. reflexivity.
    - match goal with |- trace g ((Mark ?ph :: ?l) ++ ?r) = _ => change ((Mark ph :: l) ++ r) with (Mark ph :: (l ++ r)) end.
      cbn [trace step tev_of].
      destruct (trace_skip_plain (tsetup t) ((Mark PhBody :: tbody t) ++ teardown_steps s t ++ [ATally] ++ [AComplete]) g Hs) as [g' Hg].
      rewrite Hg, T2. reflexivity.
    - cbn [app]. apply T2. }
  rewrite <- !app_assoc.
  change ([AReset] ++ setup_steps s t ++ (Mark PhBody :: tbody t) ++ teardown_steps s t ++ [ATally] ++ [AComplete])
    with (AReset :: (setup_steps s t ++ (Mark PhBody :: tbody t) ++ teardown_steps s t ++ [ATally] ++ [AComplete])).
  cbn [trace step tev_of]. cbn [app]. apply T1.
Qed.

(* a process that dies shows a prefix of that sequence: nothing after the point of death *)
Lemma trace_cut_prefix l : forall f k d,
  exists rest, trace f l = trace f (firstn k l ++ [Die d]) ++ rest.
Proof.
  induction l as [|a l IH]; intros f k d.
  - destruct k; cbn; exists []; reflexivity.
  - destruct k as [|k].
    + cbn [firstn app]. cbn [trace step tev_of app]. eexists; reflexivity.
    + cbn [firstn app trace]. destruct (step f a) as [[f1 m1] [d1|]].
      * exists []. rewrite app_nil_r. reflexivity.
      * destruct (IH f1 k d) as [rest Hr]. exists rest. rewrite Hr, app_assoc. reflexivity.
Qed.

(* an xEnsure test runs none of its code: the run does not depend on its scripts *)
Lemma xensure_runs_nothing m cap s t t' p :
  tid t = tid t' -> tskip t = true -> tskip t' = true -> run_test m cap s t p = run_test m cap s t' p.
Proof.
  intros Hid H1 H2. destruct m; unfold run_test, run_test_forked, run_test_inproc; rewrite H1, H2, Hid; reflexivity.
Qed.

(* a suite's fixtures bracket each of its sub-suites exactly once (events newest first):
   the events of the sub-suite pass are, per sub-suite in order,
   [suite setup] [the sub-suite's whole run] [suite teardown] *)
Definition bracketed (s : suiteinfo) (rec : node -> list event) (n' : node) : list event :=
  match n' with
  | Sn _ _ => (if s_has_teardown s then [EFixture (sid s) true] else []) ++ rec n'
              ++ (if s_has_setup s then [EFixture (sid s) false] else [])
  | Tn _ => []
  end.

Lemma subs_events_brackets s rec l :
  subs_events s rec l = concat (rev (map (bracketed s rec) l)).
Proof.
  induction l as [|n l IH]; [reflexivity|].
  cbn [subs_events map rev]. rewrite concat_app. cbn [concat]. rewrite app_nil_r, <- IH.
  destruct n; cbn [bracketed]; [rewrite app_nil_r|]; reflexivity.
Qed.
