(* Lemmas_Props.v — corollaries of the refinement theorem from which the property files
   (Properties_C01 ... ) are stated. *)
From Coq Require Import List ZArith Bool Lia.
From CgreenVerif Require Import Defs Runner Spec_Runner Lemmas_Runner Lemmas_Facts.
From CgreenVerif.Gen Require Import Facts.
Import ListNotations.
Local Open Scope Z_scope.

Lemma good_init : good p_init.  Proof. split; reflexivity. Qed.

(* a whole run, either mode, any reporter that folds all counters *)
Lemma run_suite_spec rk vexpr m cap n :
  rk_folds rk -> (1 <= cap)%nat -> is_suite n -> ok_tree m cap n ->
  exists f',
    run_suite rk vexpr m cap n =
    Finished (vexpr (passes (total n)) (failures (total n)) (skips (total n)) (exceptions (total n)))
             (mkp (node_c n) (total n) [] [] f' (spec_events [] czero n)).
Proof.
  intros Hrk Hcap Hs Hok.
  destruct (run_node_spec rk m cap Hrk Hcap n Hs p_init Hok good_init) as (f' & _ & H).
  exists f'. unfold run_suite. rewrite H. unfold verdict_of. cbn [tot p_init c crumb pipe pfw out].
  rewrite cadd_zero_l, app_nil_r. reflexivity.
Qed.

(* ------------------------------------------------------------------------------------ *)
(* non-negativity and sums *)
Lemma count_msgs_nonneg m :
  0 <= passes (count_msgs m) /\ 0 <= failures (count_msgs m) /\ 0 <= exceptions (count_msgs m).
Proof.
  induction m as [|x m IH]; [cbn; lia|]. rewrite count_msgs_cons.
  destruct x; unfold cadd; cbn [passes failures skips exceptions]; lia.
Qed.

Lemma own_nonneg s t :
  0 <= passes (own s t) /\ 0 <= failures (own s t) /\ 0 <= skips (own s t) /\ 0 <= exceptions (own s t).
Proof.
  rewrite own_eq. destruct (tskip t); [cbn; lia|].
  pose proof (count_msgs_nonneg (own_msgs s t)) as (H1 & H2 & H3).
  cbn [passes failures skips exceptions].
  destruct (has_skip (own_msgs s t)), (own_death s t); lia.
Qed.

Definition own_list (n : node) : list cnt := map (fun st => own (fst st) (snd st)) (tests_of n).

Lemma sum_cnt_app l1 l2 : sum_cnt (l1 ++ l2) = cadd (sum_cnt l1) (sum_cnt l2).
Proof.
  induction l1 as [|x l1 IH]; cbn [app sum_cnt fold_right]; [rewrite cadd_zero_l; reflexivity|].
  fold (sum_cnt (l1 ++ l2)). fold (sum_cnt l1). rewrite IH, cadd_assoc. reflexivity.
Qed.

(* the specification's total is the sum of what each test does when run alone *)
Lemma total_is_sum : forall n, total n = sum_cnt (own_list n).
Proof.
  induction n as [t|s ch IH] using node_ind'.
  - unfold own_list. cbn. rewrite cadd_zero_r. reflexivity.
  - cbn [total]. unfold own_list. cbn [tests_of].
    induction ch as [|n ch IHch]; [reflexivity|].
    apply Forall_cons_iff in IH; destruct IH as [Hn Hch]. specialize (IHch Hch).
    cbn [subs_total direct_sum flat_map]. rewrite map_app, sum_cnt_app.
    destruct n as [t|s' ch'].
    + cbn [map sum_cnt fold_right fst snd]. rewrite <- IHch. cnt.
    + rewrite Hn. unfold own_list. rewrite <- IHch. cnt.
Qed.

Lemma sum_zero_iff (proj : cnt -> Z) (l : list cnt) :
  (forall a b, proj (cadd a b) = proj a + proj b) -> proj czero = 0 ->
  (forall x, In x l -> 0 <= proj x) ->
  (proj (sum_cnt l) = 0 <-> forall x, In x l -> proj x = 0).
Proof.
  intros Hadd Hz. induction l as [|x l IH]; intros Hnn.
  - cbn. split; [intros _ x []| intros _; exact Hz].
  - cbn [sum_cnt fold_right]. fold (sum_cnt l). rewrite Hadd.
    assert (Hl : forall y, In y l -> 0 <= proj y) by (intros y Hy; apply Hnn; right; exact Hy).
    assert (Hs : 0 <= proj (sum_cnt l)).
    { clear IH. induction l as [|y l IHl]; [cbn; rewrite Hz; lia|].
      cbn [sum_cnt fold_right]. fold (sum_cnt l). rewrite Hadd.
      assert (0 <= proj y) by (apply Hl; left; reflexivity).
      assert (0 <= proj (sum_cnt l)).
      { apply IHl; intros z Hz'; [apply Hnn; cbn in *; tauto | apply Hl; right; exact Hz']. }
      lia. }
    specialize (IH Hl). pose proof (Hnn x (or_introl eq_refl)) as Hx.
    split.
    + intros H y [Hy|Hy]; [subst; lia | apply IH; [lia | exact Hy]].
    + intros H. assert (proj x = 0) by (apply H; left; reflexivity).
      assert (proj (sum_cnt l) = 0) by (apply IH; intros y Hy; apply H; right; exact Hy). lia.
Qed.

(* "every executed check passed and every test ran to completion", test by test *)
Lemma all_good_each n :
  all_good n <->
  forall s t, In (s, t) (tests_of n) -> failures (own s t) = 0 /\ exceptions (own s t) = 0.
Proof.
  unfold all_good. rewrite total_is_sum.
  assert (Hnn : forall (proj : cnt -> Z), (forall s t, 0 <= proj (own s t)) ->
                forall x, In x (own_list n) -> 0 <= proj x).
  { intros proj Hp x Hx. unfold own_list in Hx. apply in_map_iff in Hx. destruct Hx as ([s t] & <- & _). apply Hp. }
  rewrite (sum_zero_iff failures (own_list n)); [ | reflexivity | reflexivity | apply Hnn; intros; apply own_nonneg ].
  rewrite (sum_zero_iff exceptions (own_list n)); [ | reflexivity | reflexivity | apply Hnn; intros; apply own_nonneg ].
  unfold own_list. split.
  - intros [H1 H2] s t Hin. split; [apply H1 | apply H2]; apply in_map_iff; exists (s, t); auto.
  - intros H. split; intros x Hx; apply in_map_iff in Hx; destruct Hx as ([s t] & <- & Hin); apply (H s t Hin).
Qed.

(* ------------------------------------------------------------------------------------ *)
(* C01 *)
Lemma verdict_iff rk m cap n :
  rk_folds rk -> (1 <= cap)%nat -> is_suite n -> ok_tree m cap n ->
  (exit_ok (run_suite rk verdict_suite m cap n) = true <-> all_good n).
Proof.
  intros Hrk Hcap Hs Hok.
  destruct (run_suite_spec rk verdict_suite m cap n Hrk Hcap Hs Hok) as (f' & H).
  rewrite H. cbn [exit_ok]. rewrite verdict_suite_spec. unfold all_good. tauto.
Qed.

(* ------------------------------------------------------------------------------------ *)
(* what the events of the specification say (C03, C04) *)
Lemma in_spec_test_done path s t i d cl :
  In (ETestDone i d cl) (spec_test path s t) -> i = tid t /\ d = own s t /\ cl = clean (own s t).
Proof.
  unfold spec_test. destruct (tskip t).
  - cbn. intros [H|[H|[H|[]]]]; inversion H; auto.
  - cbn [In]. intros [H|H]; [inversion H; auto|].
    apply in_app_or in H. destruct H as [H|H].
    + destruct (own_death s t); [cbn in H; destruct H as [H|[]]; discriminate|].
      destruct (has_skip (own_msgs s t)); cbn in H; [destruct H as [H|[]]; discriminate | destruct H].
    + cbn in H. destruct H as [H|[H|[]]]; discriminate.
Qed.

Lemma in_direct_events e path s l :
  In e (direct_events path s l) -> exists t, In (Tn t) l /\ In e (spec_test path s t).
Proof.
  induction l as [|n l IH]; cbn [direct_events]; [intros []|].
  destruct n as [t|s' ch'].
  - intros H. apply in_app_or in H. destruct H as [H|H].
    + destruct (IH H) as (t' & H1 & H2). exists t'. split; [right; exact H1 | exact H2].
    + exists t. split; [left; reflexivity | exact H].
  - intros H. destruct (IH H) as (t' & H1 & H2). exists t'. split; [right; exact H1 | exact H2].
Qed.

Definition is_test_event (e : event) : bool :=
  match e with
  | ETestDone _ _ _ | EIncomplete _ _ | ESkipShown _ | EChild _ _ | EStartTest _ => true
  | _ => false
  end.

(* every per-test event of a run comes from the specification of one test of the tree, at the
   breadcrumb of that test's suite *)
Lemma in_spec_events : forall n path tot0 e,
  is_test_event e = true -> In e (spec_events path tot0 n) ->
  exists s t path', In (s, t) (tests_of n) /\ In e (spec_test path' s t).
Proof.
  induction n as [t|s ch IH] using node_ind'; intros path tot0 e He Hin.
  - exists nosuite, t, path. split; [left; reflexivity | exact Hin].
  - cbn [spec_events] in Hin.
    apply in_app_or in Hin. destruct Hin as [Hin|Hin].
    { destruct path; cbn in Hin; [destruct Hin as [<-|[]]; discriminate | destruct Hin]. }
    apply in_app_or in Hin. destruct Hin as [Hin|Hin].
    { cbn in Hin. destruct Hin as [<-|[]]; discriminate. }
    apply in_app_or in Hin. destruct Hin as [Hin|Hin].
    { apply in_direct_events in Hin. destruct Hin as (t & H1 & H2).
      exists s, t, ((1000 + sid s)%nat :: path). split; [|exact H2].
      cbn [tests_of]. apply in_flat_map. exists (Tn t). split; [exact H1 | left; reflexivity]. }
    apply in_app_or in Hin. destruct Hin as [Hin|Hin].
    2:{ cbn in Hin. destruct Hin as [<-|[]]; discriminate. }
    (* inside a sub-suite *)
    set (here := (1000 + sid s)%nat :: path) in *.
    assert (Hsub : exists n', In n' ch /\ is_suite n' /\ In e (spec_events here tot0 n')).
    { clear IH. induction ch as [|n ch IHch]; [destruct Hin|].
      cbn [subs_events] in Hin. destruct n as [t|s' ch'].
      - destruct (IHch Hin) as (n' & H1 & H2 & H3). exists n'. split; [right; exact H1 | auto].
      - apply in_app_or in Hin. destruct Hin as [Hin|Hin].
        { destruct (IHch Hin) as (n' & H1 & H2 & H3). exists n'. split; [right; exact H1 | auto]. }
        apply in_app_or in Hin. destruct Hin as [Hin|Hin].
        { destruct (s_has_teardown s); cbn in Hin; [destruct Hin as [<-|[]]; discriminate | destruct Hin]. }
        apply in_app_or in Hin. destruct Hin as [Hin|Hin].
        { exists (Sn s' ch'). split; [left; reflexivity | split; [exact I | exact Hin]]. }
        destruct (s_has_setup s); cbn in Hin; [destruct Hin as [<-|[]]; discriminate | destruct Hin]. }
    destruct Hsub as (n' & H1 & H2 & H3).
    rewrite Forall_forall in IH. destruct (IH n' H1 here tot0 e He H3) as (s0 & t0 & path' & H4 & H5).
    exists s0, t0, path'. split; [|exact H5].
    cbn [tests_of]. apply in_flat_map. exists n'. split; [exact H1|].
    destruct n'; [destruct H2 | exact H4].
Qed.

(* the result credited to a test is what it does when run alone, whatever else is in the tree *)
Lemma credited_is_own n path tot0 i d cl :
  In (ETestDone i d cl) (spec_events path tot0 n) ->
  exists s t, In (s, t) (tests_of n) /\ i = tid t /\ d = own s t /\ cl = clean (own s t).
Proof.
  intros H. destruct (in_spec_events n path tot0 (ETestDone i d cl) eq_refl H) as (s & t & path' & H1 & H2).
  exists s, t. split; [exact H1|]. exact (in_spec_test_done path' s t i d cl H2).
Qed.

(* an exception line carries the name of the test that ended abnormally, innermost first *)
Lemma incomplete_names_producer n path tot0 cr sg :
  In (EIncomplete cr sg) (spec_events path tot0 n) ->
  exists s t, In (s, t) (tests_of n) /\ hd_error cr = Some (tid t) /\ tskip t = false /\
              exists d, own_death s t = Some d /\ sg = sig_text (Some d).
Proof.
  intros H. destruct (in_spec_events n path tot0 (EIncomplete cr sg) eq_refl H) as (s & t & path' & H1 & H2).
  exists s, t. split; [exact H1|]. unfold spec_test in H2. destruct (tskip t) eqn:Hsk.
  - cbn in H2. destruct H2 as [H2|[H2|[H2|[]]]]; discriminate.
  - cbn [In] in H2. destruct H2 as [H2|H2]; [discriminate|].
    apply in_app_or in H2. destruct H2 as [H2|H2].
    + destruct (own_death s t) as [d|].
      * cbn in H2. destruct H2 as [H2|[]]. inversion H2; subst. cbn. repeat split; auto. exists d. auto.
      * destruct (has_skip (own_msgs s t)); cbn in H2; [destruct H2 as [H2|[]]; discriminate | destruct H2].
    + cbn in H2. destruct H2 as [H2|[H2|[]]]; discriminate.
Qed.

(* ------------------------------------------------------------------------------------ *)
(* completeness: every test of the tree gets its events *)
Lemma spec_test_has_done path s t :
  In (ETestDone (tid t) (own s t) (clean (own s t))) (spec_test path s t).
Proof. unfold spec_test. destruct (tskip t); left; reflexivity. Qed.

Lemma direct_events_has path s l t e :
  In (Tn t) l -> In e (spec_test path s t) -> In e (direct_events path s l).
Proof.
  induction l as [|n l IH]; [intros []|]. intros [->|H] He; cbn [direct_events].
  - apply in_or_app. right. exact He.
  - destruct n; [apply in_or_app; left|]; apply IH; assumption.
Qed.

Lemma test_done_present : forall n path tot0 s t,
  is_suite n -> In (s, t) (tests_of n) ->
  In (ETestDone (tid t) (own s t) (clean (own s t))) (spec_events path tot0 n).
Proof.
  induction n as [t0|s0 ch IH] using node_ind'; intros path tot0 s t Hs Hin; [destruct Hs|].
  cbn [tests_of] in Hin. apply in_flat_map in Hin. destruct Hin as (n' & Hn' & Hin).
  cbn [spec_events]. apply in_or_app. right. apply in_or_app. right.
  destruct n' as [t'|s' ch'].
  - destruct Hin as [Hin|[]]. inversion Hin; subst.
    apply in_or_app. left. eapply direct_events_has; [exact Hn' | apply spec_test_has_done].
  - apply in_or_app. right. apply in_or_app. left.
    rewrite Forall_forall in IH.
    pose proof (IH (Sn s' ch') Hn' ((1000 + sid s0)%nat :: path) tot0 s t I Hin) as Hev.
    clear IH Hs. induction ch as [|n ch IHch]; [destruct Hn'|].
    cbn [subs_events]. destruct Hn' as [->|Hn'].
    + apply in_or_app. right. apply in_or_app. right. apply in_or_app. left. exact Hev.
    + destruct n; [apply IHch; exact Hn' | apply in_or_app; left; apply IHch; exact Hn'].
Qed.

(* tests are told apart by their names *)
Definition unique_names (n : node) : Prop := NoDup (map (fun st => tid (snd st)) (tests_of n)).

Lemma unique_names_inj n s1 t1 s2 t2 :
  unique_names n -> In (s1, t1) (tests_of n) -> In (s2, t2) (tests_of n) -> tid t1 = tid t2 ->
  (s1, t1) = (s2, t2).
Proof.
  unfold unique_names. generalize (tests_of n) as l.
  induction l as [|x l IH]; [intros _ []|].
  cbn [map]. intros Hnd H1 H2 He. apply NoDup_cons_iff in Hnd. destruct Hnd as [Hx Hnd].
  destruct H1 as [->|H1], H2 as [->|H2]; auto.
  - exfalso. apply Hx. apply in_map_iff. exists (s2, t2). cbn. auto.
  - exfalso. apply Hx. apply in_map_iff. exists (s1, t1). cbn. auto.
Qed.

(* the results credited to a test are its own results, in every tree that contains it *)
Lemma credited_exactly_own n path tot0 s t d cl :
  is_suite n -> unique_names n -> In (s, t) (tests_of n) ->
  (In (ETestDone (tid t) d cl) (spec_events path tot0 n) <-> d = own s t /\ cl = clean (own s t)).
Proof.
  intros Hs Hu Hin. split.
  - intros H. destruct (credited_is_own n path tot0 _ _ _ H) as (s' & t' & H1 & H2 & H3 & H4).
    pose proof (unique_names_inj n s t s' t' Hu Hin H1 H2) as He. inversion He; subst. auto.
  - intros [-> ->]. apply test_done_present; assumption.
Qed.

Lemma ok_tree_weaken cap n : ok_tree InProcess cap n -> ok_tree Forked cap n.
Proof. intros H s t Hin. destruct (H s t Hin) as [H1 _]. split; [exact H1 | exact I]. Qed.

(* ------------------------------------------------------------------------------------ *)
(* decidable form of the hypotheses (used by the Examples and by the harness to say which
   generated scenarios lie inside the theorems' premises) *)
Definition is_compl_msg (x : msg) : bool := match x with MCompletion => true | _ => false end.
Definition wf_testb (t : test) : bool :=
  forallb user_act (tsetup t) && forallb user_act (tbody t) && forallb user_act (tteardown t).
Definition regularb (s : suiteinfo) (t : test) : bool :=
  match own_death s t with
  | Some _ => negb (has_skip (own_msgs s t)) && negb (existsb is_compl_msg (own_msgs s t))
  | None => true
  end.
Definition fitsb (cap : nat) (s : suiteinfo) (t : test) : bool := Nat.leb (length (own_msgs s t)) cap.
Definition no_pokeb (t : test) : bool :=
  forallb (fun a => negb (is_poke a)) (tsetup t ++ tbody t ++ tteardown t).
Definition test_okb (m : xmode) (cap : nat) (s : suiteinfo) (t : test) : bool :=
  wf_testb t && fitsb cap s t && regularb s t &&
  match m with
  | Forked => true
  | InProcess => (match own_death s t with None => true | Some _ => false end) && no_pokeb t
  end.
Definition ok_treeb (m : xmode) (cap : nat) (n : node) : bool :=
  forallb (fun st => test_okb m cap (fst st) (snd st)) (tests_of n).

Lemma no_compl_b m : existsb is_compl_msg m = false -> no_compl m.
Proof.
  unfold no_compl. induction m as [|x m IH]; [intros _ []|].
  cbn [existsb]. intros H [Hx|Hx]; apply orb_false_elim in H; destruct H as [H1 H2].
  - subst x. discriminate.
  - exact (IH H2 Hx).
Qed.

Lemma test_okb_ok m cap s t : test_okb m cap s t = true -> test_ok m cap s t.
Proof.
  unfold test_okb, test_ok, ok_test. intros H.
  apply andb_prop in H; destruct H as [H Hm]. apply andb_prop in H; destruct H as [H Hr].
  apply andb_prop in H; destruct H as [Hw Hf].
  split; [repeat split|].
  - unfold wf_testb in Hw. apply andb_prop in Hw; destruct Hw as [Hw _]. apply andb_prop in Hw; tauto.
  - unfold wf_testb in Hw. apply andb_prop in Hw; destruct Hw as [Hw _]. apply andb_prop in Hw; tauto.
  - unfold wf_testb in Hw. apply andb_prop in Hw; tauto.
  - unfold fits. apply Nat.leb_le. exact Hf.
  - unfold regular, regularb in *. destruct (own_death s t); [|exact I].
    apply andb_prop in Hr; destruct Hr as [H1 H2]. apply negb_true_iff in H1, H2.
    split; [exact H1 | apply no_compl_b; exact H2].
  - destruct m; [exact I|]. apply andb_prop in Hm; destruct Hm as [H1 H2].
    split; [destruct (own_death s t); [discriminate | reflexivity] | exact H2].
Qed.

Lemma ok_treeb_ok m cap n : ok_treeb m cap n = true -> ok_tree m cap n.
Proof.
  unfold ok_treeb, ok_tree. rewrite forallb_forall. intros H s t Hin.
  apply test_okb_ok. exact (H (s, t) Hin).
Qed.
