(* Lemmas_Code_Runner.v - the path of one test through src/runner.c, as translated from the current
   source (Gen/Code_runner.v): the calls run_the_test_code() makes, in order, for every combination
   of fixtures and time limit; run_test_in_the_current_process(); the verdict functions. *)
From Coq Require Import List ZArith String Bool Lia.
From CgreenVerif Require Import CLite Lemmas_CLite Runner.
From CgreenVerif.Gen Require Import Code_runner Code_platform.
Import ListNotations.
Local Open Scope string_scope. Local Open Scope list_scope. Local Open Scope Z_scope.

Definition b2v (b : bool) : val := VInt (if b then 1 else 0).
Definition fptr (b : bool) (name : string) : val := if b then VFun name else VInt 0.

(* object 0: the suite, 1: the test (CgreenTest), 2: its context, 3: the reporter *)
Definition test_world (cs ct skip : bool) (streams : list (string * list val)) : world :=
  mkw [ORec [("setup", VFun "suite_setup"); ("teardown", VFun "suite_teardown")];
       ORec [("context", VPtr 2 0); ("name", VLit [116]); ("skip", b2v skip); ("filename", VLit [102]); ("line", VInt 7)];
       ORec [("setup", fptr cs "ctx_setup"); ("teardown", fptr ct "ctx_teardown")];
       ORec [("start_test", VFun "start_test"); ("finish_test", VFun "finish_test"); ("duration", VInt 0)]]
      [] streams [].

Definition code_streams (hs ht td : bool) (tv : Z) : list (string * list val) :=
  [("has_setup", [b2v hs]); ("has_teardown", [b2v ht]); ("per_test_timeout_defined", [b2v td]);
   ("per_test_timeout_value", [VInt tv])].

(* the calls, oldest first *)
Definition test_code_calls (hs ht cs ct td : bool) (tv : Z) : list (string * list val) :=
  [("significant_figures_for_assert_double_are", [VInt 8]); ("cgreen_mocks_are", [VInt 0]); ("clear_mocks", []);
   ("per_test_timeout_defined", [])] ++
  (if td then [("validate_per_test_timeout_value", []); ("per_test_timeout_value", []); ("die_in", [VInt (wrap U32 tv)])] else []) ++
  [("has_setup", [VPtr 0 0])] ++
  (if hs then [("suite_setup", [])] else if cs then [("run_setup_for", [VPtr 1 0])] else []) ++
  [("run", [VPtr 1 0]); ("has_teardown", [VPtr 0 0])] ++
  (if ht then [("suite_teardown", [])] else if ct then [("run_teardown_for", [VPtr 1 0])] else []) ++
  [("tally_mocks", [VPtr 3 0])].

Definition spent_streams : list (string * list val) :=
  [("has_setup", []); ("has_teardown", []); ("per_test_timeout_defined", []); ("per_test_timeout_value", [])].
Definition unspent_timeout (tv : val) : list (string * list val) :=
  [("has_setup", []); ("has_teardown", []); ("per_test_timeout_defined", []); ("per_test_timeout_value", [tv])].

Definition code_streams_v (hs ht td : bool) (tv : val) : list (string * list val) :=
  [("has_setup", [b2v hs]); ("has_teardown", [b2v ht]); ("per_test_timeout_defined", [b2v td]);
   ("per_test_timeout_value", [tv])].
Definition test_code_calls_v (hs ht cs ct td : bool) (tv : val) : list (string * list val) :=
  [("significant_figures_for_assert_double_are", [VInt 8]); ("cgreen_mocks_are", [VInt 0]); ("clear_mocks", []);
   ("per_test_timeout_defined", [])] ++
  (if td then [("validate_per_test_timeout_value", []); ("per_test_timeout_value", []); ("die_in", [tv])] else []) ++
  [("has_setup", [VPtr 0 0])] ++
  (if hs then [("suite_setup", [])] else if cs then [("run_setup_for", [VPtr 1 0])] else []) ++
  [("run", [VPtr 1 0]); ("has_teardown", [VPtr 0 0])] ++
  (if ht then [("suite_teardown", [])] else if ct then [("run_teardown_for", [VPtr 1 0])] else []) ++
  [("tally_mocks", [VPtr 3 0])].

(* run_the_test_code(): exactly these calls, in this order, for every combination of suite fixtures,
   context fixtures and time limit; the limit's value is an opaque token handed from
   per_test_timeout_value() to die_in() (32 cases, each computed) *)
Lemma run_the_test_code_calls :
  forall hs ht cs ct td n,
    run_fun prog_runner (8 + n) "run_the_test_code" [VPtr 0 0; VPtr 1 0; VPtr 3 0]
            (test_world cs ct false (code_streams_v hs ht td (VFun "the limit"))) =
    Fine (VInt 0, mkw (heap (test_world cs ct false [])) []
                      (if td then spent_streams else unspent_timeout (VFun "the limit"))
                      (rev (test_code_calls_v hs ht cs ct td (VFun "the limit")))).
Proof.
  intros hs ht cs ct td n.
  destruct hs, ht, cs, ct, td; vm_compute; reflexivity.
Qed.

(* ... and with an integer value: die_in() gets it converted to unsigned int *)
Lemma run_the_test_code_limit_conversion :
  forall tv n,
    run_fun prog_runner (8 + n) "run_the_test_code" [VPtr 0 0; VPtr 1 0; VPtr 3 0]
            (test_world false false false (code_streams_v false false true (VInt tv))) =
    Fine (VInt 0, mkw (heap (test_world false false false [])) [] spent_streams
                      (rev (test_code_calls_v false false false false true (VInt (wrap U32 tv))))).
Proof.
  intros tv n. cbn [Nat.add].
  unfold run_fun, find_fun, test_world, code_streams_v, b2v, fptr. cbn [alookup prog_runner String.eqb Ascii.eqb Bool.eqb].
  unfold mk_call at 1. unfold find_fun. cbn [alookup prog_runner String.eqb Ascii.eqb Bool.eqb].
  cbn [bind_params fparams fbody code_run_the_test_code].
  repeat (first [ progress (srun prog_runner) | rewrite exec_loop ]). reflexivity.
Qed.

(* the phases of the model's child_steps are these calls: reset (figures, mock mode, expectations),
   the applicable setup, the body, the applicable teardown, the mock tally *)
Definition phase_of_call (c : string * list val) : list tev :=
  match fst c with
  | "suite_setup" => [TvPhase (PhSuiteSetup 0)]
  | "run_setup_for" => [TvPhase PhSetup]
  | "run" => [TvPhase PhBody]
  | "suite_teardown" => [TvPhase (PhSuiteTeardown 0)]
  | "run_teardown_for" => [TvPhase PhTeardown]
  | "tally_mocks" => [TvTally]
  | _ => []
  end.

Lemma calls_are_the_model_s_phases :
  forall hs ht cs ct td tv f,
    flat_map phase_of_call (test_code_calls_v hs ht cs ct td tv) =
    trace f (child_steps (mksuite 0 hs ht) (mktest 0 false cs ct [] [] [] None)).
Proof. intros. destruct hs, ht, cs, ct, td; reflexivity. Qed.

(* the reset comes first: figures to the default, strict mocks, expectations cleared - before any
   fixture or test code *)
Lemma reset_comes_first :
  forall hs ht cs ct td tv,
    firstn 3 (test_code_calls_v hs ht cs ct td tv) =
    [("significant_figures_for_assert_double_are", [VInt 8]); ("cgreen_mocks_are", [VInt 0]); ("clear_mocks", [])].
Proof. reflexivity. Qed.

(* run_test_in_the_current_process(): start_test; a skipped test only sends the skipped notice, any
   other runs the test code and then sends the completion notice; finish_test last *)
Definition inproc_streams (hs ht : bool) : list (string * list val) :=
  [("has_setup", [b2v hs]); ("has_teardown", [b2v ht]); ("per_test_timeout_defined", [VInt 0]);
   ("cgreen_time_get_current_milliseconds", [VInt 100; VInt 130]); ("cgreen_time_duration_in_milliseconds", [VInt 30])].

Definition names_of (tr : list (string * list val)) : list string := rev (map fst tr).

Lemma run_test_in_the_current_process_calls :
  forall hs ht cs ct skip n,
    exists w',
      run_fun prog_runner (10 + n) "run_test_in_the_current_process" [VPtr 0 0; VPtr 1 0; VPtr 3 0]
              (test_world cs ct skip (inproc_streams hs ht)) = Fine (VInt 0, w') /\
      names_of (wtrace w') =
      ["cgreen_time_get_current_milliseconds"; "start_test"] ++
      (if skip then ["send_reporter_skipped_notification"]
       else map fst (test_code_calls_v hs ht cs ct false (VInt 0)) ++
            ["cgreen_time_get_current_milliseconds"; "cgreen_time_duration_in_milliseconds";
             "send_reporter_completion_notification"]) ++
      ["finish_test"].
Proof.
  intros hs ht cs ct skip n.
  destruct hs, ht, cs, ct, skip; eexists; (split; [vm_compute; reflexivity | vm_compute; reflexivity]).
Qed.

(* the verdicts: run_test_suite() returns 0 exactly when both totals are zero, run_single_test()
   looks at the failures only; both validate the time limit before anything runs *)
Definition verdict_world (tf te : Z) (td : bool) : world :=
  mkw [ORec []; ORec [("total_failures", VInt tf); ("total_exceptions", VInt te)]] []
      [("per_test_timeout_defined", [b2v td])] [].

Lemma run_test_suite_verdict :
  forall tf te td n,
    exists w',
      run_fun prog_runner (5 + n) "run_test_suite" [VPtr 0 0; VPtr 1 0] (verdict_world tf te td) =
      Fine (VInt (if (tf =? 0) && (te =? 0) then 0 else 1), w') /\
      names_of (wtrace w') =
      ["per_test_timeout_defined"] ++ (if td then ["validate_per_test_timeout_value"] else []) ++
      ["setup_reporting"; "run_every_test"].
Proof.
  intros tf te td n.
  destruct tf, te, td; eexists; (split; vm_compute; reflexivity).
Qed.

Lemma run_single_test_verdict :
  forall tf te td n,
    exists w',
      run_fun prog_runner (5 + n) "run_single_test" [VPtr 0 0; VLit [116]; VPtr 1 0] (verdict_world tf te td) =
      Fine (VInt (if tf =? 0 then 0 else 1), w') /\
      names_of (wtrace w') =
      ["per_test_timeout_defined"] ++ (if td then ["validate_per_test_timeout_value"] else []) ++
      ["setup_reporting"; "run_named_test"].
Proof.
  intros tf te td n.
  destruct tf, te, td; eexists; (split; vm_compute; reflexivity).
Qed.

(* a failing fork() ends the run through die(); the alarm handler is installed before the alarm
   is set; stop() leaves with status 0 (it is the normal end of a test process) *)
Lemma in_child_process_fork_failure :
  forall n, exists w',
    run_fun prog_platform (3 + n) "in_child_process" [] (mkw [] [] [("fork", [VInt (-1)])] []) = Fine (VInt 0, w') /\
    names_of (wtrace w') = ["fflush"; "fork"; "die"].
Proof. intro n. eexists. split; vm_compute; reflexivity. Qed.

Lemma in_child_process_result :
  forall n pid, pid >= 0 -> exists w',
    run_fun prog_platform (3 + n) "in_child_process" [] (mkw [] [] [("fork", [VInt pid])] []) =
      Fine (VInt (if pid =? 0 then 1 else 0), w') /\
    names_of (wtrace w') = ["fflush"; "fork"].
Proof.
  intros n pid Hp.
  destruct pid as [|p|p]; [| |lia]; eexists; (split; vm_compute; reflexivity).
Qed.

Lemma die_in_arms_the_alarm :
  forall n secs, exists w',
    run_fun prog_platform (3 + n) "die_in" [VInt secs] (mkw [] [("stderr", VInt 2)] [("signal", [VInt 0])] []) = Fine (VInt 0, w') /\
    rev (wtrace w') = [("signal", [VInt 14; VFun "stop_on_timeout"]); ("alarm", [VInt secs])].
Proof. intros n secs. eexists. split; vm_compute; reflexivity. Qed.
