(* C12 — Values pass through mocks unchanged.  `values_src` holds the stored / loaded / copied
   expressions and byte counts translated from src/constraint.c, src/mocks.c,
   src/boxed_double.c, src/cgreen_value.c and the will_* macros on every run. *)
From Coq Require Import List ZArith Bool.
From CgreenVerif Require Import Defs Values Lemmas_Values.
From CgreenVerif.Gen Require Import Facts.
Import ListNotations.
Local Open Scope Z_scope.

(* will_return(v): mock() hands back v, for every integer v (in particular every intptr_t:
   no truncation to int, no sign change) *)
Theorem C12_will_return_identity : forall v, return_m values_src v = v.
Proof. exact (return_roundtrip values_src values_src_ok). Qed.
Print Assumptions C12_will_return_identity.

(* will_return_double / box_double / unbox_double: the code only copies the 64-bit pattern
   (stored as a double field, boxed by mock_(), box->value = value, as_double reads ->value),
   so every pattern - NaN payloads, signed zeros, subnormals, infinities - comes back as given.
   That a C assignment of a double copies its bits is the platform's (x86-64 SSE), not proved. *)
Theorem C12_double_bits_roundtrip : forall bits, double_m values_src bits = Some bits.
Proof. exact (double_roundtrip values_src values_src_ok). Qed.
Print Assumptions C12_double_bits_roundtrip.

(* will_return_by_value(object, size): the caller gets a fresh block holding exactly the
   object's first `size` bytes, for every size and content; no access outside either block *)
Theorem C12_by_value_identical_copy : forall src size,
  0 <= size <= Z.of_nat (length src) -> by_value_m values_src src size = MOk (firstn (Z.to_nat size) src).
Proof. exact (by_value_copy values_src values_src_ok). Qed.
Print Assumptions C12_by_value_identical_copy.

(* ... and so does every call served by the same expectation (always_expect, times(n)) *)
Theorem C12_by_value_every_call : forall src size calls,
  0 <= size <= Z.of_nat (length src) ->
  Forall (fun r => r = MOk (firstn (Z.to_nat size) src)) (by_value_calls_m values_src src size calls).
Proof. exact (by_value_every_call values_src values_src_ok). Qed.
Print Assumptions C12_by_value_every_call.

(* will_set_contents_of_output_parameter(p, src, size), the argument pointing `off` bytes into
   the caller's buffer: exactly the `size` source bytes are written there and every other byte
   of the buffer keeps its value - for every size (0 included), offset and content *)
Theorem C12_set_contents_exact_bytes : forall buf off src size r,
  0 <= off -> 0 <= size <= Z.of_nat (length src) -> off + size <= Z.of_nat (length buf) ->
  set_contents_m values_src buf off src size = MOk r ->
  length r = length buf /\
  (forall i, (i < Z.to_nat off \/ Z.to_nat (off + size) <= i)%nat -> nth_error r i = nth_error buf i) /\
  (forall j, (j < Z.to_nat size)%nat -> nth_error r (Z.to_nat off + j) = nth_error src j).
Proof. exact (set_contents_frame values_src values_src_ok). Qed.
Print Assumptions C12_set_contents_exact_bytes.

Theorem C12_set_contents_never_out_of_bounds : forall buf off src size,
  0 <= off -> 0 <= size <= Z.of_nat (length src) -> off + size <= Z.of_nat (length buf) ->
  set_contents_m values_src buf off src size =
  MOk (firstn (Z.to_nat off) buf ++ firstn (Z.to_nat size) src ++ skipn (Z.to_nat (off + size)) buf).
Proof. exact (set_contents_exact values_src values_src_ok). Qed.
Print Assumptions C12_set_contents_never_out_of_bounds.

(* will_capture_parameter(p, variable): for a variable of 0..8 bytes (1, 2, 4, 8 in
   particular), on a little- or big-endian machine, exactly sizeof(variable) bytes are written
   and the variable then holds the argument's value modulo 2^(8*size) *)
Theorem C12_capture_exact_value : forall be v size, 0 <= size <= 8 ->
  exists bs, capture_m values_src be v size = MOk bs /\ Z.of_nat (length bs) = size /\
             decode be bs = v mod 2 ^ (8 * size).
Proof. exact (capture_exact values_src values_src_ok). Qed.
Print Assumptions C12_capture_exact_value.
