(* Lemmas_Doubles.v — laws of the double comparisons over IEEE-754 binary64 (Flocq). *)
From Coq Require Import ZArith Bool List Reals Lia Lra.
From Flocq Require Import Core BinarySingleNaN.
From CgreenVerif Require Import Defs Doubles.
From CgreenVerif.Gen Require Import Facts.
Local Open Scope Z_scope.

Notation fin x := (is_finite x = true).
Notation fexp64 := (SpecFloat.fexp 53 1024).
Notation rnd64 := (round radix2 fexp64 ZnearestE).

(* |x - y| and |y - x| are the same double *)
Lemma Babs_Bminus_sym (x y : F64) : fin x -> fin y ->
  Babs (Bminus mode_NE x y) = Babs (Bminus mode_NE y x).
Proof.
  intros Fx Fy.
  pose proof (Bminus_correct 53 1024 _ _ mode_NE x y Fx Fy) as H1.
  pose proof (Bminus_correct 53 1024 _ _ mode_NE y x Fy Fx) as H2.
  cbn [round_mode] in H1, H2.
  assert (R : rnd64 (B2R y - B2R x) = (- rnd64 (B2R x - B2R y))%R).
  { replace (B2R y - B2R x)%R with (- (B2R x - B2R y))%R by ring. apply round_NE_opp. }
  rewrite R, Rabs_Ropp in H2.
  destruct (Rlt_bool (Rabs (rnd64 (B2R x - B2R y))) (bpow radix2 1024)).
  - destruct H1 as (V1 & F1 & _). destruct H2 as (V2 & F2 & _).
    apply B2R_Bsign_inj.
    + rewrite is_finite_Babs. exact F1.
    + rewrite is_finite_Babs. exact F2.
    + rewrite !B2R_Babs, V1, V2, Rabs_Ropp. reflexivity.
    + rewrite !Bsign_Babs. reflexivity.
  - destruct H1 as (V1 & _). destruct H2 as (V2 & _).
    unfold binary_overflow in V1, V2. cbn [overflow_to_inf] in V1, V2.
    destruct (Bminus mode_NE x y); try discriminate. destruct (Bminus mode_NE y x); try discriminate. reflexivity.
Qed.

(* C's max(|x|, |y|) does not depend on the order of the operands *)
Lemma fmax_abs_sym (x y : F64) : fin x -> fin y ->
  fmax_c (Babs x) (Babs y) = fmax_c (Babs y) (Babs x).
Proof.
  intros Fx Fy. unfold fmax_c.
  assert (Ax : fin (Babs x)) by (rewrite is_finite_Babs; exact Fx).
  assert (Ay : fin (Babs y)) by (rewrite is_finite_Babs; exact Fy).
  rewrite (Bltb_correct 53 1024 _ _ Ay Ax), (Bltb_correct 53 1024 _ _ Ax Ay).
  destruct (Rlt_bool_spec (B2R (Babs y)) (B2R (Babs x))) as [H|H];
    destruct (Rlt_bool_spec (B2R (Babs x)) (B2R (Babs y))) as [H'|H']; try reflexivity; try lra.
  symmetry. apply B2R_Bsign_inj; try assumption; [lra|rewrite !Bsign_Babs; reflexivity].
Qed.

(* SYMMETRY, for any tolerance function (any libm) and any figures setting *)
Theorem eq_m_symmetric acc figs (x y : F64) : fin x -> fin y -> eq_m acc figs x y = eq_m acc figs y x.
Proof.
  intros Fx Fy. unfold eq_m, doubles_are_equal_src. cbn [f_abs f_sub f_lt E64].
  change (match Bltb (Babs y) (Babs x) return F64 with true => Babs x | false => Babs y end) with (fmax_c (Babs x) (Babs y)).
  change (match Bltb (Babs x) (Babs y) return F64 with true => Babs y | false => Babs x end) with (fmax_c (Babs y) (Babs x)).
  rewrite (Babs_Bminus_sym x y Fx Fy), (fmax_abs_sym x y Fx Fy). reflexivity.
Qed.

(* the absolute tolerance of src/constraint.c is a positive finite number *)
Lemma abs_tol_positive : Bltb (B754_zero false) abs_tol = true /\ fin abs_tol.
Proof. split; vm_compute; reflexivity. Qed.

Lemma Bminus_self_zero (x : F64) : fin x -> B2R (Babs (Bminus mode_NE x x)) = 0%R /\ fin (Babs (Bminus mode_NE x x)).
Proof.
  intros Fx. pose proof (Bminus_correct 53 1024 _ _ mode_NE x x Fx Fx) as H. cbn [round_mode] in H.
  replace (B2R x - B2R x)%R with 0%R in H by ring. rewrite round_0 in H by apply valid_rnd_N.
  rewrite Rabs_R0 in H. rewrite Rlt_bool_true in H by apply bpow_gt_0.
  destruct H as (V & F & _). rewrite B2R_Babs, V, Rabs_R0, is_finite_Babs. auto.
Qed.

(* REFLEXIVITY: every finite value equals itself, whatever the figures and whatever libm does *)
Theorem eq_m_reflexive acc figs (x : F64) : fin x -> eq_m acc figs x x = true.
Proof.
  intros Fx. unfold eq_m, doubles_are_equal_src. cbn [f_abs f_sub f_lt E64].
  destruct (Bminus_self_zero x Fx) as (V & F). destruct abs_tol_positive as (P & FT).
  assert (L : Bltb (Babs (Bminus mode_NE x x)) abs_tol = true).
  { rewrite (Bltb_correct 53 1024 _ _ F FT), V.
    rewrite (Bltb_correct 53 1024 (B754_zero false) abs_tol eq_refl FT) in P. exact P. }
  rewrite L. reflexivity.
Qed.

(* COMPLEMENT: is_not_equal_to_double is exactly the negation of is_equal_to_double *)
Theorem not_equal_is_complement acc figs (e a : F64) :
  is_not_equal_to_double_m acc figs e a = negb (is_equal_to_double_m acc figs e a).
Proof. reflexivity. Qed.

(* FEWER FIGURES.  If the tolerance does not shrink when fewer figures are asked for (in the
   order `<` of doubles), whatever is accepted at m figures is accepted at n <= m figures. *)
Definition acc_monotone (acc : Z -> F64 -> F64) : Prop :=
  forall n m L d, n <= m -> Bltb d (acc m L) = true -> Bltb d (acc n L) = true.

Theorem eq_m_fewer_figures acc n m (x y : F64) :
  acc_monotone acc -> n <= m -> eq_m acc m x y = true -> eq_m acc n x y = true.
Proof.
  intros Hm Hnm. unfold eq_m, doubles_are_equal_src. cbn [f_abs f_sub f_lt E64].
  destruct (Bltb (Babs (Bminus mode_NE x y)) abs_tol); [reflexivity|]. apply Hm. exact Hnm.
Qed.

(* accuracy() as coded: 10^(1 + floor(log10 |L|) - figures).  It is monotone as soon as libm's
   pow(10, .) is monotone on integer exponents (H_pow_mono) - the arithmetic on the exponent,
   the use of fabs and the sign of `figures` are cgreen's and come from the translated source *)
Definition pow_monotone (L : libm F64) : Prop :=
  forall i j d, i <= j -> Bltb d (l_pow10 L (EFin i)) = true -> Bltb d (l_pow10 L (EFin j)) = true.

Theorem accuracy_monotone (L : libm F64) : pow_monotone L -> acc_monotone (accuracy_m L).
Proof.
  intros HP n m largest d Hnm. unfold accuracy_m, accuracy_src. cbn [f_abs E64].
  destruct (l_flog10 L (Babs largest)) as [|k| |]; cbn [ex_add ex_sub ex_neg]; try (intros H; exact H).
  apply HP. lia.
Qed.

Corollary fewer_figures_with_libm (L : libm F64) n m (x y : F64) :
  pow_monotone L -> n <= m -> eq_m (accuracy_m L) m x y = true -> eq_m (accuracy_m L) n x y = true.
Proof. intros HP. apply eq_m_fewer_figures. apply accuracy_monotone. exact HP. Qed.

(* ---------------------------------------------------------------- ordering constraints *)
(* a tolerance that is +infinity or a finite number with a clear sign bit (what pow(10, k) returns) *)
Definition tol_nonneg (t : F64) : Prop := t = B754_infinity false \/ (fin t /\ Bsign t = false).

Lemma tol_nonneg_R (t : F64) : fin t -> Bsign t = false -> (0 <= B2R t)%R.
Proof.
  intros F S. destruct t as [s|s| |s m e H]; try discriminate.
  - simpl. lra.
  - simpl in S. subst s. simpl. apply F2R_ge_0. simpl. lia.
Qed.

Lemma Bltb_finite_inf (a : F64) : fin a -> Bltb a (B754_infinity false) = true.
Proof. destruct a as [s|s| |s m e H]; intros F; try discriminate; destruct s; reflexivity. Qed.

(* x < y  ==>  x < y + t  for every non-negative tolerance t, in double arithmetic *)
Lemma lt_plus_tolerance (x y t : F64) : fin x -> fin y -> (B2R x < B2R y)%R -> tol_nonneg t ->
  Bltb x (Bplus mode_NE y t) = true.
Proof.
  intros Fx Fy Hlt [->|(Ft & St)].
  - destruct y as [s|s| |s m e H]; try discriminate; cbn [Bplus]; apply Bltb_finite_inf; exact Fx.
  - pose proof (Bplus_correct 53 1024 _ _ mode_NE y t Fy Ft) as H. cbn [round_mode] in H.
    pose proof (tol_nonneg_R t Ft St) as Ht.
    destruct (Rlt_bool (Rabs (rnd64 (B2R y + B2R t))) (bpow radix2 1024)).
    + destruct H as (V & F & _). rewrite (Bltb_correct 53 1024 _ _ Fx F), V.
      apply Rlt_bool_true. apply Rlt_le_trans with (1 := Hlt).
      rewrite <- (round_generic radix2 fexp64 ZnearestE (B2R y)) at 1 by apply generic_format_B2R.
      apply round_le; [apply fexp_correct; reflexivity|apply valid_rnd_N|lra].
    + destruct H as (V & Es). unfold binary_overflow in V. cbn [overflow_to_inf] in V.
      rewrite Es, St in V. destruct (Bplus mode_NE y t) as [s|s| |s m e H']; try discriminate.
      injection V as ->. apply Bltb_finite_inf. exact Fx.
Qed.

(* is_less_than_double(e): every actual strictly below e is accepted *)
Theorem lesser_accepts_strict acc figs (e a : F64) :
  (forall L, tol_nonneg (acc figs L)) -> fin e -> fin a -> (B2R a < B2R e)%R ->
  is_less_than_double_m acc figs e a = true.
Proof.
  intros Hacc Fe Fa Hlt. unfold is_less_than_double_m, order_want_lesser_double, lesser_m, double_is_lesser_src.
  cbn [f_add f_lt E64]. apply lt_plus_tolerance; auto.
Qed.

(* x - t < y whenever x < y ... the mirror image for is_greater_than_double *)
Lemma minus_tolerance_lt (x y t : F64) : fin x -> fin y -> (B2R x < B2R y)%R -> tol_nonneg t ->
  Bltb (Bminus mode_NE x t) y = true.
Proof.
  intros Fx Fy Hlt [->|(Ft & St)].
  - destruct x as [s|s| |s m e H]; try discriminate; cbn [Bminus negb];
      destruct y as [s'|s'| |s' m' e' H']; try discriminate; try destruct s'; reflexivity.
  - pose proof (Bminus_correct 53 1024 _ _ mode_NE x t Fx Ft) as H. cbn [round_mode] in H.
    pose proof (tol_nonneg_R t Ft St) as Ht.
    destruct (Rlt_bool (Rabs (rnd64 (B2R x - B2R t))) (bpow radix2 1024)).
    + destruct H as (V & F & _). rewrite (Bltb_correct 53 1024 _ _ F Fy), V.
      apply Rlt_bool_true. apply Rle_lt_trans with (2 := Hlt).
      rewrite <- (round_generic radix2 fexp64 ZnearestE (B2R x)) at 2 by apply generic_format_B2R.
      apply round_le; [apply fexp_correct; reflexivity|apply valid_rnd_N|lra].
    + destruct H as (V & Es). unfold binary_overflow in V. cbn [overflow_to_inf] in V.
      rewrite St in Es. cbn [negb] in Es. rewrite Es in V.
      destruct (Bminus mode_NE x t) as [s|s| |s m e H']; try discriminate. injection V as ->.
      destruct y as [s'|s'| |s' m' e' H'']; try discriminate; try destruct s'; reflexivity.
Qed.

Theorem greater_accepts_strict acc figs (e a : F64) :
  (forall L, tol_nonneg (acc figs L)) -> fin e -> fin a -> (B2R e < B2R a)%R ->
  is_greater_than_double_m acc figs e a = true.
Proof.
  intros Hacc Fe Fa Hlt. unfold is_greater_than_double_m, order_want_greater_double, greater_m, double_is_greater_src.
  cbn [f_sub f_lt E64]. apply minus_tolerance_lt; auto.
Qed.

(* ---------------------------------------------------------------- the tolerance, exactly *)
(* What the comparisons accept, stated against the tolerance value T they are handed (the value
   accuracy() returned): no rounding slack is lost, because rounding to nearest is monotone and T
   is itself a double.  How far T is from 10^(1 + floor(log10 largest) - figures) is libm's; the
   correspondence run measures it on every probe. *)
Lemma rnd64_abs (d : R) : rnd64 (Rabs d) = Rabs (rnd64 d).
Proof. apply round_NE_abs. apply fexp_correct. reflexivity. Qed.

Lemma rnd64_le (a b : R) : (a <= b)%R -> (rnd64 a <= rnd64 b)%R.
Proof. intros H. apply round_le; [apply fexp_correct; reflexivity|apply valid_rnd_N|exact H]. Qed.

Lemma rnd64_id (t : F64) : rnd64 (B2R t) = B2R t.
Proof. apply round_generic; [apply valid_rnd_N|apply generic_format_B2R]. Qed.

(* |x - y| computed in double arithmetic is below the double t  ==>  the real |x - y| is below t *)
Lemma abs_diff_lt_sound (x y t : F64) : fin x -> fin y -> fin t ->
  Bltb (Babs (Bminus mode_NE x y)) t = true -> (Rabs (B2R x - B2R y) < B2R t)%R.
Proof.
  intros Fx Fy Ft Hlt.
  pose proof (Bminus_correct 53 1024 _ _ mode_NE x y Fx Fy) as H. cbn [round_mode] in H.
  destruct (Rlt_bool (Rabs (rnd64 (B2R x - B2R y))) (bpow radix2 1024)).
  - destruct H as (V & F & _).
    assert (FA : fin (Babs (Bminus mode_NE x y))) by (rewrite is_finite_Babs; exact F).
    rewrite (Bltb_correct 53 1024 _ _ FA Ft), B2R_Babs, V in Hlt.
    destruct (Rlt_bool_spec (Rabs (rnd64 (B2R x - B2R y))) (B2R t)) as [Hr|]; [|discriminate].
    destruct (Rlt_le_dec (Rabs (B2R x - B2R y)) (B2R t)) as [|Hge]; [assumption|exfalso].
    apply rnd64_le in Hge. rewrite rnd64_id, rnd64_abs in Hge. lra.
  - destruct H as (V & _). unfold binary_overflow in V. cbn [overflow_to_inf] in V.
    destruct (Bminus mode_NE x y) as [s|s| |s m e H']; try discriminate.
    destruct t as [s'|s'| |s' m' e' H'']; try discriminate; cbn in Hlt; discriminate.
Qed.

(* the real |x - y| is not above a double u below t  ==>  the computed |x - y| is below t *)
Lemma abs_diff_lt_complete (x y t u : F64) : fin x -> fin y -> fin t -> fin u ->
  (B2R u < B2R t)%R -> (Rabs (B2R x - B2R y) <= B2R u)%R ->
  Bltb (Babs (Bminus mode_NE x y)) t = true.
Proof.
  intros Fx Fy Ft Fu Hut Hle.
  pose proof (Bminus_correct 53 1024 _ _ mode_NE x y Fx Fy) as H. cbn [round_mode] in H.
  assert (Hr : (Rabs (rnd64 (B2R x - B2R y)) <= B2R u)%R).
  { rewrite <- rnd64_abs. rewrite <- (rnd64_id u). apply rnd64_le. exact Hle. }
  assert (Hu : (B2R u < bpow radix2 1024)%R).
  { apply Rle_lt_trans with (1 := Rle_abs _). apply abs_B2R_lt_emax. }
  rewrite Rlt_bool_true in H by lra.
  destruct H as (V & F & _).
  assert (FA : fin (Babs (Bminus mode_NE x y))) by (rewrite is_finite_Babs; exact F).
  rewrite (Bltb_correct 53 1024 _ _ FA Ft), B2R_Babs, V. apply Rlt_bool_true. lra.
Qed.

(* EQUALITY, upper side: whatever is accepted differs, as real numbers, by less than the absolute
   tolerance or by less than the tolerance value T the comparison was handed *)
Theorem eq_accepted_within (acc : Z -> F64 -> F64) figs (x y T : F64) :
  (forall L, acc figs L = T) -> fin x -> fin y -> fin T ->
  eq_m acc figs x y = true ->
  (Rabs (B2R x - B2R y) < Rmax (B2R abs_tol) (B2R T))%R.
Proof.
  intros HT Fx Fy FT. unfold eq_m, doubles_are_equal_src. cbn [f_abs f_sub f_lt E64]. rewrite HT.
  destruct abs_tol_positive as (_ & FA).
  destruct (Bltb (Babs (Bminus mode_NE x y)) abs_tol) eqn:H1.
  - intros _. apply Rlt_le_trans with (2 := Rmax_l _ _). apply abs_diff_lt_sound; assumption.
  - intros H2. apply Rlt_le_trans with (2 := Rmax_r _ _). apply abs_diff_lt_sound; assumption.
Qed.

(* EQUALITY, lower side: a real difference not above some double below the tolerance value T (its
   predecessor, for instance) is accepted *)
Theorem eq_within_accepted (acc : Z -> F64 -> F64) figs (x y T u : F64) :
  (forall L, acc figs L = T) -> fin x -> fin y -> fin T -> fin u ->
  (B2R u < B2R T)%R -> (Rabs (B2R x - B2R y) <= B2R u)%R ->
  eq_m acc figs x y = true.
Proof.
  intros HT Fx Fy FT Fu Hu Hle. unfold eq_m, doubles_are_equal_src. cbn [f_abs f_sub f_lt E64]. rewrite HT.
  rewrite (abs_diff_lt_complete x y T u Fx Fy FT Fu Hu Hle). destruct (Bltb _ abs_tol); reflexivity.
Qed.

(* the documented bound follows for every libm whose tolerance value is within a factor (1 + eps)
   of max(|x|,|y|) * 10^(1 - figures): that hypothesis is what the probes measure *)
Corollary eq_accepted_documented_bound (acc : Z -> F64 -> F64) figs (x y T : F64) (eps : R) :
  (forall L, acc figs L = T) -> fin x -> fin y -> fin T ->
  (B2R T <= Rmax (Rabs (B2R x)) (Rabs (B2R y)) * Rpower 10 (1 - IZR figs) * (1 + eps))%R ->
  eq_m acc figs x y = true ->
  (Rabs (B2R x - B2R y) < Rmax (B2R abs_tol) (Rmax (Rabs (B2R x)) (Rabs (B2R y)) * Rpower 10 (1 - IZR figs) * (1 + eps)))%R.
Proof.
  intros HT Fx Fy FT Hlib Heq. pose proof (eq_accepted_within acc figs x y T HT Fx Fy FT Heq) as H.
  apply Rlt_le_trans with (1 := H). apply Rmax_case; [apply Rmax_l|].
  apply Rle_trans with (1 := Hlib). apply Rmax_r.
Qed.

(* ORDER: x < rnd(y + t) can only hold when x < y + t as real numbers *)
Lemma lt_plus_sound (x y t : F64) : fin x -> fin y -> fin t ->
  Bltb x (Bplus mode_NE y t) = true -> (B2R x < B2R y + B2R t)%R.
Proof.
  intros Fx Fy Ft Hlt.
  pose proof (Bplus_correct 53 1024 _ _ mode_NE y t Fy Ft) as H. cbn [round_mode] in H.
  destruct (Rlt_bool_spec (Rabs (rnd64 (B2R y + B2R t))) (bpow radix2 1024)) as [Hov|Hov].
  - destruct H as (V & F & _). rewrite (Bltb_correct 53 1024 _ _ Fx F), V in Hlt.
    destruct (Rlt_bool_spec (B2R x) (rnd64 (B2R y + B2R t))) as [Hr|]; [|discriminate].
    destruct (Rlt_le_dec (B2R x) (B2R y + B2R t)) as [|Hge]; [assumption|exfalso].
    apply rnd64_le in Hge. rewrite rnd64_id in Hge. lra.
  - (* the sum overflows: the result is the infinity with the common sign of y and t *)
    destruct H as (V & Es). unfold binary_overflow in V. cbn [overflow_to_inf] in V.
    destruct (Bplus mode_NE y t) as [s|s| |s m e H']; try discriminate. injection V as Hs.
    destruct (Bsign y) eqn:Sy; subst s.
    + destruct x as [sx|sx| |sx mx ex Hx]; try discriminate; cbn in Hlt; try destruct sx; discriminate.
    + assert (Hy : (0 <= B2R y)%R) by (apply tol_nonneg_R; assumption).
      assert (Ht : (0 <= B2R t)%R) by (apply tol_nonneg_R; [assumption|congruence]).
      assert (Hx : (B2R x < bpow radix2 1024)%R) by (apply Rle_lt_trans with (1 := Rle_abs _); apply abs_B2R_lt_emax).
      destruct (Rlt_le_dec (B2R x) (B2R y + B2R t)) as [|Hge]; [assumption|exfalso].
      assert (Hr : (rnd64 (B2R y + B2R t) <= B2R x)%R) by (rewrite <- (rnd64_id x); apply rnd64_le; exact Hge).
      assert (Hp : (0 <= rnd64 (B2R y + B2R t))%R).
      { rewrite <- (round_0 radix2 fexp64 ZnearestE). apply rnd64_le. lra. }
      rewrite Rabs_pos_eq in Hov by exact Hp. lra.
Qed.

(* rnd(x - t) < y can only hold when x - t < y as real numbers *)
Lemma minus_lt_sound (x y t : F64) : fin x -> fin y -> fin t ->
  Bltb (Bminus mode_NE x t) y = true -> (B2R x - B2R t < B2R y)%R.
Proof.
  intros Fx Fy Ft Hlt.
  pose proof (Bminus_correct 53 1024 _ _ mode_NE x t Fx Ft) as H. cbn [round_mode] in H.
  destruct (Rlt_bool_spec (Rabs (rnd64 (B2R x - B2R t))) (bpow radix2 1024)) as [Hov|Hov].
  - destruct H as (V & F & _). rewrite (Bltb_correct 53 1024 _ _ F Fy), V in Hlt.
    destruct (Rlt_bool_spec (rnd64 (B2R x - B2R t)) (B2R y)) as [Hr|]; [|discriminate].
    destruct (Rlt_le_dec (B2R x - B2R t) (B2R y)) as [|Hge]; [assumption|exfalso].
    apply rnd64_le in Hge. rewrite rnd64_id in Hge. lra.
  - destruct H as (V & Es). unfold binary_overflow in V. cbn [overflow_to_inf] in V.
    destruct (Bminus mode_NE x t) as [s|s| |s m e H']; try discriminate. injection V as Hs.
    destruct (Bsign x) eqn:Sx; subst s.
    + (* -infinity: x < 0 and t > 0 (its sign is the opposite of x's) *)
      assert (Hxn : (B2R x <= 0)%R).
      { destruct x as [sx|sx| |sx mx ex Hx]; try discriminate; [simpl; lra|]. simpl in Sx. subst sx. apply F2R_le_0. simpl. lia. }
      assert (Htp : (0 <= B2R t)%R) by (apply tol_nonneg_R; [assumption|destruct (Bsign t); [discriminate|reflexivity]]).
      assert (Hy : (- bpow radix2 1024 < B2R y)%R).
      { pose proof (abs_B2R_lt_emax 53 1024 y) as Hb. unfold Rabs in Hb. destruct (Rcase_abs (B2R y)); lra. }
      destruct (Rlt_le_dec (B2R x - B2R t) (B2R y)) as [|Hge]; [assumption|exfalso].
      assert (Hr : (B2R y <= rnd64 (B2R x - B2R t))%R) by (rewrite <- (rnd64_id y); apply rnd64_le; exact Hge).
      assert (Hn : (rnd64 (B2R x - B2R t) <= 0)%R).
      { rewrite <- (round_0 radix2 fexp64 ZnearestE). apply rnd64_le. lra. }
      rewrite Rabs_left1 in Hov by exact Hn. lra.
    + destruct y as [sy|sy| |sy my ey Hy]; try discriminate; cbn in Hlt; try destruct sy; discriminate.
Qed.

(* ORDERING, upper side: is_less_than_double(e) accepts a only if a is below e + T, and
   is_greater_than_double(e) accepts a only if a is above e - T, as real numbers - nothing out of
   order by the tolerance value or more is accepted *)
Theorem lesser_accepted_within (acc : Z -> F64 -> F64) figs (e a T : F64) :
  (forall L, acc figs L = T) -> fin e -> fin a -> fin T ->
  is_less_than_double_m acc figs e a = true -> (B2R a < B2R e + B2R T)%R.
Proof.
  intros HT Fe Fa FT. unfold is_less_than_double_m, order_want_lesser_double, lesser_m, double_is_lesser_src.
  cbn [f_add f_lt E64]. rewrite HT. apply lt_plus_sound; assumption.
Qed.

Theorem greater_accepted_within (acc : Z -> F64 -> F64) figs (e a T : F64) :
  (forall L, acc figs L = T) -> fin e -> fin a -> fin T ->
  is_greater_than_double_m acc figs e a = true -> (B2R e - B2R T < B2R a)%R.
Proof.
  intros HT Fe Fa FT. unfold is_greater_than_double_m, order_want_greater_double, greater_m, double_is_greater_src.
  cbn [f_sub f_lt E64]. rewrite HT. apply minus_lt_sound; assumption.
Qed.
