(* Lemmas_Timeout.v — C14 as corollaries of the runner lemmas, plus the facts translated from
   the current sources that they need. *)
From Coq Require Import List ZArith NArith Bool Lia.
From CgreenVerif Require Import Defs CStr Runner Spec_Runner Lemmas_Runner Lemmas_Facts Lemmas_Props Timeout.
From CgreenVerif.Gen Require Import Facts.
Import ListNotations.
Local Open Scope Z_scope.

(* ---- facts about the current sources ---- *)
(* the alarm handler leaves with a failing status: in a test process the status is not looked
   at, in the runner's own process (CGREEN_NO_FORK, run_single_test) it is the run's verdict *)
Lemma timeout_status_fails : timeout_exit_status <> 0.
Proof. discriminate. Qed.
Lemma die_status_fails : die_exit_status <> 0.
Proof. discriminate. Qed.
Lemma validated_and_armed : timeout_validated_before_run = true /\ timeout_armed_per_test = true.
Proof. split; reflexivity. Qed.
Lemma invalid_is_nonpositive t : timeout_invalid_src t = (t <=? 0).
Proof. reflexivity. Qed.
(* the variable is read as: blanks, optional sign, at least one digit, nothing after, within int *)
Lemma parse_is_strict s : timeout_parse_src s = strtol_full_m s.
Proof. reflexivity. Qed.

(* ---- the value ---- *)
(* accepted settings are exactly: unset, or a text whose whole content is a positive int *)
Lemma accepted_is_positive_integer s : setting_accepted (Some s) = true ->
  exists v n, signed_prefix s = (v, S n, []) /\ 0 < v <= 2147483647.
Proof.
  unfold setting_accepted. rewrite invalid_is_nonpositive, parse_is_strict. unfold strtol_full_m.
  destruct (signed_prefix s) as [[v n] rest]. destruct n as [|n]; [cbn; discriminate|].
  destruct rest; [|cbn; discriminate].
  destruct (Z.leb_spec (-2147483648) v); destruct (Z.leb_spec v 2147483647); cbn [andb];
    destruct (Z.leb_spec v 0); cbn [negb]; try discriminate; try (destruct (Z.leb_spec 0 0); cbn; discriminate).
  intros _. exists v, n. split; [reflexivity|lia].
Qed.

Lemma rejected_aborts_with_failure v rk vexpr m cap n :
  setting_accepted v = false ->
  run_suite_env v rk vexpr m cap n = Aborted die_exit_status /\ env_exit_ok (Aborted die_exit_status) = false.
Proof.
  intros H. unfold run_suite_env. destruct validated_and_armed as [-> _]. rewrite H. cbn [negb andb].
  split; [reflexivity|]. cbn [env_exit_ok]. apply Z.eqb_neq. exact die_status_fails.
Qed.
Lemma rejected_aborts_single v rk vexpr cap name n :
  setting_accepted v = false -> run_single_env v rk vexpr cap name n = Aborted die_exit_status.
Proof. intros H. unfold run_single_env. destruct validated_and_armed as [-> _]. rewrite H. reflexivity. Qed.
Lemma accepted_runs v rk vexpr m cap n :
  setting_accepted v = true -> run_suite_env v rk vexpr m cap n = Ran (run_suite rk vexpr m cap n).
Proof. intros H. unfold run_suite_env. rewrite H. cbn [negb]. rewrite andb_false_r. reflexivity. Qed.

(* ---- overrunning, forked ---- *)
Lemma overrun_is_kill t k : tkill (overrun t k) = Some (k, timeout_death).
Proof. reflexivity. Qed.
Lemma overrun_wf t k : wf_test t -> wf_test (overrun t k).
Proof. intros H. exact H. Qed.
Lemma overrun_child_steps s t k : child_steps s (overrun t k) = child_steps s t.
Proof. reflexivity. Qed.

(* stopped at any state up to the end of the test code: one exception, what was delivered
   before stays counted, and the run's verdict is failure *)
Lemma overrun_forked s t k :
  wf_test t -> tskip t = false -> (k <= length (child_steps s t))%nat ->
  exceptions (own s (overrun t k)) = 1 /\
  passes (own s (overrun t k)) = passes (count_msgs (own_msgs s (overrun t k))) /\
  failures (own s (overrun t k)) = failures (count_msgs (own_msgs s (overrun t k))) /\
  (exists rest, own_msgs s (with_kill t 0 timeout_death) ++ rest = own_msgs s (with_kill t 0 timeout_death) ++ rest) /\
  forall n, In (s, overrun t k) (tests_of n) -> ~ all_good n.
Proof.
  intros Hwf Hsk Hk.
  assert (Hab : abnormal (own_msgs s (overrun t k)) (own_death s (overrun t k)) = true).
  { destruct (own_death s (overrun t k)) as [[sg|code]|] eqn:E.
    - apply signal_is_abnormal.
    - apply exit_before_completion_is_abnormal.
      apply (killed_before_completion s (overrun t k) k timeout_death (overrun_wf t k Hwf) (overrun_is_kill t k)).
      rewrite overrun_child_steps. exact Hk.
    - exfalso. apply (killed_dies s (overrun t k) k timeout_death (overrun_is_kill t k)). exact E. }
  destruct (dying_test_own s (overrun t k) Hsk Hab) as (H1 & H2 & H3).
  repeat split; try assumption.
  - exists []. reflexivity.
  - intros n Hin. apply (dying_test_fails_run n s (overrun t k) Hin Hsk Hab).
Qed.

(* ---- overrunning, in the runner's own process ---- *)
Definition no_die (l : list act) : Prop := forallb (fun a => match a with Die _ => false | _ => true end) l = true.

Lemma exec_no_die l : forall f, no_die l -> snd (exec f l) = None.
Proof.
  induction l as [|a l IH]; intros f H; [reflexivity|].
  unfold no_die in H. cbn [forallb] in H. apply andb_prop in H. destruct H as [Ha Hl].
  cbn [exec]. destruct a; try discriminate; cbn [step];
    (specialize (IH _ Hl) || idtac);
    match goal with |- context [exec ?f' l] => specialize (IH f' Hl); destruct (exec f' l) as [[f2 m2] d2]; cbn [snd] in *; exact IH end.
Qed.

Lemma exec_then_die l d f : no_die l -> snd (exec f (l ++ [Die d])) = Some d.
Proof.
  intros H. rewrite exec_app. pose proof (exec_no_die l f H) as E.
  destruct (exec f l) as [[f1 m1] d1]. cbn [snd] in E. subst d1. reflexivity.
Qed.

Lemma deliver_death cap p0 m pipe' x : deliver cap p0 m = (pipe', Some x) -> x = Signal sigpipe.
Proof. unfold deliver. destruct (length m <=? cap - length p0)%nat; intros H; inversion H. reflexivity. Qed.

(* the process that runs the test is the runner: it ends, and with a failing status, at
   whatever state the test was (a full pipe ends it with SIGPIPE instead - also failing) *)
Lemma overrun_inprocess cap s t k p :
  tskip t = false -> no_die (firstn k (full_steps s t)) ->
  exists d p', run_test_inproc cap s (overrun t k) p = Dead d p' /\ exit_ok (Crashed d p') = false.
Proof.
  intros Hsk Hnd. unfold run_test_inproc. cbn [tskip overrun]. rewrite Hsk.
  unfold test_steps. cbn [tkill overrun].
  change (full_steps s (overrun t k)) with (full_steps s t).
  pose proof (exec_then_die (firstn k (full_steps s t)) timeout_death (pfw (start_test (tid t) p)) Hnd) as E.
  cbn [tid overrun].
  destruct (exec (pfw (start_test (tid t) p)) (firstn k (full_steps s t) ++ [Die timeout_death])) as [[f' m] d]. cbn [snd] in E. subst d.
  destruct (deliver cap (pipe (start_test (tid t) p)) m) as [pipe' [x|]] eqn:ED.
  - eexists _, _. split; [reflexivity|].
    rewrite (deliver_death _ _ _ _ _ ED). reflexivity.
  - eexists _, _. split; [reflexivity|]. cbn [exit_ok timeout_death]. apply Z.eqb_neq. exact timeout_status_fails.
Qed.

Lemma dead_propagates d p f : bind (Dead d p) f = Dead d p.
Proof. reflexivity. Qed.
