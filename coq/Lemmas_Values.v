(* Lemmas_Values.v — proofs about Values.v under the one-line specifications of the translated
   pieces (valsrc_ok), and the proof that the pieces translated from the current sources
   (Facts.values_src) meet them. *)
From Coq Require Import List ZArith Bool Lia.
From CgreenVerif Require Import Defs CStr Values.
From CgreenVerif.Gen Require Import Facts.
Import ListNotations.
Local Open Scope Z_scope.

Record valsrc_ok (S : valsrc) : Prop := {
  vo_ret : forall v, vs_ret_load S (vs_ret_store S (vs_ret_macro S v)) = v;
  vo_dbl : vs_dbl_copy S = true;
  vo_bv : forall n, vs_bv_alloc1 S n = n /\ vs_bv_copy1 S n = n /\ vs_bv_size S n = n /\
                    vs_bv_alloc2 S n = n /\ vs_bv_copy2 S n = n;
  vo_set : forall n, vs_set_len S (vs_set_store S (vs_set_macro S n)) = n;
  vo_set_ptrs : vs_set_dst_actual S = true /\ vs_set_src_expected S = true;
  vo_cap_store : forall n, vs_cap_store S n = n;
  vo_cap_use : forall n be, vs_cap_use_offset S n be = negb (n =? 8) && be;
  vo_cap_off : forall n, vs_cap_offset S n = 8 - n;
  vo_cap_len : forall n, vs_cap_len_off S n = n /\ vs_cap_len S n = n
}.

Lemma nth_error_firstn {A} (l : list A) n i : (i < n)%nat -> nth_error (firstn n l) i = nth_error l i.
Proof.
  revert n i. induction l as [|x l IH]; intros n i H.
  - rewrite firstn_nil. reflexivity.
  - destruct n as [|n]; [lia|]. destruct i as [|i]; [reflexivity|]. cbn [firstn nth_error]. apply IH. lia.
Qed.

Lemma nth_error_skipn {A} (l : list A) n i : nth_error (skipn n l) i = nth_error l (n + i).
Proof.
  revert l. induction n as [|n IH]; intros l; [reflexivity|].
  destruct l as [|x l]; [destruct i; reflexivity|]. cbn [skipn Nat.add nth_error]. apply IH.
Qed.

(* ---- copy ---- *)
Lemma copy_ok dst doff src soff n :
  0 <= n -> 0 <= doff -> 0 <= soff -> soff + n <= Z.of_nat (length src) -> doff + n <= Z.of_nat (length dst) ->
  copy dst doff src soff n =
  MOk (firstn (Z.to_nat doff) dst ++ firstn (Z.to_nat n) (skipn (Z.to_nat soff) src) ++ skipn (Z.to_nat (doff + n)) dst).
Proof.
  intros. unfold copy.
  destruct (Z.ltb_spec n 0); [lia|]. destruct (Z.ltb_spec doff 0); [lia|]. destruct (Z.ltb_spec soff 0); [lia|].
  destruct (Z.ltb_spec (Z.of_nat (length src)) (soff + n)); [lia|].
  destruct (Z.ltb_spec (Z.of_nat (length dst)) (doff + n)); [lia|]. reflexivity.
Qed.

Lemma alloc_length n : 0 <= n -> Z.of_nat (length (alloc n)) = n.
Proof. intros. unfold alloc. rewrite repeat_length. lia. Qed.

Lemma copy_whole_fresh src n : 0 <= n <= Z.of_nat (length src) -> copy (alloc n) 0 src 0 n = MOk (firstn (Z.to_nat n) src).
Proof.
  intros H. rewrite copy_ok by (try rewrite alloc_length; lia).
  cbn [Z.to_nat firstn skipn app]. rewrite Z.add_0_l.
  rewrite skipn_all2 by (unfold alloc; rewrite repeat_length; lia). rewrite app_nil_r. reflexivity.
Qed.

Section ValueProofs.
Variable S : valsrc.
Hypothesis HS : valsrc_ok S.

Lemma return_roundtrip v : return_m S v = v.
Proof. apply (vo_ret S HS). Qed.

Lemma double_roundtrip bits : double_m S bits = Some bits.
Proof. unfold double_m. rewrite (vo_dbl S HS). reflexivity. Qed.

Lemma by_value_copy src size : 0 <= size <= Z.of_nat (length src) ->
  by_value_m S src size = MOk (firstn (Z.to_nat size) src).
Proof.
  intros H. unfold by_value_m. destruct (vo_bv S HS size) as (-> & -> & -> & -> & ->).
  rewrite copy_whole_fresh by lia.
  rewrite copy_whole_fresh by (rewrite firstn_length; lia).
  rewrite firstn_firstn, Nat.min_id. reflexivity.
Qed.

Lemma by_value_every_call src size calls : 0 <= size <= Z.of_nat (length src) ->
  Forall (fun r => r = MOk (firstn (Z.to_nat size) src)) (by_value_calls_m S src size calls).
Proof.
  intros H. unfold by_value_calls_m, bv_declare. destruct (vo_bv S HS size) as (-> & -> & -> & _ & _).
  rewrite copy_whole_fresh by lia. apply Forall_forall. intros r Hr. apply in_map_iff in Hr.
  destruct Hr as (i & <- & _). unfold bv_call. cbn [fst snd].
  destruct (vo_bv S HS size) as (_ & _ & _ & -> & ->).
  rewrite copy_whole_fresh by (rewrite firstn_length; lia).
  rewrite firstn_firstn, Nat.min_id. reflexivity.
Qed.

Lemma set_contents_exact buf off src size :
  0 <= off -> 0 <= size <= Z.of_nat (length src) -> off + size <= Z.of_nat (length buf) ->
  set_contents_m S buf off src size =
  MOk (firstn (Z.to_nat off) buf ++ firstn (Z.to_nat size) src ++ skipn (Z.to_nat (off + size)) buf).
Proof.
  intros. unfold set_contents_m. destruct (vo_set_ptrs S HS) as [-> ->]. cbn [andb].
  rewrite (vo_set S HS). rewrite copy_ok by lia. reflexivity.
Qed.

(* frame: every byte outside [off, off+size) keeps its value, the bytes inside are the source's *)
Lemma set_contents_frame buf off src size r :
  0 <= off -> 0 <= size <= Z.of_nat (length src) -> off + size <= Z.of_nat (length buf) ->
  set_contents_m S buf off src size = MOk r ->
  length r = length buf /\
  (forall i, (i < Z.to_nat off \/ Z.to_nat (off + size) <= i)%nat -> nth_error r i = nth_error buf i) /\
  (forall j, (j < Z.to_nat size)%nat -> nth_error r (Z.to_nat off + j) = nth_error src j).
Proof.
  intros Ho Hs Hb E. rewrite set_contents_exact in E by assumption. injection E as <-.
  assert (L1 : length (firstn (Z.to_nat off) buf) = Z.to_nat off) by (rewrite firstn_length; lia).
  assert (L2 : length (firstn (Z.to_nat size) src) = Z.to_nat size) by (rewrite firstn_length; lia).
  split; [|split].
  - rewrite !app_length, L1, L2, skipn_length. lia.
  - intros i [Hi|Hi].
    + rewrite nth_error_app1 by lia. apply nth_error_firstn. exact Hi.
    + rewrite nth_error_app2 by lia. rewrite nth_error_app2 by lia. rewrite L1, L2, nth_error_skipn. f_equal. lia.
  - intros j Hj. rewrite nth_error_app2 by lia. rewrite L1. replace (Z.to_nat off + j - Z.to_nat off)%nat with j by lia.
    rewrite nth_error_app1 by lia. apply nth_error_firstn. exact Hj.
Qed.
End ValueProofs.

(* ---- little-endian arithmetic ---- *)
Lemma le_bytes_length n v : length (le_bytes n v) = n.
Proof. revert v. induction n as [|n IH]; intros v; cbn [le_bytes length]; [reflexivity|]. rewrite IH. reflexivity. Qed.

Lemma le_val_le_bytes n v : le_val (le_bytes n v) = v mod 2 ^ (8 * Z.of_nat n).
Proof.
  revert v. induction n as [|n IH]; intros v.
  - cbn [le_bytes le_val]. rewrite Z.mod_1_r. reflexivity.
  - cbn [le_bytes le_val]. rewrite IH.
    replace (8 * Z.of_nat (Datatypes.S n)) with (8 + 8 * Z.of_nat n) by lia.
    rewrite Z.pow_add_r by lia. change (2 ^ 8) with 256.
    rewrite Z.rem_mul_r by (try apply Z.pow_pos_nonneg; lia). reflexivity.
Qed.

Lemma firstn_le_bytes k n v : (k <= n)%nat -> firstn k (le_bytes n v) = le_bytes k v.
Proof.
  revert n v. induction k as [|k IH]; intros n v H; [reflexivity|].
  destruct n as [|n]; [lia|]. cbn [le_bytes firstn]. rewrite IH by lia. reflexivity.
Qed.

Lemma skipn_rev {A} (l : list A) k : (k <= length l)%nat -> skipn (length l - k) (rev l) = rev (firstn k l).
Proof.
  intros H. rewrite <- (firstn_skipn k l) at 2. rewrite rev_app_distr.
  rewrite skipn_app. rewrite skipn_all2 by (rewrite rev_length, skipn_length; lia).
  rewrite rev_length, skipn_length. replace (length l - k - (length l - k))%nat with 0%nat by lia. reflexivity.
Qed.

Section CaptureProofs.
Variable S : valsrc.
Hypothesis HS : valsrc_ok S.

(* for every variable size from 0 to 8 bytes (in particular 1, 2, 4, 8), on either endianness,
   the captured variable holds the argument's value modulo 2^(8*size) and nothing else is touched *)
Lemma capture_exact be v size : 0 <= size <= 8 ->
  exists bs, capture_m S be v size = MOk bs /\ Z.of_nat (length bs) = size /\ decode be bs = v mod 2 ^ (8 * size).
Proof.
  intros H. unfold capture_m. rewrite (vo_cap_store S HS), (vo_cap_use S HS), (vo_cap_off S HS).
  destruct (vo_cap_len S HS size) as [-> ->].
  assert (Hk : (Z.to_nat size <= 8)%nat) by lia.
  assert (Hfin : le_val (le_bytes (Z.to_nat size) v) = v mod 2 ^ (8 * size)) by (rewrite le_val_le_bytes, Z2Nat.id by lia; reflexivity).
  destruct be; cbn [andb].
  - destruct (Z.eqb_spec size 8) as [E8|Hne]; cbn [negb andb].
    + (* whole word: no offset *)
      unfold union_bytes. rewrite copy_whole_fresh by (rewrite rev_length, le_bytes_length; lia).
      eexists. split; [reflexivity|]. split.
      * rewrite firstn_length, rev_length, le_bytes_length. lia.
      * unfold decode. rewrite firstn_all2 by (rewrite rev_length, le_bytes_length; lia).
        rewrite rev_involutive. rewrite <- Hfin, E8. reflexivity.
    + unfold union_bytes.
      rewrite copy_ok by (try rewrite alloc_length; try rewrite rev_length, le_bytes_length; lia).
      cbn [Z.to_nat firstn app andb]. rewrite Z.add_0_l.
      replace (skipn (Z.to_nat size) (alloc size)) with (@nil Z)
        by (symmetry; apply skipn_all2; unfold alloc; rewrite repeat_length; lia).
      rewrite app_nil_r.
      replace (Z.to_nat (8 - size)) with (length (le_bytes 8 v) - Z.to_nat size)%nat by (rewrite le_bytes_length; lia).
      rewrite skipn_rev by (rewrite le_bytes_length; lia).
      rewrite firstn_le_bytes by lia.
      rewrite firstn_all2 by (rewrite rev_length, le_bytes_length; lia).
      eexists. split; [reflexivity|]. split.
      * rewrite rev_length, le_bytes_length. lia.
      * unfold decode. rewrite rev_involutive. exact Hfin.
  - rewrite andb_false_r. unfold union_bytes.
    rewrite copy_whole_fresh by (rewrite le_bytes_length; lia).
    rewrite firstn_le_bytes by lia.
    eexists. split; [reflexivity|]. split.
    + rewrite le_bytes_length. lia.
    + unfold decode. exact Hfin.
Qed.
End CaptureProofs.

(* ---- the translated sources ---- *)
Lemma values_src_ok : valsrc_ok values_src.
Proof.
  constructor; intros; try reflexivity; try (repeat split; reflexivity).
  - (* vo_cap_use *) unfold values_src, vs_cap_use_offset. rewrite (Z.eqb_sym 8 n). destruct be, (n =? 8); reflexivity.
Qed.
