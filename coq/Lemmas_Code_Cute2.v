(* Lemmas_Code_Cute2.v - the CUTE reporter's per-suite functions (cute_start_suite, cute_finish_suite) as
   translated from the current source: the counters are reset at the start of a suite; at its end what is still
   in the pipe is read, the counters are added to the totals, and - for the outermost suite - the totals printed
   are those sums. *)
From Coq Require Import List ZArith String Bool Lia.
From CgreenVerif Require Import CLite Lemmas_CLite Runner Lemmas_Code_Reporter Lemmas_Code_Cute.
From CgreenVerif.Gen Require Import Code_reporter.
Import ListNotations.
Local Open Scope string_scope. Local Open Scope list_scope. Local Open Scope Z_scope.

(* the totals are fields of the reporter object too *)
Definition tot_fields (t : cnt) (dur : Z) (extra : list (string * val)) : list (string * val) :=
  ("total_passes", VInt (passes t)) :: ("total_failures", VInt (failures t)) :: ("total_skips", VInt (skips t)) ::
  ("total_exceptions", VInt (exceptions t)) :: ("total_duration", VInt dur) :: extra.
Definition cwt (ec pe : Z) (k t : cnt) (dur : Z) extra (pipe : list msg) (tr : list (string * list val)) : world :=
  cw ec pe k (tot_fields t dur extra) pipe tr.

Definition beginning_fmt : list Z := [35; 98; 101; 103; 105; 110; 110; 105; 110; 103; 32; 37; 115; 32; 37; 100; 10].   (* "#beginning %s %d\n" *)
Definition ending_fmt : list Z := [35; 101; 110; 100; 105; 110; 103; 32; 37; 115].                                  (* "#ending %s" *)
Definition totals_fmt : list Z :=          (* ": %d pass%s, %d failure%s, %d exception%s, %d ms.\n" *)
  [58; 32; 37; 100; 32; 112; 97; 115; 115; 37; 115; 44; 32; 37; 100; 32; 102; 97; 105; 108; 117; 114; 101; 37; 115; 44; 32;
   37; 100; 32; 101; 120; 99; 101; 112; 116; 105; 111; 110; 37; 115; 44; 32; 37; 100; 32; 109; 115; 46; 10].

(* cute_start_suite(): the four counters restart at zero, the name is pushed, "#beginning" printed *)
Theorem cute_start_suite_refines :
  forall ec pe k t dur extra pipe tr n name count,
    (2 <= n)%nat ->
    run_fun prog_reporter n "cute_start_suite" [VPtr 0 0; name; count] (cwt ec pe k t dur extra pipe tr) =
    Fine (VInt 0, cwt ec pe czero t dur extra pipe
                      (("printf", [VLit beginning_fmt; name; count]) :: ("push_breadcrumb", [VInt 77; name]) :: tr)).
Proof.
  intros ec pe k t dur extra pipe tr n name count Hn. destruct n as [|[|n]]; try lia.
  destruct k as [p f s e].
  unfold run_fun, find_fun. cbn [alookup prog_reporter String.eqb Ascii.eqb Bool.eqb].
  unfold mk_call at 1. unfold find_fun. cbn [alookup prog_reporter String.eqb Ascii.eqb Bool.eqb].
  cbn [bind_params fparams fbody code_cute_start_suite].
  unfold cwt, cw, rwt, rep_obj, cute_extra, rep_extra, memo_obj, tot_fields, czero. cbn [passes failures skips exceptions].
  srun prog_reporter.
  unfold mk_call at 1. unfold find_fun. cbn [alookup prog_reporter String.eqb Ascii.eqb Bool.eqb].
  cbn [bind_params fparams fbody code_reporter_start_test].
  srun prog_reporter. reflexivity.
Qed.

Definition plural (z : Z) (suffix : list Z) : val := VLit (if z =? 1 then [] else suffix).

(* cute_finish_suite(), outermost suite (get_breadcrumb_depth() answers 0): what is left in the pipe is read as
   reporter_finish_test() reads it, every counter is added to its total, and the "#ending" line prints those sums *)
Theorem cute_finish_suite_refines :
  forall ec pe pipe k t dur extra tr n file line,
    (List.length pipe + 2 < n)%nat -> bounded k (List.length pipe + 1) ->
    (forall k2, k2 = after_finish pipe k ->
       -2147483648 <= passes t + passes k2 <= 2147483647 /\ -2147483648 <= failures t + failures k2 <= 2147483647 /\
       -2147483648 <= skips t + skips k2 <= 2147483647 /\ -2147483648 <= exceptions t + exceptions k2 <= 2147483647) ->
    exists tr1,
      Forall is_recv tr1 /\
      run_fun prog_reporter n "cute_finish_suite" [VPtr 0 0; file; line] (cwt ec pe k t dur extra pipe tr) =
      (let k2 := after_finish pipe k in
       let t2 := cadd t k2 in
       let st := snd (read_results pipe k false) in
       let rest := fst (fst (read_results pipe k false)) in
       Fine (VInt 0, cwt ec pe k2 t2 dur extra rest
                        ([("printf", [VLit totals_fmt; VInt (passes t2); plural (passes t2) [101; 115];
                                      VInt (failures t2); plural (failures t2) [115];
                                      VInt (exceptions t2); plural (exceptions t2) [115]; VInt dur]);
                          ("get_breadcrumb_depth", [VInt 77]);
                          ("printf", [VLit ending_fmt; VInt 0])] ++
                         finish_events st file line (VInt 0) ++ tr1 ++
                         ("get_current_from_breadcrumb", [VInt 77]) :: tr))).
Proof.
  intros ec pe pipe k t dur extra tr n file line Hn Hb Hr.
  destruct n as [|n]; [lia|].
  destruct (call_reporter_finish_test [memo_obj ec pe] pipe k (("memo", VPtr 1 0) :: tot_fields t dur extra)
              (("get_current_from_breadcrumb", [VInt 77]) :: tr) n file line (VInt 0) ltac:(lia) Hb) as (tr1 & Hrc & HC).
  exists tr1. split; [exact Hrc|].
  specialize (Hr _ eq_refl). unfold after_finish in *.
  unfold run_fun, find_fun. cbn [alookup prog_reporter String.eqb Ascii.eqb Bool.eqb].
  unfold mk_call at 1. unfold find_fun. cbn [alookup prog_reporter String.eqb Ascii.eqb Bool.eqb].
  cbn [bind_params fparams fbody code_cute_finish_suite].
  unfold cwt at 1. unfold cw at 1. unfold rwt at 1. unfold rep_obj, cute_extra, rep_extra at 1. unfold tot_fields at 1.
  destruct k as [p f s e], t as [tp tf ts te]. cbn [passes failures skips exceptions].
  srun prog_reporter.
  match goal with |- context [mk_call _ _ "reporter_finish_test" _ ?w] =>
    change w with (rwt [memo_obj ec pe] (mkcnt p f s e) (rep_extra (("memo", VPtr 1 0) :: tot_fields (mkcnt tp tf ts te) dur extra)) pipe
                       (("get_current_from_breadcrumb", [VInt 77]) :: tr)) end.
  rewrite HC. clear HC.
  destruct (read_results pipe (mkcnt p f s e) false) as [[rest k1] st]. cbn [fst snd] in *.
  destruct k1 as [p1 f1 s1 e1].
  destruct st; cbn [finish_events]; unfold cwt, cw, rwt, rep_obj, cute_extra, rep_extra, memo_obj, tot_fields, plural;
    cbn [passes failures skips exceptions cadd] in *; srun prog_reporter.
  all: repeat (match goal with |- context [in_range I32 ?z] => rewrite (in_range_I32 z) by lia end; srun prog_reporter).
  all: repeat (match goal with |- context [if (if (if ?a =? 1 then 1 else 0) =? 0 then false else true) then _ else _] =>
                 destruct (a =? 1) eqn:? end; srun prog_reporter).
  all: try reflexivity.
Qed.
