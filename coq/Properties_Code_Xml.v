(* The escaping routine of src/xml_reporter.c (escaped, concat_escaped, concat), translated from the current
   source on every run (Gen/Code_xmlesc.v), computes Xml.escape - the function C11's theorems about the
   report's attribute values are stated on - for every text.  Statements only; proofs are in
   Lemmas_Code_Xml.v and Lemmas_Code_Xml2.v. *)
From Coq Require Import List ZArith NArith String Bool.
From CgreenVerif Require Import CLite Xml Lemmas_Code_Percent Lemmas_Code_Xml Lemmas_Code_Xml2.
From CgreenVerif.Gen Require Import Code_xmlesc.
Import ListNotations.
Local Open Scope string_scope. Local Open Scope list_scope. Local Open Scope Z_scope.

(* for every text of bytes 1..255 (any length below 2^59): escaped(text) returns a string that is the text with
   each byte replaced by esc_z of it; the text is unchanged; globals, streams and the trace of external calls are
   unchanged; the run is Fine, never Stuck: no read or write outside a block (the 5-byte scratch array
   included), no use of the head after realloc() moved it, no overlap in strcat *)
Theorem Code_escaped :
  forall txt g st tr n,
    text_ok txt -> 8 * Z.of_nat (List.length txt) + 8 < 4611686018427387904 -> (List.length txt + 7 <= n)%nat ->
    exists v w',
      run_fun prog_xmlesc n "escaped" [VPtr 0 0] (mkw [OBytes (txt ++ [0])] g st tr) = Fine (v, w') /\
      cstring w' v = Fine (flat_map esc_z txt) /\ cstring w' (VPtr 0 0) = Fine txt /\
      globs w' = g /\ streams w' = st /\ wtrace w' = tr.
Proof. exact escaped_refines. Qed.
Print Assumptions Code_escaped.

(* concat_escaped(head, text) appends the escaped text to whatever the head holds (the way the message,
   file name and further attributes are accumulated) *)
Theorem Code_concat_escaped :
  forall hp txt h esc g st tr n,
    nth_error hp 0 = Some (OBytes (txt ++ [0])) -> nth_error hp h = Some (OBytes (esc ++ [0])) -> h <> O ->
    text_ok txt -> text_ok esc ->
    Z.of_nat (List.length esc) + 8 * Z.of_nat (List.length txt) + 8 < 4611686018427387904 ->
    (List.length txt + 5 <= n)%nat ->
    exists hp' h',
      mk_call prog_xmlesc (cexec prog_xmlesc n) "concat_escaped" [VPtr h 0; VPtr 0 0] (mkw hp g st tr) =
      Fine (VPtr h' 0, mkw hp' g st tr)
      /\ nth_error hp' 0 = Some (OBytes (txt ++ [0]))
      /\ nth_error hp' h' = Some (OBytes ((esc ++ flat_map esc_z txt) ++ [0]))
      /\ text_ok (esc ++ flat_map esc_z txt) /\ h' <> O.
Proof. exact call_concat_escaped. Qed.
Print Assumptions Code_concat_escaped.

(* ... and the per-byte replacement is the model's: flat_map esc_z is Xml.escape *)
Theorem Code_esc_z_is_escape :
  forall l : list N, flat_map esc_z (map Z.of_N l) = map Z.of_N (Xml.escape l).
Proof. exact esc_z_escape. Qed.
Print Assumptions Code_esc_z_is_escape.

(* non-vacuity: a text with an entity character, a control character and a plain one *)
Example Code_escaped_example :
  exists w', run_fun prog_xmlesc 12 "escaped" [VPtr 0 0] (mkw [OBytes ([60; 7; 97] ++ [0])] [] [] []) = Fine (VPtr 5 0, w') /\
             cstring w' (VPtr 5 0) = Fine [38; 108; 116; 59; 92; 120; 48; 55; 97].
Proof. eexists. split; vm_compute; reflexivity. Qed.
