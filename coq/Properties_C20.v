(* C20 — Cgreen's own bookkeeping is safe for any count, and its results do not change at
   container growth boundaries.  The guards, index expressions and growth step used below
   (vector_src, suite_test_src, suite_suite_src, crumb_src) are translated from src/vector.c,
   src/suite.c and src/breadcrumb.c on every run. *)
From Coq Require Import List ZArith Bool.
From CgreenVerif Require Import Defs Vector Lemmas_Vector Examples_Vector.
From CgreenVerif.Gen Require Import Facts.
Import ListNotations.
Local Open Scope Z_scope.

(* CgreenVector: every sequence of add / remove / get / size, of any length and with any
   (legal, illegal, negative) positions, touches no memory outside the item array, terminates,
   and shows exactly what a plain list shows — at 0, step-1, step, step+1, ... elements alike *)
Theorem C20_vector_safe_and_list_like :
  forall ops, exists v',
    vrun vector_src vempty ops = Ok (v', snd (lrun [] ops)) /\ rep v' (fst (lrun [] ops)).
Proof. exact (fun ops => vrun_refines_list vector_src vector_src_ok ops vempty [] rep_empty). Qed.
Print Assumptions C20_vector_safe_and_list_like.

(* the same from any reachable state (the expectation queue, the runner's test list, name
   vectors, constraint vectors are all instances) *)
Theorem C20_vector_from_any_state :
  forall v d ops, rep v d -> exists v',
    vrun vector_src v ops = Ok (v', snd (lrun d ops)) /\ rep v' (fst (lrun d ops)).
Proof. exact (fun v d ops H => vrun_refines_list vector_src vector_src_ok ops v d H). Qed.
Print Assumptions C20_vector_from_any_state.

(* what a vector shows does not depend on the growth step: any two correct sources agree *)
Theorem C20_growth_step_invisible :
  forall S1 S2 ops, vsrc_ok S1 -> vsrc_ok S2 ->
    exists v1 v2 outs, vrun S1 vempty ops = Ok (v1, outs) /\ vrun S2 vempty ops = Ok (v2, outs).
Proof.
  exact (fun S1 S2 ops H1 H2 =>
    match vrun_refines_list S1 H1 ops vempty [] rep_empty, vrun_refines_list S2 H2 ops vempty [] rep_empty with
    | ex_intro _ v1 (conj E1 _), ex_intro _ v2 (conj E2 _) =>
        ex_intro _ v1 (ex_intro _ v2 (ex_intro _ _ (conj E1 E2)))
    end).
Qed.
Print Assumptions C20_growth_step_invisible.

(* TestSuite entry array: any interleaving of add_test_ / add_suite_ registrations, of any
   length, writes inside the reallocated array and keeps the entries in registration order *)
Theorem C20_suite_registration_safe :
  forall ops, exists a',
    srun suite_test_src suite_suite_src sempty ops = Ok a' /\ srep a' (map snd ops).
Proof. exact (fun ops => srun_refines_list _ _ suite_test_src_ok suite_suite_src_ok ops sempty [] srep_empty). Qed.
Print Assumptions C20_suite_registration_safe.

(* breadcrumb: for every nesting depth, pushes and pops (pops never outnumbering pushes, as in
   the runner) stay inside the trail and the current entry is the innermost open name *)
Theorem C20_breadcrumb_safe :
  forall ops, balanced 0 ops = true -> exists c', crun crumb_src cempty ops = Ok (c', stack_run [] ops).
Proof. exact (fun ops H => crun_refines_stack crumb_src crumb_src_ok ops cempty [] crep_empty H). Qed.
Print Assumptions C20_breadcrumb_safe.
