(* Lemmas_RunnerTool.v — proofs about the cgreen-runner model (RunnerTool.v). *)
From Coq Require Import List NArith Bool Arith Lia Permutation.
From CgreenVerif Require Import Params Lemmas_Params RunnerTool.
Import ListNotations.
Local Open Scope N_scope.

(* ---------------------------------------------------------------- names <-> symbols *)
(* an identifier that can be recovered: no "__" inside and no '_' at the end *)
Fixpoint wf_name (x : list N) : bool :=
  match x with
  | [] => true
  | a :: t => match t with
              | [] => negb (a =? US)
              | b :: _ => negb ((a =? US) && (b =? US)) && wf_name t
              end
  end.

Lemma split_sep_cons2 a b r :
  split_sep (a :: b :: r) = if (a =? US) && (b =? US) then Some ([], r)
                            else match split_sep (b :: r) with Some (x, y) => Some (a :: x, y) | None => None end.
Proof. reflexivity. Qed.

Lemma split_sep_wf x rest : wf_name x = true -> split_sep (x ++ US :: US :: rest) = Some (x, rest).
Proof.
  induction x as [|a t IH]; intros H.
  - cbn. reflexivity.
  - destruct t as [|b t'].
    + cbn [wf_name] in H. cbn [app]. rewrite split_sep_cons2. apply negb_true_iff in H. rewrite H. cbn [andb].
      rewrite split_sep_cons2, !N.eqb_refl. reflexivity.
    + change (wf_name (a :: b :: t')) with (negb ((a =? US) && (b =? US)) && wf_name (b :: t')) in H.
      apply andb_prop in H. destruct H as [H1 H2]. apply negb_true_iff in H1.
      change ((a :: b :: t') ++ US :: US :: rest) with (a :: b :: (t' ++ US :: US :: rest)).
      rewrite split_sep_cons2, H1.
      change (b :: t' ++ US :: US :: rest) with ((b :: t') ++ US :: US :: rest). rewrite (IH H2). reflexivity.
Qed.

Lemma strip_sep_end_app name : strip_sep_end (name ++ [US; US]) = name.
Proof.
  unfold strip_sep_end. rewrite app_length. cbn [length].
  replace (length name + 2 - 2)%nat with (length name) by lia.
  rewrite skipn_app, skipn_all, Nat.sub_diag. cbn [skipn app].
  rewrite firstn_app, firstn_all, Nat.sub_diag. cbn [firstn]. rewrite app_nil_r.
  vm_compute (list_eqb [US; US] SEP). reflexivity.
Qed.

(* the names the runner derives from a specification symbol are the ones it was made from: for
   every test name (also one that contains the separator or ends in an underscore) and every
   context name without a separator inside or an underscore at its end *)
Theorem parse_mangle ctx name : wf_name ctx = true -> parse_spec (mangle ctx name) = (ctx, name).
Proof.
  intros Hc. unfold parse_spec, mangle.
  rewrite skipn_app. rewrite skipn_all2 by (cbn; lia).
  replace (length (PREFIX ++ SEP) - length PREFIX)%nat with (length SEP) by (cbn; reflexivity).
  cbn [app]. rewrite skipn_app, skipn_all, Nat.sub_diag. cbn [skipn app].
  unfold SEP. cbn [app]. rewrite (split_sep_wf ctx (name ++ [US; US]) Hc).
  rewrite strip_sep_end_app. reflexivity.
Qed.

(* before the repair a test name containing the separator was cut at it *)
Example parse_old_cut_names_refuted :
  parse_spec_old (mangle [83] [112; 95; 95; 111]) = ([83], [112]) /\
  parse_spec (mangle [83] [112; 95; 95; 111]) = ([83], [112; 95; 95; 111]).
Proof. vm_compute. split; reflexivity. Qed.

(* the guard is needed: a context ending in '_' is not recovered *)
Example parse_needs_wf_refuted : parse_spec (mangle [97; 95] [98]) <> ([97; 95], [98]).
Proof. vm_compute. discriminate. Qed.

(* ---------------------------------------------------------------- patterns *)
Inductive gmatch : list N -> list N -> Prop :=
| gm_nil : gmatch [] []
| gm_lit c p s : c <> STAR -> gmatch p s -> gmatch (c :: p) (c :: s)
| gm_star p s1 s2 : gmatch p s2 -> gmatch (STAR :: p) (s1 ++ s2).

Definition star_loop (p' : list N) := fix star (s : list N) : bool :=
  glob p' s || match s with [] => false | _ :: s' => star s' end.

Lemma glob_star p' s : glob (STAR :: p') s = star_loop p' s.
Proof. reflexivity. Qed.

Lemma star_loop_true p' s : star_loop p' s = true <-> exists s1 s2, s = s1 ++ s2 /\ glob p' s2 = true.
Proof.
  induction s as [|c s IH].
  - cbn [star_loop]. rewrite orb_false_r. split.
    + intros H. exists [], []. auto.
    + intros (s1 & s2 & E & H). destruct s1; destruct s2; try discriminate. exact H.
  - cbn [star_loop]. fold (star_loop p' s). rewrite orb_true_iff, IH. split.
    + intros [H|(s1 & s2 & E & H)].
      * exists [], (c :: s). auto.
      * exists (c :: s1), s2. split; [cbn; f_equal; exact E|exact H].
    + intros (s1 & s2 & E & H). destruct s1 as [|x s1].
      * left. cbn in E. rewrite E. exact H.
      * right. cbn in E. injection E as -> E. exists s1, s2. auto.
Qed.

Theorem glob_correct p : forall s, glob p s = true <-> gmatch p s.
Proof.
  induction p as [|c p IH]; intros s.
  - destruct s; cbn; split; intros H; try discriminate; try constructor; inversion H.
  - destruct (N.eqb_spec c STAR) as [->|Hc].
    + rewrite glob_star, star_loop_true. split.
      * intros (s1 & s2 & -> & H). constructor. apply IH. exact H.
      * intros H. inversion H as [| |p0 s1 s2 Hm]; subst; [congruence|]. exists s1, s2. split; [reflexivity|]. apply IH. exact Hm.
    + cbn [glob]. apply N.eqb_neq in Hc. rewrite Hc. destruct s as [|c' s].
      * split; [discriminate|]. intros H. inversion H; subst. rewrite N.eqb_refl in Hc. discriminate.
      * rewrite andb_true_iff, N.eqb_eq, IH. split.
        -- intros [-> H]. constructor; [apply N.eqb_neq; exact Hc|exact H].
        -- intros H. inversion H as [|c0 p0 s0 Hne Hm|p0 s1 s2 Hm]; subst; [auto|]. rewrite N.eqb_refl in Hc. discriminate.
Qed.

(* ---------------------------------------------------------------- selection *)
Definition selected (pat : option (list N)) (items : list titem) : list titem :=
  match pat with None => items | Some p => filter (item_matches p) items end.

(* with the single match run under its own name: the tests executed are exactly the selected
   ones, in order, each once; the run is refused exactly when nothing is selected *)
Theorem runs_exactly_selected pat items :
  match run_tests_m true pat items with
  | RFail => selected pat items = []
  | RRan ex => ex = selected pat items /\ ex <> []
  end.
Proof.
  unfold run_tests_m. fold (selected pat items). destruct pat as [p|].
  - destruct (selected (Some p) items) as [|one [|two rest]] eqn:E; cbn [negb].
    + reflexivity.
    + cbn [filter]. rewrite list_eqb_refl. split; [reflexivity|discriminate].
    + split; [reflexivity|discriminate].
  - destruct (selected None items) as [|one rest] eqn:E.
    + reflexivity.
    + split; [reflexivity|discriminate].
Qed.

(* as the code stood: a wildcard pattern matching exactly one test ran nothing, silently *)
Example single_match_by_pattern_refuted :
  run_tests_m false (Some [67; 58; 117; 42]) [mkitem [67] [117; 110; 105]; mkitem [67] [120]] = RRan [].
Proof. vm_compute. reflexivity. Qed.

(* ---------------------------------------------------------------- sorting *)
Lemma smallest_bound l : forall best bi i, (bi < i)%nat -> (smallest best bi l i < i + length l)%nat.
Proof.
  induction l as [|x r IH]; intros best bi i H; cbn [smallest length]; [lia|].
  destruct (lexlt (ti_name x) (ti_name best)).
  - specialize (IH x i (S i)). lia.
  - specialize (IH best bi (S i)). lia.
Qed.

Lemma perm_remove_at : forall l i d, (i < length l)%nat -> Permutation (nth i l d :: remove_at l i) l.
Proof.
  induction l as [|x r IH]; intros i d H; [cbn in H; lia|].
  destruct i as [|i]; cbn [nth remove_at]; [reflexivity|].
  cbn [length] in H. eapply perm_trans; [apply perm_swap|]. constructor. apply IH. lia.
Qed.

Lemma remove_at_length : forall l i, (i < length l)%nat -> length (remove_at l i) = (length l - 1)%nat.
Proof.
  induction l as [|x r IH]; intros i H; [cbn in H; lia|].
  destruct i as [|i]; cbn [remove_at length]; [lia|]. cbn [length] in H. rewrite IH by lia. lia.
Qed.

Lemma sel_sort_perm : forall fuel l, length l = fuel -> Permutation (sel_sort fuel l) l.
Proof.
  induction fuel as [|f IH]; intros l H.
  - destruct l; [constructor|discriminate].
  - destruct l as [|x r]; [discriminate|]. cbn [sel_sort].
    set (i := smallest x 0 r 1).
    assert (Hi : (i < length (x :: r))%nat) by (pose proof (smallest_bound r x 0%nat 1%nat); cbn [length]; subst i; lia).
    eapply perm_trans; [|apply (perm_remove_at (x :: r) i x Hi)].
    constructor. apply IH. rewrite remove_at_length by exact Hi. cbn [length] in *. lia.
Qed.

(* sorting the discovered tests loses none and duplicates none, for every count *)
Theorem sorted_is_permutation l : Permutation (sorted_items l) l.
Proof. apply sel_sort_perm. reflexivity. Qed.

(* ---------------------------------------------------------------- one library *)
Lemma filter_perm {A} (f : A -> bool) l1 l2 : Permutation l1 l2 -> Permutation (filter f l1) (filter f l2).
Proof.
  induction 1; cbn [filter].
  - constructor.
  - destruct (f x); [constructor|]; assumption.
  - destruct (f x), (f y); try (apply perm_swap); reflexivity || (constructor; reflexivity).
  - eapply perm_trans; eassumption.
Qed.

Theorem runner_runs_exactly_selected pat items :
  match runner_m true pat items with
  | RFail => selected pat items = []
  | RRan ex => Permutation ex (selected pat items) /\ ex <> []
  end.
Proof.
  unfold runner_m. destruct items as [|x r] eqn:E.
  - destruct pat; reflexivity.
  - rewrite <- E. pose proof (runs_exactly_selected pat (sorted_items items)) as H.
    pose proof (sorted_is_permutation items) as HP.
    destruct (run_tests_m true pat (sorted_items items)) as [|ex].
    + destruct pat as [p|]; cbn [selected] in *.
      * apply Permutation_nil. rewrite <- H. apply filter_perm. exact HP.
      * apply Permutation_nil. rewrite <- H. exact HP.
    + destruct H as [-> Hne]. split; [|exact Hne].
      destruct pat as [p|]; cbn [selected]; [apply filter_perm|]; exact HP.
Qed.

(* ---------------------------------------------------------------- the command line *)
(* success of the whole command means: every library named exists, in every library something
   was selected, exactly the selected tests were executed, and their runs reported success *)
Theorem main_success_means_all_ran exists_ lib_items outcome_ok : forall pairs,
  fst (main_m true exists_ lib_items outcome_ok pairs) = false ->
  Forall2 (fun pr ex => fst pr = fst ex /\ exists_ (fst pr) = true /\
                        Permutation (snd ex) (selected (snd pr) (lib_items (fst pr))) /\ snd ex <> [] /\
                        outcome_ok (fst pr) (snd ex) = true)
          pairs (snd (main_m true exists_ lib_items outcome_ok pairs)).
Proof.
  induction pairs as [|[lib pat] r IH]; intros H; cbn [main_m] in *; [constructor|].
  destruct (exists_ lib) eqn:Ex; cbn [negb] in *; [|discriminate].
  pose proof (runner_runs_exactly_selected pat (lib_items lib)) as HR.
  destruct (runner_m true pat (lib_items lib)) as [|ex].
  - destruct (main_m true exists_ lib_items outcome_ok r). cbn in H. discriminate.
  - destruct (main_m true exists_ lib_items outcome_ok r) as [fr exs] eqn:ER. cbn [fst snd] in *.
    apply orb_false_iff in H. destruct H as [H1 H2]. apply negb_false_iff in H1.
    constructor; [|apply IH; exact H2]. cbn [fst snd]. destruct HR as [HP Hne]. auto.
Qed.
