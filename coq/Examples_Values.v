(* Examples_Values.v — non-vacuity examples for C12 and witnesses of how a plausible defect
   (an int cast, one byte too many, the wrong half of the word) falsifies the statements. *)
From Coq Require Import List ZArith Bool.
From CgreenVerif Require Import Defs CStr Values Lemmas_Values.
From CgreenVerif.Gen Require Import Facts.
Import ListNotations.
Local Open Scope Z_scope.

Example capture_int_of_negative : (* int variable, argument -5 *)
  capture_m values_src false (-5) 4 = MOk [251; 255; 255; 255] /\ decode false [251; 255; 255; 255] = (-5) mod 2 ^ 32.
Proof. split; vm_compute; reflexivity. Qed.

Example capture_big_endian_char :
  capture_m values_src true 65 1 = MOk [65].
Proof. vm_compute. reflexivity. Qed.

Example set_contents_in_the_middle :
  set_contents_m values_src [9; 9; 9; 9; 9; 9] 2 [1; 2; 3; 4] 3 = MOk [9; 9; 1; 2; 3; 9].
Proof. vm_compute. reflexivity. Qed.

Example by_value_three_bytes : by_value_m values_src [7; 8; 9] 3 = MOk [7; 8; 9].
Proof. vm_compute. reflexivity. Qed.

(* defective variants of the sources: each is refuted by a concrete input *)
Definition with_int_cast : valsrc :=
  mkvalsrc (fun v => v) (fun v => wrap_s32 v) (fun v => v) true
    (fun n => n) (fun n => n) (fun n => n) (fun n => n) (fun n => n)
    (fun v => v) (fun n => n) (fun n => n) true true
    (fun n => n) (fun n be => negb (8 =? n) && be) (fun n => 8 - n) (fun n => n) (fun n => n).
Example int_cast_refuted : return_m with_int_cast 4294967297 = 1.
Proof. vm_compute. reflexivity. Qed.

Definition with_one_byte_more : valsrc :=
  mkvalsrc (fun v => v) (fun v => v) (fun v => v) true
    (fun n => n) (fun n => n) (fun n => n) (fun n => n) (fun n => n)
    (fun v => v) (fun n => n) (fun n => n + 1) true true
    (fun n => n) (fun n be => negb (8 =? n) && be) (fun n => 8 - n) (fun n => n) (fun n => n).
Example one_byte_more_refuted :
  set_contents_m with_one_byte_more [9; 9; 9; 9; 9; 9] 2 [1; 2; 3; 4] 3 = MOk [9; 9; 1; 2; 3; 4] /\
  set_contents_m with_one_byte_more [9; 9; 9; 9; 9] 2 [1; 2; 3] 3 = MOob.
Proof. split; vm_compute; reflexivity. Qed.
