(* Buffers.v — fixed-size character buffers and the calls that write strings into them
   (sprintf / snprintf / vsnprintf / strcpy / strcat / strncat / fgets on a `char x[N]`), as a
   small imperative language with its concrete semantics and a static bound analysis.
   The programs themselves (one per C function that owns or fills such a buffer) are generated
   from /repo's sources by tools/srcfacts_buffers.py into Gen/Facts.v (buffer_caps,
   buffer_progs).  No proofs here; soundness of `check` is in Lemmas_Buffers.v. *)
From Coq Require Import List NArith Bool.
Import ListNotations.
Local Open Scope N_scope.

Definition bufid := nat.

(* what a conversion or argument contributes to the text being written *)
Inductive piece :=
| PLit (n : N)          (* exactly n bytes: literal text of the format, a string literal argument *)
| PMax (n : N)          (* at most n bytes: %d of an int, one of several literals, %.Ns, strsignal text bounded by a buffer *)
| PBuf (b : bufid)      (* the NUL-terminated string buffer b holds at that moment *)
| PAny.                 (* a string supplied by the caller (suite, test, file name, message): any length *)

(* how many bytes, NUL included, the call may store *)
Inductive limit :=
| Unlimited             (* sprintf, vsprintf, strcpy, strcat *)
| Limit (n : N)         (* snprintf(dst, n, ..), vsnprintf, fgets, strftime: at most n bytes, NUL included *)
| Remaining (k : N).    (* destination dst + strlen(dst), size argument sizeof(dst) - strlen(dst) - k *)

Record wsite := mkws {
  w_target : bufid;
  w_append : bool;      (* destination is dst + strlen(dst) (strcat, strncat, &dst[strlen(dst)]) *)
  w_limit : limit;
  w_pieces : list piece }.

Arguments PBuf b%nat.
Arguments mkws w_target%nat w_append w_limit w_pieces.

Inductive prog :=
| Skip
| Op (w : wsite)
| Seq (p q : prog)
| If (p q : prog)       (* one of the two runs; an `if` without else is If p Skip *)
| Loop (p : prog).      (* any number of iterations *)

(* ---------------------------------------------------------------- concrete semantics *)
(* per buffer: None = indeterminate (a local array before its first write), Some l = holds a
   NUL-terminated string of length l *)
Definition state := list (option N).

Inductive result := Ok (st : state) | Overflow (b : bufid) (past_end : N) | UninitRead (b : bufid).

Arguments Overflow b%nat past_end.
Arguments UninitRead b%nat.

Definition cap_of (caps : list N) (b : bufid) : N := nth b caps 0.

Fixpoint set_nth (st : state) (b : nat) (v : option N) : state :=
  match st, b with
  | [], _ => []
  | _ :: r, O => v :: r
  | x :: r, S b' => x :: set_nth r b' v
  end.

(* total length of the text; `lens` gives the actual length of each PMax / PAny piece *)
Fixpoint text_len (st : state) (ps : list piece) (lens : list N) : option N + bufid :=
  match ps with
  | [] => inl (Some 0)
  | p :: r =>
      let '(here, lens') :=
        match p with
        | PLit n => (inl (Some n), lens)
        | PMax n => (inl (Some (N.min n (hd 0 lens))), tl lens)
        | PAny => (inl (Some (hd 0 lens)), tl lens)
        | PBuf b => (match nth b st None with Some l => inl (Some l) | None => inr b end, lens)
        end in
      match here, text_len st r lens' with
      | inl (Some a), inl (Some c) => inl (Some (a + c))
      | inr b, _ => inr b
      | _, other => other
      end
  end.

Definition step (caps : list N) (st : state) (w : wsite) (lens : list N) : result :=
  let b := w_target w in
  let cap := cap_of caps b in
  match (if w_append w then nth b st None else Some 0) with
  | None => UninitRead b
  | Some off =>
      match text_len st (w_pieces w) lens with
      | inr b' => UninitRead b'
      | inl None => UninitRead b
      | inl (Some L) =>
          let stored := match w_limit w with
                        | Unlimited => L + 1
                        | Limit n => N.min (L + 1) n
                        | Remaining k => if off + k <=? cap then N.min (L + 1) (cap - off - k)
                                         else L + 1      (* the size_t subtraction wraps: no limit at all *)
                        end in
          if stored =? 0 then Ok st
          else if cap <? off + stored then Overflow b (off + stored - cap)
          else Ok (set_nth st b (Some (off + stored - 1)))
      end
  end.

(* nondeterministic big-step execution: any branch, any number of iterations, any lengths *)
Inductive Exec (caps : list N) : prog -> state -> result -> Prop :=
| ESkip st : Exec caps Skip st (Ok st)
| EOp w st lens : Exec caps (Op w) st (step caps st w lens)
| ESeqOk p q st st1 r : Exec caps p st (Ok st1) -> Exec caps q st1 r -> Exec caps (Seq p q) st r
| ESeqOv p q st b n : Exec caps p st (Overflow b n) -> Exec caps (Seq p q) st (Overflow b n)
| ESeqUn p q st b : Exec caps p st (UninitRead b) -> Exec caps (Seq p q) st (UninitRead b)
| EIfL p q st r : Exec caps p st r -> Exec caps (If p q) st r
| EIfR p q st r : Exec caps q st r -> Exec caps (If p q) st r
| ELoop0 p st : Exec caps (Loop p) st (Ok st)
| ELoopS p st st1 r : Exec caps p st (Ok st1) -> Exec caps (Loop p) st1 r -> Exec caps (Loop p) st r
| ELoopOv p st b n : Exec caps p st (Overflow b n) -> Exec caps (Loop p) st (Overflow b n)
| ELoopUn p st b : Exec caps p st (UninitRead b) -> Exec caps (Loop p) st (UninitRead b).

(* deterministic interpreter for examples and witnesses: choices are taken from a list
   (If: 0 = left; Loop: number of iterations); fuel bounds the loop unrolling *)
Fixpoint run (fuel : nat) (caps : list N) (p : prog) (st : state) (ch : list (list N)) : result * list (list N) :=
  match p with
  | Skip => (Ok st, ch)
  | Op w => (step caps st w (hd [] ch), tl ch)
  | Seq a b => match run fuel caps a st ch with
               | (Ok st1, ch1) => run fuel caps b st1 ch1
               | bad => bad
               end
  | If a b => match hd [] ch with
              | 0 :: _ => run fuel caps a st (tl ch)
              | _ => run fuel caps b st (tl ch)
              end
  | Loop a =>
      (fix iter (n : nat) (st : state) (ch : list (list N)) {struct n} :=
         match n with
         | O => (Ok st, ch)
         | S n' => match run fuel caps a st ch with
                   | (Ok st1, ch1) => iter n' st1 ch1
                   | bad => bad
                   end
         end) (N.to_nat (hd 0 (hd [] ch))) st (tl ch)
  end.

(* ---------------------------------------------------------------- static bounds *)
(* per buffer: None = may be indeterminate, Some u = certainly holds a string of length <= u *)
Definition astate := list (option N).

Definition join1 (a b : option N) : option N :=
  match a, b with Some x, Some y => Some (N.max x y) | _, _ => None end.
Fixpoint join (a b : astate) : astate :=
  match a, b with
  | x :: a', y :: b' => join1 x y :: join a' b'
  | _, _ => []
  end.

Definition le1 (a b : option N) : bool :=
  match b with None => true | Some y => match a with Some x => x <=? y | None => false end end.
Fixpoint le_ab (a b : astate) : bool :=
  match a, b with
  | x :: a', y :: b' => le1 x y && le_ab a' b'
  | [], [] => true
  | _, _ => false
  end.

(* upper bound of the text length; None = unbounded (or reads a possibly indeterminate buffer) *)
Fixpoint text_ub (ab : astate) (ps : list piece) : option N :=
  match ps with
  | [] => Some 0
  | p :: r =>
      match (match p with
             | PLit n => Some n
             | PMax n => Some n
             | PAny => None
             | PBuf b => nth b ab None
             end), text_ub ab r with
      | Some a, Some c => Some (a + c)
      | _, _ => None
      end
  end.

(* every PBuf piece names a buffer that certainly holds a string *)
Fixpoint reads_ok (ab : astate) (ps : list piece) : bool :=
  match ps with
  | [] => true
  | PBuf b :: r => match nth b ab None with Some _ => reads_ok ab r | None => false end
  | _ :: r => reads_ok ab r
  end.

Definition check_op (caps : list N) (ab : astate) (w : wsite) : option astate :=
  let b := w_target w in
  let cap := cap_of caps b in
  if negb (Nat.ltb b (length ab)) then None else
  if negb (reads_ok ab (w_pieces w)) then None else
  match (if w_append w then nth b ab None else Some 0) with
  | None => None
  | Some off =>
      match w_limit w with
      | Unlimited =>
          match text_ub ab (w_pieces w) with
          | Some L => if off + L + 1 <=? cap then Some (set_nth ab b (Some (off + L))) else None
          | None => None
          end
      | Limit n =>
          if n =? 0 then Some ab                 (* stores nothing *)
          else
            let s := match text_ub ab (w_pieces w) with Some L => N.min (L + 1) n | None => n end in
            if off + s <=? cap then Some (set_nth ab b (Some (off + s - 1))) else None
      | Remaining k =>
          if w_append w && (off + k <=? cap) then Some (set_nth ab b (Some (N.max off (cap - k - 1))))
          else None
      end
  end.

Fixpoint check (caps : list N) (p : prog) (ab : astate) : option astate :=
  match p with
  | Skip => Some ab
  | Op w => check_op caps ab w
  | Seq a b => match check caps a ab with Some ab1 => check caps b ab1 | None => None end
  | If a b => match check caps a ab, check caps b ab with
              | Some x, Some y => Some (join x y)
              | _, _ => None
              end
  | Loop a =>
      match check caps a ab with
      | None => None
      | Some post =>
          let inv := join ab post in
          match check caps a inv with
          | Some post1 => if le_ab post1 inv then Some inv else None
          | None => None
          end
      end
  end.

(* a C function that owns or fills buffers: its name (bytes) and its body.  Which buffers are
   local arrays of some function (indeterminate whenever a function is entered) is a property of
   the whole table; all other buffers are static or global and hold, between calls, a string
   that fits. *)
Record fprog := mkfp { fp_name : list N; fp_body : prog }.

Definition is_local (locals : list bufid) (b : bufid) : bool := existsb (Nat.eqb b) locals.

Definition entry_ab (caps : list N) (locals : list bufid) : astate :=
  map (fun bc => if is_local locals (fst bc) then None else Some (snd bc - 1)) (combine (seq 0 (length caps)) caps).

(* after the body every static buffer still holds a string that fits *)
Definition post_ok (caps : list N) (locals : list bufid) (post : astate) : bool :=
  forallb (fun bc => is_local locals (fst bc) ||
                     match nth (fst bc) post None with Some u => u <? snd bc | None => false end)
          (combine (seq 0 (length caps)) caps).

Definition fprog_ok (caps : list N) (locals : list bufid) (f : fprog) : bool :=
  match check caps (fp_body f) (entry_ab caps locals) with
  | Some post => post_ok caps locals post
  | None => false
  end.

Definition all_ok (caps : list N) (locals : list bufid) (fs : list fprog) : bool :=
  forallb (fun c => 0 <? c) caps && forallb (fprog_ok caps locals) fs.

(* entering a function: local arrays are indeterminate *)
Definition enter (locals : list bufid) (st : state) : state :=
  map (fun bs => if is_local locals (fst bs) then None else snd bs) (combine (seq 0 (length st)) st).

(* between calls: every static buffer holds a string that fits its capacity *)
Definition statics_fit (caps : list N) (locals : list bufid) (st : state) : Prop :=
  length st = length caps /\
  forall b : nat, (b < length caps)%nat -> is_local locals b = false ->
            exists l, nth b st None = Some l /\ l < cap_of caps b.

(* any sequence of calls of the functions of the table *)
Inductive Calls (caps : list N) (locals : list bufid) : list fprog -> state -> result -> Prop :=
| CNil st : Calls caps locals [] st (Ok st)
| CCons f fs st st1 r : Exec caps (fp_body f) (enter locals st) (Ok st1) -> Calls caps locals fs st1 r ->
                        Calls caps locals (f :: fs) st r
| COv f fs st b n : Exec caps (fp_body f) (enter locals st) (Overflow b n) -> Calls caps locals (f :: fs) st (Overflow b n)
| CUn f fs st b : Exec caps (fp_body f) (enter locals st) (UninitRead b) -> Calls caps locals (f :: fs) st (UninitRead b).

(* program start: static storage is zero-initialised (empty strings) *)
Definition start_state (caps : list N) : state := map (fun _ => Some 0) caps.

(* ---------------------------------------------------------------- search for a failing run *)
(* every result reachable with each caller string `big` bytes long and each bounded piece at its
   bound, either branch of every If, 0 to 3 iterations of every loop: used by the check to name a
   concrete overflowing run of a program the analysis rejects (a search, not a proof) *)
Fixpoint explore (caps : list N) (big : N) (p : prog) (st : state) : list result :=
  match p with
  | Skip => [Ok st]
  | Op w => [step caps st w (map (fun _ => big) (w_pieces w))]
  | Seq a b => flat_map (fun r => match r with Ok st1 => explore caps big b st1 | bad => [bad] end)
                        (explore caps big a st)
  | If a b => explore caps big a st ++ explore caps big b st
  | Loop a =>
      let once := fun rs => flat_map (fun r => match r with Ok st1 => explore caps big a st1 | bad => [bad] end) rs in
      let r0 := [Ok st] in let r1 := once r0 in let r2 := once r1 in let r3 := once r2 in
      r0 ++ r1 ++ r2 ++ r3
  end.

Definition is_bad (r : result) : bool := match r with Ok _ => false | _ => true end.

Definition first_bad (caps : list N) (locals : list bufid) (big : N) (f : fprog) : option result :=
  find is_bad (explore caps big (fp_body f)
                 (enter locals (map (fun c => Some (c - 1)) caps))).
