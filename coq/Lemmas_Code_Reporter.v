(* Lemmas_Code_Reporter.v - the functions of src/reporter.c as translated from the current source
   (Gen/Code.v, language of CLite.v) compute what the runner model (Runner.v) says:
   read_reporter_results() is read_results, reporter_finish_test() is base_finish_test's counter
   and status handling, for every content of the result pipe. *)
From Coq Require Import List ZArith String Bool Lia.
From CgreenVerif Require Import CLite Lemmas_CLite Runner.
From CgreenVerif.Gen Require Import Code_reporter.
Import ListNotations.
Local Open Scope string_scope. Local Open Scope list_scope. Local Open Scope Z_scope.

(* record numbers as in src/reporter.c's enum (the translated code contains the numbers) *)
Definition code_of (m : msg) : Z :=
  match m with MPass => 1 | MFail => 2 | MSkipped => 3 | MCompletion => 4 | MException => 5 end.
(* FINISH_NOTIFICATION_RECEIVED = 0, FINISH_TEST_SKIPPED, FINISH_NOTIFICATION_NOT_RECEIVED *)
Definition status_code (st : rstatus) : Z :=
  match st with Received => 0 | Skipped => 1 | NotReceived => 2 end.

(* the TestReporter object: the fields the functions touch, then any others *)
Definition rep_obj (k : cnt) (extra : list (string * val)) :=
  ORec (("ipc", VInt 9) :: ("passes", VInt (passes k)) :: ("failures", VInt (failures k)) ::
        ("skips", VInt (skips k)) :: ("exceptions", VInt (exceptions k)) :: extra).
(* a world: the reporter is object 0; receive_cgreen_message() answers with the records in the
   pipe, then with 0 *)
Definition rwt (tl : list obj) (k : cnt) extra (pipe : list msg) (tr : list (string * list val)) :=
  mkw (rep_obj k extra :: tl) [] [("receive_cgreen_message", map (fun m => VInt (code_of m)) pipe)] tr.


Definition b2z (b : bool) : Z := if b then 1 else 0.
Definition bounded (k : cnt) (n : nat) : Prop :=
  0 <= passes k /\ passes k + Z.of_nat n <= 2147483647 /\
  0 <= failures k /\ failures k + Z.of_nat n <= 2147483647 /\
  0 <= skips k /\ skips k + Z.of_nat n <= 2147483647 /\
  0 <= exceptions k /\ exceptions k + Z.of_nat n <= 2147483647.

Definition loop_of (d : fundef) : stmt :=
  match fbody d with SSeq _ (SSeq l _) => l | _ => SSkip end.
(* the locals: `result` exists from the first iteration on *)
Definition locals_ss (sk : bool) (r : option Z) : locals :=
  [("reporter", VPtr 0 0); ("test_skipped", VInt (b2z sk))] ++
  match r with Some z => [("result", VInt z)] | None => [] end.

Definition recv_ev : string * list val := ("receive_cgreen_message", [VInt 9]).
Definition is_recv (ev : string * list val) : Prop := ev = recv_ev.
Definition skipped_of (st : rstatus) : bool := match st with Skipped => true | _ => false end.

Lemma read_results_skipped_flag : forall p k sk,
  sk = true -> snd (read_results p k sk) = Skipped.
Proof.
  induction p as [|m p IH]; intros k sk H; subst; [reflexivity|].
  destruct m; cbn [read_results]; try apply IH; reflexivity.
Qed.

Lemma read_results_no_completion : forall p k sk,
  existsb is_compl_msg p = false -> snd (read_results p k sk) <> Received.
Proof.
  induction p as [|m p IH]; intros k sk H.
  - cbn [read_results snd]. destruct sk; discriminate.
  - destruct m; cbn [existsb is_compl_msg orb] in H; try discriminate; cbn [read_results]; apply IH; exact H.
Qed.

Lemma read_results_exceptions_bound : forall p k sk,
  exceptions k <= exceptions (snd (fst (read_results p k sk))) <= exceptions k + Z.of_nat (List.length p).
Proof.
  induction p as [|m p IH]; intros k sk.
  - cbn [read_results fst snd List.length]. lia.
  - assert (HS : Z.of_nat (List.length (m :: p)) = Z.of_nat (List.length p) + 1) by (cbn [List.length]; lia).
    rewrite HS. destruct m; cbn [read_results].
    + specialize (IH (cadd k (mkcnt 1 0 0 0)) sk). cbn [cadd exceptions] in IH. lia.
    + specialize (IH (cadd k (mkcnt 0 1 0 0)) sk). cbn [cadd exceptions] in IH. lia.
    + destruct sk.
      * specialize (IH k true). lia.
      * specialize (IH (cadd k (mkcnt 0 0 1 0)) true). cbn [cadd exceptions] in IH. lia.
    + cbn [fst snd]. lia.
    + specialize (IH (cadd k (mkcnt 0 0 0 1)) sk). cbn [cadd exceptions] in IH. lia.
Qed.

Ltac range_ok :=
  match goal with
  | |- context [in_range I32 ?z] =>
      rewrite (in_range_I32 z) by (unfold bounded in *; cbn [passes failures skips exceptions List.length] in *; lia)
  end.

Section Tail.
(* whatever lies behind the reporter in the heap (a reporter's memo, ...) is not touched *)
Variable tl : list obj.
Local Notation rw := (rwt tl).

(* the loop of read_reporter_results(), from any iteration on *)
Lemma loop_spec : forall pipe n k sk tr (r : option Z) extra,
  (List.length pipe < n)%nat -> bounded k (List.length pipe) ->
  exists r' tr1,
    Forall is_recv tr1 /\
    cexec prog_reporter n (loop_of code_read_reporter_results) (locals_ss sk r) (rw k extra pipe tr) =
    (let '(rest, k', st) := read_results pipe k sk in
     if existsb is_compl_msg pipe
     then Fine (FReturn (VInt (status_code st)), locals_ss (skipped_of st) (Some r'), rw k' extra rest (tr1 ++ tr))
     else Fine (FNormal, locals_ss (skipped_of st) (Some r'), rw k' extra rest (tr1 ++ tr))).
Proof.
  induction pipe as [|m pipe IH]; intros n k sk tr r extra Hn Hb.
  - destruct n as [|n]; [cbn in Hn; lia|].
    destruct k as [p f s e]. unfold rwt, rep_obj, locals_ss. cbn [passes failures skips exceptions].
    cbn [loop_of fbody code_read_reporter_results map read_results existsb].
    eexists; exists [recv_ev]. split; [repeat constructor|].
    rewrite exec_loop. destruct sk, r; cbn [b2z app]; srun prog_reporter; reflexivity.
  - destruct n as [|n]; [cbn in Hn; lia|].
    assert (Hn' : (List.length pipe < n)%nat) by (cbn [List.length] in Hn; lia).
    destruct k as [p f s e].
    destruct m; cbn [read_results existsb is_compl_msg orb].
    + (* pass *)
      replace (cadd (mkcnt p f s e) (mkcnt 1 0 0 0)) with (mkcnt (p + 1) f s e) by (unfold cadd; cbn [passes failures skips exceptions]; f_equal; lia).
      destruct (IH n (mkcnt (p + 1) f s e) sk (("receive_cgreen_message", [VInt 9]) :: tr) (Some 1) extra Hn') as (r' & tr1 & Hrecv & IH'); [unfold bounded in *; cbn [passes failures skips exceptions cadd List.length] in *; lia|];
        exists r', (tr1 ++ [recv_ev]); (split; [apply Forall_app; split; [exact Hrecv|repeat constructor]|]);
        rewrite <- app_assoc; change ([recv_ev] ++ tr) with (("receive_cgreen_message", [VInt 9]) :: tr); clear IH.
      unfold rwt, rep_obj, locals_ss in *. cbn [passes failures skips exceptions cadd] in *.
      cbn [loop_of fbody code_read_reporter_results map code_of] in *.
      rewrite exec_loop. destruct sk, r; cbn [b2z app] in *; srun prog_reporter; range_ok; srun prog_reporter;
        exact IH'.
    + (* fail *)
      replace (cadd (mkcnt p f s e) (mkcnt 0 1 0 0)) with (mkcnt p (f + 1) s e) by (unfold cadd; cbn [passes failures skips exceptions]; f_equal; lia).
      destruct (IH n (mkcnt p (f + 1) s e) sk (("receive_cgreen_message", [VInt 9]) :: tr) (Some 2) extra Hn') as (r' & tr1 & Hrecv & IH'); [unfold bounded in *; cbn [passes failures skips exceptions cadd List.length] in *; lia|];
        exists r', (tr1 ++ [recv_ev]); (split; [apply Forall_app; split; [exact Hrecv|repeat constructor]|]);
        rewrite <- app_assoc; change ([recv_ev] ++ tr) with (("receive_cgreen_message", [VInt 9]) :: tr); clear IH.
      unfold rwt, rep_obj, locals_ss in *. cbn [passes failures skips exceptions cadd] in *.
      cbn [loop_of fbody code_read_reporter_results map code_of] in *.
      rewrite exec_loop. destruct sk, r; cbn [b2z app] in *; srun prog_reporter; range_ok; srun prog_reporter;
        exact IH'.
    + (* skipped *)
      destruct sk.
      * destruct (IH n (mkcnt p f s e) true (("receive_cgreen_message", [VInt 9]) :: tr) (Some 3) extra Hn') as (r' & tr1 & Hrecv & IH'); [unfold bounded in *; cbn [passes failures skips exceptions cadd List.length] in *; lia|];
        exists r', (tr1 ++ [recv_ev]); (split; [apply Forall_app; split; [exact Hrecv|repeat constructor]|]);
        rewrite <- app_assoc; change ([recv_ev] ++ tr) with (("receive_cgreen_message", [VInt 9]) :: tr); clear IH.
        unfold rwt, rep_obj, locals_ss in *. cbn [passes failures skips exceptions cadd] in *.
        cbn [loop_of fbody code_read_reporter_results map code_of b2z] in *.
        rewrite exec_loop. destruct r; cbn [app] in *; srun prog_reporter;
        exact IH'.
      * replace (cadd (mkcnt p f s e) (mkcnt 0 0 1 0)) with (mkcnt p f (s + 1) e) by (unfold cadd; cbn [passes failures skips exceptions]; f_equal; lia).
      destruct (IH n (mkcnt p f (s + 1) e) true (("receive_cgreen_message", [VInt 9]) :: tr) (Some 3) extra Hn') as (r' & tr1 & Hrecv & IH'); [unfold bounded in *; cbn [passes failures skips exceptions cadd List.length] in *; lia|];
        exists r', (tr1 ++ [recv_ev]); (split; [apply Forall_app; split; [exact Hrecv|repeat constructor]|]);
        rewrite <- app_assoc; change ([recv_ev] ++ tr) with (("receive_cgreen_message", [VInt 9]) :: tr); clear IH.
        unfold rwt, rep_obj, locals_ss in *. cbn [passes failures skips exceptions cadd] in *.
        cbn [loop_of fbody code_read_reporter_results map code_of b2z] in *.
        rewrite exec_loop. destruct r; cbn [app] in *; srun prog_reporter; range_ok; srun prog_reporter;
        exact IH'.
    + (* completion *)
      unfold rwt, rep_obj, locals_ss. cbn [passes failures skips exceptions].
      cbn [loop_of fbody code_read_reporter_results map code_of].
      eexists; exists [recv_ev]. split; [repeat constructor|].
      rewrite exec_loop. destruct sk, r; cbn [b2z status_code skipped_of app]; srun prog_reporter;
        reflexivity.
    + (* exception *)
      replace (cadd (mkcnt p f s e) (mkcnt 0 0 0 1)) with (mkcnt p f s (e + 1)) by (unfold cadd; cbn [passes failures skips exceptions]; f_equal; lia).
      destruct (IH n (mkcnt p f s (e + 1)) sk (("receive_cgreen_message", [VInt 9]) :: tr) (Some 5) extra Hn') as (r' & tr1 & Hrecv & IH'); [unfold bounded in *; cbn [passes failures skips exceptions cadd List.length] in *; lia|];
        exists r', (tr1 ++ [recv_ev]); (split; [apply Forall_app; split; [exact Hrecv|repeat constructor]|]);
        rewrite <- app_assoc; change ([recv_ev] ++ tr) with (("receive_cgreen_message", [VInt 9]) :: tr); clear IH.
      unfold rwt, rep_obj, locals_ss in *. cbn [passes failures skips exceptions cadd] in *.
      cbn [loop_of fbody code_read_reporter_results map code_of] in *.
      rewrite exec_loop. destruct sk, r; cbn [b2z app] in *; srun prog_reporter; range_ok; srun prog_reporter;
        exact IH'.
Qed.

(* read_reporter_results(), as a call from translated code: for every content of the pipe, the
   counters, what is left in the pipe and the status are those of read_results *)
Lemma call_read_reporter_results :
  forall pipe k extra tr n,
    (List.length pipe < n)%nat -> bounded k (List.length pipe) ->
    exists tr1,
      Forall is_recv tr1 /\
      mk_call prog_reporter (cexec prog_reporter n) "read_reporter_results" [VPtr 0 0] (rw k extra pipe tr) =
      (let '(rest, k', st) := read_results pipe k false in
       Fine (VInt (status_code st), rw k' extra rest (tr1 ++ tr))).
Proof.
  intros pipe k extra tr n Hn Hb.
  destruct (loop_spec pipe n k false tr None extra ltac:(lia) Hb) as (r' & tr1 & Hrecv & HL).
  exists tr1. split; [exact Hrecv|].
  destruct n as [|n]; [lia|].
  unfold mk_call, find_fun. cbn [alookup prog_reporter String.eqb Ascii.eqb Bool.eqb].
  cbn [bind_params fparams fbody code_read_reporter_results].
  cbn [loop_of fbody code_read_reporter_results] in HL. unfold locals_ss in HL. cbn [b2z app] in HL.
  rewrite exec_seq. srun prog_reporter. rewrite HL. clear HL.
  pose proof (read_results_no_completion pipe k false) as Hnc.
  destruct (read_results pipe k false) as [[rest k'] st]. cbn [snd] in Hnc.
  destruct (existsb is_compl_msg pipe).
  - cbn [bindr]. reflexivity.
  - cbn [bindr]. unfold locals_ss. cbn [app].
    destruct st; [exfalso; apply Hnc; reflexivity| |]; cbn [skipped_of b2z status_code]; srun prog_reporter; reflexivity.
Qed.

Theorem read_reporter_results_refines :
  forall pipe k extra tr n,
    (List.length pipe < n)%nat -> bounded k (List.length pipe) ->
    exists tr1,
      Forall is_recv tr1 /\
      run_fun prog_reporter n "read_reporter_results" [VPtr 0 0] (rw k extra pipe tr) =
      (let '(rest, k', st) := read_results pipe k false in
       Fine (VInt (status_code st), rw k' extra rest (tr1 ++ tr))).
Proof. exact call_read_reporter_results. Qed.

(* the fields of the reporter the next two functions use besides the counters *)
Definition rep_extra (extra : list (string * val)) : list (string * val) :=
  ("breadcrumb", VInt 77) :: ("show_skip", VFun "show_skip") :: ("show_incomplete", VFun "show_incomplete") :: extra.

(* reporter_finish_test(): counters as base_finish_test computes them (one more exception when no
   completion notice came), show_skip / show_incomplete called exactly in those two cases, the
   breadcrumb popped last *)
Theorem reporter_finish_test_refines :
  forall pipe k extra tr n file line message,
    (List.length pipe + 1 < n)%nat -> bounded k (List.length pipe + 1) ->
    exists tr1,
      Forall is_recv tr1 /\
      run_fun prog_reporter n "reporter_finish_test" [VPtr 0 0; file; line; message] (rw k (rep_extra extra) pipe tr) =
      (let '(rest, k1, st) := read_results pipe k false in
       match st with
       | Received =>
           Fine (VInt 0, rw k1 (rep_extra extra) rest ([("pop_breadcrumb", [VInt 77])] ++ tr1 ++ tr))
       | Skipped =>
           Fine (VInt 0, rw k1 (rep_extra extra) rest
                          ([("pop_breadcrumb", [VInt 77]); ("show_skip", [VPtr 0 0; file; line])] ++ tr1 ++ tr))
       | NotReceived =>
           Fine (VInt 0, rw (cadd k1 (mkcnt 0 0 0 1)) (rep_extra extra) rest
                          ([("pop_breadcrumb", [VInt 77]);
                            ("show_incomplete", [VPtr 0 0; file; line; message; VInt 0]);
                            ("memset", [VInt 0; VInt 0; VInt 24])] ++ tr1 ++ tr))
       end).
Proof.
  intros pipe k extra tr n file line message Hn Hb.
  destruct n as [|n]; [lia|].
  destruct (call_read_reporter_results pipe k (rep_extra extra) tr n ltac:(lia)) as (tr1 & Hrecv & HC).
  { unfold bounded in *. lia. }
  exists tr1. split; [exact Hrecv|].
  unfold run_fun, find_fun. cbn [alookup prog_reporter String.eqb Ascii.eqb Bool.eqb].
  unfold mk_call at 1. unfold find_fun. cbn [alookup prog_reporter String.eqb Ascii.eqb Bool.eqb].
  cbn [bind_params fparams fbody code_reporter_finish_test].
  rewrite exec_seq. srun prog_reporter. rewrite HC. clear HC.
  pose proof (read_results_exceptions_bound pipe k false) as Hex.
  destruct (read_results pipe k false) as [[rest k1] st]. cbn [fst snd] in Hex.
  destruct k1 as [p1 f1 s1 e1]. unfold rwt, rep_obj, rep_extra. cbn [passes failures skips exceptions cadd] in *.
  destruct st; cbn [status_code]; srun prog_reporter.
  - reflexivity.
  - reflexivity.
  - rewrite (in_range_I32 (e1 + 1)) by (unfold bounded in Hb; lia).
    srun prog_reporter.
    replace (f1 + 0) with f1 by lia. replace (p1 + 0) with p1 by lia. replace (s1 + 0) with s1 by lia.
    reflexivity.
Qed.

(* reporter_finish_suite(): reads what is left up to the suite's completion notice and pops *)
Theorem reporter_finish_suite_refines :
  forall pipe k extra tr n file line,
    (List.length pipe + 1 < n)%nat -> bounded k (List.length pipe) ->
    exists tr1,
      Forall is_recv tr1 /\
      run_fun prog_reporter n "reporter_finish_suite" [VPtr 0 0; file; line] (rw k (rep_extra extra) pipe tr) =
      (let '(rest, k1, _) := read_results pipe k false in
       Fine (VInt 0, rw k1 (rep_extra extra) rest ([("pop_breadcrumb", [VInt 77])] ++ tr1 ++ tr))).
Proof.
  intros pipe k extra tr n file line Hn Hb.
  destruct n as [|n]; [lia|].
  destruct (call_read_reporter_results pipe k (rep_extra extra) tr n ltac:(lia) Hb) as (tr1 & Hrecv & HC).
  exists tr1. split; [exact Hrecv|].
  unfold run_fun, find_fun. cbn [alookup prog_reporter String.eqb Ascii.eqb Bool.eqb].
  unfold mk_call at 1. unfold find_fun. cbn [alookup prog_reporter String.eqb Ascii.eqb Bool.eqb].
  cbn [bind_params fparams fbody code_reporter_finish_suite].
  rewrite exec_seq. srun prog_reporter. rewrite HC. clear HC.
  destruct (read_results pipe k false) as [[rest k1] st].
  destruct k1 as [p1 f1 s1 e1]. unfold rwt, rep_obj, rep_extra. cbn [passes failures skips exceptions].
  srun prog_reporter. reflexivity.
Qed.

End Tail.
(* ... with nothing behind the reporter *)
Notation rw := (rwt []).

(* the sending side: what each notification function puts on the channel *)
Definition sw (tr : list (string * list val)) := mkw [ORec [("ipc", VInt 9)]] [] [] tr.
Theorem send_functions_refine :
  forall tr n b, (1 < n)%nat ->
    run_fun prog_reporter n "add_reporter_result" [VPtr 0 0; VInt (b2z b)] (sw tr) =
      Fine (VInt 0, sw (("send_cgreen_message", [VInt 9; VInt (code_of (msg_of b))]) :: tr)) /\
    run_fun prog_reporter n "send_reporter_skipped_notification" [VPtr 0 0] (sw tr) =
      Fine (VInt 0, sw (("send_cgreen_message", [VInt 9; VInt (code_of MSkipped)]) :: tr)) /\
    run_fun prog_reporter n "send_reporter_completion_notification" [VPtr 0 0] (sw tr) =
      Fine (VInt 0, sw (("send_cgreen_message", [VInt 9; VInt (code_of MCompletion)]) :: tr)) /\
    run_fun prog_reporter n "send_reporter_exception_notification" [VPtr 0 0] (sw tr) =
      Fine (VInt 0, sw (("send_cgreen_message", [VInt 9; VInt (code_of MException)]) :: tr)).
Proof.
  intros tr n b Hn. destruct n as [|[|n]]; try lia.
  unfold run_fun, find_fun, sw. cbn [alookup prog_reporter String.eqb Ascii.eqb Bool.eqb].
  unfold mk_call, find_fun. cbn [alookup prog_reporter String.eqb Ascii.eqb Bool.eqb].
  cbn [bind_params fparams fbody code_add_reporter_result code_send_reporter_skipped_notification
       code_send_reporter_completion_notification code_send_reporter_exception_notification].
  repeat split; try (destruct b; cbn [b2z msg_of code_of]); srun prog_reporter; reflexivity.
Qed.

