(* Lemmas_Code_Percent.v - double_all_percent_signs_in() of src/message_formatting.c, as translated from
   the current source (Gen/Code_percent.v), computes Printf.double_percent for every text, inside a block
   of exactly the size it allocates. *)
From Coq Require Import List ZArith String Bool Lia Arith.
From CgreenVerif Require Import CLite Lemmas_CLite.
From CgreenVerif.Gen Require Import Code_percent.
Import ListNotations.
Local Open Scope string_scope. Local Open Scope list_scope. Local Open Scope Z_scope.

(* texts: bytes 1..255 *)
Definition text_ok (s : list Z) : Prop := Forall (fun c => 1 <= c <= 255) s.

Fixpoint dbl (s : list Z) : list Z :=
  match s with [] => [] | c :: r => if c =? 37 then 37 :: 37 :: dbl r else c :: dbl r end.
Fixpoint pcts (s : list Z) : nat :=
  match s with [] => O | c :: r => if c =? 37 then S (pcts r) else pcts r end.

Lemma dbl_length s : List.length (dbl s) = (List.length s + pcts s)%nat.
Proof. induction s as [|c r IH]; [reflexivity|]. cbn [dbl pcts List.length]. destruct (c =? 37); cbn [List.length]; lia. Qed.

(* ---- strings in memory ---- *)
Lemma strlen_from_text s r : text_ok s -> strlen_from (s ++ 0 :: r) = Some (List.length s).
Proof.
  induction s as [|c s IH]; intro H; [reflexivity|].
  inversion H as [|? ? Hc Hs]; subst. cbn [app strlen_from List.length].
  destruct (Z.eqb_spec c 0) as [->|_]; [lia|]. rewrite (IH Hs). reflexivity.
Qed.

Lemma firstn_app_exact {A} (a b : list A) : firstn (List.length a) (a ++ b) = a.
Proof. induction a as [|x a IH]; [reflexivity|]. cbn [List.length app firstn]. rewrite IH. reflexivity. Qed.

Lemma text_ok_skipn k s : text_ok s -> text_ok (skipn k s).
Proof. unfold text_ok. intro H. apply Forall_forall. intros x Hx. rewrite Forall_forall in H. apply H.
       rewrite <- (firstn_skipn k s). apply in_or_app. right. exact Hx. Qed.

(* the string at offset k of the block that holds s and its terminator (object b of the heap) *)
Lemma cstring_at (w : world) b s k :
  nth_error (heap w) b = Some (OBytes (s ++ [0])) -> text_ok s -> (k <= List.length s)%nat ->
  cstring w (VPtr b (Z.of_nat k)) = Fine (skipn k s).
Proof.
  intros Hb Hs Hk. unfold cstring. rewrite Hb.
  replace ((0 <=? Z.of_nat k) && (Z.of_nat k <=? Z.of_nat (List.length (s ++ [0])))) with true
    by (symmetry; apply andb_true_intro; split; apply Z.leb_le; [lia|rewrite app_length; cbn [List.length]; lia]).
  rewrite Nat2Z.id. rewrite skipn_app. replace (k - List.length s)%nat with O by lia. cbn [skipn].
  rewrite (strlen_from_text (skipn k s) [] (text_ok_skipn k s Hs)).
  rewrite firstn_app_exact. reflexivity.
Qed.

(* position of the first '%' *)
Fixpoint first_pct (s : list Z) : option nat :=
  match s with [] => None | c :: r => if c =? 37 then Some O else match first_pct r with Some n => Some (S n) | None => None end end.

Lemma index_of_text s : text_ok s -> index_of 37 (s ++ [0]) = first_pct s.
Proof.
  induction s as [|c s IH]; intro H; [reflexivity|].
  inversion H as [|? ? Hc Hs]; subst. cbn [app index_of first_pct]. destruct (c =? 37); [reflexivity|].
  rewrite (IH Hs). reflexivity.
Qed.

Lemma call_next_percent_sign (w : world) s k n :
  nth_error (heap w) 0 = Some (OBytes (s ++ [0])) -> text_ok s -> (k <= List.length s)%nat -> (1 <= n)%nat ->
  mk_call prog_percent (cexec prog_percent n) "next_percent_sign" [VPtr 0 (Z.of_nat k)] w =
  Fine (match first_pct (skipn k s) with Some j => VPtr 0 (Z.of_nat k + Z.of_nat j) | None => VInt 0 end, w).
Proof.
  intros Hb Hs Hk Hn. destruct n as [|n]; [lia|].
  unfold mk_call, find_fun. cbn [alookup prog_percent String.eqb Ascii.eqb Bool.eqb].
  cbn [bind_params fparams fbody code_next_percent_sign].
  srun prog_percent.
  rewrite (cstring_at w 0 s k Hb Hs Hk). ctidy.
  rewrite (index_of_text _ (text_ok_skipn k s Hs)).
  destruct (first_pct (skipn k s)); srun prog_percent; reflexivity.
Qed.

Lemma nth_error_skipn' {A} k j (l : list A) : nth_error (skipn k l) j = nth_error l (k + j).
Proof. revert l. induction k as [|k IH]; intro l; [reflexivity|]. destruct l as [|x l]; [destruct j; reflexivity|]. cbn [skipn Nat.add nth_error]. apply IH. Qed.
Lemma skipn_skipn' {A} a b (l : list A) : skipn a (skipn b l) = skipn (b + a) l.
Proof. revert l. induction b as [|b IH]; intro l; [reflexivity|]. destruct l as [|x l]; [destruct a; reflexivity|]. cbn [skipn Nat.add]. apply IH. Qed.

(* ---- facts about first_pct / pcts ---- *)
Lemma first_pct_none l : first_pct l = None -> pcts l = O.
Proof. induction l as [|c r IH]; [reflexivity|]. cbn [first_pct pcts]. destruct (c =? 37); [discriminate|].
       destruct (first_pct r); [discriminate|]. intros _. apply IH. reflexivity. Qed.

Lemma first_pct_some l j : first_pct l = Some j ->
  nth_error l j = Some 37 /\ pcts l = pcts (skipn j l) /\ (j < List.length l)%nat /\ pcts (firstn j l) = O /\ dbl (firstn j l) = firstn j l.
Proof.
  revert j. induction l as [|c r IH]; intros j H; [discriminate|]. cbn [first_pct] in H.
  destruct (Z.eqb_spec c 37) as [->|Hc].
  - injection H as <-. cbn. repeat split; lia.
  - destruct (first_pct r) as [j'|] eqn:Hj; [|discriminate]. injection H as <-.
    destruct (IH j' eq_refl) as (H1 & H2 & H3 & H4 & H5).
    cbn [nth_error skipn pcts List.length firstn dbl]. destruct (Z.eqb_spec c 37); [contradiction|].
    repeat split; try assumption; try lia. rewrite H5. reflexivity.
Qed.

Lemma pcts_at s k : nth_error s k = Some 37 -> pcts (skipn k s) = S (pcts (skipn (S k) s)).
Proof.
  revert k. induction s as [|c r IH]; intros [|k] H; try discriminate.
  - cbn in H. injection H as ->. reflexivity.
  - cbn [skipn]. apply IH. exact H.
Qed.

Lemma wrap_U64_small z : 0 <= z < 18446744073709551616 -> wrap U64 z = z.
Proof. intro H. unfold wrap, ity_range. rewrite Z.sub_0_r, Z.add_0_r. apply Z.mod_small. lia. Qed.

Definition count_loop : stmt :=
  match fbody code_count_percent_signs with SSeq _ (SSeq _ (SSeq l _)) => l | _ => SSkip end.

Lemma count_loop_spec (w : world) s :
  nth_error (heap w) 0 = Some (OBytes (s ++ [0])) -> text_ok s -> Z.of_nat (List.length s) < 4611686018427387904 ->
  forall m k c n,
    (List.length s - k <= m)%nat -> nth_error s k = Some 37 -> 0 <= c -> c + Z.of_nat (pcts (skipn k s)) <= Z.of_nat (List.length s) ->
    (pcts (skipn k s) + 1 < n)%nat ->
    cexec prog_percent n count_loop [("s", VPtr 0 0); ("count", VInt c); ("p", VPtr 0 (Z.of_nat k))] w =
    Fine (FNormal, [("s", VPtr 0 0); ("count", VInt (c + Z.of_nat (pcts (skipn k s)))); ("p", VInt 0)], w).
Proof.
  intros Hb Hs Hlen. induction m as [|m IH]; intros k c n Hm Hk Hc Hcb Hn.
  - exfalso. assert (k < List.length s)%nat by (apply nth_error_Some; congruence). lia.
  - assert (Hkl : (k < List.length s)%nat) by (apply nth_error_Some; congruence).
    destruct n as [|n]; [lia|].
    unfold count_loop. cbn [fbody code_count_percent_signs].
    rewrite exec_loop. srun prog_percent.
    rewrite (pcts_at s k Hk) in *.
    rewrite (wrap_U64_small (c + 1)) by lia. srun prog_percent.
    replace (Z.of_nat k + 1) with (Z.of_nat (S k)) by lia.
    rewrite (call_next_percent_sign w s (S k) n Hb Hs ltac:(lia) ltac:(lia)). ctidy. srun prog_percent.
    destruct (first_pct (skipn (S k) s)) as [j|] eqn:Hj.
    + destruct (first_pct_some _ _ Hj) as (Hn37 & Hp & Hjl & _).
      rewrite skipn_length in Hjl. rewrite nth_error_skipn' in Hn37.
      rewrite skipn_skipn' in Hp.
      replace (Z.of_nat (S k) + Z.of_nat j) with (Z.of_nat (S k + j)) by lia.
      unfold count_loop in IH. cbn [fbody code_count_percent_signs] in IH.
      assert (IHi := IH (S k + j)%nat (c + 1) n ltac:(lia) Hn37 ltac:(lia) ltac:(rewrite Hp in Hcb; lia) ltac:(rewrite Hp in Hn; lia)).
      rewrite IHi. rewrite Hp.
      replace (c + 1 + Z.of_nat (pcts (skipn (S k + j) s))) with (c + Z.of_nat (S (pcts (skipn (S k + j) s)))) by lia.
      reflexivity.
    + rewrite (first_pct_none _ Hj). destruct n as [|n]; [lia|].
      rewrite exec_loop. srun prog_percent.
      replace (c + Z.of_nat 1) with (c + 1) by lia. reflexivity.
Qed.

Lemma call_count_percent_signs (w : world) s n :
  nth_error (heap w) 0 = Some (OBytes (s ++ [0])) -> text_ok s -> Z.of_nat (List.length s) < 4611686018427387904 ->
  (pcts s + 3 < n)%nat ->
  mk_call prog_percent (cexec prog_percent n) "count_percent_signs" [VPtr 0 0] w = Fine (VInt (Z.of_nat (pcts s)), w).
Proof.
  intros Hb Hs Hlen Hn. destruct n as [|n]; [lia|].
  assert (Hpl : (pcts s <= List.length s)%nat) by (pose proof (dbl_length s); clear -s; induction s as [|c r IH]; cbn [pcts List.length]; [lia|destruct (c =? 37); lia]).
  unfold mk_call at 1. unfold find_fun. cbn [alookup prog_percent String.eqb Ascii.eqb Bool.eqb].
  cbn [bind_params fparams fbody code_count_percent_signs].
  srun prog_percent.
  pose proof (call_next_percent_sign w s 0 n Hb Hs ltac:(lia) ltac:(lia)) as Hc0. cbn [Z.of_nat skipn] in Hc0.
  rewrite Hc0. clear Hc0. ctidy. srun prog_percent.
  destruct (first_pct s) as [j|] eqn:Hj.
  - destruct (first_pct_some _ _ Hj) as (Hn37 & Hp & Hjl & _).
    pose proof (count_loop_spec w s Hb Hs Hlen (List.length s) j 0 (S n) ltac:(lia) Hn37 ltac:(lia)) as HL.
    unfold count_loop in HL. cbn [fbody code_count_percent_signs] in HL.
    cbn [Z.add Z.of_nat] . replace (0 + Z.of_nat j) with (Z.of_nat j) by lia.
    rewrite HL by (rewrite <- Hp; lia). srun prog_percent. rewrite <- Hp. reflexivity.
  - rewrite (first_pct_none _ Hj). rewrite exec_loop. srun prog_percent. reflexivity.
Qed.

(* ---- blocks of bytes ---- *)
Lemma load_bytes_at (w : world) b l off n :
  nth_error (heap w) b = Some (OBytes l) -> (off + n <= List.length l)%nat ->
  load_bytes w (VPtr b (Z.of_nat off)) (Z.of_nat n) = Fine (firstn n (skipn off l)).
Proof.
  intros Hb Hn. unfold load_bytes. rewrite Hb.
  replace ((0 <=? Z.of_nat off) && (0 <=? Z.of_nat n) && (Z.of_nat off + Z.of_nat n <=? Z.of_nat (List.length l))) with true
    by (symmetry; repeat (apply andb_true_intro; split); apply Z.leb_le; lia).
  rewrite !Nat2Z.id. reflexivity.
Qed.

Lemma store_bytes_at (w : world) b l off src :
  nth_error (heap w) b = Some (OBytes l) -> (off + List.length src <= List.length l)%nat ->
  store_bytes w (VPtr b (Z.of_nat off)) src = Fine (set_heap (list_set b (OBytes (splice l off src)) (heap w)) w).
Proof.
  intros Hb Hn. unfold store_bytes. rewrite Hb.
  replace ((0 <=? Z.of_nat off) && (Z.of_nat off + Z.of_nat (List.length src) <=? Z.of_nat (List.length l))) with true
    by (symmetry; apply andb_true_intro; split; apply Z.leb_le; lia).
  rewrite Nat2Z.id. reflexivity.
Qed.

Lemma splice_app (a j c : list Z) : splice (a ++ j) (List.length a) c = a ++ c ++ skipn (List.length c) j.
Proof. induction a as [|x a IH]; cbn [List.length app]; [destruct j; reflexivity|]. cbn [splice]. rewrite IH. reflexivity. Qed.

Lemma dbl_app a b : dbl (a ++ b) = dbl a ++ dbl b.
Proof. induction a as [|c a IH]; [reflexivity|]. cbn [app dbl]. destruct (c =? 37); cbn [app]; rewrite IH; reflexivity. Qed.

Lemma firstn_S_nth {A} k (l : list A) x : nth_error l k = Some x -> firstn (S k) l = firstn k l ++ [x].
Proof. revert l. induction k as [|k IH]; intros [|y l] H; try discriminate.
       - cbn in H. injection H as ->. reflexivity.
       - cbn [nth_error] in H. change (firstn (S (S k)) (y :: l)) with (y :: firstn (S k) l). rewrite (IH l H). reflexivity. Qed.

Lemma firstn_add {A} a b (l : list A) : firstn (a + b) l = firstn a l ++ firstn b (skipn a l).
Proof. revert l. induction a as [|a IH]; intro l; [reflexivity|]. destruct l as [|x l]; [destruct b; reflexivity|]. cbn [Nat.add firstn skipn app]. rewrite IH. reflexivity. Qed.

Lemma dbl_nopct l : pcts l = O -> dbl l = l.
Proof. induction l as [|c r IH]; [reflexivity|]. cbn [pcts dbl]. destruct (c =? 37); [discriminate|]. intro H. rewrite (IH H). reflexivity. Qed.

(* ---- copy_while_doubling_percent_signs ---- *)
Definition cw (s buf : list Z) (tl : list obj) g st tr : world := mkw (OBytes (s ++ [0]) :: OBytes buf :: tl) g st tr.

Definition copy_loop : stmt :=
  match fbody code_copy_while_doubling_percent_signs with SSeq _ (SSeq _ (SSeq _ (SSeq l _))) => l | _ => SSkip end.

Definition cl (so : nat) (nxv : val) (d : nat) (len : option Z) : locals :=
  [("string", VPtr 1 0); ("original", VPtr 0 0); ("destination", VPtr 1 (Z.of_nat d)); ("source", VPtr 0 (Z.of_nat so)); ("next", nxv)] ++
  match len with Some z => [("len", VInt z)] | None => [] end.

Lemma pcts_app a b : pcts (a ++ b) = (pcts a + pcts b)%nat.
Proof. induction a as [|c a IH]; [reflexivity|]. cbn [app pcts]. destruct (c =? 37); rewrite IH; reflexivity. Qed.

Lemma skipn_app_le {A} k (a b : list A) : (k <= List.length a)%nat -> skipn k (a ++ b) = skipn k a ++ b.
Proof. intro H. rewrite skipn_app. replace (k - List.length a)%nat with O by lia. reflexivity. Qed.

Lemma firstn_app_le {A} k (a b : list A) : (k <= List.length a)%nat -> firstn k (a ++ b) = firstn k a.
Proof. intro H. rewrite firstn_app. replace (k - List.length a)%nat with O by lia. cbn [firstn]. apply app_nil_r. Qed.

Definition next_val (s : list Z) (k : nat) : val :=
  match first_pct (skipn k s) with Some j => VPtr 0 (Z.of_nat k + Z.of_nat j) | None => VInt 0 end.

(* one iteration: the text up to and including the '%' at so + j is copied, the '%' is written once more *)
Lemma copy_iter s tl g st tr :
  text_ok s -> Z.of_nat (List.length s) < 4611686018427387904 ->
  forall so j junk len n,
    (so <= List.length s)%nat -> first_pct (skipn so s) = Some j ->
    (List.length (dbl (firstn so s)) + List.length junk = List.length s + pcts s + 1)%nat -> (1 <= n)%nat ->
    cexec prog_percent (S n) copy_loop (cl so (VPtr 0 (Z.of_nat (so + j))) (List.length (dbl (firstn so s))) len)
          (cw s (dbl (firstn so s) ++ junk) tl g st tr) =
    cexec prog_percent n copy_loop
          (cl (so + j + 1) (next_val s (so + j + 1)) (List.length (dbl (firstn (so + j + 1) s))) (Some (Z.of_nat (j + 1))))
          (cw s (dbl (firstn (so + j + 1) s) ++ skipn (j + 2) junk) tl g st tr).
Proof.
  intros Hs Hlen so j junk len n Hso Hj Hjunk Hn.
  destruct (first_pct_some _ _ Hj) as (Hn37 & Hp & Hjl & Hnop & Hdblpre).
  rewrite skipn_length in Hjl. rewrite nth_error_skipn' in Hn37.
  unfold copy_loop, cl, cw. cbn [fbody code_copy_while_doubling_percent_signs].
  rewrite exec_loop. destruct len; cbn [app]; srun prog_percent.
  all: rewrite (in_range_I64 (Z.of_nat (so + j) - Z.of_nat so)) by lia; srun prog_percent.
  all: rewrite (in_range_I64 (Z.of_nat (so + j) - Z.of_nat so + 1)) by lia; srun prog_percent.
  all: replace (Z.of_nat (so + j) - Z.of_nat so + 1) with (Z.of_nat (j + 1)) by lia.
  all: rewrite (wrap_U64_small (Z.of_nat (j + 1))) by lia; srun prog_percent.
  (* the chunk that is copied: the text before the '%' and the '%' *)
  all: assert (Hchunk : firstn (j + 1) (skipn so (s ++ [0])) = firstn j (skipn so s) ++ [37])
    by (rewrite skipn_app_le by lia; rewrite firstn_app_le by (rewrite skipn_length; lia);
        replace (j + 1)%nat with (S j) by lia; apply firstn_S_nth; rewrite nth_error_skipn'; exact Hn37).
  all: assert (Hpsplit : pcts s = (pcts (firstn so s) + pcts (skipn so s))%nat)
    by (rewrite <- pcts_app, firstn_skipn; reflexivity).
  all: assert (Hpge : (1 <= pcts (skipn so s))%nat)
    by (pose proof (pcts_at (skipn so s) j ltac:(rewrite nth_error_skipn'; exact Hn37)) as Hq; rewrite Hp, Hq; lia).
  all: pose proof (dbl_length (firstn so s)) as Hdl; rewrite firstn_length_le in Hdl by lia.
  all: erewrite load_bytes_at by (first [reflexivity | rewrite app_length; cbn [List.length]; lia]).
  all: rewrite Hchunk; ctidy.
  all: erewrite store_bytes_at by (first [reflexivity | rewrite !app_length; cbn [List.length]; rewrite firstn_length, skipn_length; lia]).
  all: cbn [heap list_set]; rewrite splice_app; srun prog_percent.
  (* the '%' once more, right behind the chunk *)
  all: set (A := dbl (firstn so s)) in *; set (C := firstn j (skipn so s) ++ [37]) in *.
  all: assert (HC : List.length C = (j + 1)%nat) by (unfold C; rewrite app_length, firstn_length, skipn_length; cbn [List.length]; lia).
  all: replace (Z.of_nat (List.length A) + Z.of_nat (j + 1)) with (Z.of_nat (List.length (A ++ C))) by (rewrite app_length, HC; lia).
  all: rewrite (app_assoc A C).
  all: erewrite store_bytes_at by (first [reflexivity | rewrite !app_length, skipn_length, HC; cbn [List.length]; lia]).
  all: cbn [heap list_set]; rewrite splice_app; srun prog_percent.
  (* what the block holds now is dbl of the text up to and including the '%' *)
  all: assert (Hfold : (A ++ C) ++ [37] = dbl (firstn (so + j + 1) s)).
  1, 3: (replace (so + j + 1)%nat with (so + (j + 1))%nat by lia; rewrite firstn_add, dbl_app; fold A;
         replace (j + 1)%nat with (S j) by lia;
         rewrite (firstn_S_nth j (skipn so s) 37) by (rewrite nth_error_skipn'; exact Hn37);
         rewrite dbl_app, Hdblpre; unfold C; cbn [dbl Z.eqb Pos.eqb app]; rewrite <- !app_assoc; reflexivity).
  all: replace ((A ++ C) ++ 37 :: skipn 1 (skipn (List.length C) junk)) with (dbl (firstn (so + j + 1) s) ++ skipn (j + 2) junk)
    by (rewrite <- Hfold, <- app_assoc; cbn [app]; rewrite HC, skipn_skipn'; replace (j + 1 + 1)%nat with (j + 2)%nat by lia; reflexivity).
  all: replace (Z.of_nat (so + j) + 1) with (Z.of_nat (so + j + 1)) by lia.
  all: rewrite (call_next_percent_sign _ s (so + j + 1) n) by (first [reflexivity | assumption | lia]).
  all: ctidy; srun prog_percent.
  all: replace (Z.of_nat (List.length (A ++ C)) + 1) with (Z.of_nat (List.length (dbl (firstn (so + j + 1) s))))
    by (rewrite <- Hfold, !app_length; cbn [List.length]; lia).
  all: reflexivity.
Qed.

Lemma pcts_firstn_step s so j : first_pct (skipn so s) = Some j ->
  pcts (firstn (so + j + 1) s) = S (pcts (firstn so s)).
Proof.
  intro Hj. destruct (first_pct_some _ _ Hj) as (Hn37 & _ & _ & Hnop & _).
  replace (so + j + 1)%nat with (so + (j + 1))%nat by lia. rewrite firstn_add, pcts_app.
  replace (j + 1)%nat with (S j) by lia. rewrite (firstn_S_nth j (skipn so s) 37 Hn37), pcts_app, Hnop. cbn. lia.
Qed.

Lemma copy_loop_spec s tl g st tr :
  text_ok s -> Z.of_nat (List.length s) < 4611686018427387904 ->
  forall m so j junk len n,
    (List.length s - so <= m)%nat -> (so <= List.length s)%nat ->
    first_pct (skipn so s) = Some j ->
    (List.length (dbl (firstn so s)) + List.length junk = List.length s + pcts s + 1)%nat ->
    (pcts (skipn so s) + 1 < n)%nat ->
    exists so' junk' len',
      (so' <= List.length s)%nat /\ first_pct (skipn so' s) = None /\
      (List.length (dbl (firstn so' s)) + List.length junk' = List.length s + pcts s + 1)%nat /\
      cexec prog_percent n copy_loop (cl so (VPtr 0 (Z.of_nat (so + j))) (List.length (dbl (firstn so s))) len)
            (cw s (dbl (firstn so s) ++ junk) tl g st tr) =
      Fine (FNormal, cl so' (VInt 0) (List.length (dbl (firstn so' s))) (Some len'),
            cw s (dbl (firstn so' s) ++ junk') tl g st tr).
Proof.
  intros Hs Hlen. induction m as [|m IH]; intros so j junk len n Hm Hso Hj Hjunk Hn.
  - destruct (first_pct_some _ _ Hj) as (_ & _ & Hjl & _). rewrite skipn_length in Hjl. lia.
  - destruct (first_pct_some _ _ Hj) as (Hn37 & Hp & Hjl & Hnop & Hdblpre).
    rewrite skipn_length in Hjl.
    assert (Hq : pcts (skipn so s) = S (pcts (skipn (so + j + 1) s))).
    { rewrite Hp, (pcts_at (skipn so s) j Hn37), !skipn_skipn'. replace (so + S j)%nat with (so + j + 1)%nat by lia. reflexivity. }
    destruct n as [|n]; [lia|].
    rewrite (copy_iter s tl g st tr Hs Hlen so j junk len n Hso Hj Hjunk ltac:(lia)).
    assert (Hjunk' : (List.length (dbl (firstn (so + j + 1) s)) + List.length (skipn (j + 2) junk) =
                      List.length s + pcts s + 1)%nat).
    { rewrite dbl_length, firstn_length_le, (pcts_firstn_step s so j Hj), skipn_length by lia.
      rewrite dbl_length, firstn_length_le in Hjunk by lia.
      assert (pcts s = (pcts (firstn so s) + pcts (skipn so s))%nat) by (rewrite <- pcts_app, firstn_skipn; reflexivity).
      lia. }
    unfold next_val.
    destruct (first_pct (skipn (so + j + 1) s)) as [j'|] eqn:Hj'.
    + replace (Z.of_nat (so + j + 1) + Z.of_nat j') with (Z.of_nat (so + j + 1 + j')) by lia.
      apply (IH (so + j + 1)%nat j' (skipn (j + 2) junk) (Some (Z.of_nat (j + 1))) n); try assumption; lia.
    + exists (so + j + 1)%nat, (skipn (j + 2) junk), (Z.of_nat (j + 1)).
      repeat split; try assumption; [lia|].
      destruct n as [|n]; [lia|].
      unfold copy_loop, cl, cw. cbn [fbody code_copy_while_doubling_percent_signs app].
      rewrite exec_loop. srun prog_percent. reflexivity.
Qed.

(* the last step: the rest of the text, which has no '%', and the terminator *)
Lemma finish_block s so junk :
  (so <= List.length s)%nat -> first_pct (skipn so s) = None ->
  (List.length (dbl (firstn so s)) + List.length junk = List.length s + pcts s + 1)%nat ->
  dbl (firstn so s) ++ (skipn so s ++ [0]) ++ skipn (List.length (skipn so s ++ [0])) junk = dbl s ++ [0].
Proof.
  intros Hso Hnone Hjunk.
  assert (Hz := first_pct_none _ Hnone).
  assert (Hsplit : pcts s = (pcts (firstn so s) + pcts (skipn so s))%nat) by (rewrite <- pcts_app, firstn_skipn; reflexivity).
  rewrite dbl_length, firstn_length_le in Hjunk by lia.
  rewrite (@skipn_all2 Z (List.length (skipn so s ++ [0])) junk) by (rewrite app_length, skipn_length; cbn [List.length]; lia).
  rewrite app_nil_r, app_assoc. f_equal.
  rewrite <- (firstn_skipn so s) at 3. rewrite dbl_app, (dbl_nopct _ Hz). reflexivity.
Qed.

Lemma call_copy_while_doubling s junk tl g st tr n :
  text_ok s -> Z.of_nat (List.length s) < 4611686018427387904 ->
  (List.length junk = List.length s + pcts s + 1)%nat -> (pcts s + 4 < n)%nat ->
  mk_call prog_percent (cexec prog_percent n) "copy_while_doubling_percent_signs" [VPtr 1 0; VPtr 0 0] (cw s junk tl g st tr) =
  Fine (VPtr 1 0, cw s (dbl s ++ [0]) tl g st tr).
Proof.
  intros Hs Hlen Hjunk Hn. destruct n as [|n]; [lia|].
  unfold mk_call at 1. unfold find_fun. cbn [alookup prog_percent String.eqb Ascii.eqb Bool.eqb].
  cbn [bind_params fparams fbody code_copy_while_doubling_percent_signs].
  srun prog_percent.
  pose proof (call_next_percent_sign (cw s junk tl g st tr) s 0 n eq_refl Hs ltac:(lia) ltac:(lia)) as Hc0.
  cbn [Z.of_nat skipn] in Hc0. unfold cw in *. rewrite Hc0. clear Hc0. ctidy. srun prog_percent.
  destruct (first_pct s) as [j|] eqn:Hj.
  - destruct (copy_loop_spec s tl g st tr Hs Hlen (List.length s) 0 j junk None (S n)
                ltac:(lia) ltac:(lia) Hj ltac:(cbn [firstn dbl List.length]; lia) ltac:(cbn [skipn]; lia))
      as (so' & junk' & len' & Hso' & Hnone & Hjunk' & HL).
    unfold copy_loop, cl, cw in HL. cbn [fbody code_copy_while_doubling_percent_signs firstn dbl List.length app Nat.add Z.of_nat] in HL.
    replace (0 + Z.of_nat j) with (Z.of_nat j) by lia.
    rewrite HL. clear HL. srun prog_percent.
    erewrite cstring_at by (first [reflexivity | assumption]). ctidy.
    erewrite store_bytes_at by (first [reflexivity | rewrite !app_length, skipn_length; cbn [List.length]; rewrite dbl_length, firstn_length_le in * by lia;
                                          assert (pcts s = (pcts (firstn so' s) + pcts (skipn so' s))%nat) by (rewrite <- pcts_app, firstn_skipn; reflexivity);
                                          rewrite (first_pct_none _ Hnone) in *; lia]).
    cbn [heap list_set]. rewrite splice_app, (finish_block s so' junk' Hso' Hnone Hjunk'). srun prog_percent. reflexivity.
  - rewrite exec_loop. srun prog_percent.
    change (VPtr 0 0) with (VPtr 0 (Z.of_nat 0)). change (VPtr 1 0) with (VPtr 1 (Z.of_nat 0)).
    erewrite cstring_at by (first [reflexivity | assumption | lia]). ctidy. cbn [skipn].
    erewrite store_bytes_at by (first [reflexivity | rewrite app_length; cbn [List.length]; lia]).
    cbn [heap list_set].
    change junk with ([] ++ junk) at 1. change O with (@List.length Z []) at 1. rewrite splice_app. cbn [app].
    pose proof (finish_block s 0 junk ltac:(lia) Hj ltac:(cbn [firstn dbl List.length]; lia)) as Hf.
    cbn [firstn dbl skipn app] in Hf. rewrite Hf. srun prog_percent. reflexivity.
Qed.

Lemma pcts_le s : (pcts s <= List.length s)%nat.
Proof. induction s as [|c r IH]; cbn [pcts List.length]; [lia|destruct (c =? 37); lia]. Qed.

(* double_all_percent_signs_in(original): a new block of exactly strlen + count + 1 bytes that holds the text
   with every '%' doubled, and its terminator; the original is untouched; nothing outside the two blocks is
   read or written (the run is Fine, never Stuck) *)
Theorem double_all_percent_signs_in_refines :
  forall s g st tr n,
    text_ok s -> Z.of_nat (List.length s) < 4611686018427387904 -> (2 * pcts s + 12 < n)%nat ->
    run_fun prog_percent n "double_all_percent_signs_in" [VPtr 0 0] (mkw [OBytes (s ++ [0])] g st tr) =
    Fine (VPtr 1 0, mkw [OBytes (s ++ [0]); OBytes (dbl s ++ [0])] g st tr).
Proof.
  intros s g st tr n Hs Hlen Hn.
  destruct n as [|n]; [lia|].
  pose proof (pcts_le s) as Hpl.
  unfold run_fun, find_fun. cbn [alookup prog_percent String.eqb Ascii.eqb Bool.eqb].
  unfold mk_call at 1. unfold find_fun. cbn [alookup prog_percent String.eqb Ascii.eqb Bool.eqb].
  cbn [bind_params fparams fbody code_double_all_percent_signs_in].
  srun prog_percent.
  rewrite (call_count_percent_signs (mkw [OBytes (s ++ [0])] g st tr) s n eq_refl Hs Hlen ltac:(lia)). ctidy. srun prog_percent.
  change (VPtr 0 0) with (VPtr 0 (Z.of_nat 0)) at 1.
  erewrite cstring_at by (first [reflexivity | assumption | lia]). ctidy. cbn [skipn]. srun prog_percent.
  rewrite (wrap_U64_small (Z.of_nat (List.length s) + Z.of_nat (pcts s))) by lia.
  rewrite (wrap_U64_small (Z.of_nat (List.length s) + Z.of_nat (pcts s) + 1)) by lia.
  replace (Z.of_nat (List.length s) + Z.of_nat (pcts s) + 1) with (Z.of_nat (List.length s + pcts s + 1)) by lia.
  rewrite (proj2 (Z.leb_le 0 _) (Nat2Z.is_nonneg _)), Nat2Z.id. srun prog_percent.
  pose proof (call_copy_while_doubling s (repeat 255 (List.length s + pcts s + 1)) [] g st tr n Hs Hlen
                ltac:(apply repeat_length) ltac:(lia)) as Hcopy.
  unfold cw in Hcopy. rewrite Hcopy. clear Hcopy. srun prog_percent. reflexivity.
Qed.

Lemma text_ok_dbl s : text_ok s -> text_ok (dbl s).
Proof.
  unfold text_ok. induction s as [|c r IH]; intro H; [constructor|]. inversion H as [|? ? Hc Hr]; subst. cbn [dbl].
  destruct (c =? 37); repeat constructor; try lia; apply IH; exact Hr.
Qed.

(* the block the function returns holds the C string dbl s *)
Corollary double_all_percent_signs_in_string :
  forall s g st tr n,
    text_ok s -> Z.of_nat (List.length s) < 4611686018427387904 -> (2 * pcts s + 12 < n)%nat ->
    exists v w',
      run_fun prog_percent n "double_all_percent_signs_in" [VPtr 0 0] (mkw [OBytes (s ++ [0])] g st tr) = Fine (v, w') /\
      cstring w' v = Fine (dbl s) /\ cstring w' (VPtr 0 0) = Fine s.
Proof.
  intros s g st tr n Hs Hlen Hn. eexists. eexists. split; [apply double_all_percent_signs_in_refines; assumption|].
  assert (Hd : text_ok (dbl s)) by (apply text_ok_dbl; exact Hs).
  split.
  - change (VPtr 1 0) with (VPtr 1 (Z.of_nat 0)). erewrite cstring_at by (first [reflexivity | assumption | lia]). reflexivity.
  - change (VPtr 0 0) with (VPtr 0 (Z.of_nat 0)). erewrite cstring_at by (first [reflexivity | assumption | lia]). reflexivity.
Qed.

(* dbl is Printf.double_percent (the model C10's theorems are about), bytes as Z instead of N *)
From CgreenVerif Require Import Printf.
Lemma dbl_is_double_percent (l : list N) : dbl (map Z.of_N l) = map Z.of_N (Printf.double_percent l).
Proof.
  induction l as [|c l IH]; [reflexivity|]. cbn [map dbl Printf.double_percent].
  destruct (N.eqb_spec c 37) as [->|Hc].
  - cbn [Z.of_N Z.eqb Pos.eqb map]. rewrite IH. reflexivity.
  - destruct (Z.eqb_spec (Z.of_N c) 37) as [He|_]; [exfalso; apply Hc; lia|]. cbn [map]. rewrite IH. reflexivity.
Qed.
