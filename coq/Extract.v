(* Extract.v — extraction of the executable models (ExtrOcamlBasic only; Z, N, positive and
   nat stay Coq's own inductive datatypes; no Extract Constant). *)
From Coq Require Extraction ExtrOcamlBasic.
From CgreenVerif Require Import Defs Runner Lemmas_Props Mocks.
From CgreenVerif.Gen Require Import Facts.

Extraction "../ocaml/model.ml"
  Runner.run_suite Runner.run_single Runner.exit_ok Runner.own Runner.tests_of Runner.test_steps
  Runner.full_steps Runner.exec Runner.fw_init Runner.trace
  Lemmas_Props.ok_treeb
  BinInt.Z.add BinInt.Z.mul BinInt.Z.div BinInt.Z.modulo BinInt.Z.opp BinInt.Z.eqb BinInt.Z.ltb
  Mocks.mrun Mocks.ms_init Facts.unlimited_ttl
  Facts.verdict_suite Facts.verdict_single Facts.rk_text Facts.rk_cute Facts.rk_xml
  Facts.rk_libxml Facts.rk_cdash Facts.msg_codes.
