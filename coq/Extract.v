(* Extract.v — extraction of the executable models (ExtrOcamlBasic only; Z, N, positive and
   nat stay Coq's own inductive datatypes; no Extract Constant). *)
From Coq Require Extraction ExtrOcamlBasic.
From CgreenVerif Require Import Defs Runner Lemmas_Props Mocks CStr Lemmas_Constraints Printf Vector Values Params Doubles Timeout RunnerTool Xml Faults CLite CodeCheck.
From CgreenVerif.Gen Require Import Facts.

Extraction "../ocaml/model.ml"
  Runner.run_suite Runner.run_two Runner.run_single Runner.exit_ok Runner.own Runner.tests_of Runner.test_steps
  Runner.full_steps Runner.exec Runner.fw_init Runner.trace
  Lemmas_Props.ok_treeb
  BinInt.Z.add BinInt.Z.mul BinInt.Z.div BinInt.Z.modulo BinInt.Z.opp BinInt.Z.eqb BinInt.Z.ltb
  Mocks.mrun Mocks.ms_init Facts.unlimited_ttl
  Facts.compare_want_value_src Facts.compare_do_not_want_value_src Facts.compare_want_greater_value_src
  Facts.compare_want_lesser_value_src Facts.is_null_src Facts.is_non_null_src Facts.is_true_src Facts.is_false_src
  Facts.compare_want_string_src Facts.compare_do_not_want_string_src Facts.compare_want_substring_src
  Facts.compare_do_not_want_substring_src Facts.compare_want_beginning_of_string_src
  Facts.compare_do_not_want_beginning_of_string_src Facts.compare_want_end_of_string_src
  Facts.compare_do_not_want_end_of_string_src Facts.assert_equal_src Facts.assert_not_equal_src
  Facts.assert_string_equal_src Facts.assert_string_not_equal_src Facts.legacy_with_message
  Lemmas_Constraints.want_contents_m Lemmas_Constraints.do_not_want_contents_m
  Printf.shown Printf.printf_m Printf.double_percent Printf.dec
  Facts.fmt_constraint_as_string_format Facts.fmt_expected_value_string_format Facts.fmt_actual_value_string_format
  Facts.constraint_formats Facts.fmt_assert_equal_ Facts.fmt_assert_not_equal_ Facts.fmt_assert_string_equal_
  Facts.fmt_assert_string_not_equal_
  Vector.vrun Vector.vempty Vector.srun Vector.sempty Vector.crun Vector.cempty Vector.lrun Vector.stack_run
  Facts.vector_src Facts.suite_test_src Facts.suite_suite_src Facts.crumb_src
  Values.return_m Values.double_m Values.by_value_m Values.by_value_calls_m Values.set_contents_m Values.capture_m Values.decode Facts.values_src
  Params.names Params.markers Params.count_params Params.bind_clause
  Doubles.eq_bits Doubles.lesser_bits Doubles.greater_bits Doubles.eq_largest_bits Doubles.ord_largest_bits Doubles.accuracy_exponent
  Facts.figures_default Facts.do_not_want_double_negates
  Timeout.setting_accepted Timeout.run_suite_env Timeout.env_exit_ok Facts.timeout_exit_status Facts.die_exit_status
  RunnerTool.parse_spec RunnerTool.mangle RunnerTool.glob RunnerTool.scan_args RunnerTool.main_m Facts.single_run_by_item_name
  Xml.message_att Xml.unescape Xml.suite_doc
  Faults.under_fault Faults.current_handling Faults.not_success
  CodeCheck.code_read_results CodeCheck.model_read_results CodeCheck.code_finish_test CodeCheck.model_finish_test
  CodeCheck.code_finish_suite CodeCheck.model_finish_suite
  CodeCheck.code_double_percent CodeCheck.model_double_percent CodeCheck.code_xml_escaped CodeCheck.model_xml_escaped
  CodeCheck.code_names CodeCheck.model_names CodeCheck.code_matches CodeCheck.model_matches
  CodeCheck.code_find CodeCheck.model_find CodeCheck.code_remove_first CodeCheck.model_remove_first
  CodeCheck.code_have_always CodeCheck.model_have_always CodeCheck.code_have_never CodeCheck.model_have_never
  CodeCheck.code_remove_never CodeCheck.model_remove_never CodeCheck.code_after_use CodeCheck.model_after_use
  CodeCheck.code_succ CodeCheck.model_succ
  CodeCheck.code_declare CodeCheck.model_declare CodeCheck.code_tally CodeCheck.model_tally
  CodeCheck.code_walk CodeCheck.model_walk CodeCheck.code_walk_named CodeCheck.model_walk_named
  Facts.verdict_suite Facts.verdict_single Facts.rk_text Facts.rk_cute Facts.rk_xml
  Facts.rk_libxml Facts.rk_cdash Facts.msg_codes.
