(* Lemmas_Params.v — the parameter-name tokenizer (Params.v) recovers exactly the identifiers of
   every spelling of a mock's argument list, and a clause is bound to the actual at the
   position of its name. *)
From Coq Require Import List NArith ZArith Bool Arith Lia.
From CgreenVerif Require Import Params.
Import ListNotations.
Local Open Scope N_scope.

(* ---------------------------------------------------------------- spellings *)
(* an identifier character: not a separator, not a parenthesis *)
Definition idchar (c : N) : Prop := is_sep c = false /\ c <> lparen /\ c <> rparen.
Definition wf_ident (id : list N) : Prop := id <> [] /\ Forall idchar id.
Definition ws (l : list N) : Prop := Forall (fun c => is_space c = true) l.

(* one argument: an identifier, possibly wrapped as box_double<w1>(<w2>id<w3>) with arbitrary
   blanks w1 w2 w3 (the preprocessor produces none or one space; any run is covered) *)
Record arg := mkarg { a_id : list N; a_wrapped : bool; a_w1 : list N; a_w2 : list N; a_w3 : list N }.
(* the separator between two arguments: blanks, a comma, blanks (spaces, tabs, line breaks) *)
Record sepr := mksep { s_before : list N; s_after : list N }.

Definition arg_text (a : arg) : list N :=
  if a_wrapped a then BOX ++ a_w1 a ++ lparen :: a_w2 a ++ a_id a ++ a_w3 a ++ [rparen] else a_id a.
Definition canon (a : arg) : list N :=
  if a_wrapped a then BOX ++ lparen :: a_id a ++ [rparen] else a_id a.
Definition sep_text (s : sepr) : list N := s_before s ++ 44 :: s_after s.

Fixpoint render (first : arg) (rest : list (sepr * arg)) : list N :=
  arg_text first ++ match rest with [] => [] | (s, a) :: r => sep_text s ++ render a r end.
Fixpoint render_canon (first : arg) (rest : list (sepr * arg)) : list N :=
  canon first ++ match rest with [] => [] | (s, a) :: r => sep_text s ++ render_canon a r end.

Definition wf_arg (a : arg) : Prop := wf_ident (a_id a) /\ ws (a_w1 a) /\ ws (a_w2 a) /\ ws (a_w3 a).
Definition wf_sep (s : sepr) : Prop := ws (s_before s) /\ ws (s_after s).
Definition wf_rest (rest : list (sepr * arg)) : Prop := Forall (fun sa => wf_sep (fst sa) /\ wf_arg (snd sa)) rest.

(* ---------------------------------------------------------------- character facts *)
Lemma space_is_sep c : is_space c = true -> is_sep c = true.
Proof. intros H. unfold is_sep. rewrite H. reflexivity. Qed.
Lemma idchar_nonspace c : idchar c -> is_space c = false.
Proof. intros [H _]. unfold is_sep in H. apply orb_false_iff in H. tauto. Qed.
Lemma idchar_notcomma c : idchar c -> (c =? 44) = false.
Proof. intros [H _]. unfold is_sep in H. apply orb_false_iff in H. tauto. Qed.
Lemma space_not_paren c : is_space c = true -> (c =? lparen) = false /\ (c =? rparen) = false /\ (c =? 44) = false.
Proof.
  intros H. repeat split; apply N.eqb_neq; intros ->; vm_compute in H; discriminate.
Qed.
Lemma BOX_chars : Forall (fun c => is_sep c = false /\ c <> lparen /\ c <> rparen) BOX.
Proof. unfold BOX. repeat constructor; try (intros H; discriminate). Qed.
Lemma lparen_nonsep : is_sep lparen = false. Proof. reflexivity. Qed.
Lemma rparen_nonsep : is_sep rparen = false. Proof. reflexivity. Qed.

(* ---------------------------------------------------------------- compact *)
Definition last_opt (w : list N) (p : option N) : option N := match rev w with c :: _ => Some c | [] => p end.

Lemma last_opt_snoc w c p : last_opt (w ++ [c]) p = Some c.
Proof. unfold last_opt. rewrite rev_app_distr. reflexivity. Qed.
Lemma last_opt_cons c w p : last_opt (c :: w) p = last_opt w (Some c).
Proof.
  unfold last_opt. cbn [rev]. destruct (rev w) as [|x r] eqn:E; reflexivity.
Qed.

Lemma compact_word w r p : Forall (fun c => is_space c = false) w ->
  compact (w ++ r) p = w ++ compact r (last_opt w p).
Proof.
  revert p. induction w as [|c w IH]; intros p H; [reflexivity|].
  inversion H as [|? ? Hc Hw]; subst. cbn [app compact]. rewrite Hc. cbn [andb].
  rewrite IH by exact Hw. rewrite last_opt_cons. reflexivity.
Qed.

Lemma drop_spaces_ws w r : ws w -> drop_spaces (w ++ r) = drop_spaces r.
Proof. induction w as [|c w IH]; intros H; [reflexivity|]. inversion H; subst. cbn [app drop_spaces]. rewrite H2. apply IH. assumption. Qed.

Lemma next_is_paren_ws w r : ws w -> next_is_paren (w ++ r) = next_is_paren r.
Proof. intros H. unfold next_is_paren. rewrite drop_spaces_ws by exact H. reflexivity. Qed.

Lemma compact_ws_skip w r p : ws w -> next_is_paren r || prev_is_lparen p = true -> compact (w ++ r) p = compact r p.
Proof.
  induction w as [|c w IH]; intros H Hc; [reflexivity|]. inversion H; subst.
  cbn [app compact]. rewrite H2, next_is_paren_ws by assumption. rewrite Hc. cbn [andb]. apply IH; assumption.
Qed.

Lemma last_opt_ws_not_lparen w p : ws w -> prev_is_lparen p = false -> prev_is_lparen (last_opt w p) = false.
Proof.
  intros H Hp. unfold last_opt. destruct (rev w) as [|c r] eqn:E; [exact Hp|].
  assert (In c w) by (apply in_rev; rewrite E; left; reflexivity).
  unfold ws in H. rewrite Forall_forall in H. cbn [prev_is_lparen]. apply (space_not_paren c (H c H0)).
Qed.

Lemma compact_ws_keep w r p : ws w -> next_is_paren r = false -> prev_is_lparen p = false ->
  compact (w ++ r) p = w ++ compact r (last_opt w p).
Proof.
  revert p. induction w as [|c w IH]; intros p H Hn Hp; [reflexivity|]. inversion H; subst.
  cbn [app compact]. rewrite H2, next_is_paren_ws, Hn, Hp by assumption. cbn [andb orb].
  rewrite IH; try assumption.
  - rewrite last_opt_cons. reflexivity.
  - cbn [prev_is_lparen]. apply (space_not_paren c H2).
Qed.

Lemma next_is_paren_cons c r : is_space c = false -> next_is_paren (c :: r) = (c =? lparen) || (c =? rparen).
Proof. intros H. unfold next_is_paren. cbn [drop_spaces]. rewrite H. reflexivity. Qed.

Lemma idchars_nonspace id : Forall idchar id -> Forall (fun c => is_space c = false) id.
Proof. apply Forall_impl. exact idchar_nonspace. Qed.
Lemma BOX_nonspace : Forall (fun c => is_space c = false) BOX.
Proof. unfold BOX. repeat constructor. Qed.

(* the first character of an argument's text: not blank, not a parenthesis *)
Lemma arg_text_head a r : wf_arg a -> exists c t, arg_text a ++ r = c :: t /\ is_space c = false /\ (c =? lparen) || (c =? rparen) = false.
Proof.
  intros ((Hne & Hid) & _). unfold arg_text. destruct (a_wrapped a).
  - eexists _, _. split; [reflexivity|]. split; reflexivity.
  - destruct (a_id a) as [|c t]; [contradiction|]. inversion Hid as [|? ? Hc _]; subst.
    exists c, (t ++ r). split; [reflexivity|]. split; [apply idchar_nonspace; exact Hc|].
    destruct Hc as (_ & H1 & H2). apply N.eqb_neq in H1, H2. rewrite H1, H2. reflexivity.
Qed.

Lemma last_opt_id_not_lparen id p : wf_ident id -> prev_is_lparen (last_opt id p) = false.
Proof.
  intros (Hne & Hid). unfold last_opt. destruct (rev id) as [|c r] eqn:E.
  - destruct id; [contradiction|]. cbn [rev] in E. destruct (rev id); discriminate.
  - assert (In c id) by (apply in_rev; rewrite E; left; reflexivity).
    rewrite Forall_forall in Hid. destruct (Hid c H) as (_ & H1 & _). cbn [prev_is_lparen]. apply N.eqb_neq. exact H1.
Qed.

(* compacting one argument: the blanks around the parentheses go, nothing else changes *)
Lemma compact_arg a r p : wf_arg a -> prev_is_lparen p = false ->
  exists q, compact (arg_text a ++ r) p = canon a ++ compact r q /\ prev_is_lparen q = false.
Proof.
  intros (Hid & H1 & H2 & H3) Hp. unfold arg_text, canon. destruct (a_wrapped a).
  - rewrite <- app_assoc. rewrite compact_word by exact BOX_nonspace.
    rewrite <- app_assoc. rewrite compact_ws_skip; [|exact H1|reflexivity].
    cbn [app compact]. change (is_space lparen) with false. cbn [andb].
    rewrite <- app_assoc. rewrite compact_ws_skip; [|exact H2|apply orb_true_r].
    rewrite <- app_assoc. rewrite compact_word by (apply idchars_nonspace; apply Hid).
    rewrite <- app_assoc. rewrite compact_ws_skip; [|exact H3|reflexivity].
    cbn [app compact]. change (is_space rparen) with false. cbn [andb].
    exists (Some rparen). split; [|reflexivity].
    rewrite <- !app_assoc. cbn [app]. rewrite <- !app_assoc. cbn [app]. reflexivity.
  - rewrite compact_word by (apply idchars_nonspace; apply Hid).
    eexists. split; [reflexivity|]. apply last_opt_id_not_lparen. exact Hid.
Qed.

Lemma render_head a rest : wf_arg a -> next_is_paren (render a rest) = false.
Proof.
  intros Ha. destruct rest as [|[s' a'] r']; cbn [render].
  - destruct (arg_text_head a [] Ha) as (c & t & Et & Hc1 & Hc2). rewrite Et, next_is_paren_cons by exact Hc1. exact Hc2.
  - destruct (arg_text_head a (sep_text s' ++ render a' r') Ha) as (c & t & Et & Hc1 & Hc2). rewrite Et, next_is_paren_cons by exact Hc1. exact Hc2.
Qed.

Lemma compact_render : forall rest first p, wf_arg first -> wf_rest rest -> prev_is_lparen p = false ->
  compact (render first rest) p = render_canon first rest.
Proof.
  induction rest as [|[s a] rest IH]; intros first p Hf Hr Hp; cbn [render render_canon].
  - destruct (compact_arg first [] p Hf Hp) as (q & E & _). rewrite E. reflexivity.
  - inversion Hr as [|? ? [[Hs1 Hs2] Ha] Hr']; subst. cbn [fst snd] in *.
    destruct (compact_arg first (sep_text s ++ render a rest) p Hf Hp) as (q & -> & Hq). f_equal.
    unfold sep_text. rewrite <- app_assoc.
    rewrite compact_ws_keep; [|exact Hs1|reflexivity|exact Hq].
    cbn [app compact]. change (is_space 44) with false. cbn [andb].
    rewrite <- app_assoc. cbn [app]. f_equal. f_equal.
    (* after the comma *)
    rewrite compact_ws_keep; [|exact Hs2|apply render_head; exact Ha|reflexivity].
    f_equal. apply IH; [exact Ha|exact Hr'|]. apply last_opt_ws_not_lparen; [exact Hs2|reflexivity].
Qed.

(* ---------------------------------------------------------------- toks *)
Lemma toks_word w r cur : Forall (fun c => is_sep c = false) w -> toks (w ++ r) cur = toks r (rev w ++ cur).
Proof.
  revert cur. induction w as [|c w IH]; intros cur H; [reflexivity|]. inversion H; subst.
  cbn [app toks]. rewrite H2. rewrite IH by assumption. cbn [rev]. rewrite <- app_assoc. reflexivity.
Qed.

Lemma toks_seps s r : Forall (fun c => is_sep c = true) s -> toks (s ++ r) [] = toks r [].
Proof. induction s as [|c s IH]; intros H; [reflexivity|]. inversion H; subst. cbn [app toks]. rewrite H2. apply IH. assumption. Qed.

Lemma toks_close c s r cur : cur <> [] -> is_sep c = true -> Forall (fun c => is_sep c = true) s ->
  toks (c :: s ++ r) cur = rev cur :: toks r [].
Proof. intros Hc H1 H2. cbn [toks]. rewrite H1. destruct cur; [contradiction|]. rewrite toks_seps by exact H2. reflexivity. Qed.

Lemma canon_nonsep a : wf_arg a -> Forall (fun c => is_sep c = false) (canon a) /\ canon a <> [].
Proof.
  intros ((Hne & Hid) & _). unfold canon. destruct (a_wrapped a).
  - split; [|discriminate]. apply Forall_app. split.
    + eapply Forall_impl; [|exact BOX_chars]. intros c H; apply H.
    + constructor; [reflexivity|]. apply Forall_app. split; [|repeat constructor].
      eapply Forall_impl; [|exact Hid]. intros c H; apply H.
  - split; [|exact Hne]. eapply Forall_impl; [|exact Hid]. intros c H; apply H.
Qed.

Lemma sep_text_seps s : wf_sep s -> exists c t, sep_text s = c :: t /\ is_sep c = true /\ Forall (fun c => is_sep c = true) t.
Proof.
  intros (H1 & H2). unfold sep_text.
  assert (A : Forall (fun c => is_sep c = true) (s_before s ++ 44 :: s_after s)).
  { apply Forall_app. split; [eapply Forall_impl; [|exact H1]; exact space_is_sep|].
    constructor; [reflexivity|]. eapply Forall_impl; [|exact H2]. exact space_is_sep. }
  destruct (s_before s ++ 44 :: s_after s) as [|c t] eqn:E; [destruct (s_before s); discriminate|].
  inversion A; subst. exists c, t. auto.
Qed.

Lemma toks_render_canon : forall rest first, wf_arg first -> wf_rest rest ->
  toks (render_canon first rest) [] = canon first :: map (fun sa => canon (snd sa)) rest.
Proof.
  induction rest as [|[s a] rest IH]; intros first Hf Hr; cbn [render_canon map snd].
  - destruct (canon_nonsep first Hf) as (Hn & Hne). rewrite app_nil_r.
    rewrite <- (app_nil_r (canon first)) at 1. rewrite toks_word by exact Hn. cbn [toks]. rewrite app_nil_r.
    destruct (rev (canon first)) eqn:E; [|rewrite <- E, rev_involutive; reflexivity].
    apply (f_equal (@rev N)) in E. rewrite rev_involutive in E. contradiction.
  - inversion Hr as [|? ? [Hs Ha] Hr']; subst. cbn [fst snd] in *.
    destruct (canon_nonsep first Hf) as (Hn & Hne). rewrite toks_word by exact Hn. rewrite app_nil_r.
    destruct (sep_text_seps s Hs) as (c & t & -> & Hc & Ht). cbn [app].
    rewrite toks_close; [|intros E; apply (f_equal (@rev N)) in E; rewrite rev_involutive in E; contradiction|exact Hc|exact Ht].
    rewrite rev_involutive. f_equal. apply IH; assumption.
Qed.

Lemma render_canon_no_trailing_sep : forall rest first, wf_arg first -> wf_rest rest ->
  ends_with_sep (render_canon first rest) = false.
Proof.
  assert (L : forall a r, wf_arg a -> r = [] -> ends_with_sep (canon a ++ r) = false).
  { intros a r Ha ->. rewrite app_nil_r. destruct (canon_nonsep a Ha) as (Hn & Hne). unfold ends_with_sep.
    destruct (rev (canon a)) as [|c t] eqn:E; [reflexivity|].
    assert (In c (canon a)) by (apply in_rev; rewrite E; left; reflexivity). rewrite Forall_forall in Hn. apply Hn. assumption. }
  induction rest as [|[s a] rest IH]; intros first Hf Hr; cbn [render_canon].
  - apply L; [exact Hf|reflexivity].
  - inversion Hr as [|? ? [Hs Ha] Hr']; subst. cbn [fst snd] in *.
    specialize (IH a Ha Hr'). unfold ends_with_sep in *. rewrite !rev_app_distr.
    destruct (rev (render_canon a rest)) as [|c t] eqn:E; [|exact IH].
    (* render_canon a rest is never empty *)
    exfalso. apply (f_equal (@rev N)) in E. rewrite rev_involutive in E. cbn [rev] in E.
    destruct (canon_nonsep a Ha) as (_ & Hne). destruct rest as [|[? ?] ?]; cbn [render_canon] in E.
    + rewrite app_nil_r in E. contradiction.
    + destruct (canon a); [contradiction|discriminate].
Qed.

(* ---------------------------------------------------------------- strip / markers *)
Lemma list_eqb_refl l : list_eqb l l = true.
Proof. induction l as [|c l IH]; [reflexivity|]. cbn [list_eqb]. rewrite N.eqb_refl. exact IH. Qed.
Lemma list_eqb_eq a b : list_eqb a b = true -> a = b.
Proof.
  revert b. induction a as [|x a IH]; intros [|y b] H; try discriminate; [reflexivity|].
  cbn [list_eqb] in H. apply andb_prop in H. destruct H as [H1 H2]. apply N.eqb_eq in H1. subst. f_equal. apply IH. exact H2.
Qed.

Lemma nth_not_lparen id n : Forall idchar id -> (nth n id 0 =? lparen) = false.
Proof.
  intros H. apply N.eqb_neq. destruct (Nat.lt_ge_cases n (length id)) as [Hl|Hl].
  - rewrite Forall_forall in H. apply (H (nth n id 0)). apply nth_In. exact Hl.
  - rewrite nth_overflow by exact Hl. discriminate.
Qed.

Lemma strip_ident id f : Forall idchar id -> strip_fn id f = id.
Proof. intros H. unfold strip_fn. rewrite nth_not_lparen by exact H. rewrite andb_false_r. reflexivity. Qed.

Lemma strip_box id : strip_fn (BOX ++ lparen :: id ++ [rparen]) BOX = id.
Proof.
  unfold strip_fn.
  assert (B : begins_with (BOX ++ lparen :: id ++ [rparen]) BOX = true).
  { unfold begins_with. rewrite firstn_app, Nat.sub_diag, firstn_all. cbn [firstn]. rewrite app_nil_r. apply list_eqb_refl. }
  rewrite B. rewrite app_nth2 by lia. rewrite Nat.sub_diag. cbn [nth]. rewrite N.eqb_refl.
  replace (BOX ++ lparen :: id ++ [rparen]) with ((BOX ++ lparen :: id) ++ [rparen]) at 1 by (rewrite <- app_assoc; reflexivity).
  rewrite last_last, N.eqb_refl. cbn [andb].
  replace (S (length BOX)) with (length (BOX ++ [lparen])) by (rewrite app_length; cbn; lia).
  replace (BOX ++ lparen :: id ++ [rparen]) with ((BOX ++ [lparen]) ++ id ++ [rparen]) by (rewrite <- app_assoc; reflexivity).
  rewrite skipn_app, skipn_all, Nat.sub_diag. cbn [skipn app]. apply removelast_last.
Qed.

Lemma name_of_canon a : wf_arg a -> strip_fn (strip_fn (canon a) BOX) DD = a_id a.
Proof.
  intros ((_ & Hid) & _). unfold canon. destruct (a_wrapped a).
  - rewrite strip_box. apply strip_ident. exact Hid.
  - rewrite (strip_ident (a_id a) BOX Hid). apply strip_ident. exact Hid.
Qed.

Lemma In_firstn_in {A} n (l : list A) x : In x (firstn n l) -> In x l.
Proof. revert l. induction n as [|n IH]; intros [|y l] H; cbn [firstn] in H; try contradiction. destruct H as [->|H]; [left; reflexivity|right; apply IH; exact H]. Qed.

Lemma marker_of_canon a : wf_arg a -> begins_with (canon a) (BOX ++ [lparen]) = a_wrapped a.
Proof.
  intros ((_ & Hid) & _). unfold canon. destruct (a_wrapped a).
  - unfold begins_with.
    replace (BOX ++ lparen :: a_id a ++ [rparen]) with ((BOX ++ [lparen]) ++ a_id a ++ [rparen]) by (rewrite <- app_assoc; reflexivity).
    rewrite firstn_app, Nat.sub_diag, firstn_all. cbn [firstn]. rewrite app_nil_r. apply list_eqb_refl.
  - unfold begins_with. destruct (list_eqb (firstn (length (BOX ++ [lparen])) (a_id a)) (BOX ++ [lparen])) eqn:E; [|reflexivity].
    exfalso. apply list_eqb_eq in E.
    assert (In lparen (a_id a)).
    { apply (In_firstn_in (length (BOX ++ [lparen]))). rewrite E. apply in_or_app. right. left. reflexivity. }
    rewrite Forall_forall in Hid. destruct (Hid lparen H) as (_ & Hn & _). apply Hn. reflexivity.
Qed.

(* ---------------------------------------------------------------- commas *)
Definition commas (s : list N) : nat := length (filter (fun c => c =? 44) s).
Lemma commas_app a b : commas (a ++ b) = (commas a + commas b)%nat.
Proof. unfold commas. rewrite filter_app, app_length. reflexivity. Qed.
Lemma commas_none l : Forall (fun c => (c =? 44) = false) l -> commas l = O.
Proof. unfold commas. induction l as [|c l IH]; intros H; [reflexivity|]. inversion H; subst. cbn [filter]. rewrite H2. apply IH. assumption. Qed.
Lemma ws_no_comma w : ws w -> commas w = O.
Proof. intros H. apply commas_none. eapply Forall_impl; [|exact H]. intros c Hc. apply (space_not_paren c Hc). Qed.
Lemma id_no_comma id : Forall idchar id -> commas id = O.
Proof. intros H. apply commas_none. eapply Forall_impl; [|exact H]. exact idchar_notcomma. Qed.

Lemma commas_arg a : wf_arg a -> commas (arg_text a) = O.
Proof.
  intros ((_ & Hid) & H1 & H2 & H3). unfold arg_text. destruct (a_wrapped a); [|apply id_no_comma; exact Hid].
  rewrite !commas_app. change (lparen :: a_w2 a ++ a_id a ++ a_w3 a ++ [rparen]) with ([lparen] ++ a_w2 a ++ a_id a ++ a_w3 a ++ [rparen]).
  rewrite !commas_app, (ws_no_comma _ H1), (ws_no_comma _ H2), (ws_no_comma _ H3), (id_no_comma _ Hid). reflexivity.
Qed.

Lemma commas_sep s : wf_sep s -> commas (sep_text s) = 1%nat.
Proof.
  intros (H1 & H2). unfold sep_text. rewrite commas_app, (ws_no_comma _ H1).
  change (44 :: s_after s) with ([44] ++ s_after s). rewrite commas_app, (ws_no_comma _ H2). reflexivity.
Qed.

Lemma commas_render : forall rest first, wf_arg first -> wf_rest rest -> commas (render first rest) = length rest.
Proof.
  induction rest as [|[s a] rest IH]; intros first Hf Hr; cbn [render length].
  - rewrite app_nil_r. apply commas_arg. exact Hf.
  - inversion Hr as [|? ? [Hs Ha] Hr']; subst. cbn [fst snd] in *.
    rewrite !commas_app, (commas_arg _ Hf), (commas_sep _ Hs), IH by assumption. reflexivity.
Qed.

Lemma render_nonempty first rest : wf_arg first -> render first rest <> [].
Proof.
  intros ((Hne & _) & _). destruct rest as [|[s a] r]; cbn [render]; unfold arg_text; destruct (a_wrapped first); try discriminate;
    destruct (a_id first); try contradiction; discriminate.
Qed.

(* ---------------------------------------------------------------- MAIN: names, markers, count *)
Theorem spelling_recovered first rest : wf_arg first -> wf_rest rest ->
  names (render first rest) = a_id first :: map (fun sa => a_id (snd sa)) rest /\
  markers (render first rest) = a_wrapped first :: map (fun sa => a_wrapped (snd sa)) rest /\
  count_params (render first rest) = S (length rest).
Proof.
  intros Hf Hr.
  assert (RT : raw_tokens (render first rest) = canon first :: map (fun sa => canon (snd sa)) rest).
  { unfold raw_tokens. rewrite compact_render by (try assumption; reflexivity).
    rewrite render_canon_no_trailing_sep, toks_render_canon by assumption. apply app_nil_r. }
  split; [|split].
  - unfold names. rewrite RT. cbn [map]. rewrite name_of_canon by exact Hf. f_equal.
    rewrite map_map. apply map_ext_in. intros [s a] Hin. cbn [snd]. apply name_of_canon.
    unfold wf_rest in Hr. rewrite Forall_forall in Hr. apply (Hr _ Hin).
  - unfold markers. rewrite RT. cbn [map]. rewrite marker_of_canon by exact Hf. f_equal.
    rewrite map_map. apply map_ext_in. intros [s a] Hin. cbn [snd]. apply marker_of_canon.
    unfold wf_rest in Hr. rewrite Forall_forall in Hr. apply (Hr _ Hin).
  - unfold count_params. pose proof (render_nonempty first rest Hf) as Hne.
    destruct (render first rest) eqn:E; [contradiction|]. rewrite <- E. f_equal. apply (commas_render rest first Hf Hr).
Qed.

(* ---------------------------------------------------------------- binding *)
Lemma marker_beyond_length ms n : (length ms <= n)%nat -> marker_beyond ms n = false.
Proof.
  revert n. induction ms as [|m ms IH]; intros n H; [reflexivity|].
  destruct n as [|n]; [cbn [length] in H; lia|]. cbn [marker_beyond]. apply IH. cbn [length] in H. lia.
Qed.

Lemma filter_combine_nodup (ns : list (list N)) (vs : list Z) p j v :
  NoDup ns -> length ns = length vs -> nth_error ns j = Some p -> nth_error vs j = Some v ->
  map snd (filter (fun nv => list_eqb (fst nv) p) (combine ns vs)) = [v].
Proof.
  revert vs j. induction ns as [|n ns IH]; intros vs j Hnd Hl Hn Hv; [destruct j; discriminate|].
  destruct vs as [|v0 vs]; [discriminate|]. inversion Hnd as [|? ? Hnotin Hnd']; subst.
  cbn [combine filter fst]. destruct j as [|j].
  - cbn [nth_error] in Hn, Hv. injection Hn as ->. injection Hv as ->. rewrite list_eqb_refl. cbn [map snd]. f_equal.
    (* no later name equals p *)
    assert (forall vs' : list Z, map snd (filter (fun nv => list_eqb (fst nv) p) (combine ns vs')) = @nil Z).
    { clear -Hnotin. induction ns as [|n ns IH]; intros vs'; [reflexivity|]. destruct vs' as [|v' vs']; [reflexivity|].
      cbn [combine filter fst]. destruct (list_eqb n p) eqn:E.
      - apply list_eqb_eq in E. subst. exfalso. apply Hnotin. left. reflexivity.
      - apply IH. intros H. apply Hnotin. right. exact H. }
    apply H.
  - cbn [nth_error] in Hn, Hv. destruct (list_eqb n p) eqn:E.
    + apply list_eqb_eq in E. subst. exfalso. apply Hnotin. apply (nth_error_In _ _ Hn).
    + apply (IH vs j Hnd'); [cbn [length] in Hl; lia|exact Hn|exact Hv].
Qed.

Lemma existsb_eqb_In p ns : existsb (list_eqb p) ns = true <-> In p ns.
Proof.
  rewrite existsb_exists. split.
  - intros (x & Hin & E). apply list_eqb_eq in E. subst. exact Hin.
  - intros H. exists p. split; [exact H|apply list_eqb_refl].
Qed.

Definition all_names (first : arg) (rest : list (sepr * arg)) : list (list N) := a_id first :: map (fun sa => a_id (snd sa)) rest.

(* a clause naming the j-th identifier is applied to exactly the j-th actual *)
Theorem clause_binds_position first rest actuals j p v :
  wf_arg first -> wf_rest rest -> NoDup (all_names first rest) ->
  length actuals = count_params (render first rest) ->
  nth_error (all_names first rest) j = Some p -> nth_error actuals j = Some v ->
  bind_clause (render first rest) actuals p = Applied [v].
Proof.
  intros Hf Hr Hnd Hl Hn Hv. destruct (spelling_recovered first rest Hf Hr) as (En & Em & Ec).
  unfold bind_clause. rewrite En, Em. rewrite Ec in Hl. fold (all_names first rest).
  rewrite marker_beyond_length by (cbn [length]; rewrite map_length; lia).
  assert (Hin : existsb (list_eqb p) (all_names first rest) = true) by (apply existsb_eqb_In; apply (nth_error_In _ _ Hn)).
  rewrite Hin. cbn [negb].
  assert (Hlen : length (all_names first rest) = length actuals) by (unfold all_names; cbn [length]; rewrite map_length; lia).
  rewrite Hlen, Nat.ltb_irrefl. f_equal.
  apply (filter_combine_nodup _ _ p j v Hnd Hlen Hn Hv).
Qed.

(* a clause naming an identifier the mock does not have is reported, nothing is applied, nothing crashes *)
Theorem absent_name_is_reported first rest actuals p :
  wf_arg first -> wf_rest rest -> length actuals = count_params (render first rest) ->
  ~ In p (all_names first rest) -> bind_clause (render first rest) actuals p = NotFound.
Proof.
  intros Hf Hr Hl Hnot. destruct (spelling_recovered first rest Hf Hr) as (En & Em & Ec).
  unfold bind_clause. rewrite En, Em. rewrite Ec in Hl. fold (all_names first rest).
  rewrite marker_beyond_length by (cbn [length]; rewrite map_length; lia).
  destruct (existsb (list_eqb p) (all_names first rest)) eqn:E; [|reflexivity].
  apply existsb_eqb_In in E. contradiction.
Qed.

(* arity 0: mock() *)
Lemma no_arguments : names [] = [] /\ markers [] = [] /\ count_params [] = O /\ forall p, bind_clause [] [] p = NotFound.
Proof. repeat split. Qed.
