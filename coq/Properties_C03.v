(* C03 — Reported totals equal what happened and every result is attributed to its test. *)
From Coq Require Import List ZArith Bool.
From CgreenVerif Require Import Defs Runner Spec_Runner Lemmas_Runner Lemmas_Facts Lemmas_Props Examples_Runner.
From CgreenVerif.Gen Require Import Facts.
Import ListNotations.
Local Open Scope Z_scope.

(* The whole observable run - totals, per-suite counters, per-test credits, exception and
   skip lines with their breadcrumbs, in order - is the specification's, which is defined
   from each test's own results without any protocol. *)
Theorem C03_run_is_spec :
  forall rk vexpr m cap n,
    In rk builtin_reporters -> (1 <= cap)%nat -> is_suite n -> ok_tree m cap n ->
    exists f',
      run_suite rk vexpr m cap n =
      Finished (vexpr (passes (total n)) (failures (total n)) (skips (total n)) (exceptions (total n)))
               (mkp (node_c n) (total n) [] [] f' (spec_events [] czero n)).
Proof. exact (fun rk vexpr m cap n Hrk => run_suite_spec rk vexpr m cap n (builtin_rk_folds rk Hrk)). Qed.
Print Assumptions C03_run_is_spec.

(* totals = sum over the tests of what each does when run alone *)
Theorem C03_totals_are_sums : forall n, total n = sum_cnt (own_list n).
Proof. exact total_is_sum. Qed.
Print Assumptions C03_totals_are_sums.

(* every per-test credit in the report is the own result of a test of the tree, and the
   CUTE-style status is success exactly when that test had no failure and no exception *)
Theorem C03_credit_is_own :
  forall n path tot0 i d cl,
    In (ETestDone i d cl) (spec_events path tot0 n) ->
    exists s t, In (s, t) (tests_of n) /\ i = tid t /\ d = own s t /\ cl = clean (own s t).
Proof. exact credited_is_own. Qed.
Print Assumptions C03_credit_is_own.

(* every exception line names the test that ended abnormally *)
Theorem C03_exception_names_producer :
  forall n path tot0 cr sg,
    In (EIncomplete cr sg) (spec_events path tot0 n) ->
    exists s t, In (s, t) (tests_of n) /\ hd_error cr = Some (tid t) /\ tskip t = false /\
                abnormal (own_msgs s t) (own_death s t) = true /\ sg = sig_text (own_death s t).
Proof. exact incomplete_names_producer. Qed.
Print Assumptions C03_exception_names_producer.

(* every test of the tree is reported *)
Theorem C03_every_test_reported :
  forall n path tot0 s t, is_suite n -> In (s, t) (tests_of n) ->
    In (ETestDone (tid t) (own s t) (clean (own s t))) (spec_events path tot0 n).
Proof. exact test_done_present. Qed.
Print Assumptions C03_every_test_reported.

Theorem C03_example_premises_hold : ok_tree Forked 4096 ex_tree /\ is_suite ex_tree /\ unique_names ex_tree.
Proof. exact ex_tree_ok. Qed.
