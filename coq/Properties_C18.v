(* C18 — No result is lost or misplaced however many checks a test makes. *)
From Coq Require Import List ZArith Bool.
From CgreenVerif Require Import Defs Runner Spec_Runner Lemmas_Runner Lemmas_Facts Lemmas_Props Examples_Runner.
Import ListNotations.
Local Open Scope Z_scope.

(* The pipe holds cap records (a parameter; the harness measures the real one).  A test
   whose records - checks plus the end-of-test marker - fit is credited all of them: *)
Theorem C18_all_counted_when_it_fits :
  forall cap s t p, wf_test t -> (1 <= cap)%nat -> fits cap s t -> regular s t -> good p ->
    run_test_forked cap s t p =
    mkp (cadd (c p) (own s t)) (tot p) (crumb p) [] (pfw p) (spec_test (crumb p) s t ++ out p).
Proof. exact run_test_forked_spec. Qed.
Print Assumptions C18_all_counted_when_it_fits.

(* otherwise - in particular when only the end-of-test marker does not fit - the records
   that fitted (a prefix of what was sent) are counted, the test is one exception, and the
   pipe is left empty, so that nothing is credited to a later test *)
Theorem C18_overflow_is_an_exception :
  forall cap s t p,
    wf_test t -> tskip t = false -> (1 <= cap)%nat -> (cap < length (own_msgs s t))%nat -> good p ->
    let dm := firstn cap (own_msgs s t) in
    no_compl dm -> has_skip dm = false ->
    exists evs,
      run_test_forked cap s t p =
      mkp (cadd (c p) (cadd (count_msgs dm) (mkcnt 0 0 0 1))) (tot p) (crumb p) [] (pfw p) (evs ++ out p).
Proof. exact run_test_forked_overflow. Qed.
Print Assumptions C18_overflow_is_an_exception.

(* what fitted never contains the end-of-test marker when the marker is the record that is cut *)
Theorem C18_prefix_has_no_marker :
  forall cap s t,
    wf_test t -> (cap < length (own_msgs s t))%nat ->
    (forall m' r, own_msgs s t = m' ++ MCompletion :: r -> no_compl m' -> (cap <= length m')%nat) ->
    no_compl (firstn cap (own_msgs s t)).
Proof. exact overflow_prefix_no_compl. Qed.
Print Assumptions C18_prefix_has_no_marker.

(* the following tests start from a good state (empty pipe), so they are credited their own
   results: the refinement theorem needs nothing else about what ran before *)
Theorem C18_later_tests_unaffected :
  forall m cap s t p, (1 <= cap)%nat -> test_ok m cap s t -> good p ->
    exists f', glob f' = 0 /\
      run_test m cap s t p =
      Done (mkp (cadd (c p) (own s t)) (tot p) (crumb p) [] f' (spec_test (crumb p) s t ++ out p)).
Proof. exact run_test_spec. Qed.
Print Assumptions C18_later_tests_unaffected.

(* non-vacuity: capacity 3, a test with 3 checks: its 4 records do not fit *)
Example C18_example_overflow :
  let t := mktest 0 false false false [] [Check true; Check false; Check true] [] None in
  run_test_forked 3 nosuite t p_init =
  mkp (mkcnt 2 1 0 1) czero [] [] fw_init
      [ETestDone 0 (mkcnt 2 1 0 1) false; EIncomplete [0%nat] (Some 13);
       EChild 0 [MPass; MFail; MPass]; EStartTest 0].
Proof. vm_compute. reflexivity. Qed.
