(* Lemmas_Code_Mocks4.v - trigger_unfulfilled_expectations(): what the end-of-test tally tells the reporter about
   each entry still in the queue - for queues whose entries carry no constraint vector (no times() clause). *)
From Coq Require Import List ZArith String Bool Lia Arith.
From CgreenVerif Require Import CLite Lemmas_CLite Mocks CodeCheck Lemmas_Code_Mocks Lemmas_Code_Mocks2 Lemmas_Code_Mocks3.
From CgreenVerif.Gen Require Import Code_mocks.
Import ListNotations.
Local Open Scope string_scope. Local Open Scope list_scope. Local Open Scope Z_scope.

Definition never_fmt : list Z :=
  match fbody code_trigger_unfulfilled_expectations with
  | SSeq _ (SLoop _ (SSeq _ (SSeq _ (SSeq _ (SSeq (SIf _ (SSeq (SIf _ (SExpr (ECallPtr _ _ (_ :: _ :: _ :: _ :: EStr s :: _))) _) _) _) _)))) _) => s
  | _ => []
  end.
Definition notmade_fmt : list Z :=
  match fbody code_trigger_unfulfilled_expectations with
  | SSeq _ (SLoop _ (SSeq _ (SSeq _ (SSeq _ (SSeq _ (SSeq _ (SSeq _ (SIf _ (SExpr (ECallPtr _ _ (_ :: _ :: _ :: _ :: EStr s :: _))) _))))))) _) => s
  | _ => []
  end.
Example fmts_found : never_fmt <> [] /\ notmade_fmt <> [].
Proof. split; vm_compute; discriminate. Qed.

(* the world: the reporter object lies behind the list of successfully mocked calls *)
Definition rep_o : obj := ORec [("assert_true", VFun "assert_true")].
Definition tw_ (unl : Z) (q : list mexp) (x : obj) (tl : list obj) (tr : list (string * list val)) : world :=
  mw unl q (x :: rep_o :: tl) tr.
Definition rp (q : list mexp) : val := VPtr (S (S (List.length q))) 0.

Lemma nth_error_rep (q : list mexp) x tl :
  nth_error (map exp_rec q ++ x :: rep_o :: tl) (S (List.length q)) = Some rep_o.
Proof. rewrite nth_error_app2 by (rewrite map_length; lia). rewrite map_length. replace (S (List.length q) - List.length q)%nat with 1%nat by lia. reflexivity. Qed.

(* what the tally says about one entry (newest first) *)
Definition tally_ev (unl : Z) (q : list mexp) (e : mexp) : list (string * list val) :=
  if is_always unl e then []
  else if is_never unl e then
    (if entrig e =? 0
     then [("assert_true", [rp q; VLit []; VInt (Z.of_nat (eline e)); VInt 1; VLit never_fmt; VLit (fn_name (efn e))])]
     else [])
  else [("assert_true", [rp q; VLit []; VInt (Z.of_nat (eline e)); VInt 0; VLit notmade_fmt; VLit (fn_name (efn e))])].
Fixpoint tally_trace (unl : Z) (q : list mexp) (rest : list mexp) (tr : list (string * list val)) :=
  match rest with [] => tr | e :: r => tally_trace unl q r (tally_ev unl q e ++ tr) end.

Lemma call_is_first_call_matching :
  forall pre e rest unl tl tr n, (1 <= n)%nat ->
    mk_call prog_mocks (cexec prog_mocks n) "is_first_call_matching" [VPtr (S (List.length pre)) 0] (mw unl (pre ++ e :: rest) tl tr) =
    Fine (VInt (if entrig e =? 0 then 1 else 0), mw unl (pre ++ e :: rest) tl tr).
Proof.
  intros pre e rest unl tl tr n Hn. destruct n as [|n]; [lia|].
  unfold mk_call, find_fun. cbn [alookup prog_mocks String.eqb Ascii.eqb Bool.eqb].
  cbn [bind_params fparams fbody code_is_first_call_matching]. unfold mw.
  srun prog_mocks.
  erewrite get_field_rec by (cbn [heap nth_error]; apply nth_error_objs).
  cbn [alookup String.eqb Ascii.eqb Bool.eqb]. srun prog_mocks.
  rewrite wrap_IBool_b. srun prog_mocks. reflexivity.
Qed.

Definition tu_loop : stmt :=
  match fbody code_trigger_unfulfilled_expectations with SSeq _ l => l | _ => SSkip end.

Definition tu_locals (q : list mexp) (i : nat) (shape : nat) (v1 v2 v3 : val) : locals :=
  [("expectation_queue", VPtr 0 0); ("reporter", rp q); ("e", VInt (Z.of_nat i))] ++
  match shape with
  | O => []
  | S O => [("expectation", v1)]
  | _ => [("expectation", v1); ("call_counter_present", v2); ("c", v3)]
  end.

Definition nshape (shape : nat) : nat := match shape with O => 1 | S O => 1 | _ => 2 end%nat.

Ltac tu_iter Hlt :=
  rewrite exec_loop; cbn [app]; srun prog_mocks;
  rewrite length_refs, Hlt; srun prog_mocks;
  rewrite ?length_refs, ?Hlt, Nat2Z.id, (proj2 (Z.leb_le 0 _) (Nat2Z.is_nonneg _)), nth_refs by (rewrite app_length; cbn [List.length]; lia);
  srun prog_mocks.

Ltac fld :=
  erewrite get_field_rec by (cbn [heap nth_error]; first [apply nth_error_objs | apply nth_error_rep]);
  cbn [alookup String.eqb Ascii.eqb Bool.eqb]; srun prog_mocks.

Lemma tu_loop_spec : forall rest pre n shape v1 v2 v3 unl x tl tr,
  unl_ok unl -> (List.length rest < n)%nat -> Z.of_nat (List.length (pre ++ rest)) < 2147483647 ->
  exists l',
    cexec prog_mocks n tu_loop (tu_locals (pre ++ rest) (List.length pre) shape v1 v2 v3) (tw_ unl (pre ++ rest) x tl tr) =
    Fine (FNormal, l', tw_ unl (pre ++ rest) x tl (tally_trace unl (pre ++ rest) rest tr)).
Proof.
  induction rest as [|e rest IH]; intros pre n shape v1 v2 v3 unl x tl tr Hu Hn Hlen.
  - destruct n as [|n]; [cbn in Hn; lia|].
    unfold tu_loop, tu_locals, tw_, mw. cbn [fbody code_trigger_unfulfilled_expectations tally_trace].
    destruct shape as [|[|shape]]; eexists; rewrite exec_loop; cbn [app]; srun prog_mocks.
    all: try (rewrite length_refs, app_nil_r, Z.ltb_irrefl; reflexivity).
  - destruct n as [|n]; [cbn in Hn; lia|].
    assert (Hlt : Z.of_nat (List.length pre) <? Z.of_nat (List.length (pre ++ e :: rest)) = true)
      by (apply Z.ltb_lt; rewrite app_length; cbn [List.length]; lia).
    assert (Hrange : in_range I32 (Z.of_nat (List.length pre) + 1) = true)
      by (apply in_range_I32; rewrite app_length in Hlen; cbn [List.length] in Hlen; lia).
    assert (Hn1 : (1 <= n)%nat) by (cbn [List.length] in Hn; lia).
    pose proof (call_is_always_call pre e rest unl (x :: rep_o :: tl)) as Hal.
    pose proof (fun tr => call_is_never_call pre e rest unl (x :: rep_o :: tl) tr n Hn1 Hu) as Hnv.
    pose proof (fun tr => call_is_first_call_matching pre e rest unl (x :: rep_o :: tl) tr n Hn1) as Hfc.
    cbn [tally_trace]. unfold tally_ev.
    destruct (is_always unl e) eqn:Ha.
    + (* an always-expectation: nothing *)
      destruct (IH (pre ++ [e]) n (nshape shape) (VPtr (S (List.length pre)) 0) v2 v3 unl x tl tr Hu) as [l' IH'];
        [cbn [List.length] in Hn; lia | rewrite <- app_assoc; exact Hlen |].
      unfold tu_loop, tu_locals, tw_, mw in *. cbn [fbody code_trigger_unfulfilled_expectations app] in *.
      rewrite <- !app_assoc in IH'. cbn [app] in IH'.
      rewrite app_length in IH'. cbn [List.length] in IH'.
      replace (Z.of_nat (List.length pre + 1)) with (Z.of_nat (List.length pre) + 1) in IH' by lia.
      exists l'.
      all: destruct shape as [|[|shape]]; cbn [nshape] in IH'; tu_iter Hlt; rewrite (Hal tr n Hn1), ?Ha; srun prog_mocks; rewrite Hrange; srun prog_mocks; exact IH'.
    + destruct (is_never unl e) eqn:Hne.
      * (* a never-expectation: a pass when no call matched it, nothing otherwise *)
        destruct (entrig e =? 0) eqn:Htr.
        -- destruct (IH (pre ++ [e]) n (nshape shape) (VPtr (S (List.length pre)) 0) v2 v3 unl x tl
                       ([("assert_true", [rp (pre ++ e :: rest); VLit []; VInt (Z.of_nat (eline e)); VInt 1; VLit never_fmt; VLit (fn_name (efn e))])] ++ tr) Hu) as [l' IH'];
             [cbn [List.length] in Hn; lia | rewrite <- app_assoc; exact Hlen |].
           unfold tu_loop, tu_locals, tw_, mw in *. cbn [fbody code_trigger_unfulfilled_expectations app] in *.
           rewrite <- !app_assoc in IH'. cbn [app] in IH'.
           rewrite app_length in IH'. cbn [List.length] in IH'.
           replace (Z.of_nat (List.length pre + 1)) with (Z.of_nat (List.length pre) + 1) in IH' by lia.
           exists l'.
           all: destruct shape as [|[|shape]]; cbn [nshape] in IH'; tu_iter Hlt; rewrite (Hal tr n Hn1), ?Ha; srun prog_mocks;
             rewrite (Hnv tr), ?Hne; srun prog_mocks; rewrite (Hfc tr), ?Htr; srun prog_mocks.
           all: unfold rp at 1; fld; fld; fld; fld.
           all: rewrite Hrange; srun prog_mocks; exact IH'.
        -- (* a never-expectation that was called: nothing here (mock_() has reported it) *)
           destruct (IH (pre ++ [e]) n (nshape shape) (VPtr (S (List.length pre)) 0) v2 v3 unl x tl tr Hu) as [l' IH'];
             [cbn [List.length] in Hn; lia | rewrite <- app_assoc; exact Hlen |].
           unfold tu_loop, tu_locals, tw_, mw in *. cbn [fbody code_trigger_unfulfilled_expectations app] in *.
           rewrite <- !app_assoc in IH'. cbn [app] in IH'.
           rewrite app_length in IH'. cbn [List.length] in IH'.
           replace (Z.of_nat (List.length pre + 1)) with (Z.of_nat (List.length pre) + 1) in IH' by lia.
           exists l'.
           all: destruct shape as [|[|shape]]; cbn [nshape] in IH'; tu_iter Hlt; rewrite (Hal tr n Hn1), ?Ha; srun prog_mocks;
             rewrite (Hnv tr), ?Hne; srun prog_mocks; rewrite (Hfc tr), ?Htr; srun prog_mocks;
             rewrite Hrange; srun prog_mocks; exact IH'.
      * (* a plain expectation still in the queue: one failure *)
        destruct (IH (pre ++ [e]) n 2%nat (VPtr (S (List.length pre)) 0) (VInt 0) (VInt 0) unl x tl
                    ([("assert_true", [rp (pre ++ e :: rest); VLit []; VInt (Z.of_nat (eline e)); VInt 0; VLit notmade_fmt; VLit (fn_name (efn e))])] ++ tr) Hu) as [l' IH'];
          [cbn [List.length] in Hn; lia | rewrite <- app_assoc; exact Hlen |].
        unfold tu_loop, tu_locals, tw_, mw in *. cbn [fbody code_trigger_unfulfilled_expectations app] in *.
        rewrite <- !app_assoc in IH'. cbn [app] in IH'.
        rewrite app_length in IH'. cbn [List.length] in IH'.
        replace (Z.of_nat (List.length pre + 1)) with (Z.of_nat (List.length pre) + 1) in IH' by lia.
        exists l'.
        all: destruct shape as [|[|shape]]; tu_iter Hlt; rewrite (Hal tr n Hn1), ?Ha; srun prog_mocks;
          rewrite (Hnv tr), ?Hne; srun prog_mocks.
        all: rewrite exec_loop; srun prog_mocks; fld.
        all: unfold rp at 1; fld; fld; fld; fld.
        all: rewrite Hrange; srun prog_mocks; exact IH'.
Qed.

(* trigger_unfulfilled_expectations(queue, reporter): one report per entry as tally_ev says, in queue order; the
   queue, the records and everything else are unchanged *)
Theorem trigger_unfulfilled_refines :
  forall q unl x tl tr n,
    unl_ok unl -> (List.length q + 1 < n)%nat -> Z.of_nat (List.length q) < 2147483647 ->
    run_fun prog_mocks n "trigger_unfulfilled_expectations" [VPtr 0 0; rp q] (tw_ unl q x tl tr) =
    Fine (VInt 0, tw_ unl q x tl (tally_trace unl q q tr)).
Proof.
  intros q unl x tl tr n Hu Hn Hlen.
  destruct (tu_loop_spec q [] n 0%nat (VInt 0) (VInt 0) (VInt 0) unl x tl tr Hu ltac:(lia) Hlen) as [l' HL].
  destruct n as [|n]; [lia|].
  unfold tu_loop, tu_locals in HL. cbn [fbody code_trigger_unfulfilled_expectations app List.length] in HL.
  change (Z.of_nat 0) with 0 in HL.
  unfold run_fun, find_fun. cbn [alookup prog_mocks String.eqb Ascii.eqb Bool.eqb].
  unfold mk_call at 1. unfold find_fun. cbn [alookup prog_mocks String.eqb Ascii.eqb Bool.eqb].
  cbn [bind_params fparams fbody code_trigger_unfulfilled_expectations].
  srun prog_mocks. rewrite HL. clear HL. srun prog_mocks. reflexivity.
Qed.

(* ---- what the reporter was told is the model's tally (entries without a times() clause) ---- *)
Definition no_times (e : mexp) : Prop :=
  filter (fun c => match c with CTimes _ => true | _ => false end) (econs e) = [].

Lemma tally_trace_app unl q rest tr : tally_trace unl q rest tr = rev (flat_map (tally_ev unl q) rest) ++ tr.
Proof.
  revert tr. induction rest as [|e rest IH]; intro tr; [reflexivity|].
  cbn [tally_trace flat_map]. rewrite IH, rev_app_distr, <- app_assoc. f_equal.
  unfold tally_ev. destruct (is_always unl e); [reflexivity|].
  destruct (is_never unl e); [destruct (entrig e =? 0); reflexivity|reflexivity].
Qed.

(* the model's verdicts on one entry (the function inside Mocks.mstep's MTally case) *)
Definition tally_res (unl : Z) (e : mexp) : list mres :=
  if is_always unl e then []
  else if is_never unl e then (if entrig e =? 0 then [mkres (efn e) (eline e) true 8] else [])
  else match filter (fun c => match c with CTimes _ => true | _ => false end) (econs e) with
       | [] => [mkres (efn e) (eline e) false 10]
       | ts => map (fun c => match c with
                             | CTimes n => mkres (efn e) (eline e) (encalled e =? n) 9
                             | _ => mkres (efn e) (eline e) false 9 end) ts
       end.

Lemma mstep_tally unl s : mstep unl s MTally = (mkms [] (mmode_ s) [], flat_map (tally_res unl) (queue s), 0).
Proof. reflexivity. Qed.

(* the call of the reporter that announces a verdict: where (the declaration's line), passed or failed, the
   message of that kind, the function's name *)
Definition ev_of_res (q : list mexp) (r : mres) : string * list val :=
  ("assert_true", [rp q; VLit []; VInt (Z.of_nat (rline r)); VInt (if rok r then 1 else 0);
                   VLit (if rok r then never_fmt else notmade_fmt); VLit (fn_name (rfn r))]).

Lemma tally_ev_is_model unl q e : no_times e -> tally_ev unl q e = map (ev_of_res q) (tally_res unl e).
Proof.
  intro H. unfold tally_ev, tally_res. rewrite H.
  destruct (is_always unl e); [reflexivity|].
  destruct (is_never unl e); [destruct (entrig e =? 0); reflexivity|reflexivity].
Qed.

Lemma tally_all_is_model unl q0 q : Forall no_times q ->
  flat_map (tally_ev unl q0) q = map (ev_of_res q0) (flat_map (tally_res unl) q).
Proof.
  induction q as [|e q IH]; intro H; [reflexivity|].
  inversion H as [|? ? He Hq]; subst. cbn [flat_map]. rewrite map_app, (tally_ev_is_model unl q0 e He), (IH Hq). reflexivity.
Qed.

Theorem trigger_unfulfilled_is_the_models_tally :
  forall q unl mode succ x tl tr n,
    unl_ok unl -> (List.length q + 1 < n)%nat -> Z.of_nat (List.length q) < 2147483647 -> Forall no_times q ->
    run_fun prog_mocks n "trigger_unfulfilled_expectations" [VPtr 0 0; rp q] (tw_ unl q x tl tr) =
    Fine (VInt 0, tw_ unl q x tl (rev (map (ev_of_res q) (snd (fst (mstep unl (mkms q mode succ) MTally)))) ++ tr)).
Proof.
  intros q unl mode succ x tl tr n Hu Hn Hlen Hnt.
  rewrite (trigger_unfulfilled_refines q unl x tl tr n Hu Hn Hlen), tally_trace_app, mstep_tally.
  cbn [fst snd queue]. rewrite (tally_all_is_model unl q q Hnt). reflexivity.
Qed.
