(* Values.v — executable model of how values travel through mocks (C12): will_return,
   will_return_double/box_double/unbox_double, will_return_by_value,
   will_set_contents_of_output_parameter and will_capture_parameter, over byte blocks with
   bounds-checked copies.  What is stored, which pointers are copied and how many bytes is NOT
   written here: it is the record `valsrc`, instantiated in Gen/Facts.v with the expressions
   translated from src/constraint.c, src/mocks.c, src/boxed_double.c and the will_* macros. *)
From Coq Require Import List ZArith Bool Lia.
From CgreenVerif Require Import Defs.
Import ListNotations.
Local Open Scope Z_scope.

Definition block := list Z.                 (* one Z in [0,256) per byte *)
Inductive mres (A : Type) := MOk (a : A) | MOob.
Arguments MOk {A} a.
Arguments MOob {A}.

(* memmove/memcpy of n bytes from src+soff to dst+doff; any byte outside either block is MOob *)
Definition copy (dst : block) (doff : Z) (src : block) (soff n : Z) : mres block :=
  if (n <? 0) || (doff <? 0) || (soff <? 0) || (Z.of_nat (length src) <? soff + n) || (Z.of_nat (length dst) <? doff + n)
  then MOob
  else MOk (firstn (Z.to_nat doff) dst ++ firstn (Z.to_nat n) (skipn (Z.to_nat soff) src) ++ skipn (Z.to_nat (doff + n)) dst).

(* malloc(n): a fresh block of n bytes (contents arbitrary; modelled as a fixed filler) *)
Definition filler : Z := 165.
Definition alloc (n : Z) : block := repeat filler (Z.to_nat n).

Section Values.
Variable S : valsrc.

(* expect(f, will_return(v)); ... mock() *)
Definition return_m (v : Z) : Z := vs_ret_load S (vs_ret_store S (vs_ret_macro S v)).

(* will_return_double(d) / box_double / unbox_double: the 64-bit pattern is copied or not known *)
Definition double_m (bits : Z) : option Z := if vs_dbl_copy S then Some bits else None.

(* will_return_by_value(object, size): block handed to the caller *)
Definition by_value_m (src : block) (size : Z) : mres block :=
  match copy (alloc (vs_bv_alloc1 S size)) 0 src 0 (vs_bv_copy1 S size) with
  | MOk kept =>
      let recorded := vs_bv_size S size in
      copy (alloc (vs_bv_alloc2 S recorded)) 0 kept 0 (vs_bv_copy2 S recorded)
  | MOob => MOob
  end.

(* the same over an expectation that serves several calls (always_expect, times(n)): the
   snapshot taken at declaration time stays with the expectation, every call gets a fresh copy *)
Definition bv_declare (src : block) (size : Z) : mres (block * Z) :=
  match copy (alloc (vs_bv_alloc1 S size)) 0 src 0 (vs_bv_copy1 S size) with
  | MOk kept => MOk (kept, vs_bv_size S size)
  | MOob => MOob
  end.
Definition bv_call (st : block * Z) : mres block :=
  copy (alloc (vs_bv_alloc2 S (snd st))) 0 (fst st) 0 (vs_bv_copy2 S (snd st)).
Definition by_value_calls_m (src : block) (size : Z) (calls : nat) : list (mres block) :=
  match bv_declare src size with
  | MOk st => map (fun _ => bv_call st) (seq 0 calls)
  | MOob => repeat MOob calls
  end.

(* will_set_contents_of_output_parameter(p, src, size) applied to an argument pointing at
   offset `off` of the caller's buffer `buf` *)
Definition set_contents_m (buf : block) (off : Z) (src : block) (size : Z) : mres block :=
  if vs_set_dst_actual S && vs_set_src_expected S
  then copy buf off src 0 (vs_set_len S (vs_set_store S (vs_set_macro S size)))
  else MOob.

(* the 8-byte union of the actual holding the intptr_t v, as laid out in memory *)
Fixpoint le_bytes (n : nat) (v : Z) : block :=
  match n with O => [] | Datatypes.S n' => v mod 256 :: le_bytes n' (v / 256) end.
Definition union_bytes (be : bool) (v : Z) : block := if be then rev (le_bytes 8 v) else le_bytes 8 v.

(* will_capture_parameter(p, variable) with sizeof(variable) = size: the variable's bytes *)
Definition capture_m (be : bool) (v : Z) (size : Z) : mres block :=
  let n := vs_cap_store S size in
  if vs_cap_use_offset S n be
  then copy (alloc size) 0 (union_bytes be v) (vs_cap_offset S n) (vs_cap_len_off S n)
  else copy (alloc size) 0 (union_bytes be v) 0 (vs_cap_len S n).
End Values.

(* value of a variable's bytes on a little- / big-endian machine (unsigned) *)
Fixpoint le_val (bs : block) : Z := match bs with [] => 0 | b :: r => b + 256 * le_val r end.
Definition decode (be : bool) (bs : block) : Z := le_val (if be then rev bs else bs).
