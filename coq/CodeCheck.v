(* CodeCheck.v - executable comparisons of the translated functions (Gen/Code.v, run by the CLite
   interpreter) with the hand-written models, on concrete inputs.  Used by the checks (a) as a
   cross-check of the interpreter and the theorems' statements on generated inputs and (b) to
   search for a concrete failing input when a refinement proof no longer checks after a change
   of the source.  No proofs here (extracted). *)
From Coq Require Import List ZArith String Bool.
From CgreenVerif Require Import CLite Runner.
From CgreenVerif.Gen Require Import Code.
Import ListNotations.
Local Open Scope string_scope. Local Open Scope list_scope. Local Open Scope Z_scope.

Definition zcode_of (m : msg) : Z :=
  match m with MPass => 1 | MFail => 2 | MSkipped => 3 | MCompletion => 4 | MException => 5 end.
Definition zstatus (st : rstatus) : Z := match st with Received => 0 | Skipped => 1 | NotReceived => 2 end.

Definition rep_world (k : cnt) (pipe : list msg) : world :=
  mkw [ORec [("ipc", VInt 9); ("passes", VInt (passes k)); ("failures", VInt (failures k));
             ("skips", VInt (skips k)); ("exceptions", VInt (exceptions k));
             ("breadcrumb", VInt 77); ("show_skip", VFun "show_skip"); ("show_incomplete", VFun "show_incomplete")]]
      [] [("receive_cgreen_message", map (fun m => VInt (zcode_of m)) pipe)] [].

Definition field_z (w : world) (f : string) : Z :=
  match get_field w (VPtr 0 0) f with Fine (VInt z) => z | _ => -999 end.
Definition count_ev (name : string) (w : world) : Z :=
  Z.of_nat (List.length (filter (fun ev => String.eqb (fst ev) name) (wtrace w))).
Definition stream_left (w : world) : Z :=
  match alookup "receive_cgreen_message" (streams w) with Some l => Z.of_nat (List.length l) | None => -1 end.

(* [tag; return value; passes; failures; skips; exceptions; records left; show_skip calls;
    show_incomplete calls; pop_breadcrumb calls]   tag 0 = ran, -1 = stuck (undefined operation), -2 = no fuel *)
Definition summary (r : cres (val * world)) : list Z :=
  match r with
  | Fine (v, w) =>
      [0; match v with VInt z => z | _ => -998 end;
       field_z w "passes"; field_z w "failures"; field_z w "skips"; field_z w "exceptions";
       stream_left w; count_ev "show_skip" w; count_ev "show_incomplete" w; count_ev "pop_breadcrumb" w]
  | Stuck _ => [-1]
  | NoFuel => [-2]
  end.

Definition code_read_results (pipe : list msg) (k : cnt) : list Z :=
  summary (run_fun prog_reporter (List.length pipe + 3) "read_reporter_results" [VPtr 0 0] (rep_world k pipe)).
Definition model_read_results (pipe : list msg) (k : cnt) : list Z :=
  let '(rest, k', st) := read_results pipe k false in
  [0; zstatus st; passes k'; failures k'; skips k'; exceptions k'; Z.of_nat (List.length rest); 0; 0; 0].

Definition code_finish_test (pipe : list msg) (k : cnt) : list Z :=
  summary (run_fun prog_reporter (List.length pipe + 4) "reporter_finish_test"
                   [VPtr 0 0; VLit []; VInt 1; VLit []] (rep_world k pipe)).
Definition model_finish_test (pipe : list msg) (k : cnt) : list Z :=
  let '(rest, k1, st) := read_results pipe k false in
  let k2 := match st with NotReceived => cadd k1 (mkcnt 0 0 0 1) | _ => k1 end in
  [0; 0; passes k2; failures k2; skips k2; exceptions k2; Z.of_nat (List.length rest);
   match st with Skipped => 1 | _ => 0 end; match st with NotReceived => 1 | _ => 0 end; 1].

Definition code_finish_suite (pipe : list msg) (k : cnt) : list Z :=
  summary (run_fun prog_reporter (List.length pipe + 4) "reporter_finish_suite"
                   [VPtr 0 0; VLit []; VInt 1] (rep_world k pipe)).
Definition model_finish_suite (pipe : list msg) (k : cnt) : list Z :=
  let '(rest, k1, st) := read_results pipe k false in
  [0; 0; passes k1; failures k1; skips k1; exceptions k1; Z.of_nat (List.length rest); 0; 0; 1].

(* ------------------------------------------------------------------------------------------ *)
(* byte-string functions: run the translated function on a string, read the result string back *)
From CgreenVerif Require Import Printf Params Xml RunnerTool Mocks.
Local Open Scope Z_scope.

Definition zs_of (l : list N) : list Z := map Z.of_N l.
Definition ns_of (l : list Z) : list N := map Z.to_N l.
Definition empty_world : world := mkw [] [] [] [].
(* the argument string as a caller's buffer: object 0 *)
Definition str_world (s : list Z) : world := mkw [OBytes (s ++ [0])] [] [] [].

(* -1 :: [] for stuck, -2 for no fuel, otherwise 0 :: bytes *)
Definition string_result (r : cres (val * world)) : list Z :=
  match r with
  | Fine (v, w) => match cstring w v with Fine l => 0 :: l | _ => [-3] end
  | Stuck _ => [-1]
  | NoFuel => [-2]
  end.

(* double_all_percent_signs_in(original) *)
Definition code_double_percent (s : list Z) : list Z :=
  string_result (run_fun prog_percent (List.length s + 5) "double_all_percent_signs_in" [VPtr 0 0] (str_world s)).
Definition model_double_percent (s : list Z) : list Z := 0 :: zs_of (Printf.double_percent (ns_of s)).

(* escaped(text) of the xml reporter *)
Definition code_xml_escaped (s : list Z) : list Z :=
  string_result (run_fun prog_xmlesc (List.length s + 5) "escaped" [VPtr 0 0] (str_world s)).
Definition model_xml_escaped (s : list Z) : list Z := 0 :: zs_of (Xml.escape (ns_of s)).

(* create_vector_of_names(parameters): the names, each followed by -7 *)
Definition names_result (r : cres (val * world)) : list Z :=
  match r with
  | Fine (v, w) =>
      match get_vec w v with
      | Fine (_, items) =>
          0 :: flat_map (fun it => match cstring w it with Fine l => l ++ [-7] | _ => [-3] end) items
      | _ => [-3]
      end
  | Stuck _ => [-1]
  | NoFuel => [-2]
  end.
Definition code_names (s : list Z) : list Z :=
  names_result (run_fun prog_params (2 * List.length s + 10) "create_vector_of_names" [VPtr 0 0] (str_world s)).
Definition model_names (s : list Z) : list Z :=
  0 :: flat_map (fun nm => zs_of nm ++ [-7]) (Params.names (ns_of s)).

(* test_matches_pattern(pattern, item) *)
Definition code_matches (pat ctx name : list Z) : list Z :=
  match run_fun prog_tool 10 "test_matches_pattern" [VPtr 1 0; VPtr 0 0]
                (mkw [ORec [("context_name", VLit ctx); ("test_name", VLit name)]; OBytes (pat ++ [0])] [] [] []) with
  | Fine (VInt b, _) => [0; b]
  | Fine _ => [-3]
  | Stuck _ => [-1]
  | NoFuel => [-2]
  end.
Definition model_matches (pat ctx name : list Z) : list Z :=
  [0; if RunnerTool.item_matches (ns_of pat) (RunnerTool.mkitem (ns_of ctx) (ns_of name)) then 1 else 0].

(* ------------------------------------------------------------------------------------------ *)
(* the expectation queue: object 0 is the queue (a CgreenVector), object i+1 the i-th expectation
   of the initial queue *)
Definition fn_name (f : nat) : list Z := [102; 48 + Z.of_nat f].       (* "f0", "f1", ... *)
Definition exp_rec (e : mexp) : obj :=
  ORec [("function", VLit (fn_name (efn e))); ("test_file", VLit []); ("test_line", VInt (Z.of_nat (eline e)));
        ("time_to_live", VInt (ettl e)); ("constraints", VInt 0);
        ("number_times_called", VInt (encalled e)); ("times_triggered", VInt (entrig e))].
Definition mocks_world (unl : Z) (q : list mexp) (succ : list nat) : world :=
  mkw (OVec (map (fun i => VPtr (S i) 0) (seq 0 (List.length q))) :: map exp_rec q ++ [OVec (map (fun f => VLit (fn_name f)) succ)])
      [("global_expectation_queue", VPtr 0 0); ("UNLIMITED_TIME_TO_LIVE", VInt unl);
       ("successfully_mocked_calls", VPtr (S (List.length q)) 0)] [] [].

(* the queue read back: per entry its line (identity), time to live, times triggered *)
Definition entry_z (w : world) (v : val) : list Z :=
  match get_field w v "test_line", get_field w v "time_to_live", get_field w v "times_triggered" with
  | Fine (VInt a), Fine (VInt b), Fine (VInt c) => [a; b; c]
  | _, _, _ => [-3]
  end.
Definition queue_z (w : world) : list Z :=
  match get_vec w (VPtr 0 0) with
  | Fine (_, items) => flat_map (entry_z w) items
  | _ => [-3]
  end.
Definition model_queue_z (q : list mexp) : list Z :=
  flat_map (fun e => [Z.of_nat (eline e); ettl e; entrig e]) q.

Definition run_mocks (unl : Z) (q : list mexp) (f : string) (args : list val) : cres (val * world) :=
  run_fun prog_mocks (2 * List.length q + 10) f args (mocks_world unl q []).
Definition val_z (w : world) (v : val) : list Z :=
  match v with
  | VInt z => [z]
  | VPtr _ _ => match get_field w v "test_line" with Fine (VInt a) => [1000 + a] | _ => [-3] end
  | _ => [-3]
  end.
Definition mocks_result (r : cres (val * world)) : list Z :=
  match r with
  | Fine (v, w) => 0 :: val_z w v ++ [-7] ++ queue_z w
  | Stuck _ => [-1]
  | NoFuel => [-2]
  end.

(* per function of the queue: translated code against Mocks.v *)
Definition code_find (unl : Z) (q : list mexp) (f : nat) := mocks_result (run_mocks unl q "find_expectation" [VLit (fn_name f)]).
Definition model_find (unl : Z) (q : list mexp) (f : nat) : list Z :=
  0 :: match find_exp q f with Some e => [1000 + Z.of_nat (eline e)] | None => [0] end ++ [-7] ++ model_queue_z q.
Definition code_remove_first (unl : Z) (q : list mexp) (f : nat) := mocks_result (run_mocks unl q "remove_expectation_for" [VLit (fn_name f)]).
Definition model_remove_first (unl : Z) (q : list mexp) (f : nat) : list Z := 0 :: [0] ++ [-7] ++ model_queue_z (remove_first q f).
Definition code_have_always (unl : Z) (q : list mexp) (f : nat) := mocks_result (run_mocks unl q "have_always_expectation_for" [VLit (fn_name f)]).
Definition model_have_always (unl : Z) (q : list mexp) (f : nat) : list Z :=
  0 :: [if have_always unl q f then 1 else 0] ++ [-7] ++ model_queue_z q.
Definition code_have_never (unl : Z) (q : list mexp) (f : nat) := mocks_result (run_mocks unl q "have_never_call_expectation_for" [VLit (fn_name f)]).
Definition model_have_never (unl : Z) (q : list mexp) (f : nat) : list Z :=
  0 :: [if have_never unl q f then 1 else 0] ++ [-7] ++ model_queue_z q.
Definition code_remove_never (unl : Z) (q : list mexp) (f : nat) := mocks_result (run_mocks unl q "remove_never_call_expectation_for" [VLit (fn_name f)]).
Definition model_remove_never (unl : Z) (q : list mexp) (f : nat) : list Z := 0 :: [0] ++ [-7] ++ model_queue_z (remove_never unl q f).
(* destroy_expectation_if_time_to_die(the first entry for f), after that entry has been used *)
Definition code_after_use (unl : Z) (q : list mexp) (f : nat) : list Z :=
  match run_mocks unl q "find_expectation" [VLit (fn_name f)] with
  | Fine (VPtr b o, _) => mocks_result (run_mocks unl q "destroy_expectation_if_time_to_die" [VPtr b o])
  | Fine _ => [0; 0; -7] ++ model_queue_z q
  | _ => [-1]
  end.
Definition model_after_use (unl : Z) (q : list mexp) (f : nat) : list Z :=
  match find_exp q f with
  | Some e => 0 :: [0] ++ [-7] ++ model_queue_z (after_use unl q f e)
  | None => [0; 0; -7] ++ model_queue_z q
  end.
Definition code_succ (unl : Z) (succ : list nat) (f : nat) : list Z :=
  match run_fun prog_mocks (2 * List.length succ + 10) "successfully_mocked_call" [VLit (fn_name f)] (mocks_world unl [] succ) with
  | Fine (VInt b, _) => [0; b] | Fine _ => [-3] | Stuck _ => [-1] | NoFuel => [-2]
  end.
Definition model_succ (unl : Z) (succ : list nat) (f : nat) : list Z := [0; if existsb (Nat.eqb f) succ then 1 else 0].

(* ------------------------------------------------------------------------------------------ *)
(* the walk over the suite tree: run_every_test() / run_named_test() of src/runner.c with the helpers of
   src/suite.c, on a heap built from a model tree, against the order of events of Runner.run_node *)
From CgreenVerif.Gen Require Import Facts.
Fixpoint tally (n : nat) : string := match n with O => EmptyString | S k => append "I" (tally k) end.
Definition sname (s : nat) : list Z := [115; Z.of_nat s].
Definition tname (t : nat) : list Z := [116; Z.of_nat t].

Fixpoint build (n : node) (h : list obj) {struct n} : list obj * val :=
  match n with
  | Tn t => (h ++ [ORec [("name", VLit (tname (tid t))); ("skip", VInt 0)]], VPtr (List.length h) 0)
  | Sn s ch =>
      let '(h1, units) :=
        (fix go (l : list node) (h : list obj) {struct l} : list obj * list val :=
           match l with
           | [] => (h, [])
           | c :: l' =>
               let '(h', p) := build c h in
               let unit :=
                 match c with
                 | Tn t => ORec [("type", VInt 0); ("name", VLit (tname (tid t))); ("Runnable.test", p)]
                 | Sn s' _ => ORec [("type", VInt 1); ("name", VLit (sname (sid s'))); ("Runnable.suite", p)]
                 end in
               let '(h'', us) := go l' (h' ++ [unit]) in
               (h'', VPtr (List.length h') 0 :: us)
           end) ch h in
      let h2 := h1 ++ [OVec units] in
      (h2 ++ [ORec [("name", VLit (sname (sid s))); ("size", VInt (Z.of_nat (List.length ch)));
                    ("tests", VPtr (List.length h1) 0);
                    ("setup", VFun (if s_has_setup s then "setup" ++ tally (sid s) else "do_nothing")%string);
                    ("teardown", VFun (if s_has_teardown s then "teardown" ++ tally (sid s) else "do_nothing")%string);
                    ("filename", VLit []); ("line", VInt (Z.of_nat (sid s)))]],
       VPtr (List.length h2) 0)
  end.

Definition walk_reporter : obj :=
  ORec [("start_suite", VFun "start_suite"); ("finish_suite", VFun "finish_suite");
        ("passes", VInt 0); ("failures", VInt 0); ("skips", VInt 0); ("exceptions", VInt 0);
        ("duration", VInt 0); ("total_duration", VInt 0)].

Fixpoint untally (s : string) : Z := match s with EmptyString => 0 | String _ r => 1 + untally r end.
Definition starts_with (p s : string) : bool := String.eqb p (substring 0 (String.length p) s).

Definition name_id (w : world) (v : val) : Z :=
  match get_field w v "name" with Fine (VLit [_; k]) => k | _ => -9 end.

Definition walk_event (w : world) (ev : string * list val) : list Z :=
  let '(f, args) := ev in
  if String.eqb f "start_suite" then
    match args with [_; VLit [_; k]; VInt c] => [1; k; c] | _ => [-9] end
  else if starts_with "setup" f then [2; untally f - 5]
  else if starts_with "teardown" f then [3; untally f - 8]
  else if String.eqb f "run_test_in_its_own_process" then
    match args with [_; t; _] => [4; name_id w t] | _ => [-9] end
  else if String.eqb f "run_test_in_the_current_process" then
    match args with [_; t; _] => [5; name_id w t] | _ => [-9] end
  else if String.eqb f "send_reporter_completion_notification" then [6]
  else if String.eqb f "finish_suite" then
    match args with [_; _; VInt k] => [7; k] | _ => [-9] end
  else [].

Definition walk_result (r : cres (val * world)) : list Z :=
  match r with
  | Fine (_, w) => 0 :: flat_map (walk_event w) (rev (wtrace w))
  | Stuck _ => [-1]
  | NoFuel => [-2]
  end.

Definition nofork_stream (inproc : bool) (k : nat) : list (string * list val) :=
  if inproc then [("getenv", repeat (VLit [49]) k)] else [].

Fixpoint node_size (n : node) : nat :=
  match n with Tn _ => 1%nat | Sn _ ch => S (fold_right (fun c a => (node_size c + a)%nat) O ch) end.

Definition code_walk (inproc : bool) (n : node) : list Z :=
  let '(h, root) := build n [walk_reporter] in
  walk_result (run_fun prog_walk (4 * node_size n + 10) "run_every_test" [root; VPtr 0 0]
                       (mkw h [] (nofork_stream inproc (node_size n)) [])).
Definition code_walk_named (k : nat) (n : node) : list Z :=
  let '(h, root) := build n [walk_reporter] in
  walk_result (run_fun prog_walk (8 * node_size n + 10) "run_named_test" [root; VLit (tname k); VPtr 0 0]
                       (mkw h [] [] [])).

Fixpoint count_tests_m (n : node) : Z :=
  match n with Tn _ => 1 | Sn _ ch => fold_right (fun c a => count_tests_m c + a) 0 ch end.
Fixpoint suite_counts (n : node) : list (nat * Z) :=
  match n with
  | Tn _ => []
  | Sn s ch => (sid s, count_tests_m n) :: flat_map suite_counts ch
  end.

Definition model_event (inproc : bool) (counts : list (nat * Z)) (e : event) : list Z :=
  match e with
  | EStartSuite s => [1; Z.of_nat s; match find (fun p => Nat.eqb (fst p) s) counts with Some (_, c) => c | None => -9 end]
  | EFixture s false => [2; Z.of_nat s]
  | EFixture s true => [3; Z.of_nat s]
  | EStartTest t => [if inproc then 5 else 4; Z.of_nat t]
  | ESuiteDone s _ _ => [6; 7; Z.of_nat s]
  | _ => []
  end.

Definition model_walk (inproc : bool) (n : node) : list Z :=
  match run_suite rk_text verdict_suite (if inproc then InProcess else Forked) 4096 n with
  | Finished _ p => 0 :: flat_map (model_event inproc (suite_counts n)) (rev (out p))
  | Crashed _ _ => [-8]
  end.
Definition model_walk_named (k : nat) (n : node) : list Z :=
  match run_single rk_text verdict_single 4096 k n with
  | Finished _ p => 0 :: flat_map (model_event true (suite_counts n)) (rev (out p))
  | Crashed _ _ => [-8]
  end.

(* ------------------------------------------------------------------------------------------ *)
(* declarations (expect_, always_expect_, never_expect_), the tally and a call nobody expected, on a
   queue whose entries have their constraints; against Mocks.mstep *)
Definition con_rec (c : mcon) : obj :=
  match c with
  | CTimes n => ORec [("type", VInt 8); ("expected_value.value.integer_value", VInt n); ("execute", VFun "execute_times")]
  | CRet v => ORec [("type", VInt 4); ("expected_value.value.integer_value", VInt v); ("execute", VFun "execute_return")]
  | CParam p ex => ORec [("type", VInt 0); ("expected_value.value.integer_value", VInt ex); ("execute", VFun "execute_param")]
  end.

(* append the constraint records of one list and their vector; returns the heap and the vector's pointer *)
Definition alloc_cons (cs : list mcon) (h : list obj) : list obj * val :=
  let base := List.length h in
  let recs := map con_rec cs in
  let ptrs := map (fun i => VPtr (base + i)%nat 0) (seq 0 (List.length cs)) in
  (h ++ recs ++ [OVec ptrs], VPtr (base + List.length cs)%nat 0).

Definition exp_rec_c (e : mexp) (cv : val) : obj :=
  ORec [("function", VLit (fn_name (efn e))); ("test_file", VLit []); ("test_line", VInt (Z.of_nat (eline e)));
        ("time_to_live", VInt (ettl e)); ("constraints", cv);
        ("number_times_called", VInt (encalled e)); ("times_triggered", VInt (entrig e))].

(* heap: 0 the queue, 1..n the entries, n+1 the successfully-mocked list, n+2 the reporter, n+3 the current test,
   then the constraint objects *)
Definition full_world (unl : Z) (q : list mexp) (succ : list nat) (mode : Z)
                      (extra : list obj -> list obj * list (string * list val)) : world :=
  let n := List.length q in
  let base := [OVec (map (fun i => VPtr (S i) 0) (seq 0 n))] ++ map (fun e => exp_rec_c e (VInt 0)) q ++
              [OVec (map (fun f => VLit (fn_name f)) succ);
               ORec [("assert_true", VFun "assert_true")];
               ORec [("filename", VLit []); ("line", VInt 0)]] in
  (* give every entry its constraints *)
  let h1 := fold_left (fun h ie =>
              let '(h', cv) := alloc_cons (econs (snd ie)) h in
              list_set (S (fst ie)) (exp_rec_c (snd ie) cv) h') (combine (seq 0 n) q) base in
  let '(h2, str) := extra h1 in
  mkw h2 [("global_expectation_queue", VPtr 0 0); ("UNLIMITED_TIME_TO_LIVE", VInt unl);
          ("successfully_mocked_calls", VPtr (S n) 0); ("learned_mock_calls", VInt 0);
          ("cgreen_mocks_are_", VInt mode); ("current_test", VPtr (S (S (S n))) 0)] str [].

Definition reporter_ptr (q : list mexp) : val := VPtr (S (S (List.length q))) 0.

(* what the reporter was told: (line, result) of every assert_true call and, for every execute call of a
   times() constraint, (line, called = expected) *)
Fixpoint told (w : world) (tr : list (string * list val)) (last_value : Z) : list Z :=
  match tr with
  | [] => []
  | ("make_cgreen_integer_value", [VInt v]) :: r => told w r v
  | ("assert_true", _ :: _ :: VInt line :: VInt res :: _) :: r => [line; res] ++ told w r last_value
  | ("execute_times", c :: _ :: _ :: _ :: VInt line :: _) :: r =>
      match get_field w c "expected_value.value.integer_value" with
      | Fine (VInt n) => [line; if last_value =? n then 1 else 0]
      | _ => [-9]
      end ++ told w r last_value
  | _ :: r => told w r last_value
  end.

Definition decl_result (r : cres (val * world)) : list Z :=
  match r with
  | Fine (v, w) => 0 :: told w (rev (wtrace w)) 0 ++ [-7] ++
                   match alookup "global_expectation_queue" (globs w) with
                   | Some (VInt 0) => [-5]            (* the queue has been destroyed *)
                   | _ => queue_z w
                   end
  | Stuck _ => [-1]
  | NoFuel => [-2]
  end.

Definition model_told (rs : list mres) : list Z := flat_map (fun r => [Z.of_nat (rline r); if rok r then 1 else 0]) rs.

(* kind: 0 expect_, 1 always_expect_, 2 never_expect_ *)
Definition code_declare (kind : nat) (unl : Z) (q : list mexp) (f line : nat) (cs : list mcon) : list Z :=
  let name := match kind with O => "expect_" | S O => "always_expect_" | _ => "never_expect_" end in
  let w := full_world unl q [] 0 (fun h =>
             let '(h1, cv) := alloc_cons cs h in
             let newexp := exp_rec_c (mkexp f line 0 cs 0 0) cv in
             (h1 ++ [newexp],
              [("constraints_vector_from_va_list", [cv]); ("create_recorded_expectation", [VPtr (List.length h1) 0])])) in
  decl_result (run_fun prog_mocks (4 * List.length q + 2 * List.length cs + 20) name
                       [reporter_ptr q; VLit (fn_name f); VLit []; VInt (Z.of_nat line)] w).
Definition model_declare (kind : nat) (unl : Z) (q : list mexp) (f line : nat) (cs : list mcon) : list Z :=
  let op := match kind with O => MExpect f line cs | S O => MAlways f line cs | _ => MNever f line cs end in
  let '(s', rs, _) := mstep unl (mkms q MStrict []) op in
  0 :: model_told rs ++ [-7] ++ model_queue_z (queue s').

Definition code_tally (unl : Z) (q : list mexp) : list Z :=
  let w := full_world unl q [] 0 (fun h => (h, [])) in
  decl_result (run_fun prog_mocks (8 * List.length q + 40) "tally_mocks" [reporter_ptr q] w).
Definition model_tally (unl : Z) (q : list mexp) : list Z :=
  let '(s', rs, _) := mstep unl (mkms q MStrict []) MTally in
  0 :: model_told rs ++ [-7; -5].
