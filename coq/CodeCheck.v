(* CodeCheck.v - executable comparisons of the translated functions (Gen/Code.v, run by the CLite
   interpreter) with the hand-written models, on concrete inputs.  Used by the checks (a) as a
   cross-check of the interpreter and the theorems' statements on generated inputs and (b) to
   search for a concrete failing input when a refinement proof no longer checks after a change
   of the source.  No proofs here (extracted). *)
From Coq Require Import List ZArith String Bool.
From CgreenVerif Require Import CLite Runner.
From CgreenVerif.Gen Require Import Code.
Import ListNotations.
Local Open Scope string_scope. Local Open Scope list_scope. Local Open Scope Z_scope.

Definition zcode_of (m : msg) : Z :=
  match m with MPass => 1 | MFail => 2 | MSkipped => 3 | MCompletion => 4 | MException => 5 end.
Definition zstatus (st : rstatus) : Z := match st with Received => 0 | Skipped => 1 | NotReceived => 2 end.

Definition rep_world (k : cnt) (pipe : list msg) : world :=
  mkw [ORec [("ipc", VInt 9); ("passes", VInt (passes k)); ("failures", VInt (failures k));
             ("skips", VInt (skips k)); ("exceptions", VInt (exceptions k));
             ("breadcrumb", VInt 77); ("show_skip", VFun "show_skip"); ("show_incomplete", VFun "show_incomplete")]]
      [] [("receive_cgreen_message", map (fun m => VInt (zcode_of m)) pipe)] [].

Definition field_z (w : world) (f : string) : Z :=
  match get_field w (VPtr 0 0) f with Fine (VInt z) => z | _ => -999 end.
Definition count_ev (name : string) (w : world) : Z :=
  Z.of_nat (List.length (filter (fun ev => String.eqb (fst ev) name) (wtrace w))).
Definition stream_left (w : world) : Z :=
  match alookup "receive_cgreen_message" (streams w) with Some l => Z.of_nat (List.length l) | None => -1 end.

(* [tag; return value; passes; failures; skips; exceptions; records left; show_skip calls;
    show_incomplete calls; pop_breadcrumb calls]   tag 0 = ran, -1 = stuck (undefined operation), -2 = no fuel *)
Definition summary (r : cres (val * world)) : list Z :=
  match r with
  | Fine (v, w) =>
      [0; match v with VInt z => z | _ => -998 end;
       field_z w "passes"; field_z w "failures"; field_z w "skips"; field_z w "exceptions";
       stream_left w; count_ev "show_skip" w; count_ev "show_incomplete" w; count_ev "pop_breadcrumb" w]
  | Stuck _ => [-1]
  | NoFuel => [-2]
  end.

Definition code_read_results (pipe : list msg) (k : cnt) : list Z :=
  summary (run_fun prog_reporter (List.length pipe + 3) "read_reporter_results" [VPtr 0 0] (rep_world k pipe)).
Definition model_read_results (pipe : list msg) (k : cnt) : list Z :=
  let '(rest, k', st) := read_results pipe k false in
  [0; zstatus st; passes k'; failures k'; skips k'; exceptions k'; Z.of_nat (List.length rest); 0; 0; 0].

Definition code_finish_test (pipe : list msg) (k : cnt) : list Z :=
  summary (run_fun prog_reporter (List.length pipe + 4) "reporter_finish_test"
                   [VPtr 0 0; VLit []; VInt 1; VLit []] (rep_world k pipe)).
Definition model_finish_test (pipe : list msg) (k : cnt) : list Z :=
  let '(rest, k1, st) := read_results pipe k false in
  let k2 := match st with NotReceived => cadd k1 (mkcnt 0 0 0 1) | _ => k1 end in
  [0; 0; passes k2; failures k2; skips k2; exceptions k2; Z.of_nat (List.length rest);
   match st with Skipped => 1 | _ => 0 end; match st with NotReceived => 1 | _ => 0 end; 1].

Definition code_finish_suite (pipe : list msg) (k : cnt) : list Z :=
  summary (run_fun prog_reporter (List.length pipe + 4) "reporter_finish_suite"
                   [VPtr 0 0; VLit []; VInt 1] (rep_world k pipe)).
Definition model_finish_suite (pipe : list msg) (k : cnt) : list Z :=
  let '(rest, k1, st) := read_results pipe k false in
  [0; 0; passes k1; failures k1; skips k1; exceptions k1; Z.of_nat (List.length rest); 0; 0; 1].
