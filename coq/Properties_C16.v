(* C16 — Mock clauses bind to the argument with the same name, however it is written. *)
From Coq Require Import List NArith ZArith Bool.
From CgreenVerif Require Import Params Lemmas_Params Examples_Params.
Import ListNotations.
Local Open Scope N_scope.

(* For every arity >= 1 and every spelling of the argument list - any blanks (spaces, tabs, line
   breaks, any number of them) before and after each comma, each argument a bare identifier or
   box_double<blanks>(<blanks>identifier<blanks>) - the names, the double markers and the
   parameter count the mock engine derives from the stringified list are exactly the
   identifiers, the wrapped flags and the arity.  Identifiers are any non-empty strings free
   of blanks, commas and parentheses (so prefixes / suffixes of one another, d, box_double_x
   are all included). *)
Theorem C16_names_recovered :
  forall first rest, wf_arg first -> wf_rest rest ->
    names (render first rest) = a_id first :: map (fun sa => a_id (snd sa)) rest /\
    markers (render first rest) = a_wrapped first :: map (fun sa => a_wrapped (snd sa)) rest /\
    count_params (render first rest) = S (length rest).
Proof. exact spelling_recovered. Qed.
Print Assumptions C16_names_recovered.

(* a clause (when / output parameter / capture) naming the j-th identifier is applied to
   exactly the j-th actual, once, for distinct identifiers at any position *)
Theorem C16_binds_position :
  forall first rest actuals j p v,
    wf_arg first -> wf_rest rest -> NoDup (all_names first rest) ->
    length actuals = count_params (render first rest) ->
    nth_error (all_names first rest) j = Some p -> nth_error actuals j = Some v ->
    bind_clause (render first rest) actuals p = Applied [v].
Proof. exact clause_binds_position. Qed.
Print Assumptions C16_binds_position.

(* a name that does not occur in the argument list: reported as not found; nothing is applied
   and no actual beyond the argument list is read *)
Theorem C16_absent_name_fails :
  forall first rest actuals p,
    wf_arg first -> wf_rest rest -> length actuals = count_params (render first rest) ->
    ~ In p (all_names first rest) -> bind_clause (render first rest) actuals p = NotFound.
Proof. exact absent_name_is_reported. Qed.
Print Assumptions C16_absent_name_fails.

(* arity 0 *)
Theorem C16_no_arguments :
  names [] = [] /\ markers [] = [] /\ count_params [] = O /\ forall p, bind_clause [] [] p = NotFound.
Proof. exact no_arguments. Qed.
Print Assumptions C16_no_arguments.
