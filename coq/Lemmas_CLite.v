(* Lemmas_CLite.v - unfolding equations of the CLite interpreter and the tactics with which the
   refinement proofs (Lemmas_Code_*.v) run translated programs symbolically, one construct at a
   time.  The interpreter itself is never unfolded by cbn/simpl in those proofs. *)
From Coq Require Import List ZArith Bool String Lia.
From CgreenVerif Require Import CLite.
Import ListNotations.
Local Open Scope string_scope.
Local Open Scope list_scope.
Local Open Scope Z_scope.

Lemma bindr_ok {A B} (a : A) (k : A -> cres B) : bindr (Fine a) k = k a.
Proof. reflexivity. Qed.
Lemma bindr_stuck {A B} s (k : A -> cres B) : bindr (Stuck s) k = Stuck s.
Proof. reflexivity. Qed.

Section Eqs.
Variable call : string -> list val -> world -> cres (val * world).

Lemma eval_const z l w : eval call (EConst z) l w = Fine (VInt z, w). Proof. reflexivity. Qed.
Lemma eval_str s l w : eval call (EStr s) l w = Fine (VLit s, w). Proof. reflexivity. Qed.
Lemma eval_var x l w : eval call (EVar x) l w =
  match alookup x l with Some v => Fine (v, w) | None => Stuck ("local " ++ x ++ " read before it is assigned")%string end.
Proof. reflexivity. Qed.
Lemma eval_glob x l w : eval call (EGlob x) l w =
  match alookup x (globs w) with Some v => Fine (v, w) | None => Stuck ("unknown global " ++ x)%string end.
Proof. reflexivity. Qed.
Lemma eval_fun f l w : eval call (EFun f) l w = Fine (VFun f, w). Proof. reflexivity. Qed.
Lemma eval_field e f l w : eval call (EField e f) l w =
  do vw <- eval call e l w; do x <- get_field (snd vw) (fst vw) f; Fine (x, snd vw).
Proof. reflexivity. Qed.
Lemma eval_load t e l w : eval call (ELoad t e) l w =
  do vw <- eval call e l w; do b <- load_byte (snd vw) (fst vw); Fine (VInt (wrap t b), snd vw).
Proof. reflexivity. Qed.
Lemma eval_index a i l w : eval call (EIndex a i) l w =
  do vw <- eval call a l w; do iw <- eval call i l (snd vw);
  do bl <- get_vec (snd iw) (fst vw);
  match fst iw with
  | VInt n => if (0 <=? n) && (n <? Z.of_nat (List.length (snd bl))) then Fine (nth (Z.to_nat n) (snd bl) (VInt 0), snd iw)
              else Stuck "array index outside the array"
  | _ => Stuck "array index is not an integer"
  end.
Proof. reflexivity. Qed.
Lemma eval_un o e l w : eval call (EUn o e) l w =
  do vw <- eval call e l w;
  match o, fst vw with
  | ONeg, VInt z => Fine (VInt (- z), snd vw)
  | ONot, v => Fine (bool_val (negb (truthy v)), snd vw)
  | OBitNot, VInt z => Fine (VInt (- z - 1), snd vw)
  | _, _ => Stuck "unary operator on a pointer"
  end.
Proof. reflexivity. Qed.
Lemma eval_and a b l w : eval call (EBin OAnd a b) l w =
  do vw <- eval call a l w;
  if truthy (fst vw) then (do vw2 <- eval call b l (snd vw); Fine (bool_val (truthy (fst vw2)), snd vw2))
  else Fine (VInt 0, snd vw).
Proof. reflexivity. Qed.
Lemma eval_or a b l w : eval call (EBin OOr a b) l w =
  do vw <- eval call a l w;
  if truthy (fst vw) then Fine (VInt 1, snd vw)
  else (do vw2 <- eval call b l (snd vw); Fine (bool_val (truthy (fst vw2)), snd vw2)).
Proof. reflexivity. Qed.
Lemma eval_bin o a b l w : o <> OAnd -> o <> OOr -> eval call (EBin o a b) l w =
  do vw <- eval call a l w; do vw2 <- eval call b l (snd vw);
  do r <- arith o (fst vw) (fst vw2); Fine (r, snd vw2).
Proof. destruct o; intros; try reflexivity; congruence. Qed.
Lemma eval_arith t e l w : eval call (EArith t e) l w =
  do vw <- eval call e l w;
  match fst vw with
  | VInt z => if ity_signed t then (if in_range t z then Fine (VInt z, snd vw) else Stuck "signed overflow")
              else Fine (VInt (wrap t z), snd vw)
  | v => Fine (v, snd vw)
  end.
Proof. reflexivity. Qed.
Lemma eval_cast t e l w : eval call (ECast t e) l w =
  do vw <- eval call e l w;
  match fst vw with
  | VInt z => Fine (VInt (wrap t z), snd vw)
  | v => match t with IBool => Fine (bool_val (truthy v), snd vw) | _ => Fine (v, snd vw) end
  end.
Proof. reflexivity. Qed.
Lemma eval_cond c a b l w : eval call (ECond c a b) l w =
  do vw <- eval call c l w; if truthy (fst vw) then eval call a l (snd vw) else eval call b l (snd vw).
Proof. reflexivity. Qed.

Lemma eval_list_fix args l : forall w,
  (fix evs (es : list expr) (w : world) : cres (list val * world) :=
     match es with
     | [] => Fine ([], w)
     | e1 :: es' => do vw <- eval call e1 l w; do rw <- evs es' (snd vw); Fine (fst vw :: fst rw, snd rw)
     end) args w = eval_list call args l w.
Proof.
  induction args as [|a args IH]; intro w; [reflexivity|].
  cbn [eval_list]. destruct (eval call a l w) as [vw| |]; [|reflexivity|reflexivity].
  cbn [bindr]. rewrite IH. reflexivity.
Qed.
Lemma eval_call f args l w : eval call (ECall f args) l w =
  do aw <- eval_list call args l w; call f (fst aw) (snd aw).
Proof. cbn [eval]. rewrite eval_list_fix. reflexivity. Qed.
Lemma eval_callptr fe label args l w : eval call (ECallPtr fe label args) l w =
  do fw <- eval call fe l w;
  do aw <- eval_list call args l (snd fw);
  match fst fw with
  | VFun f => call f (fst aw) (snd aw)
  | VInt 0 => Stuck ("call through the NULL pointer " ++ label)%string
  | _ => external label (fst aw) (snd aw)
  end.
Proof. cbn [eval]. destruct (eval call fe l w) as [fw| |]; [|reflexivity|reflexivity].
       cbn [bindr]. rewrite eval_list_fix. reflexivity. Qed.
Lemma eval_list_nil l w : eval_list call [] l w = Fine ([], w). Proof. reflexivity. Qed.
Lemma eval_list_cons e es l w : eval_list call (e :: es) l w =
  do vw <- eval call e l w; do rw <- eval_list call es l (snd vw); Fine (fst vw :: fst rw, snd rw).
Proof. reflexivity. Qed.

Lemma assign_var x v l w : assign call (LVar x) v l w = Fine (aset x v l, w). Proof. reflexivity. Qed.
Lemma assign_glob x v l w : assign call (LGlob x) v l w = Fine (l, set_globs (aset x v (globs w)) w). Proof. reflexivity. Qed.
Lemma assign_field e f v l w : assign call (LField e f) v l w =
  do pw <- eval call e l w; do w' <- set_field (snd pw) (fst pw) f v; Fine (l, w').
Proof. reflexivity. Qed.
Lemma assign_store t e v l w : assign call (LStore t e) v l w =
  do pw <- eval call e l w;
  match v with
  | VInt z => do w' <- store_bytes (snd pw) (fst pw) [wrap U8 z]; Fine (l, w')
  | _ => Stuck "storing a pointer into bytes"
  end.
Proof. reflexivity. Qed.
End Eqs.

Section ExecEqs.
Variable prog : list (string * fundef).
Notation callf n := (mk_call prog (cexec prog n)).

Lemma exec_0 s l w : cexec prog 0 s l w = NoFuel. Proof. reflexivity. Qed.
Lemma exec_skip n l w : cexec prog (S n) SSkip l w = Fine (FNormal, l, w). Proof. reflexivity. Qed.
Lemma exec_assign n lv e l w : cexec prog (S n) (SAssign lv e) l w =
  do vw <- eval (callf n) e l w; do lw <- assign (callf n) lv (fst vw) l (snd vw); Fine (FNormal, fst lw, snd lw).
Proof. reflexivity. Qed.
Lemma exec_expr n e l w : cexec prog (S n) (SExpr e) l w =
  do vw <- eval (callf n) e l w; Fine (FNormal, l, snd vw).
Proof. reflexivity. Qed.
Lemma exec_seq n a b l w : cexec prog (S n) (SSeq a b) l w =
  do r <- cexec prog (S n) a l w;
  match r with
  | (FNormal, l1, w1) => cexec prog (S n) b l1 w1
  | other => Fine other
  end.
Proof. reflexivity. Qed.
Lemma exec_if n c a b l w : cexec prog (S n) (SIf c a b) l w =
  do vw <- eval (callf n) c l w;
  if truthy (fst vw) then cexec prog (S n) a l (snd vw) else cexec prog (S n) b l (snd vw).
Proof. reflexivity. Qed.
Lemma exec_loop n c body incr l w : cexec prog (S n) (SLoop c body incr) l w =
  do vw <- eval (callf n) c l w;
  if truthy (fst vw) then
    do r <- cexec prog (S n) body l (snd vw);
    match r with
    | (FBreak, l1, w1) => Fine (FNormal, l1, w1)
    | (FReturn v, l1, w1) => Fine (FReturn v, l1, w1)
    | (_, l1, w1) =>
        do r2 <- cexec prog (S n) incr l1 w1;
        match r2 with
        | (FNormal, l2, w2) => cexec prog n (SLoop c body incr) l2 w2
        | other => Fine other
        end
    end
  else Fine (FNormal, l, snd vw).
Proof. reflexivity. Qed.
Lemma exec_break n l w : cexec prog (S n) SBreak l w = Fine (FBreak, l, w). Proof. reflexivity. Qed.
Lemma exec_continue n l w : cexec prog (S n) SContinue l w = Fine (FContinue, l, w). Proof. reflexivity. Qed.
Lemma exec_return_none n l w : cexec prog (S n) (SReturn None) l w = Fine (FReturn (VInt 0), l, w). Proof. reflexivity. Qed.
Lemma exec_return n e l w : cexec prog (S n) (SReturn (Some e)) l w =
  do vw <- eval (callf n) e l w; Fine (FReturn (fst vw), l, snd vw).
Proof. reflexivity. Qed.
End ExecEqs.

Global Opaque cexec.

Global Hint Rewrite @bindr_ok @bindr_stuck
  eval_const eval_str eval_var eval_glob eval_fun eval_field eval_load eval_un eval_and eval_or
  eval_arith eval_cast eval_cond eval_call eval_callptr eval_list_nil eval_list_cons
  assign_var assign_glob assign_field assign_store
  exec_skip exec_assign exec_expr exec_seq exec_if exec_break exec_continue exec_return_none exec_return
  : clite.
Global Hint Rewrite eval_bin using congruence : clite.

(* ground integer sub-terms are computed; symbolic ones are never unfolded *)
Ltac is_ground_z t :=
  lazymatch t with
  | Z0 => idtac | Zpos ?p => is_ground_pos p | Zneg ?p => is_ground_pos p
  | _ => fail
  end
with is_ground_pos p :=
  lazymatch p with
  | xH => idtac | xO ?q => is_ground_pos q | xI ?q => is_ground_pos q
  | _ => fail
  end.

Ltac zground1 :=
  match goal with
  | |- context [Z.eqb ?a ?b] => is_ground_z a; is_ground_z b; let r := eval vm_compute in (Z.eqb a b) in change (Z.eqb a b) with r
  | |- context [Z.ltb ?a ?b] => is_ground_z a; is_ground_z b; let r := eval vm_compute in (Z.ltb a b) in change (Z.ltb a b) with r
  | |- context [Z.leb ?a ?b] => is_ground_z a; is_ground_z b; let r := eval vm_compute in (Z.leb a b) in change (Z.leb a b) with r
  | |- context [Z.gtb ?a ?b] => is_ground_z a; is_ground_z b; let r := eval vm_compute in (Z.gtb a b) in change (Z.gtb a b) with r
  | |- context [Z.geb ?a ?b] => is_ground_z a; is_ground_z b; let r := eval vm_compute in (Z.geb a b) in change (Z.geb a b) with r
  | |- context [Z.add ?a ?b] => is_ground_z a; is_ground_z b; let r := eval vm_compute in (Z.add a b) in change (Z.add a b) with r
  | |- context [Z.sub ?a ?b] => is_ground_z a; is_ground_z b; let r := eval vm_compute in (Z.sub a b) in change (Z.sub a b) with r
  | |- context [Z.opp ?a] => is_ground_z a; let r := eval vm_compute in (Z.opp a) in change (Z.opp a) with r
  | |- context [wrap ?t ?a] => is_ground_z a; let r := eval vm_compute in (wrap t a) in change (wrap t a) with r
  | |- context [in_range ?t ?a] => is_ground_z a; let r := eval vm_compute in (in_range t a) in change (in_range t a) with r
  end.
Ltac zground := repeat zground1.

Lemma in_range_I64 z : -9223372036854775808 <= z <= 9223372036854775807 -> in_range I64 z = true.
Proof. intro H. unfold in_range, ity_range. apply andb_true_intro; split; apply Z.leb_le; lia. Qed.

Lemma in_range_I32 z : -2147483648 <= z <= 2147483647 -> in_range I32 z = true.
Proof. intro H. unfold in_range, ity_range. apply andb_true_intro; split; apply Z.leb_le; lia. Qed.

(* Running a translated program symbolically.  One step either computes the expression (or
   assignment) that is next to be evaluated - by cbv over the interpreter's own helper functions
   only, so integer operations on symbolic values are never unfolded - or unfolds the statement
   that is next to be executed by its equation.  A condition that depends on symbolic data stops
   the run; the proof supplies the fact and goes on. *)
Ltac ev1 :=
  match goal with
  | |- context [eval ?c ?e ?l ?w] =>
      let r := eval cbv [eval eval_list assign bindr fst snd alookup aset String.eqb Ascii.eqb Bool.eqb truthy bool_val negb andb orb
       arith heap globs streams wtrace set_heap set_globs
       ity_signed Nat.eqb alloc] in (eval c e l w) in change (eval c e l w) with r
  | |- context [assign ?c ?lv ?v ?l ?w] =>
      let r := eval cbv [eval eval_list assign bindr fst snd alookup aset String.eqb Ascii.eqb Bool.eqb truthy bool_val negb andb orb
       arith heap globs streams wtrace set_heap set_globs
       ity_signed Nat.eqb alloc] in (assign c lv v l w) in change (assign c lv v l w) with r
  end.

(* a call whose arguments are values: of a function that is not translated -> its meaning in
   CLite.builtin; a call of a translated function is left for the proof (rewrite with its lemma) *)
Ltac callstep prg :=
  match goal with
  | |- context [mk_call ?p ?r ?f ?args ?w] =>
      let o := eval cbv [find_fun alookup String.eqb Ascii.eqb Bool.eqb prg] in (find_fun f p) in
      lazymatch o with
      | None =>
          let b := eval cbv [builtin external pop_stream bindr fst snd alookup aset String.eqb Ascii.eqb Bool.eqb
                             heap globs streams wtrace set_heap Nat.eqb ranges_overlap
                             alloc] in (builtin f args w) in
          change (mk_call p r f args w) with b
      end
  end.

(* the helpers that look into the heap are evaluated as a whole, and only when they compute to a result
   (when the object they need is behind a symbolic index the proof rewrites with one of the lemmas below) *)
Lemma get_field_rec w b fs f :
  nth_error (heap w) b = Some (ORec fs) ->
  get_field w (VPtr b 0) f = match alookup f fs with Some x => Fine x | None => Stuck ("no field " ++ f)%string end.
Proof. intro H. unfold get_field. rewrite H. reflexivity. Qed.
Lemma set_field_rec w b fs f x :
  nth_error (heap w) b = Some (ORec fs) ->
  set_field w (VPtr b 0) f x = Fine (set_heap (list_set b (ORec (aset f x fs)) (heap w)) w).
Proof. intro H. unfold set_field. rewrite H. reflexivity. Qed.
Lemma get_vec_vec w b l :
  nth_error (heap w) b = Some (OVec l) -> get_vec w (VPtr b 0) = Fine (b, l).
Proof. intro H. unfold get_vec. rewrite H. reflexivity. Qed.

Lemma val_eq_int x y : val_eq (VInt x) (VInt y) = Fine (x =? y).
Proof. destruct x, y; reflexivity. Qed.

Ltac is_result t := lazymatch t with Fine _ => idtac | Stuck _ => idtac end.
Ltac hstep :=
  match goal with
  | |- context [get_field ?w ?v ?f] =>
      let r := eval cbv [get_field nth_error heap alookup String.eqb Ascii.eqb Bool.eqb] in (get_field w v f) in
      is_result r; change (get_field w v f) with r
  | |- context [set_field ?w ?v ?f ?x] =>
      let r := eval cbv [set_field nth_error heap set_heap globs streams wtrace list_set aset String.eqb Ascii.eqb Bool.eqb] in (set_field w v f x) in
      is_result r; change (set_field w v f x) with r
  | |- context [get_vec ?w ?v] =>
      let r := eval cbv [get_vec nth_error heap] in (get_vec w v) in
      is_result r; change (get_vec w v) with r
  | |- context [cstring ?w (VLit ?l)] => change (cstring w (VLit l)) with (@Fine (list Z) l)
  | |- context [val_eq (VInt ?x) (VInt ?y)] => rewrite (val_eq_int x y)
  | |- context [val_eq ?a ?b] =>
      let r := eval cbv [val_eq Nat.eqb String.eqb Ascii.eqb Bool.eqb andb] in (val_eq a b) in
      is_result r; change (val_eq a b) with r
  end.

Ltac exhead :=
  match goal with
  | |- context [cexec ?p (S ?n) ?s ?l ?w] =>
      lazymatch s with
      | SSeq _ _ => rewrite (exec_seq p n)
      | SIf _ _ _ => rewrite (exec_if p n)
      | SAssign _ _ => rewrite (exec_assign p n)
      | SExpr _ => rewrite (exec_expr p n)
      | SSkip => rewrite (exec_skip p n)
      | SBreak => rewrite (exec_break p n)
      | SContinue => rewrite (exec_continue p n)
      | SReturn None => rewrite (exec_return_none p n)
      | SReturn (Some _) => rewrite (exec_return p n)
      end
  end.
Lemma truthy_if (c : bool) : negb ((if c then 1 else 0) =? 0) = c.
Proof. destruct c; reflexivity. Qed.
Ltac ctidy := repeat (progress (cbn [bindr fst snd truthy bool_val negb andb orb app List.length nth_error list_set]; zground));
              rewrite ?truthy_if.
(* a condition on symbolic data is waiting: the proof has to decide it before the run goes on *)
Ltac has_if := match goal with |- ?L = _ => match L with context [if ?c then _ else _] => lazymatch c with truthy _ => fail | _ => idtac end end end.
Ltac sstep prg := tryif has_if then fail else (first [ hstep | callstep prg | ev1 | exhead ]; ctidy).
Ltac srun prg := ctidy; repeat (sstep prg).
