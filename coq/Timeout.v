(* Timeout.v — the per-test time limit on top of the runner model (Runner.v).
   A test that is still running when its alarm goes off is a process that ends, at whatever
   index k of its step list it has reached, through the alarm handler: exit(timeout_exit_status)
   (translated from src/posix_runner_platform.c).  So "overruns at any state" is
   `with_kill t k (Exit timeout_exit_status)` for any k.  Time itself is not modelled: whether a
   test overruns is an input (delivery of SIGALRM and the wall clock are the kernel's).
   The environment variable is parsed by timeout_parse_src and validated by timeout_invalid_src
   (both translated from src/runner.c). *)
From Coq Require Import List ZArith NArith Bool.
From CgreenVerif Require Import Defs CStr Runner.
From CgreenVerif.Gen Require Import Facts.
Import ListNotations.
Local Open Scope Z_scope.

Definition timeout_death : death := Exit timeout_exit_status.

(* the test t overrunning while at step k of its path *)
Definition overrun (t : test) (k : nat) : test :=
  mktest (tid t) (tskip t) (tctx_setup t) (tctx_teardown t) (tsetup t) (tbody t) (tteardown t) (Some (k, timeout_death)).

(* CGREEN_PER_TEST_TIMEOUT: None = not set *)
Definition setting_accepted (v : option (list N)) : bool :=
  match v with None => true | Some s => negb (timeout_invalid_src (timeout_parse_src s)) end.

Inductive env_result := Aborted (status : Z) | Ran (r : result).

(* run_test_suite() / run_single_test(): the value is validated before anything runs *)
Definition run_suite_env (v : option (list N)) rk vexpr m cap n : env_result :=
  if timeout_validated_before_run && negb (setting_accepted v) then Aborted die_exit_status
  else Ran (run_suite rk vexpr m cap n).
Definition run_single_env (v : option (list N)) rk vexpr cap name n : env_result :=
  if timeout_validated_before_run && negb (setting_accepted v) then Aborted die_exit_status
  else Ran (run_single rk vexpr cap name n).

Definition env_exit_ok (r : env_result) : bool :=
  match r with Aborted st => st =? 0 | Ran r' => exit_ok r' end.
