(* Params.v — executable model of how a mock's stringified argument list is split into
   parameter names (src/parameters.c: create_vector_of_names,
   create_vector_of_double_markers_for; src/mocks.c: number_of_parameters_in) and how a clause
   naming a parameter is bound to an actual (src/mocks.c: mock_; src/constraint.c:
   constraint_is_for_parameter_in, constraint_is_not_for_parameter).
   Strings are lists of bytes.  Hand-written model (loops), validated against the real functions
   on generated and malformed strings by the correspondence run.  No proofs here. *)
From Coq Require Import List NArith ZArith Bool Arith.
Import ListNotations.
Local Open Scope N_scope.

Definition is_space (c : N) : bool := (c =? 32) || ((9 <=? c) && (c <=? 13)).    (* isspace() in the C locale *)
Definition is_sep (c : N) : bool := is_space c || (c =? 44).                       (* whitespace or ',' *)
Definition lparen : N := 40.
Definition rparen : N := 41.
Definition BOX : list N := [98; 111; 120; 95; 100; 111; 117; 98; 108; 101].       (* "box_double" *)
Definition DD : list N := [100].                                                   (* "d" *)

Fixpoint drop_spaces (s : list N) : list N :=
  match s with c :: r => if is_space c then drop_spaces r else s | [] => [] end.
Definition next_is_paren (r : list N) : bool :=
  match drop_spaces r with c :: _ => (c =? lparen) || (c =? rparen) | [] => false end.
Definition prev_is_lparen (p : option N) : bool := match p with Some c => c =? lparen | None => false end.

(* remove_whitespace_around_parentheses(): a whitespace character is dropped when the next
   non-blank character is a parenthesis or the last character kept is '(' *)
Fixpoint compact (s : list N) (prev : option N) : list N :=
  match s with
  | [] => []
  | c :: r => if is_space c && (next_is_paren r || prev_is_lparen prev) then compact r prev
              else c :: compact r (Some c)
  end.

(* tokenise_by_commas_and_whitespace() + the token loop: maximal runs of non-separators.
   cur = the current token reversed ([] = none open) *)
Fixpoint toks (s : list N) (cur : list N) : list (list N) :=
  match s with
  | [] => match cur with [] => [] | _ => [rev cur] end
  | c :: r => if is_sep c then match cur with [] => toks r [] | _ => rev cur :: toks r [] end
              else toks r (c :: cur)
  end.
Definition ends_with_sep (s : list N) : bool := match rev s with c :: _ => is_sep c | [] => false end.
(* the loop runs while token < end: a list ending in a separator yields one more, empty, token *)
Definition raw_tokens (s : list N) : list (list N) :=
  let t := compact s None in toks t [] ++ (if ends_with_sep t then [[]] else []).

Fixpoint list_eqb (a b : list N) : bool :=
  match a, b with
  | [], [] => true
  | x :: a', y :: b' => (x =? y) && list_eqb a' b'
  | _, _ => false
  end.
(* begins_with(): strncmp(beginning, token, strlen(beginning)) == 0 *)
Definition begins_with (tok pre : list N) : bool := list_eqb (firstn (length pre) tok) pre.
(* strip_function_from(): fname(x) -> x *)
Definition strip_fn (tok fname : list N) : list N :=
  if begins_with tok fname && (nth (length fname) tok 0 =? lparen) && (last tok 0 =? rparen)
  then removelast (skipn (S (length fname)) tok) else tok.

Definition names (s : list N) : list (list N) := map (fun t => strip_fn (strip_fn t BOX) DD) (raw_tokens s).
Definition markers (s : list N) : list bool := map (fun t => begins_with t (BOX ++ [lparen])) (raw_tokens s).
(* number_of_parameters_in(): commas + 1 on the string as written *)
Definition count_params (s : list N) : nat :=
  match s with [] => O | _ => S (length (filter (fun c => c =? 44) s)) end.

(* ---- binding a clause to an actual (mock_) ---- *)
Inductive outcome := Applied (vals : list Z) | NotFound | Crash.

Fixpoint marker_beyond (ms : list bool) (n : nat) : bool :=    (* a `true` marker at an index >= n *)
  match ms, n with
  | [], _ => false
  | m :: r, O => m || marker_beyond r O
  | _ :: r, S n' => marker_beyond r n'
  end.

(* `actuals` are the values collected from the variadic call (count_params s of them); the
   clause names parameter p.  Order as in mock_(): boxed-double conversion, the name check with
   its early return, then one pass over the names reading the actual at the same index. *)
Definition bind_clause (s : list N) (actuals : list Z) (p : list N) : outcome :=
  let ns := names s in
  if marker_beyond (markers s) (length actuals) then Crash
  else if negb (existsb (list_eqb p) ns) then NotFound
  else if (length actuals <? length ns)%nat then Crash
  else Applied (map snd (filter (fun nv => list_eqb (fst nv) p) (combine ns actuals))).
