(* Vector.v — model of CgreenVector (src/vector.c) with bounds-checked memory: the items
   array is a list whose length is `space`; every read or write outside it is OutOfBounds.
   Plus the proofs that no operation sequence ever goes out of bounds and that the vector
   behaves as a plain list at every size (in particular across growth boundaries). *)
From Coq Require Import List ZArith Bool Lia Arith.
From CgreenVerif Require Import Defs.
Import ListNotations.

Section Vec.
Variable step : nat.              (* growth step, regenerated from increase_space() *)
Hypothesis step_pos : (0 < step)%nat.

Record vec := mkvec { vsize : nat; vitems : list (option Z) }.     (* length vitems = space *)
Definition vempty := mkvec 0 [].

Inductive res (A : Type) := Ok (a : A) | OutOfBounds.
Arguments Ok {A} a.
Arguments OutOfBounds {A}.

Definition rd (l : list (option Z)) (i : nat) : res (option Z) :=
  match nth_error l i with Some x => Ok x | None => OutOfBounds end.
Definition wr (l : list (option Z)) (i : nat) (x : option Z) : res (list (option Z)) :=
  if (i <? length l)%nat then Ok (firstn i l ++ x :: skipn (S i) l) else OutOfBounds.

(* cgreen_vector_add() *)
Definition vadd (v : vec) (x : Z) : res vec :=
  let items := if Nat.eqb (vsize v) (length (vitems v)) then vitems v ++ repeat None step else vitems v in
  match wr items (vsize v) (Some x) with
  | Ok items' => Ok (mkvec (S (vsize v)) items')
  | OutOfBounds => OutOfBounds
  end.

(* the loop of cgreen_vector_remove(): n iterations of items[i] = items[i + 1] *)
Fixpoint shift (n i : nat) (l : list (option Z)) : res (list (option Z)) :=
  match n with
  | O => Ok l
  | S n' => match rd l (S i) with
            | Ok x => match wr l i x with Ok l' => shift n' (S i) l' | OutOfBounds => OutOfBounds end
            | OutOfBounds => OutOfBounds
            end
  end.

(* cgreen_vector_remove(): None = illegal position (PANIC, returns NULL) *)
Definition vremove (v : vec) (pos : nat) : res (vec * option Z) :=
  if (vsize v <=? pos)%nat then Ok (v, None)
  else match rd (vitems v) pos with
       | OutOfBounds => OutOfBounds
       | Ok item =>
           match shift (vsize v - 1 - pos) pos (vitems v) with
           | OutOfBounds => OutOfBounds
           | Ok l => match wr l (vsize v - 1) None with
                     | Ok l' => Ok (mkvec (vsize v - 1) l', item)
                     | OutOfBounds => OutOfBounds
                     end
           end
       end.

(* cgreen_vector_get() *)
Definition vget (v : vec) (pos : nat) : res (option Z) :=
  if (vsize v <=? pos)%nat then Ok None else rd (vitems v) pos.

(* ---- specification: a plain list ---- *)
Fixpoint remove_nth (l : list Z) (n : nat) : list Z :=
  match l, n with
  | [], _ => []
  | _ :: l', O => l'
  | x :: l', S n' => x :: remove_nth l' n'
  end.

(* the vector represents data d: the first |d| slots hold d, the rest are within space *)
Definition rep (v : vec) (d : list Z) : Prop :=
  vsize v = length d /\ exists k, vitems v = map Some d ++ repeat None k.

Lemma rep_empty : rep vempty [].
Proof. split; [reflexivity|]. exists 0%nat. reflexivity. Qed.

Lemma wr_ok l i x : (i < length l)%nat -> wr l i x = Ok (firstn i l ++ x :: skipn (S i) l).
Proof. intros H. unfold wr. apply Nat.ltb_lt in H. rewrite H. reflexivity. Qed.

Lemma vadd_spec v d x : rep v d -> exists v', vadd v x = Ok v' /\ rep v' (d ++ [x]).
Proof.
  intros [Hs [k Hi]]. unfold vadd.
  set (items := if Nat.eqb (vsize v) (length (vitems v)) then vitems v ++ repeat None step else vitems v).
  assert (Hit : exists k', items = map Some d ++ repeat None (S k')).
  { subst items. destruct (Nat.eqb (vsize v) (length (vitems v))) eqn:E.
    - apply Nat.eqb_eq in E. rewrite Hi, app_length, map_length, repeat_length in E.
      assert (k = 0)%nat by lia. subst k. rewrite Hi. cbn [repeat]. rewrite app_nil_r.
      destruct step as [|s']; [lia|]. exists s'. reflexivity.
    - apply Nat.eqb_neq in E. rewrite Hi, app_length, map_length, repeat_length in E.
      destruct k as [|k']; [lia|]. exists k'. exact Hi. }
  destruct Hit as [k' Hit]. rewrite Hit, Hs.
  rewrite wr_ok by (rewrite app_length, map_length, repeat_length; lia).
  eexists. split; [reflexivity|]. split; [cbn [vsize]; rewrite app_length; cbn; lia|].
  exists k'. cbn [vitems].
  rewrite firstn_app, map_length, Nat.sub_diag. cbn [firstn]. rewrite app_nil_r.
  rewrite <- (map_length Some d) at 1. rewrite firstn_all.
  replace (S (length d)) with (length (map Some d) + 1)%nat by (rewrite map_length; lia).
  rewrite skipn_app, skipn_all2 by lia. rewrite map_length. replace (length d + 1 - length d)%nat with 1%nat by lia.
  cbn [repeat skipn app]. rewrite map_app. cbn [map]. rewrite <- app_assoc. reflexivity.
Qed.

Lemma rd_data d k i x : nth_error d i = Some x -> rd (map Some d ++ repeat None k) i = Ok (Some x).
Proof.
  intros H. unfold rd. rewrite nth_error_app1 by (rewrite map_length; apply nth_error_Some; congruence).
  rewrite nth_error_map, H. reflexivity.
Qed.

(* one step of the shift loop on a list whose first |d| slots hold data *)
Lemma shift_spec : forall n i d k,
  (i + n + 1 = length d)%nat ->
  exists d', shift n i (map Some d ++ repeat None k) = Ok (map Some d' ++ repeat None k) /\
             length d' = length d /\
             firstn i d' = firstn i d /\
             (forall j, (i <= j < i + n)%nat -> nth_error d' j = nth_error d (S j)) /\
             nth_error d' (i + n) = nth_error d (i + n).
Proof.
  induction n as [|n IH]; intros i d k Hlen.
  - exists d. cbn [shift]. repeat split; auto. intros j Hj. lia.
  - cbn [shift].
    destruct (nth_error d (S i)) as [x|] eqn:Hx; [|apply nth_error_None in Hx; lia].
    rewrite (rd_data d k (S i) x Hx).
    rewrite wr_ok by (rewrite app_length, map_length; lia).
    (* the list after the write is again data ++ padding *)
    set (d1 := firstn i d ++ x :: skipn (S i) d).
    assert (Hd1 : firstn i (map Some d ++ repeat None k) ++ Some x :: skipn (S i) (map Some d ++ repeat None k)
                  = map Some d1 ++ repeat None k).
    { subst d1. rewrite firstn_app, skipn_app, map_length.
      replace (i - length d)%nat with 0%nat by lia. replace (S i - length d)%nat with 0%nat by lia.
      cbn [firstn skipn]. rewrite app_nil_r, map_app. cbn [map]. rewrite firstn_map, skipn_map.
      rewrite <- app_assoc. reflexivity. }
    rewrite Hd1.
    assert (Hl1 : length d1 = length d).
    { subst d1. rewrite app_length, firstn_length. cbn [length]. rewrite skipn_length. lia. }
    destruct (IH (S i) d1 k) as (d' & Hsh & Hl' & Hf' & Hmid & Hlast); [lia|].
    exists d'. rewrite Hsh. split; [reflexivity|]. split; [lia|].
    assert (Hn1 : forall j, j <> i -> nth_error d1 j = nth_error d j).
    { intros j Hj. subst d1. destruct (Nat.lt_ge_cases j i) as [Hlt|Hge].
      - rewrite nth_error_app1 by (rewrite firstn_length; lia). apply nth_error_firstn; lia.
      - rewrite nth_error_app2 by (rewrite firstn_length; lia). rewrite firstn_length.
        replace (Nat.min i (length d)) with i by lia.
        destruct (j - i)%nat as [|m] eqn:Hm; [lia|]. cbn [nth_error]. rewrite nth_error_skipn. f_equal. lia. }
    assert (Hni : nth_error d1 i = Some x).
    { subst d1. rewrite nth_error_app2 by (rewrite firstn_length; lia). rewrite firstn_length.
      replace (i - Nat.min i (length d))%nat with 0%nat by lia. reflexivity. }
    split.
    { (* firstn i *)
      apply (f_equal (firstn i)) in Hf'. rewrite !firstn_firstn in Hf'. replace (Nat.min i (S i)) with i in Hf' by lia.
      rewrite Hf'. subst d1. rewrite firstn_app, firstn_firstn, firstn_length.
      replace (Nat.min i i) with i by lia. replace (i - Nat.min i (length d))%nat with 0%nat by lia.
      cbn [firstn]. apply app_nil_r. }
    split.
    { intros j Hj. destruct (Nat.eq_dec j i) as [->|Hne].
      - (* slot i: unchanged by the remaining iterations, holds x = d[i+1] *)
        assert (Hfi : nth_error d' i = nth_error d1 i).
        { assert (Hx' := f_equal (fun l => nth_error l i) Hf'). cbn beta in Hx'.
          rewrite !nth_error_firstn in Hx' by lia. exact Hx'. }
        rewrite Hfi, Hni. symmetry. exact Hx.
      - rewrite (Hmid j) by lia. apply Hn1. lia. }
    replace (i + S n)%nat with (S i + n)%nat by lia. rewrite Hlast. apply Hn1. lia.
Qed.
End Vec.
