(* Vector.v — executable models of cgreen's growable containers with bounds-checked memory:
     CgreenVector (src/vector.c), the TestSuite entry array (src/suite.c: add_test_, add_suite_)
     and the breadcrumb trail (src/breadcrumb.c).
   An array is a list whose length is the allocated element count; every read or write outside
   it is the explicit outcome OutOfBounds (never totalised).  The guards, index expressions and
   growth step are NOT written here: they are the fields of `vsrc`/`ssrc`/`bsrc`, instantiated in
   Gen/Facts.v with the expressions translated from the C sources on every run.
   No proofs in this file (Lemmas_Vector.v), so the model still extracts when a proof breaks. *)
From Coq Require Import List ZArith Bool Lia Arith.
From CgreenVerif Require Import Defs.
Import ListNotations.
Local Open Scope Z_scope.

Inductive res (A : Type) := Ok (a : A) | OutOfBounds | OutOfFuel.
Arguments Ok {A} a.
Arguments OutOfBounds {A}.
Arguments OutOfFuel {A}.

Definition mem := list (option Z).          (* None = NULL / never written *)

Definition rd (l : mem) (i : Z) : res (option Z) :=
  if i <? 0 then OutOfBounds
  else match nth_error l (Z.to_nat i) with Some x => Ok x | None => OutOfBounds end.
Definition wr (l : mem) (i : Z) (x : option Z) : res mem :=
  if i <? 0 then OutOfBounds
  else if (Z.to_nat i <? length l)%nat
       then Ok (firstn (Z.to_nat i) l ++ x :: skipn (S (Z.to_nat i)) l) else OutOfBounds.

(* realloc(items, n elements): keeps the common prefix, new slots are uninitialised (None) *)
Definition realloc (l : mem) (n : Z) : mem :=
  let n' := Z.to_nat n in firstn n' l ++ repeat None (n' - length l).

(* ------------------------------------------------------------------ CgreenVector *)

Record vec := mkvec { vsize : Z; vspace : Z; vitems : mem }.     (* length vitems = space *)
Definition vempty := mkvec 0 0 [].

Section Vec.
Variable S : vsrc.

Definition vadd (v : vec) (x : Z) : res vec :=
  let '(space, items) :=
    if v_must_grow S (vsize v) (vspace v)
    then (vspace v + v_step S, realloc (vitems v) (vspace v + v_step S))
    else (vspace v, vitems v) in
  match wr items (v_add_index S (vsize v)) (Some x) with
  | Ok items' => Ok (mkvec (vsize v + 1) space items')
  | OutOfBounds => OutOfBounds
  | OutOfFuel => OutOfFuel
  end.

(* the loop of cgreen_vector_remove() *)
Fixpoint shift_loop (fuel : nat) (size i : Z) (l : mem) : res mem :=
  match fuel with
  | O => OutOfFuel
  | Datatypes.S f =>
      if v_shift_cond S i size then
        match rd l (v_shift_src S i) with
        | Ok x => match wr l (v_shift_dst S i) x with
                  | Ok l' => shift_loop f size (i + 1) l'
                  | OutOfBounds => OutOfBounds | OutOfFuel => OutOfFuel
                  end
        | OutOfBounds => OutOfBounds | OutOfFuel => OutOfFuel
        end
      else Ok l
  end.

(* cgreen_vector_remove(): None = illegal position (PANIC, returns NULL) *)
Definition vremove (v : vec) (pos : Z) : res (vec * option Z) :=
  if v_illegal_remove S pos (vsize v) then Ok (v, None)
  else match rd (vitems v) pos with
       | Ok item =>
           match shift_loop (Datatypes.S (length (vitems v))) (vsize v) pos (vitems v) with
           | Ok l => match wr l (v_clear_index S (vsize v)) None with
                     | Ok l' => Ok (mkvec (vsize v - 1) (vspace v) l', item)
                     | OutOfBounds => OutOfBounds | OutOfFuel => OutOfFuel
                     end
           | OutOfBounds => OutOfBounds | OutOfFuel => OutOfFuel
           end
       | OutOfBounds => OutOfBounds | OutOfFuel => OutOfFuel
       end.

(* cgreen_vector_get() *)
Definition vget (v : vec) (pos : Z) : res (option Z) :=
  if v_illegal_get S pos (vsize v) then Ok None else rd (vitems v) pos.

Inductive vop := VAdd (x : Z) | VRemove (pos : Z) | VGet (pos : Z) | VSize.
Inductive vout := OItem (x : option Z) | OSize (n : Z).

(* run an operation list; outputs in order *)
Fixpoint vrun (v : vec) (ops : list vop) : res (vec * list vout) :=
  match ops with
  | [] => Ok (v, [])
  | VAdd x :: r =>
      match vadd v x with
      | Ok v' => vrun v' r
      | OutOfBounds => OutOfBounds | OutOfFuel => OutOfFuel end
  | VRemove p :: r =>
      match vremove v p with
      | Ok (v', o) => match vrun v' r with Ok (v'', os) => Ok (v'', OItem o :: os)
                                     | OutOfBounds => OutOfBounds | OutOfFuel => OutOfFuel end
      | OutOfBounds => OutOfBounds | OutOfFuel => OutOfFuel end
  | VGet p :: r =>
      match vget v p with
      | Ok o => match vrun v r with Ok (v'', os) => Ok (v'', OItem o :: os)
                               | OutOfBounds => OutOfBounds | OutOfFuel => OutOfFuel end
      | OutOfBounds => OutOfBounds | OutOfFuel => OutOfFuel end
  | VSize :: r =>
      match vrun v r with Ok (v'', os) => Ok (v'', OSize (vsize v) :: os)
                     | OutOfBounds => OutOfBounds | OutOfFuel => OutOfFuel end
  end.
End Vec.

(* ---- specification: a plain list ---- *)
Fixpoint remove_nth (l : list Z) (n : nat) : list Z :=
  match l, n with
  | [], _ => []
  | _ :: l', O => l'
  | x :: l', Datatypes.S n' => x :: remove_nth l' n'
  end.

Definition legal (d : list Z) (p : Z) : bool := (0 <=? p) && (p <? Z.of_nat (length d)).

Fixpoint lrun (d : list Z) (ops : list vop) : list Z * list vout :=
  match ops with
  | [] => (d, [])
  | VAdd x :: r => lrun (d ++ [x]) r
  | VRemove p :: r =>
      if legal d p then let '(d', os) := lrun (remove_nth d (Z.to_nat p)) r in (d', OItem (nth_error d (Z.to_nat p)) :: os)
      else let '(d', os) := lrun d r in (d', OItem None :: os)
  | VGet p :: r =>
      let '(d', os) := lrun d r in
      (d', OItem (if legal d p then nth_error d (Z.to_nat p) else None) :: os)
  | VSize :: r => let '(d', os) := lrun d r in (d', OSize (Z.of_nat (length d)) :: os)
  end.

(* ------------------------------------------------------------------ TestSuite entry array *)
Record sarr := mksarr { ssize : Z; sitems : mem }.
Definition sempty := mksarr 0 [].
(* add_test_ (kind false) and add_suite_ (kind true) each have their own translated source *)
Definition sadd (S : ssrc) (a : sarr) (x : Z) : res sarr :=
  let size' := s_new_size S (ssize a) in
  let items := realloc (sitems a) (s_alloc_count S size') in
  match wr items (s_write_index S size') (Some x) with
  | Ok items' => Ok (mksarr size' items')
  | OutOfBounds => OutOfBounds | OutOfFuel => OutOfFuel
  end.
Fixpoint srun (St Ss : ssrc) (a : sarr) (ops : list (bool * Z)) : res sarr :=
  match ops with
  | [] => Ok a
  | (k, x) :: r => match sadd (if k then Ss else St) a x with
                   | Ok a' => srun St Ss a' r
                   | OutOfBounds => OutOfBounds | OutOfFuel => OutOfFuel end
  end.

(* ------------------------------------------------------------------ breadcrumb trail *)
Record crumb := mkcrumb { cdepth : Z; cspace : Z; ctrail : mem }.
Definition cempty := mkcrumb 0 0 [].
Definition cpush (B : bsrc) (c : crumb) (x : Z) : res crumb :=
  let depth := cdepth c + 1 in
  let '(space, trail) := if b_must_grow B depth (cspace c)
                         then (cspace c + 1, realloc (ctrail c) (cspace c + 1)) else (cspace c, ctrail c) in
  match wr trail (b_push_index B depth) (Some x) with
  | Ok t => Ok (mkcrumb depth space t)
  | OutOfBounds => OutOfBounds | OutOfFuel => OutOfFuel
  end.
Definition cpop (c : crumb) : crumb := mkcrumb (cdepth c - 1) (cspace c) (ctrail c).
Definition ccurrent (B : bsrc) (c : crumb) : res (option Z) :=
  if cdepth c =? 0 then Ok None else rd (ctrail c) (b_current_index B (cdepth c)).
(* ops: Some x = push x, None = pop; after every op the current entry is read *)
Fixpoint crun (B : bsrc) (c : crumb) (ops : list (option Z)) : res (crumb * list (option Z)) :=
  match ops with
  | [] => Ok (c, [])
  | o :: r =>
      match (match o with Some x => cpush B c x | None => Ok (cpop c) end) with
      | Ok c' => match ccurrent B c' with
                 | Ok cur => match crun B c' r with
                             | Ok (c'', outs) => Ok (c'', cur :: outs)
                             | OutOfBounds => OutOfBounds | OutOfFuel => OutOfFuel end
                 | OutOfBounds => OutOfBounds | OutOfFuel => OutOfFuel end
      | OutOfBounds => OutOfBounds | OutOfFuel => OutOfFuel end
  end.
(* the stack the trail stands for *)
Fixpoint stack_run (st : list Z) (ops : list (option Z)) : list (option Z) :=
  match ops with
  | [] => []
  | Some x :: r => Some x :: stack_run (x :: st) r
  | None :: r => hd_error (tl st) :: stack_run (tl st) r
  end.
(* pops never outnumber pushes at any point (the runner's use: push at start, pop at finish) *)
Fixpoint balanced (d : nat) (ops : list (option Z)) : bool :=
  match ops with
  | [] => true
  | Some _ :: r => balanced (Datatypes.S d) r
  | None :: r => match d with O => false | Datatypes.S d' => balanced d' r end
  end.
