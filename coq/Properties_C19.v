(* C19 — Resource failures never turn into a passing verdict. *)
From Coq Require Import List ZArith Bool.
From CgreenVerif Require Import Defs Runner Spec_Runner Lemmas_Runner Faults Lemmas_Faults.
From CgreenVerif.Gen Require Import Facts.
Import ListNotations.
Local Open Scope Z_scope.

(* how the sources answer a failing call, translated on every run: no record is dropped
   silently, every failure while the channel is set up is reported and ends the run, a failed
   fork ends the run, a failed tmpfile ends the run *)
Theorem C19_failures_are_answered_loudly : current_handling = mkhandling false true true true true true.
Proof. exact current_handling_is_loud. Qed.
Print Assumptions C19_failures_are_answered_loudly.

(* for every single fault - fork, pipe, fcntl at set-up, tmpfile, the write of ANY record, ANY
   read (fcntl, read or the allocation in receive), the allocation for ANY record in send - and
   every test that reports a failure among any number of results: the run was aborted with
   failure status, or the failure was counted, or the test counts as an exception.  Never a pass. *)
Theorem C19_single_fault_never_passes : forall f recs,
  regular_msgs recs -> In MFail recs ->
  not_success (under_fault current_handling f (recs ++ [MCompletion])) = true.
Proof. exact single_fault_never_passes. Qed.
Print Assumptions C19_single_fault_never_passes.
