(* The functions of src/reporter.c, translated from the current source on every run (Gen/Code.v),
   compute what the runner model says - for every content of the result pipe.  These theorems tie
   the hand-written model used by C01, C02, C03, C17 and C18 (read_results, base_finish_test,
   base_finish_suite in Runner.v) to the code itself: a change of read_reporter_results(),
   reporter_finish_test() or reporter_finish_suite() changes the programs below, and the proofs
   are re-checked against them.  Statements only; proofs are in Lemmas_Code_Reporter.v. *)
From Coq Require Import List ZArith String Bool.
From CgreenVerif Require Import CLite Runner Lemmas_Code_Reporter.
From CgreenVerif.Gen Require Import Code_reporter.
Import ListNotations.
Local Open Scope string_scope. Local Open Scope list_scope. Local Open Scope Z_scope.

(* read_reporter_results(): counters, rest of the pipe and status are read_results', for any
   pipe content; the function performs no undefined operation (the run is Fine, never Stuck) as long
   as no counter leaves the range of int; whatever lies behind the reporter object in the heap (tl) is untouched *)
Theorem Code_read_reporter_results_is_read_results :
  forall tl pipe k extra tr n,
    (List.length pipe < n)%nat -> bounded k (List.length pipe) ->
    exists tr1,
      Forall is_recv tr1 /\
      run_fun prog_reporter n "read_reporter_results" [VPtr 0 0] (rwt tl k extra pipe tr) =
      (let '(rest, k', st) := read_results pipe k false in
       Fine (VInt (status_code st), rwt tl k' extra rest (tr1 ++ tr))).
Proof. exact read_reporter_results_refines. Qed.
Print Assumptions Code_read_reporter_results_is_read_results.

(* reporter_finish_test(): exactly base_finish_test - the test is shown as skipped iff the status
   is Skipped; it is shown incomplete and counted as one more exception iff no completion notice
   arrived; the breadcrumb is popped last, once *)
Theorem Code_reporter_finish_test_is_base_finish_test :
  forall tl pipe k extra tr n file line message,
    (List.length pipe + 1 < n)%nat -> bounded k (List.length pipe + 1) ->
    exists tr1,
      Forall is_recv tr1 /\
      run_fun prog_reporter n "reporter_finish_test" [VPtr 0 0; file; line; message] (rwt tl k (rep_extra extra) pipe tr) =
      (let '(rest, k1, st) := read_results pipe k false in
       match st with
       | Received =>
           Fine (VInt 0, rwt tl k1 (rep_extra extra) rest ([("pop_breadcrumb", [VInt 77])] ++ tr1 ++ tr))
       | Skipped =>
           Fine (VInt 0, rwt tl k1 (rep_extra extra) rest
                          ([("pop_breadcrumb", [VInt 77]); ("show_skip", [VPtr 0 0; file; line])] ++ tr1 ++ tr))
       | NotReceived =>
           Fine (VInt 0, rwt tl (cadd k1 (mkcnt 0 0 0 1)) (rep_extra extra) rest
                          ([("pop_breadcrumb", [VInt 77]);
                            ("show_incomplete", [VPtr 0 0; file; line; message; VInt 0]);
                            ("memset", [VInt 0; VInt 0; VInt 24])] ++ tr1 ++ tr))
       end).
Proof. exact reporter_finish_test_refines. Qed.
Print Assumptions Code_reporter_finish_test_is_base_finish_test.

Theorem Code_reporter_finish_suite_is_base_finish_suite :
  forall tl pipe k extra tr n file line,
    (List.length pipe + 1 < n)%nat -> bounded k (List.length pipe) ->
    exists tr1,
      Forall is_recv tr1 /\
      run_fun prog_reporter n "reporter_finish_suite" [VPtr 0 0; file; line] (rwt tl k (rep_extra extra) pipe tr) =
      (let '(rest, k1, _) := read_results pipe k false in
       Fine (VInt 0, rwt tl k1 (rep_extra extra) rest ([("pop_breadcrumb", [VInt 77])] ++ tr1 ++ tr))).
Proof. exact reporter_finish_suite_refines. Qed.
Print Assumptions Code_reporter_finish_suite_is_base_finish_suite.

(* what each notification function of the test's side puts on the channel: the record numbers
   the reading side decodes *)
Theorem Code_send_functions_send_the_records_read :
  forall tr n b, (1 < n)%nat ->
    run_fun prog_reporter n "add_reporter_result" [VPtr 0 0; VInt (b2z b)] (sw tr) =
      Fine (VInt 0, sw (("send_cgreen_message", [VInt 9; VInt (code_of (msg_of b))]) :: tr)) /\
    run_fun prog_reporter n "send_reporter_skipped_notification" [VPtr 0 0] (sw tr) =
      Fine (VInt 0, sw (("send_cgreen_message", [VInt 9; VInt (code_of MSkipped)]) :: tr)) /\
    run_fun prog_reporter n "send_reporter_completion_notification" [VPtr 0 0] (sw tr) =
      Fine (VInt 0, sw (("send_cgreen_message", [VInt 9; VInt (code_of MCompletion)]) :: tr)) /\
    run_fun prog_reporter n "send_reporter_exception_notification" [VPtr 0 0] (sw tr) =
      Fine (VInt 0, sw (("send_cgreen_message", [VInt 9; VInt (code_of MException)]) :: tr)).
Proof. exact send_functions_refine. Qed.
Print Assumptions Code_send_functions_send_the_records_read.

(* non-vacuity: a concrete run (two passes, a failure, skip_test(), a pass, the completion
   notice, then a record of the next test) *)
Example Code_read_reporter_results_example :
  run_fun prog_reporter 20 "read_reporter_results" [VPtr 0 0]
          (rw czero [] [MPass; MPass; MFail; MSkipped; MPass; MCompletion; MPass] []) =
  Fine (VInt 1, rw (mkcnt 3 1 1 0) [] [MPass] (repeat recv_ev 6)).
Proof. vm_compute. reflexivity. Qed.
