(* Lemmas_Vector.v — the container models of Vector.v never go out of bounds and behave as
   plain lists / stacks at every size, provided the translated source pieces satisfy their
   one-line specifications (vsrc_ok, ssrc_ok, bsrc_ok); Lemmas_Vector_Facts (bottom of this
   file) proves that the pieces translated from /repo's current sources do. *)
From Coq Require Import List ZArith Bool Lia Arith.
From CgreenVerif Require Import Defs Vector.
From CgreenVerif.Gen Require Import Facts.
Import ListNotations.
Local Open Scope Z_scope.

(* ------------------------------------------------------------------ memory lemmas *)
Lemma rd_app (A B : mem) x i : i = Z.of_nat (length A) -> rd (A ++ x :: B) i = Ok x.
Proof.
  intros ->. unfold rd. destruct (Z.ltb_spec (Z.of_nat (length A)) 0) as [H|_]; [lia|].
  rewrite Nat2Z.id, nth_error_app2 by lia. rewrite Nat.sub_diag. reflexivity.
Qed.

Lemma wr_app (A B : mem) x y i : i = Z.of_nat (length A) -> wr (A ++ x :: B) i y = Ok (A ++ y :: B).
Proof.
  intros ->. unfold wr. destruct (Z.ltb_spec (Z.of_nat (length A)) 0) as [H|_]; [lia|].
  rewrite Nat2Z.id.
  assert (Hlt : (length A <? length (A ++ x :: B))%nat = true).
  { apply Nat.ltb_lt. rewrite app_length. cbn [length]. lia. }
  rewrite Hlt. f_equal.
  rewrite firstn_app, Nat.sub_diag, firstn_all. cbn [firstn]. rewrite app_nil_r. f_equal. f_equal.
  replace (Datatypes.S (length A)) with (length A + 1)%nat by lia.
  rewrite skipn_app. rewrite skipn_all2 by lia.
  replace (length A + 1 - length A)%nat with 1%nat by lia. reflexivity.
Qed.

Lemma realloc_grow (l : mem) n : (length l <= Z.to_nat n)%nat -> realloc l n = l ++ repeat None (Z.to_nat n - length l).
Proof. intros H. unfold realloc. rewrite firstn_all2 by exact H. reflexivity. Qed.

Lemma remove_nth_app (a r : list Z) x : remove_nth (a ++ x :: r) (length a) = a ++ r.
Proof. induction a as [|y a IH]; cbn [app length remove_nth]; [reflexivity|]. rewrite IH. reflexivity. Qed.

Lemma nth_error_mid (a r : list Z) x : nth_error (a ++ x :: r) (length a) = Some x.
Proof. rewrite nth_error_app2 by lia. rewrite Nat.sub_diag. reflexivity. Qed.

Lemma last_cons_dflt (R : mem) X Y : last (Y :: R) X = last R Y.
Proof. revert X Y. induction R as [|Z R IH]; intros X Y; [reflexivity|]. change (last (Y :: Z :: R) X) with (last (Z :: R) X). rewrite (IH X Z), (IH Y Z). reflexivity. Qed.

(* ------------------------------------------------------------------ CgreenVector *)
Record vsrc_ok (S : vsrc) : Prop := {
  ok_step : 0 < v_step S;
  ok_grow : forall size space, v_must_grow S size space = (size =? space);
  ok_addi : forall size, v_add_index S size = size;
  ok_rem : forall p size, v_illegal_remove S p size = (p <? 0) || (size <=? p);
  ok_cond : forall i size, v_shift_cond S i size = (i <? size - 1);
  ok_src : forall i, v_shift_src S i = i + 1;
  ok_dst : forall i, v_shift_dst S i = i;
  ok_clr : forall size, v_clear_index S size = size - 1;
  ok_get : forall p size, v_illegal_get S p size = (p <? 0) || (size <=? p)
}.

(* the vector represents the data d: the first |d| slots hold d, the array is `space` long *)
Definition rep (v : vec) (d : list Z) : Prop :=
  vsize v = Z.of_nat (length d) /\ vspace v = Z.of_nat (length (vitems v)) /\
  exists k, vitems v = map Some d ++ repeat None k.

Lemma rep_empty : rep vempty [].
Proof. repeat split. exists 0%nat. reflexivity. Qed.

Section VecProofs.
Variable S : vsrc.
Hypothesis HS : vsrc_ok S.

(* the loop of cgreen_vector_remove run to completion on A ++ X :: R ++ P, starting at |A|,
   with size = |A| + 1 + |R|: every element of R moves down one slot, the last is duplicated *)
Lemma shift_loop_spec : forall (R : mem) (A P : mem) X fuel,
  (length R < fuel)%nat ->
  shift_loop S fuel (Z.of_nat (length A + 1 + length R)) (Z.of_nat (length A)) (A ++ X :: R ++ P)
  = Ok (A ++ R ++ [last R X] ++ P).
Proof.
  induction R as [|Y R IH]; intros A P X fuel Hf.
  - destruct fuel as [|fuel]; [cbn in Hf; lia|]. cbn [shift_loop].
    rewrite (ok_cond S HS). cbn [length].
    destruct (Z.ltb_spec (Z.of_nat (length A)) (Z.of_nat (length A + 1 + 0) - 1)) as [H|_]; [lia|].
    reflexivity.
  - destruct fuel as [|fuel]; [cbn in Hf; lia|]. cbn [shift_loop].
    rewrite (ok_cond S HS), (ok_src S HS), (ok_dst S HS). cbn [length].
    destruct (Z.ltb_spec (Z.of_nat (length A)) (Z.of_nat (length A + 1 + Datatypes.S (length R)) - 1)) as [_|H]; [|lia].
    replace (A ++ X :: (Y :: R) ++ P) with ((A ++ [X]) ++ Y :: (R ++ P)) by (rewrite <- app_assoc; reflexivity).
    rewrite (rd_app (A ++ [X]) (R ++ P) Y) by (rewrite app_length; cbn [length]; lia).
    rewrite <- app_assoc. cbn [app].
    rewrite (wr_app A (Y :: R ++ P) X Y) by reflexivity.
    replace (A ++ Y :: Y :: R ++ P) with ((A ++ [Y]) ++ Y :: R ++ P) by (rewrite <- app_assoc; reflexivity).
    replace (Z.of_nat (length A) + 1) with (Z.of_nat (length (A ++ [Y]))) by (rewrite app_length; cbn [length]; lia).
    replace (length A + 1 + Datatypes.S (length R))%nat with (length (A ++ [Y]) + 1 + length R)%nat
      by (rewrite app_length; cbn [length]; lia).
    rewrite IH by (cbn [length] in Hf; lia).
    rewrite <- app_assoc. cbn [app]. rewrite (last_cons_dflt R X Y). reflexivity.
Qed.

Lemma vadd_spec v d x : rep v d -> exists v', vadd S v x = Ok v' /\ rep v' (d ++ [x]).
Proof.
  intros (Hs & Hsp & k & Hi). unfold vadd. rewrite (ok_grow S HS), (ok_addi S HS).
  pose proof (ok_step S HS) as Hstep.
  assert (Hlen : length (vitems v) = (length d + k)%nat) by (rewrite Hi, app_length, map_length, repeat_length; reflexivity).
  destruct (Z.eqb_spec (vsize v) (vspace v)) as [E|E].
  - (* full: grow by the step *)
    assert (k = 0)%nat by lia. subst k. cbn [repeat] in Hi. rewrite app_nil_r in Hi.
    rewrite realloc_grow by lia.
    remember (Z.to_nat (vspace v + v_step S) - length (vitems v))%nat as g eqn:Hg.
    destruct g as [|g]; [lia|]. cbn [repeat]. rewrite Hi.
    rewrite (wr_app (map Some d) (repeat None g) None (Some x)) by (rewrite map_length; exact Hs).
    eexists. split; [reflexivity|]. unfold rep. cbn [vsize vspace vitems]. repeat split.
    + rewrite app_length. cbn [length]. lia.
    + rewrite app_length, map_length. cbn [length]. rewrite repeat_length.
      rewrite Hi, map_length in Hg. rewrite Hi, map_length in Hsp. lia.
    + exists g. rewrite map_app. cbn [map]. rewrite <- app_assoc. reflexivity.
  - destruct k as [|k]; [lia|]. cbn [repeat] in Hi. rewrite Hi.
    rewrite (wr_app (map Some d) (repeat None k) None (Some x)) by (rewrite map_length; exact Hs).
    eexists. split; [reflexivity|]. unfold rep. cbn [vsize vspace vitems]. repeat split.
    + rewrite app_length. cbn [length]. lia.
    + rewrite Hsp, Hi, !app_length, !map_length. cbn [length]. reflexivity.
    + exists k. rewrite map_app. cbn [map]. rewrite <- app_assoc. reflexivity.
Qed.

Lemma legal_split d p : legal d p = true ->
  exists a x r, d = a ++ x :: r /\ Z.to_nat p = length a /\ p = Z.of_nat (length a).
Proof.
  unfold legal. intros H. apply andb_prop in H. destruct H as [H0 H1].
  apply Z.leb_le in H0. apply Z.ltb_lt in H1.
  destruct (nth_error d (Z.to_nat p)) as [x|] eqn:Hx; [|apply nth_error_None in Hx; lia].
  apply nth_error_split in Hx. destruct Hx as (a & r & -> & Hl).
  exists a, x, r. repeat split; lia.
Qed.

Lemma vremove_legal v d p : rep v d -> legal d p = true ->
  exists v', vremove S v p = Ok (v', nth_error d (Z.to_nat p)) /\ rep v' (remove_nth d (Z.to_nat p)).
Proof.
  intros (Hs & Hsp & k & Hi) Hl. destruct (legal_split d p Hl) as (a & x & r & -> & Hn & Hp).
  rewrite Hn, nth_error_mid, remove_nth_app.
  unfold vremove. rewrite (ok_rem S HS), (ok_clr S HS).
  rewrite app_length in Hs. cbn [length] in Hs.
  destruct (Z.ltb_spec p 0) as [H|_]; [lia|]. destruct (Z.leb_spec (vsize v) p) as [H|_]; [lia|]. cbn [orb].
  assert (Hmem : vitems v = map Some a ++ Some x :: map Some r ++ repeat None k).
  { rewrite Hi, map_app. cbn [map]. rewrite <- app_assoc. reflexivity. }
  rewrite Hmem. rewrite (rd_app (map Some a) _ (Some x)) by (rewrite map_length; exact Hp).
  replace (vsize v) with (Z.of_nat (length (map Some a) + 1 + length (map Some r))) by (rewrite !map_length; lia).
  replace p with (Z.of_nat (length (map Some a))) by (rewrite map_length; symmetry; exact Hp).
  rewrite shift_loop_spec by (rewrite !app_length; cbn [length]; rewrite app_length; lia).
  replace (map Some a ++ map Some r ++ [last (map Some r) (Some x)] ++ repeat None k)
    with ((map Some a ++ map Some r) ++ last (map Some r) (Some x) :: repeat None k)
    by (rewrite <- app_assoc; reflexivity).
  rewrite (wr_app (map Some a ++ map Some r) (repeat None k) _ None) by (rewrite app_length, !map_length; lia).
  eexists. split; [reflexivity|]. unfold rep. cbn [vsize vspace vitems]. repeat split.
  - rewrite !map_length, app_length. lia.
  - rewrite Hsp, Hmem. rewrite !app_length. cbn [length]. rewrite !app_length. cbn [length]. f_equal. lia.
  - exists (Datatypes.S k). rewrite map_app. cbn [repeat]. reflexivity.
Qed.

Lemma vremove_illegal v d p : rep v d -> legal d p = false -> vremove S v p = Ok (v, None).
Proof.
  intros (Hs & _) Hl. unfold vremove. rewrite (ok_rem S HS), Hs.
  unfold legal in Hl. destruct (Z.ltb_spec p 0) as [H|H]; [reflexivity|].
  destruct (Z.leb_spec (Z.of_nat (length d)) p) as [H'|H']; [reflexivity|].
  exfalso. apply andb_false_iff in Hl. destruct Hl as [Hl|Hl]; [apply Z.leb_gt in Hl|apply Z.ltb_ge in Hl]; lia.
Qed.

Lemma vget_spec v d p : rep v d -> vget S v p = Ok (if legal d p then nth_error d (Z.to_nat p) else None).
Proof.
  intros (Hs & Hsp & k & Hi). unfold vget. rewrite (ok_get S HS), Hs.
  destruct (legal d p) eqn:Hl.
  - destruct (legal_split d p Hl) as (a & x & r & -> & Hn & Hp).
    rewrite app_length. cbn [length].
    destruct (Z.ltb_spec p 0) as [H|_]; [lia|]. destruct (Z.leb_spec (Z.of_nat (length a + Datatypes.S (length r))) p) as [H|_]; [lia|].
    cbn [orb]. rewrite Hi, map_app. cbn [map]. rewrite <- app_assoc. cbn [app].
    rewrite (rd_app (map Some a) _ (Some x)) by (rewrite map_length; exact Hp).
    rewrite Hn, nth_error_mid. reflexivity.
  - unfold legal in Hl. destruct (Z.ltb_spec p 0) as [H|H]; [reflexivity|].
    destruct (Z.leb_spec (Z.of_nat (length d)) p) as [H'|H']; [reflexivity|].
    exfalso. apply andb_false_iff in Hl. destruct Hl as [Hl|Hl]; [apply Z.leb_gt in Hl|apply Z.ltb_ge in Hl]; lia.
Qed.

(* MAIN: every operation sequence, of any length, runs without touching memory outside the
   array, never runs out of fuel, and shows exactly what the plain list shows *)
Theorem vrun_refines_list : forall ops v d, rep v d ->
  exists v', vrun S v ops = Ok (v', snd (lrun d ops)) /\ rep v' (fst (lrun d ops)).
Proof.
  induction ops as [|o ops IH]; intros v d Hrep.
  - exists v. split; [reflexivity|exact Hrep].
  - destruct o as [x|p|p|]; cbn [vrun lrun].
    + destruct (vadd_spec v d x Hrep) as (v1 & -> & Hr1). apply IH. exact Hr1.
    + destruct (legal d p) eqn:Hl.
      * destruct (vremove_legal v d p Hrep Hl) as (v1 & -> & Hr1).
        destruct (IH v1 _ Hr1) as (v2 & -> & Hr2).
        destruct (lrun (remove_nth d (Z.to_nat p)) ops) as [d' os]. exists v2. split; [reflexivity|exact Hr2].
      * rewrite (vremove_illegal v d p Hrep Hl).
        destruct (IH v d Hrep) as (v2 & -> & Hr2).
        destruct (lrun d ops) as [d' os]. exists v2. split; [reflexivity|exact Hr2].
    + rewrite (vget_spec v d p Hrep).
      destruct (IH v d Hrep) as (v2 & -> & Hr2).
      destruct (lrun d ops) as [d' os]. exists v2. split; [reflexivity|exact Hr2].
    + destruct (IH v d Hrep) as (v2 & -> & Hr2).
      destruct Hrep as (Hs & _). rewrite Hs.
      destruct (lrun d ops) as [d' os]. exists v2. split; [reflexivity|exact Hr2].
Qed.
End VecProofs.

(* ------------------------------------------------------------------ TestSuite entry array *)
Record ssrc_ok (S : ssrc) : Prop := {
  sok_size : forall n, s_new_size S n = n + 1;
  sok_count : forall n, s_alloc_count S n = n;
  sok_index : forall n, s_write_index S n = n - 1
}.
Definition srep (a : sarr) (d : list Z) : Prop := ssize a = Z.of_nat (length d) /\ sitems a = map Some d.

Lemma sadd_spec S a d x : ssrc_ok S -> srep a d -> exists a', sadd S a x = Ok a' /\ srep a' (d ++ [x]).
Proof.
  intros HS (Hs & Hi). unfold sadd. rewrite (sok_size S HS), (sok_count S HS), (sok_index S HS).
  rewrite realloc_grow by (rewrite Hi, map_length; lia).
  rewrite Hi, map_length. replace (Z.to_nat (ssize a + 1) - length d)%nat with 1%nat by lia. cbn [repeat].
  rewrite (wr_app (map Some d) [] None (Some x)) by (rewrite map_length; lia).
  eexists. split; [reflexivity|]. split; cbn [ssize sitems].
  - rewrite app_length. cbn [length]. lia.
  - rewrite map_app. reflexivity.
Qed.

(* any interleaving of add_test_ and add_suite_ registrations, of any length *)
Theorem srun_refines_list St Ss : ssrc_ok St -> ssrc_ok Ss -> forall ops a d, srep a d ->
  exists a', srun St Ss a ops = Ok a' /\ srep a' (d ++ map snd ops).
Proof.
  intros Ht Hs. induction ops as [|[k x] ops IH]; intros a d Hr; cbn [srun map snd].
  - exists a. rewrite app_nil_r. split; [reflexivity|exact Hr].
  - destruct (sadd_spec (if k then Ss else St) a d x) as (a1 & -> & Hr1); [destruct k; assumption|exact Hr|].
    destruct (IH a1 _ Hr1) as (a2 & -> & Hr2). exists a2. split; [reflexivity|].
    rewrite <- app_assoc in Hr2. exact Hr2.
Qed.

(* ------------------------------------------------------------------ breadcrumb trail *)
Record bsrc_ok (B : bsrc) : Prop := {
  bok_grow : forall depth space, b_must_grow B depth space = (depth >? space);
  bok_push : forall depth, b_push_index B depth = depth - 1;
  bok_cur : forall depth, b_current_index B depth = depth - 1
}.
(* the trail holds the stack (bottom first) in its first `depth` slots; slots above are stale *)
Definition crep (c : crumb) (st : list Z) : Prop :=
  cdepth c = Z.of_nat (length st) /\ cspace c = Z.of_nat (length (ctrail c)) /\
  exists junk, ctrail c = map Some (rev st) ++ junk.

Lemma cpush_spec B c st x : bsrc_ok B -> crep c st -> exists c', cpush B c x = Ok c' /\ crep c' (x :: st).
Proof.
  intros HB (Hd & Hs & junk & Ht). unfold cpush. rewrite (bok_grow B HB), (bok_push B HB).
  assert (Hlen : length (ctrail c) = (length st + length junk)%nat) by (rewrite Ht, app_length, map_length, rev_length; reflexivity).
  destruct (Z.gtb_spec (cdepth c + 1) (cspace c)) as [G|G].
  - assert (junk = []) by (destruct junk; [reflexivity|cbn [length] in Hlen; lia]). subst junk.
    rewrite app_nil_r in Ht. rewrite realloc_grow by lia.
    replace (Z.to_nat (cspace c + 1) - length (ctrail c))%nat with 1%nat by lia. cbn [repeat]. rewrite Ht.
    rewrite (wr_app (map Some (rev st)) [] None (Some x)) by (rewrite map_length, rev_length; lia).
    eexists. split; [reflexivity|]. unfold crep. cbn [cdepth cspace ctrail length]. repeat split; try lia.
    + rewrite app_length, map_length, rev_length. cbn [length]. rewrite Ht, map_length, rev_length in Hs. lia.
    + exists []. cbn [rev]. rewrite map_app, app_nil_r. reflexivity.
  - destruct junk as [|j junk]; [cbn [length] in Hlen; lia|]. rewrite Ht.
    rewrite (wr_app (map Some (rev st)) junk j (Some x)) by (rewrite map_length, rev_length; lia).
    eexists. split; [reflexivity|]. unfold crep. cbn [cdepth cspace ctrail length]. repeat split; try lia.
    + rewrite Hs, Ht, !app_length. cbn [length]. reflexivity.
    + exists junk. cbn [rev]. rewrite map_app, <- app_assoc. reflexivity.
Qed.

Lemma cpop_spec c x st : crep c (x :: st) -> crep (cpop c) st.
Proof.
  intros (Hd & Hs & junk & Ht). unfold cpop, crep. cbn [cdepth cspace ctrail]. repeat split.
  - cbn [length] in Hd. lia.
  - exact Hs.
  - exists (Some x :: junk). rewrite Ht. cbn [rev]. rewrite map_app, <- app_assoc. reflexivity.
Qed.

Lemma ccurrent_spec B c st : bsrc_ok B -> crep c st -> ccurrent B c = Ok (hd_error st).
Proof.
  intros HB (Hd & Hs & junk & Ht). unfold ccurrent. rewrite (bok_cur B HB).
  destruct st as [|x st].
  - cbn [length] in Hd. rewrite Hd. reflexivity.
  - cbn [length] in Hd. destruct (Z.eqb_spec (cdepth c) 0) as [E|_]; [lia|].
    rewrite Ht. cbn [rev]. rewrite map_app, <- app_assoc. cbn [map app].
    rewrite (rd_app (map Some (rev st)) junk (Some x)) by (rewrite map_length, rev_length; lia).
    reflexivity.
Qed.

(* any sequence of pushes and pops in which pops never outnumber pushes (the runner pushes
   at start_suite/start_test and pops at the matching finish): no access outside the trail,
   and the current entry is always the top of the stack — for every nesting depth *)
Theorem crun_refines_stack B : bsrc_ok B -> forall ops c st, crep c st -> balanced (length st) ops = true ->
  exists c', crun B c ops = Ok (c', stack_run st ops).
Proof.
  intros HB. induction ops as [|o ops IH]; intros c st Hr Hb; cbn [crun stack_run].
  - exists c. reflexivity.
  - destruct o as [x|]; cbn [balanced] in Hb.
    + destruct (cpush_spec B c st x HB Hr) as (c1 & -> & Hr1).
      rewrite (ccurrent_spec B c1 (x :: st) HB Hr1). cbn [hd_error].
      destruct (IH c1 (x :: st) Hr1 Hb) as (c2 & ->). exists c2. reflexivity.
    + destruct st as [|x st]; [cbn [length] in Hb; discriminate|]. cbn [length] in Hb.
      pose proof (cpop_spec c x st Hr) as Hr1.
      rewrite (ccurrent_spec B (cpop c) st HB Hr1). cbn [tl].
      destruct (IH (cpop c) st Hr1 Hb) as (c2 & ->). exists c2. reflexivity.
Qed.

Lemma crep_empty : crep cempty [].
Proof. repeat split. exists []. reflexivity. Qed.
Lemma srep_empty : srep sempty [].
Proof. split; reflexivity. Qed.

(* ------------------------------------------------------------------ the translated sources *)
Ltac src_ok :=
  intros; cbn;
  repeat match goal with
         | |- context [?a <? ?b] => destruct (Z.ltb_spec a b)
         | |- context [?a <=? ?b] => destruct (Z.leb_spec a b)
         | |- context [?a >? ?b] => rewrite (Z.gtb_ltb a b)
         | |- context [?a >=? ?b] => rewrite (Z.geb_leb a b)
         | |- context [?a =? ?b] => destruct (Z.eqb_spec a b)
         end; cbn; try reflexivity; try lia.

Lemma vector_src_ok : vsrc_ok vector_src.
Proof. constructor; try (cbn; lia); src_ok. Qed.
Lemma suite_test_src_ok : ssrc_ok suite_test_src.
Proof. constructor; src_ok. Qed.
Lemma suite_suite_src_ok : ssrc_ok suite_suite_src.
Proof. constructor; src_ok. Qed.
Lemma crumb_src_ok : bsrc_ok crumb_src.
Proof. constructor; src_ok. Qed.
