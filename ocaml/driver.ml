(* driver.ml — runs the extracted Coq models on cases read from stdin, one case per line,
   and prints one canonical result line per case. *)
open Util

let () =
  let sub = if Array.length Sys.argv > 1 then Sys.argv.(1) else "" in
  let handler = match sub with
    | "runner" -> H_runner.runner_case
    | "mocks" -> H_mocks.mocks_case
    | "constraints" -> H_constraints.constraints_case
    | "format" -> H_format.format_case
    | "vector" -> H_vector.vector_case
    | "values" -> H_values.values_case
    | "params" -> H_params.params_case
    | "doubles" -> H_doubles.doubles_case
    | "tool" -> H_tool.tool_case
    | "xml" -> H_xml.xml_case
    | "faults" -> H_faults.faults_case
    | "code" -> H_code.code_case
    | _ -> failwith ("unknown model " ^ sub) in
  (try
    while true do
      let line = input_line stdin in
      let res = (try handler (parse line) with Failure m -> "ERROR " ^ m | Not_found -> "ERROR notfound") in
      print_string res; print_newline ()
    done
  with End_of_file -> ())
