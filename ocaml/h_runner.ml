open Model
type string = Stdlib.String.t   (* Coq's own string type is extracted too (CLite): keep OCaml's here *)
open Util

(* ---------------------------------------------------------------- runner model *)
let death_of = function
  | L [A "sig"; n] -> Signal (zi n)
  | L [A "exit"; n] -> Exit (zi n)
  | _ -> failwith "death"

let mode_of = function "loose" -> Loose | "learning" -> Learning | _ -> Strict

let act_of = function
  | A "skip" -> SkipTest
  | A "expect" -> Expect
  | A "call" -> CallUnexpected
  | L [A "c"; b] -> Check (bi b)
  | L [A "die"; k; n] -> Die (death_of (L [k; n]))
  | L [A "figs"; n] -> SetFigs (zi n)
  | L [A "figscheck"; n] -> FigsCheck (zi n)
  | L [A "mode"; m] -> SetMode (mode_of (atom m))
  | L [A "poke"; n] -> Poke (zi n)
  | L [A "peek"; n] -> Peek (zi n)
  | _ -> failwith "act"

let rec node_of = function
  | L [A "T"; id; skip; cs; ct; su; bo; te; kill] ->
      Tn { tid = ni id; tskip = bi skip; tctx_setup = bi cs; tctx_teardown = bi ct; tsetup = List.map act_of (lst su);
          tbody = List.map act_of (lst bo); tteardown = List.map act_of (lst te);
          tkill = (match kill with A "-" -> None | L [k; d; n] -> Some (ni k, death_of (L [d; n])) | _ -> failwith "kill") }
  | L [A "S"; id; hs; ht; ch] ->
      Sn ({ sid = ni id; s_has_setup = bi hs; s_has_teardown = bi ht }, List.map node_of (lst ch))
  | _ -> failwith "node"

let rk_of = function
  | "text" | "quiet" -> rk_text | "cute" -> rk_cute | "xml" -> rk_xml
  | "libxml" -> rk_libxml | "cdash" -> rk_cdash | s -> failwith ("rk " ^ s)

let msgs_str l = String.concat "" (List.map (function MPass -> "P" | MFail -> "F" | MSkipped -> "S" | MCompletion -> "C" | MException -> "X") l)
let cnt_str k = Printf.sprintf "%d %d %d %d" (int_of_z k.passes) (int_of_z k.failures) (int_of_z k.skips) (int_of_z k.exceptions)
let crumb_str l = String.concat "," (List.rev_map (fun n -> string_of_int (int_of_nat n)) l)

let event_str = function
  | EStartSuite s -> Printf.sprintf "ss %d" (int_of_nat s)
  | EStartTest t -> Printf.sprintf "st %d" (int_of_nat t)
  | EChild (t, m) -> Printf.sprintf "ch %d %s" (int_of_nat t) (msgs_str m)
  | EIncomplete (cr, sg) -> Printf.sprintf "inc %s %s" (crumb_str cr) (match sg with None -> "-" | Some n -> string_of_int (int_of_z n))
  | ESkipShown cr -> Printf.sprintf "skipshown %s" (crumb_str cr)
  | ETestDone (t, d, clean) -> Printf.sprintf "tdone %d %s %d" (int_of_nat t) (cnt_str d) (if clean then 1 else 0)
  | ESuiteDone (s, k, depth) -> Printf.sprintf "sdone %d %s %d" (int_of_nat s) (cnt_str k) (int_of_nat depth)
  | ETotals k -> Printf.sprintf "tot %s" (cnt_str k)
  | EFixture (s, td) -> Printf.sprintf "fix %d %d" (int_of_nat s) (if td then 1 else 0)

let result_str r =
  let evs p = String.concat ";" (List.rev_map event_str p.out) in
  match r with
  | Finished (ok, p) -> Printf.sprintf "fin %d|%s" (if ok then 0 else 1) (evs p)
  | Crashed (Signal n, p) -> Printf.sprintf "crash sig %d|%s" (int_of_z n) (evs p)
  | Crashed (Exit n, p) -> Printf.sprintf "crash exit %d|%s" (int_of_z n) (evs p)

(* case: (rk mode cap tree)  with mode = forked | inproc | (single <name>) *)
let runner_case (s : sexp) : string =
  match s with
  | L [A "twice"; rk; A mode; cap; tree] ->
      (* one reporter, two consecutive runs of the same tree: both verdicts and the totals after the second *)
      let rk = rk_of (atom rk) and cap = ni cap and tree = node_of tree in
      let (m1, m2) = (match mode with "inproc" -> (InProcess, InProcess) | "inproc-forked" -> (InProcess, Forked) | _ -> (Forked, Forked)) in
      (match run_two rk verdict_suite m1 m2 cap tree tree with
       | (Finished (v1, _), Finished (v2, p2)) ->
           Printf.sprintf "%d %d %s" (if v1 then 0 else 1) (if v2 then 0 else 1) (cnt_str p2.tot) ^ "|" ^
           String.concat ";" (List.filter_map (function ETestDone (t, d, _) -> Some (Printf.sprintf "%d %s" (int_of_nat t) (cnt_str d)) | _ -> None) (List.rev p2.out))
       | _ -> "crash")
  | L [A "timeout-accepts"; v] ->
      let bytes = (match v with A "e" -> [] | L l -> List.map (fun x -> n_of_int (int_of_string (atom x))) l | _ -> failwith "bytes") in
      if setting_accepted (Some bytes) then "1" else "0"
  | L [rk; mode; cap; tree] ->
      let rk = rk_of (atom rk) and cap = ni cap and tree = node_of tree in
      let r = (match mode with
        | A "forked" -> run_suite rk verdict_suite Forked cap tree
        | A "inproc" -> run_suite rk verdict_suite InProcess cap tree
        | L [A "single"; name] -> run_single rk verdict_single cap (ni name) tree
        | _ -> failwith "mode") in
      let owns = String.concat ";" (List.map (fun (s, t) -> Printf.sprintf "%d %s" (int_of_nat t.tid) (cnt_str (own s t))) (tests_of tree)) in
      let ph_str = function
        | PhSuiteSetup _ -> "ssetup" | PhSetup -> "setup" | PhBody -> "body"
        | PhTeardown -> "teardown" | PhSuiteTeardown _ -> "steardown" in
      let tev_str = function TvPhase ph -> ph_str ph | TvTally -> "tally" in
      let traces = String.concat ";" (List.map (fun (s, t) ->
        Printf.sprintf "%d:%s" (int_of_nat t.tid)
          (if t.tskip then "" else String.concat "," (List.map tev_str (trace fw_init (test_steps s t))))) (tests_of tree)) in
      let inprem = (match mode with
        | A "inproc" -> ok_treeb InProcess cap tree
        | _ -> ok_treeb Forked cap tree) in
      result_str r ^ "|" ^ owns ^ "|" ^ traces ^ "|" ^ (if inprem then "1" else "0")
  | _ -> failwith "runner case"

