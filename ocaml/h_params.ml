open Model
type string = Stdlib.String.t   (* Coq's own string type is extracted too (CLite): keep OCaml's here *)
open Util

let nbytes = function
  | A "e" -> []
  | L l -> List.map (fun x -> n_of_int (int_of_string (atom x))) l
  | _ -> failwith "bytes"
let hex bs = if bs = [] then "e" else String.concat "" (List.map (fun b -> Printf.sprintf "%02x" (int_of_n b)) bs)

(* parameter-name tokenizer and clause binding (Params.v) *)
let params_case (s : sexp) : string =
  match s with
  | L [A "T"; text] ->
      let t = nbytes text in
      let ns = names t and ms = markers t in
      "T " ^ String.concat "|" (List.map hex ns) ^ " " ^
      (if ms = [] then "-" else String.concat "" (List.map (fun b -> if b then "1" else "0") ms))
  | L [A "B"; text; pname; L actuals] ->
      (match bind_clause (nbytes text) (List.map zi actuals) (nbytes pname) with
       | Applied vals -> "A" ^ String.concat "" (List.map (fun v -> " " ^ string_of_z v) vals)
       | NotFound -> "NF"
       | Crash -> "CRASH")
  | L [A "N"; text] -> "N " ^ string_of_int (int_of_nat (count_params (nbytes text)))
  | _ -> failwith "params case"
