(* h_code.ml - translated functions (CLite programs of Gen/Code.v) against the models.
   case: (reporter <digits of the pipe: 1 pass 2 fail 3 skipped 4 completion 5 exception> <p> <f> <s> <e>)
   result: for read_reporter_results, reporter_finish_test, reporter_finish_suite the summary vector
   of the translated code and of the model *)
open Model
type string = Stdlib.String.t   (* Coq's own string type is extracted too (CLite): keep OCaml's here *)
open Util

let msg_of_char = function
  | '1' -> MPass | '2' -> MFail | '3' -> MSkipped | '4' -> MCompletion | '5' -> MException
  | c -> failwith (Printf.sprintf "bad record %c" c)

let zs l = String.concat "," (List.map (fun z -> string_of_int (int_of_z z)) l)

let code_case (s : sexp) : string =
  match lst s with
  | A "reporter" :: A pipe :: A p :: A f :: A sk :: A e :: [] ->
      let pipe = if pipe = "-" then [] else List.map msg_of_char (List.init (String.length pipe) (String.get pipe)) in
      let k = { passes = z_of_string p; failures = z_of_string f; skips = z_of_string sk; exceptions = z_of_string e } in
      Printf.sprintf "read %s | %s ; ftest %s | %s ; fsuite %s | %s"
        (zs (code_read_results pipe k)) (zs (model_read_results pipe k))
        (zs (code_finish_test pipe k)) (zs (model_finish_test pipe k))
        (zs (code_finish_suite pipe k)) (zs (model_finish_suite pipe k))
  | _ -> failwith "code: unknown case"
