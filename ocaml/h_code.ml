(* h_code.ml - translated functions (CLite programs of Gen/Code.v, run by the extracted
   interpreter) against the hand-written models.  One case per line:
   (reporter <digits of the pipe: 1 pass 2 fail 3 skipped 4 completion 5 exception> <p> <f> <s> <e>)
   (str percent|xmlesc|names <hex bytes>)
   (match <hex pattern> <hex context> <hex name>)
   (mocks <unlimited> <f> ((fn line ttl called trig) ...))        every queue function for function f
   (succ <unlimited> <f> (f1 f2 ...))
   (decl <0 expect|1 always|2 never> <unlimited> <f> <line> (constraints) ((fn line ttl called trig (constraints)) ...))
   (tally <unlimited> ((fn line ttl called trig (constraints)) ...))     constraint: (t n) | (r v) | (p name expected)
   (walk forked|inproc <tree>)   (walk-named <test id> <tree>)      tree in the syntax of the runner cases
   result: "<what> <code vector> | <model vector>" parts separated by " ; " *)
open Model
type string = Stdlib.String.t
open Util

let msg_of_char = function
  | '1' -> MPass | '2' -> MFail | '3' -> MSkipped | '4' -> MCompletion | '5' -> MException
  | c -> failwith (Printf.sprintf "bad record %c" c)

let zs l = String.concat "," (List.map (fun z -> string_of_int (int_of_z z)) l)
let zbytes_of_hex (h : string) : z list =
  if h = "-" then [] else List.init (String.length h / 2) (fun i -> z_of_int (int_of_string ("0x" ^ String.sub h (2 * i) 2)))
let pair name c m = Printf.sprintf "%s %s | %s" name (zs c) (zs m)

let con_of (e : sexp) : mcon = match lst e with
  | [A "t"; A n] -> CTimes (z_of_string n)
  | [A "r"; A v] -> CRet (z_of_string v)
  | [A "p"; A p; A ex] -> CParam (nat_of_int (int_of_string p), z_of_string ex)
  | _ -> failwith "constraint"
let cons_of (s : sexp) : mcon list = List.map con_of (lst s)
(* entries with their constraints: (fn line ttl called trig (constraints)) *)
let queue_c (q : sexp) : mexp list = List.map (fun e -> match lst e with
  | [A fn; A line; A ttl; A called; A trig; cs] ->
      { efn = nat_of_int (int_of_string fn); eline = nat_of_int (int_of_string line); ettl = z_of_string ttl;
        econs = cons_of cs; encalled = z_of_string called; entrig = z_of_string trig }
  | _ -> failwith "entry with constraints") (lst q)

let code_case (s : sexp) : string =
  match lst s with
  | A "reporter" :: A pipe :: A p :: A f :: A sk :: A e :: [] ->
      let pipe = if pipe = "-" then [] else List.map msg_of_char (List.init (String.length pipe) (String.get pipe)) in
      let k = { passes = z_of_string p; failures = z_of_string f; skips = z_of_string sk; exceptions = z_of_string e } in
      String.concat " ; " [pair "read" (code_read_results pipe k) (model_read_results pipe k);
                           pair "ftest" (code_finish_test pipe k) (model_finish_test pipe k);
                           pair "fsuite" (code_finish_suite pipe k) (model_finish_suite pipe k)]
  | A "str" :: A which :: A hex :: [] ->
      let b = zbytes_of_hex hex in
      (match which with
       | "percent" -> pair "percent" (code_double_percent b) (model_double_percent b)
       | "xmlesc" -> pair "xmlesc" (code_xml_escaped b) (model_xml_escaped b)
       | "names" -> pair "names" (code_names b) (model_names b)
       | _ -> failwith "str: which?")
  | A "match" :: A p :: A c :: A n :: [] ->
      pair "match" (code_matches (zbytes_of_hex p) (zbytes_of_hex c) (zbytes_of_hex n))
                   (model_matches (zbytes_of_hex p) (zbytes_of_hex c) (zbytes_of_hex n))
  | A "mocks" :: A unl :: A f :: q :: [] ->
      let unl = z_of_string unl and f = nat_of_int (int_of_string f) in
      let q = List.map (fun e -> match lst e with
          | [A fn; A line; A ttl; A called; A trig] ->
              { efn = nat_of_int (int_of_string fn); eline = nat_of_int (int_of_string line); ettl = z_of_string ttl;
                econs = []; encalled = z_of_string called; entrig = z_of_string trig }
          | _ -> failwith "mocks: entry") (lst q) in
      String.concat " ; " [pair "find" (code_find unl q f) (model_find unl q f);
                           pair "remove_first" (code_remove_first unl q f) (model_remove_first unl q f);
                           pair "have_always" (code_have_always unl q f) (model_have_always unl q f);
                           pair "have_never" (code_have_never unl q f) (model_have_never unl q f);
                           pair "remove_never" (code_remove_never unl q f) (model_remove_never unl q f);
                           pair "after_use" (code_after_use unl q f) (model_after_use unl q f)]
  | A "succ" :: A unl :: A f :: l :: [] ->
      let l = List.map (fun a -> nat_of_int (int_of_string (atom a))) (lst l) in
      pair "succ" (code_succ (z_of_string unl) l (nat_of_int (int_of_string f))) (model_succ (z_of_string unl) l (nat_of_int (int_of_string f)))
  | A "decl" :: A kind :: A unl :: A f :: A line :: cs :: q :: [] ->
      let k = nat_of_int (int_of_string kind) and unl = z_of_string unl and f = nat_of_int (int_of_string f)
      and line = nat_of_int (int_of_string line) in
      pair "declare" (code_declare k unl (queue_c q) f line (cons_of cs)) (model_declare k unl (queue_c q) f line (cons_of cs))
  | A "tally" :: A unl :: q :: [] ->
      let unl = z_of_string unl in
      pair "tally" (code_tally unl (queue_c q)) (model_tally unl (queue_c q))
  | A "walk" :: A mode :: tree :: [] ->
      let n = H_runner.node_of tree in
      (match mode with
       | "forked" -> pair "walk" (code_walk false n) (model_walk false n)
       | "inproc" -> pair "walk" (code_walk true n) (model_walk true n)
       | _ -> failwith "walk: mode")
  | A "walk-named" :: A k :: tree :: [] ->
      let n = H_runner.node_of tree in
      let k = nat_of_int (int_of_string k) in
      pair "walk-named" (code_walk_named k n) (model_walk_named k n)
  | _ -> failwith "code: unknown case"
