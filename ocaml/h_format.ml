open Model
type string = Stdlib.String.t   (* Coq's own string type is extracted too (CLite): keep OCaml's here *)
open Util

let bytes_of = function
  | A "e" -> []
  | L l -> List.map (fun x -> n_of_int (int_of_string (atom x))) l
  | _ -> failwith "bytes"

let hex_of_str (s : n list) : string =
  String.concat "" (List.map (fun b -> Printf.sprintf "%02x" (int_of_n b)) s)

let row_index = function
  | "eq" -> 0 | "hex" -> 1 | "ne" -> 2 | "lt" -> 3 | "gt" -> 4 | "null" -> 5 | "nonnull" -> 6 | "true" -> 7 | "false" -> 8
  | "seq" -> 9 | "sne" -> 10 | "scontains" -> 11 | "sncontains" -> 12 | "sbegins" -> 13 | "snbegins" -> 14
  | "sends" -> 15 | "snends" -> 16 | s -> failwith ("row " ^ s)

let show = function
  | POk o -> "F" ^ hex_of_str o
  | PMissingArg -> "MISSINGARG"
  | PBadConv -> "BADCONV"

let shown_row w at et ops =
  shown fmt_constraint_as_string_format fmt_expected_value_string_format fmt_actual_value_string_format
        (List.nth constraint_formats (row_index w)) at et ops

(* (A ctor at et a e) (S ctor at et av ev) (L eq|ne xt a e) (T eq|ne xt av ev) *)
let format_case (s : sexp) : string =
  match s with
  | L [A "A"; A w; at; et; a; e] -> show (shown_row w (bytes_of at) (bytes_of et) (OInts (zi a, zi e)))
  | L [A "S"; A w; at; et; av; ev] -> show (shown_row ("s" ^ w) (bytes_of at) (bytes_of et) (OStrs (bytes_of av, bytes_of ev)))
  | L [A "L"; A w; xt; a; e] ->
      let fmt = if w = "eq" then fmt_assert_equal_ else fmt_assert_not_equal_ in
      show (printf_m fmt [PStr (bytes_of xt); PInt (zi e); PInt (zi a)])
  | L [A "T"; A w; xt; av; ev] ->
      if w = "eq" then show (printf_m fmt_assert_string_equal_ [PStr (bytes_of xt); PStr (bytes_of ev); PStr (bytes_of av)])
      else show (printf_m fmt_assert_string_not_equal_ [PStr (bytes_of xt); PStr (bytes_of ev)])
  | _ -> failwith "format case"
