open Model
type string = Stdlib.String.t   (* Coq's own string type is extracted too (CLite): keep OCaml's here *)
open Util

(* operands: integers as decimal atoms; strings as (b b b ...) byte lists or - for NULL *)
let ostr_of = function
  | A "-" -> None
  | L l -> Some (List.map (fun x -> n_of_int (int_of_string (atom x))) l)
  | _ -> failwith "ostr"
let bytes_of = function
  | A "-" -> []
  | L l -> List.map (fun x -> n_of_int (int_of_string (atom x))) l
  | _ -> failwith "bytes"

let b2s b = if b then "1" else "0"

let polarity idx = match List.nth legacy_with_message idx with (b, neg) -> (int_of_nat b, neg)

let constraints_case (s : sexp) : string =
  match s with
  | L [A "I"; A w; a; e] ->
      let a = zi a and e = zi e in
      b2s (match w with
        | "eq" | "hex" -> compare_want_value_src a e
        | "ne" -> compare_do_not_want_value_src a e
        | "lt" -> compare_want_lesser_value_src a e
        | "gt" -> compare_want_greater_value_src a e
        | "null" -> is_null_src a | "nonnull" -> is_non_null_src a
        | "true" -> is_true_src a | "false" -> is_false_src a
        | _ -> failwith "I")
  | L [A "L"; A w; a; e] ->
      let a = zi a and e = zi e in
      let apply idx truth = (match polarity idx with
        | (0, neg) -> if neg then not truth else truth
        | (1, neg) -> let r = Z.eqb a e in if neg then not r else r
        | _ -> failwith "polarity") in
      b2s (match w with
        | "eq" -> assert_equal_src a e
        | "ne" -> assert_not_equal_src a e
        | "true" -> not (Z.eqb a Z0)
        | "false" -> Z.eqb a Z0
        | "truem" -> apply 0 (not (Z.eqb a Z0))
        | "falsem" -> apply 1 (not (Z.eqb a Z0))
        | "eqm" -> apply 2 true
        | "nem" -> apply 3 true
        | _ -> failwith "L")
  | L [A "S"; A w; a; e] ->
      let a = ostr_of a and e = ostr_of e in
      let sm idx = (match polarity idx with
        | (3, neg) -> let r = strings_are_equal_src a e in if neg then not r else r
        | _ -> failwith "polarity") in
      b2s (match w with
        | "eq" -> compare_want_string_src a e
        | "ne" -> compare_do_not_want_string_src a e
        | "contains" -> compare_want_substring_src a e
        | "ncontains" -> compare_do_not_want_substring_src a e
        | "begins" -> compare_want_beginning_of_string_src a e
        | "nbegins" -> compare_do_not_want_beginning_of_string_src a e
        | "ends" -> compare_want_end_of_string_src a e
        | "nends" -> compare_do_not_want_end_of_string_src a e
        | "seq" -> assert_string_equal_src a e
        | "sne" -> assert_string_not_equal_src a e
        | "seqm" -> sm 6
        | "snem" -> sm 7
        | _ -> failwith "S")
  | L [A "M"; A w; a; e; n] ->
      let anull = (a = A "-") and enull = (e = A "-") in
      let n = int_of_string (atom n) in
      if n <= 0 || anull || enull then "v"
      else
        let a = bytes_of a and e = bytes_of e in
        b2s (match w with
          | "eq" -> want_contents_m false a e (nat_of_int n)
          | _ -> do_not_want_contents_m false a e (nat_of_int n))
  | _ -> failwith "constraints case"
