open Model
type string = Stdlib.String.t   (* Coq's own string type is extracted too (CLite): keep OCaml's here *)
open Util

let msg_of = function
  | A "p" -> MPass | A "f" -> MFail | A "s" -> MSkipped | A "c" -> MCompletion | A "x" -> MException
  | _ -> failwith "msg"

(* one fault on the result path of one test (Faults.v), handling translated from the sources *)
let faults_case (s : sexp) : string =
  match s with
  | L [fault; L msgs] ->
      let f = (match fault with
        | A "fork" -> FFork | A "pipe" -> FPipe | A "fcntl_open" -> FFcntlOpen | A "tmpfile" -> FTmpfile
        | L [A "write"; i] -> FWrite (ni i) | L [A "read"; j] -> FRead (ni j) | L [A "send_alloc"; i] -> FSendAlloc (ni i)
        | _ -> failwith "fault") in
      let o = under_fault current_handling f (List.map msg_of msgs) in
      (match o with
       | RunAborted -> "aborted"
       | Undefined -> "undefined"
       | MayBlock _ -> "mayblock"
       | Seen (k, st) -> Printf.sprintf "seen %s %s %s %s %s" (string_of_z k.passes) (string_of_z k.failures) (string_of_z k.skips) (string_of_z k.exceptions)
                           (match st with Received -> "received" | Skipped -> "skipped" | NotReceived -> "notreceived"))
      ^ (if not_success o then " notsuccess" else " SUCCESS")
  | _ -> failwith "faults case"
