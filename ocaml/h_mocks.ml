open Model
type string = Stdlib.String.t   (* Coq's own string type is extracted too (CLite): keep OCaml's here *)
open Util

(* case: (op op ...) with ops
     (E f line c..) (A f line c..) (N f line c..) (C f (p v) ..) (M mode) T X
   constraints: (p name v) (t n) (r v) *)
let con_of = function
  | L [A "p"; n; v] -> CParam (ni n, zi v)
  | L [A "t"; n] -> CTimes (zi n)
  | L [A "r"; v] -> CRet (zi v)
  | _ -> failwith "con"

let op_of = function
  | L (A "E" :: f :: line :: cs) -> MExpect (ni f, ni line, List.map con_of cs)
  | L (A "A" :: f :: line :: cs) -> MAlways (ni f, ni line, List.map con_of cs)
  | L (A "N" :: f :: line :: cs) -> MNever (ni f, ni line, List.map con_of cs)
  | L (A "C" :: f :: args) -> MCall (ni f, List.map (function L [p; v] -> (ni p, zi v) | _ -> failwith "arg") args)
  | L [A "M"; A "loose"] -> MSetMode MLoose
  | L [A "M"; A "learning"] -> MSetMode MLearning
  | L [A "M"; _] -> MSetMode MStrict
  | A "T" -> MTally
  | A "X" -> MClear
  | _ -> failwith "op"

let exp_str e = Printf.sprintf "%d:%d:%s:%s:%s" (int_of_nat e.efn) (int_of_nat e.eline) (string_of_z e.ettl)
                  (string_of_z e.encalled) (string_of_z e.entrig)

(* the model is stepped one op at a time so that the queue after every op can be shown *)
let mocks_case (s : sexp) : string =
  let ops = List.map op_of (lst s) in
  let st = ref ms_init in
  let buf = Buffer.create 256 in
  List.iter (fun o ->
    let (s2, rs) = mrun unlimited_ttl !st [o] in
    st := s2;
    (match rs with
     | [(res, v)] ->
         List.iter (fun r -> Buffer.add_string buf (Printf.sprintf "%d:%d " (int_of_nat r.rline) (if r.rok then 1 else 0))) res;
         Buffer.add_string buf (Printf.sprintf "/%s/" (string_of_z v))
     | _ -> failwith "mrun");
    List.iter (fun e -> Buffer.add_string buf (exp_str e ^ " ")) s2.queue;
    Buffer.add_string buf ";") ops;
  Buffer.contents buf
