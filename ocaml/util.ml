(* util.ml — shared glue for driver.ml: runs the extracted Coq models on cases read from stdin, one case per line,
   and prints one canonical result line per case.  Hand-written glue: an s-expression
   reader, conversions between OCaml ints/strings and Coq's extracted datatypes, printers. *)
open Model
type string = Stdlib.String.t   (* Coq's own string type is extracted too (CLite): keep OCaml's here *)

(* ---------------------------------------------------------------- s-expressions *)
type sexp = A of string | L of sexp list

let parse (s : string) : sexp =
  let n = String.length s in
  let pos = ref 0 in
  let rec skip () = if !pos < n && (s.[!pos] = ' ' || s.[!pos] = '\t') then (incr pos; skip ()) in
  let rec item () =
    skip ();
    if !pos >= n then failwith "sexp: eof"
    else if s.[!pos] = '(' then begin
      incr pos;
      let acc = ref [] in
      let rec loop () =
        skip ();
        if !pos >= n then failwith "sexp: unclosed"
        else if s.[!pos] = ')' then incr pos
        else (acc := item () :: !acc; loop ()) in
      loop ();
      L (List.rev !acc)
    end else begin
      let st = !pos in
      while !pos < n && s.[!pos] <> ' ' && s.[!pos] <> '(' && s.[!pos] <> ')' && s.[!pos] <> '\t' do incr pos done;
      A (String.sub s st (!pos - st))
    end in
  item ()

let atom = function A s -> s | L _ -> failwith "atom expected"
let lst = function L l -> l | A a -> failwith ("list expected, got " ^ a)

(* ---------------------------------------------------------------- numbers *)
let rec pos_of_int (i : int) : positive =
  if i = 1 then XH else if i land 1 = 0 then XO (pos_of_int (i lsr 1)) else XI (pos_of_int (i lsr 1))
let z_of_int (i : int) : z = if i = 0 then Z0 else if i > 0 then Zpos (pos_of_int i) else Zneg (pos_of_int (- i))
let rec int_of_pos = function XH -> 1 | XO p -> 2 * int_of_pos p | XI p -> 2 * int_of_pos p + 1
let int_of_z = function Z0 -> 0 | Zpos p -> int_of_pos p | Zneg p -> - (int_of_pos p)
let rec nat_of_int (i : int) : nat = if i <= 0 then O else S (nat_of_int (i - 1))
let nat_of_int i = let rec go acc i = if i <= 0 then acc else go (S acc) (i - 1) in go O i
let int_of_nat n = let rec go acc = function O -> acc | S m -> go (acc + 1) m in go 0 n
(* arbitrary-precision decimal strings <-> z (for 64-bit values beyond OCaml's 63-bit ints) *)
let z_of_string (s : string) : z =
  let neg = String.length s > 0 && s.[0] = '-' in
  let digits = if neg then String.sub s 1 (String.length s - 1) else s in
  let ten = z_of_int 10 in
  let acc = ref Z0 in
  String.iter (fun ch -> acc := Z.add (Z.mul !acc ten) (z_of_int (Char.code ch - 48))) digits;
  if neg then Z.opp !acc else !acc
let string_of_z (v : z) : string =
  let ten = z_of_int 10 in
  let rec go v acc =
    match v with
    | Z0 -> acc
    | _ -> let q = Z.div v ten and r = Z.modulo v ten in go q (string_of_int (int_of_z r) ^ acc) in
  match v with
  | Z0 -> "0"
  | Zneg p -> "-" ^ go (Zpos p) ""
  | _ -> go v ""
let n_of_int (i : int) : n = if i = 0 then N0 else Npos (pos_of_int i)
let int_of_n = function N0 -> 0 | Npos p -> int_of_pos p
let zi s = z_of_string (atom s)
let ni s = nat_of_int (int_of_string (atom s))
let bi s = match atom s with "1" | "true" -> true | _ -> false

