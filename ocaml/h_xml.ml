open Model
type string = Stdlib.String.t   (* Coq's own string type is extracted too (CLite): keep OCaml's here *)
open Util

let nb = function
  | A "e" -> []
  | L l -> List.map (fun x -> n_of_int (int_of_string (atom x))) l
  | _ -> failwith "bytes"
let hex bs = String.concat "" (List.map (fun b -> Printf.sprintf "%02x" (int_of_n b)) bs)

(* xml reporter model (Xml.v):
   (D depth (path...) (case...))   case = ((class...) name time (item...))
   item = (F text file line) | S | (E text file line)
   (A text) = the message attribute for a text;  (U bytes) = unescape *)
let xml_case (s : sexp) : string =
  match s with
  | L [A "A"; t] -> hex (message_att (nb t))
  | L [A "U"; t] -> hex (unescape (nb t))
  | L [A "D"; d; L path; L cases] ->
      let item = function
        | L [A "F"; t; f; l] -> IFail (nb t, nb f, nb l)
        | A "S" -> ISkip
        | L [A "E"; t; f; l] -> IError (nb t, nb f, nb l)
        | _ -> failwith "item" in
      let case = function
        | L [L cls; nm; tm; L items] -> { tc_class = List.map nb cls; tc_name = nb nm; tc_time = nb tm; tc_items = List.map item items }
        | _ -> failwith "case" in
      hex (suite_doc (ni d) (List.map nb path) (List.map case cases))
  | _ -> failwith "xml case"
