open Model
type string = Stdlib.String.t   (* Coq's own string type is extracted too (CLite): keep OCaml's here *)
open Util

let ext_of = function
  | A "NINF" -> ENegInf | A "PINF" -> EPosInf | A "NAN" -> ENan
  | A s -> EFin (z_of_string s)
  | _ -> failwith "ext"
let show_ext = function ENegInf -> "NINF" | EPosInf -> "PINF" | ENan -> "NAN" | EFin z -> string_of_z z
let b2s b = if b then "1" else "0"

(* double comparisons (Doubles.v over Flocq binary64), all values as 64-bit patterns in decimal *)
let doubles_case (s : sexp) : string =
  match s with
  | L [A "LE"; x; y] -> string_of_z (eq_largest_bits (zi x) (zi y))          (* argument of accuracy() in doubles_are_equal *)
  | L [A "LO"; e; a] -> string_of_z (ord_largest_bits (zi e) (zi a))         (* ... in double_is_lesser/greater *)
  | L [A "X"; k; figs] -> show_ext (accuracy_exponent (ext_of k) (zi figs)) (* exponent handed to pow(10, .) *)
  | L [A "E"; acc; figs; x; y] ->
      let r = eq_bits (zi acc) (zi figs) (zi x) (zi y) in
      b2s r ^ b2s (if do_not_want_double_negates then not r else r)
  | L [A "L"; acc; figs; e; a] -> b2s (lesser_bits (zi acc) (zi figs) (zi e) (zi a))
  | L [A "G"; acc; figs; e; a] -> b2s (greater_bits (zi acc) (zi figs) (zi e) (zi a))
  | L [A "F"] -> string_of_z figures_default
  | _ -> failwith "doubles case"
