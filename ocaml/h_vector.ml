open Model
type string = Stdlib.String.t   (* Coq's own string type is extracted too (CLite): keep OCaml's here *)
open Util

(* container models (Vector.v) instantiated with the sources translated in Gen/Facts.v *)
let vector_case (s : sexp) : string =
  match s with
  | L (A "V" :: ops) ->
      let op = function
        | L [A "a"; x] -> VAdd (zi x)
        | L [A "r"; p] -> VRemove (zi p)
        | L [A "g"; p] -> VGet (zi p)
        | L [A "s"] -> VSize
        | _ -> failwith "vop" in
      (match vrun vector_src vempty (List.map op ops) with
       | Ok (_, outs) ->
           String.concat " " (List.map (function
             | OItem None -> "P"
             | OItem (Some x) -> string_of_z x
             | OSize n -> string_of_z n) outs)
       | OutOfBounds -> "OOB"
       | OutOfFuel -> "FUEL")
  | L (A "S" :: ops) ->
      let op = function
        | L [A "t"; x] -> (false, zi x)
        | L [A "s"; x] -> (true, zi x)
        | _ -> failwith "sop" in
      (match srun suite_test_src suite_suite_src sempty (List.map op ops) with
       | Ok a ->
           String.concat " " (string_of_z a.ssize :: List.map (function None -> "?" | Some x -> string_of_z x) a.sitems)
       | OutOfBounds -> "OOB"
       | OutOfFuel -> "FUEL")
  | L (A "C" :: ops) ->
      let op = function
        | L [A "p"; x] -> Some (zi x)
        | L [A "o"] -> None
        | _ -> failwith "cop" in
      (match crun crumb_src cempty (List.map op ops) with
       | Ok (_, outs) -> String.concat " " (List.map (function None -> "-" | Some x -> string_of_z x) outs)
       | OutOfBounds -> "OOB"
       | OutOfFuel -> "FUEL")
  | _ -> failwith "vector case"
