open Model
type string = Stdlib.String.t   (* Coq's own string type is extracted too (CLite): keep OCaml's here *)
open Util

let bytes_of = function
  | A "e" -> []
  | L l -> List.map (fun x -> z_of_int (int_of_string (atom x))) l
  | _ -> failwith "bytes"
let show_bytes bs = if bs = [] then "e" else String.concat "" (List.map (fun b -> Printf.sprintf "%02x" (int_of_z b)) bs)
let rec pattern i n = if i >= n then [] else z_of_int (0xC0 + i mod 16) :: pattern (i + 1) n

(* value transports (Values.v) instantiated with the sources translated in Gen/Facts.v *)
let values_case (s : sexp) : string =
  match s with
  | L [A "R"; v] -> "R " ^ string_of_z (return_m values_src (zi v))
  | L [A "D"; bits] -> (match double_m values_src (zi bits) with Some b -> "D " ^ string_of_z b | None -> "D none")
  | L [A "B"; size; src] ->
      (match by_value_m values_src (bytes_of src) (zi size) with MOk b -> "B " ^ show_bytes b | MOob -> "B OOB")
  | L [A "B"; size; src; calls] ->
      "B " ^ String.concat ";" (List.map (function MOk b -> show_bytes b | MOob -> "OOB")
                                  (by_value_calls_m values_src (bytes_of src) (zi size) (ni calls)))
  | L [A "R"; v; calls] -> "R " ^ String.concat ";" (List.init (int_of_string (atom calls)) (fun _ -> string_of_z (return_m values_src (zi v))))
  | L [A "S"; buflen; off; size; src] ->
      (match set_contents_m values_src (pattern 0 (int_of_string (atom buflen))) (zi off) (bytes_of src) (zi size) with
       | MOk b -> "S " ^ show_bytes b | MOob -> "S OOB")
  | L [A "C"; size; v] ->
      (match capture_m values_src false (zi v) (zi size) with
       | MOk b -> "C " ^ string_of_z (decode false b) ^ " " ^ string_of_int (List.length b)
       | MOob -> "C OOB")
  | _ -> failwith "values case"
