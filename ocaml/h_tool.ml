open Model
type string = Stdlib.String.t   (* Coq's own string type is extracted too (CLite): keep OCaml's here *)
open Util

let nb = function
  | A "e" -> []
  | L l -> List.map (fun x -> n_of_int (int_of_string (atom x))) l
  | _ -> failwith "bytes"
let str_of bs = String.concat "" (List.map (fun b -> String.make 1 (Char.chr (int_of_n b))) bs)
let item_of = function L [c; n; _] | L [c; n] -> { ti_ctx = nb c; ti_name = nb n } | _ -> failwith "item"
let show_item it = str_of it.ti_ctx ^ ":" ^ str_of it.ti_name

(* cgreen-runner model (RunnerTool.v); single_run_by_item_name is translated from tools/runner.c *)
let tool_case (s : sexp) : string =
  match s with
  | L [A "P"; c; n] ->                                   (* parse_spec (mangle c n) *)
      let (c', n') = parse_spec (mangle (nb c) (nb n)) in str_of c' ^ ":" ^ str_of n'
  | L [A "G"; p; t] -> if glob0 (nb p) (nb t) then "1" else "0"
  | L [A "M"; L args; L libs] ->
      (* args: byte strings; libs: (name exists ((ctx name ok) ...)) *)
      let table = List.map (function
        | L [nm; A ex; L items] ->
            (nb nm, (ex = "1", List.map (function L [c; n; A ok] -> ({ ti_ctx = nb c; ti_name = nb n }, ok = "1") | _ -> failwith "it") items))
        | _ -> failwith "lib") libs in
      let find nm = try Some (List.assoc nm table) with Not_found -> None in
      let exists_ nm = (match find nm with Some (e, _) -> e | None -> false) in
      let lib_items nm = (match find nm with Some (_, its) -> List.map fst its | None -> []) in
      let outcome_ok lib ex =
        let its = (match find lib with Some (_, its) -> its | None -> []) in
        List.for_all (fun it -> try List.assoc it its with Not_found -> true) ex in
      let pairs = scan_args exists_ (List.map nb args) in
      let (fail, exs) = main_m single_run_by_item_name exists_ lib_items outcome_ok pairs in
      (if fail then "1" else "0") ^ " | " ^
      String.concat " ; " (List.map (fun (lib, ex) -> str_of lib ^ " = " ^ String.concat " " (List.map show_item ex)) exs)
  | _ -> failwith "tool case"
