"""Further translator items, registered per model layer."""


def register(add, tu, repo, bdir):
    pass
