"""Further translator items, registered per model layer."""
from srcfacts import Cannot, walk, body_of, strip, member_path, expr_bool, expr_int, const_value


def _gvar_int(tu, name):
    d = tu["gvars"].get(name)
    if d is None:
        raise Cannot("global " + name)
    for n in walk(d):
        if n.get("kind") == "IntegerLiteral":
            return int(n["value"])
    raise Cannot("initialiser of " + name)


def _ttl_assignments(tu, fn):
    """expectation->time_to_live = <constant expression over UNLIMITED_TIME_TO_LIVE>"""
    res = []
    for n in walk(body_of(tu["funs"][fn])):
        if n.get("kind") == "BinaryOperator" and n.get("opcode") == "=":
            try:
                base, path = member_path(n["inner"][0])
            except Cannot:
                continue
            if base == "expectation" and path == ["time_to_live"]:
                try:
                    res.append(expr_int(n["inner"][1], {"UNLIMITED_TIME_TO_LIVE": "U"}))
                except Cannot:
                    res.append(None)
    return res


def _pred_on_ttl(tu, fn):
    """`return expectation->time_to_live == ...;` as a function of (ttl U)"""
    for n in walk(body_of(tu["funs"][fn])):
        if n.get("kind") == "ReturnStmt":
            return "fun (ttl U : Z) => " + expr_bool(n["inner"][0], {"expectation->time_to_live": "ttl", "UNLIMITED_TIME_TO_LIVE": "U"})
    raise Cannot("return of " + fn)


def _vector_step(tu):
    for n in walk(body_of(tu["funs"]["increase_space"])):
        if n.get("kind") == "CompoundAssignOperator" and n.get("opcode") == "+=":
            base, path = member_path(n["inner"][0])
            if base == "vector" and path == ["space"]:
                return "(%s)" % expr_int(n["inner"][1], {})
    raise Cannot("vector growth step")


def register(add, tu, repo, bdir):
    M = lambda: tu("src/mocks.c")
    add("unlimited_ttl", "Z", lambda: "(%d)" % _gvar_int(M(), "UNLIMITED_TIME_TO_LIVE"), "src/mocks.c:UNLIMITED_TIME_TO_LIVE")
    add("is_always_src", "Z -> Z -> bool", lambda: _pred_on_ttl(M(), "is_always_call"), "src/mocks.c:is_always_call")
    add("is_never_src", "Z -> Z -> bool", lambda: _pred_on_ttl(M(), "is_never_call"), "src/mocks.c:is_never_call")

    def first(l):
        l = [x for x in l if x is not None]
        if not l:
            raise Cannot("no constant time_to_live assignment")
        return "fun (U : Z) => " + l[0]
    add("ttl_expect_default", "Z -> Z", lambda: first(_ttl_assignments(M(), "expect_")), "src/mocks.c:expect_")
    add("ttl_always", "Z -> Z", lambda: first(_ttl_assignments(M(), "always_expect_")), "src/mocks.c:always_expect_")
    add("ttl_never", "Z -> Z", lambda: first(_ttl_assignments(M(), "never_expect_")), "src/mocks.c:never_expect_")
    add("vector_step", "Z", lambda: _vector_step(tu("src/vector.c")), "src/vector.c:increase_space")
    import srcfacts_c20
    srcfacts_c20.register(add, tu)
    import srcfacts_c19
    srcfacts_c19.register(add, tu)
    import srcfacts_c09
    srcfacts_c09.register(add, tu, repo)
    import srcfacts_c14
    srcfacts_c14.register(add, tu)
    import srcfacts_c15
    srcfacts_c15.register(add, tu)
    import srcfacts_c12
    srcfacts_c12.register(add, tu, repo)
    import srcfacts_buffers
    srcfacts_buffers.register(add, tu, repo)
    register_constraints(add, tu)
    register_ctors(add, tu)
    register_legacy(add, tu, repo)
    register_formats(add, tu)


# ------------------------------------------------------------------------------------------
# comparator bodies (C05): a function body made of local initialisations, `if (c) return e;`
# and a final `return e;` becomes a Gallina expression over integer (Z) and string (ostr)
# variables and the libc models of CStr.v
# ------------------------------------------------------------------------------------------
BOOL_FUNS = {"strings_are_equal": "strings_are_equal_src", "string_contains": "string_contains_src",
             "compare_want_value": None, "compare_want_contents": None, "compare_want_string": None,
             "compare_want_substring": None, "compare_want_end_of_string": None, "doubles_are_equal": None}
INT_FUNS = {"strlen": "strlen_z", "strcmp": "strcmp_m", "strpos": "strpos_src", "memcmp": "memcmp_m"}
STR_FUNS = {"strstr": "strstr_m"}


class Body:
    def __init__(self, env_int, env_str, calls):
        self.env_int, self.env_str, self.calls = dict(env_int), dict(env_str), calls

    def key(self, e):
        base, path = member_path(e)
        return base + ("->" + ".".join(path) if path else "")

    def is_null_lit(self, e):
        e = strip(e)
        for n in walk(e):
            k = n.get("kind")
            if k == "IntegerLiteral" and int(n["value"]) == 0:
                return True
            if k == "GNUNullExpr":
                return True
            if k in ("DeclRefExpr", "MemberExpr", "CallExpr"):
                return False
        return False

    def str_expr(self, e):
        e = strip(e)
        k = e.get("kind")
        if k in ("ImplicitCastExpr", "CStyleCastExpr"):
            return self.str_expr(e["inner"][0])
        if k in ("DeclRefExpr", "MemberExpr"):
            key = self.key(e)
            if key in self.env_str:
                return self.env_str[key]
            raise Cannot("string variable " + key)
        if k == "UnaryOperator" and e.get("opcode") == "&":
            sub = strip(e["inner"][0])
            if sub.get("kind") == "ArraySubscriptExpr":
                return "(str_from %s %s)" % (self.str_expr(sub["inner"][0]), self.int_expr(sub["inner"][1]))
        if k == "CallExpr":
            name = strip(e["inner"][0])["referencedDecl"]["name"]
            if name in STR_FUNS:
                return "(%s %s)" % (STR_FUNS[name], " ".join(self.str_expr(a) for a in e["inner"][1:]))
        raise Cannot("string expression " + str(k))

    def call(self, e):
        name = strip(e["inner"][0])["referencedDecl"]["name"]
        args = e["inner"][1:]
        if name in self.calls:
            return name, self.calls[name](self, args)
        if name in BOOL_FUNS and BOOL_FUNS[name]:
            return name, "(%s %s)" % (BOOL_FUNS[name], " ".join(self.str_expr(a) for a in args))
        if name in INT_FUNS:
            return name, "(%s %s)" % (INT_FUNS[name], " ".join(self.str_expr(a) for a in args))
        raise Cannot("call of " + name)

    def bool_expr(self, e):
        e0 = e
        e = strip(e)
        k = e.get("kind")
        if k == "ImplicitCastExpr" and e.get("castKind") in ("IntegralCast", "IntegralToBoolean", "PointerToBoolean"):
            return self.bool_expr(e["inner"][0])
        if k == "CXXBoolLiteralExpr":
            return "true" if e.get("value") else "false"
        if k == "BinaryOperator":
            op = e["opcode"]
            a, b = e["inner"]
            if op in ("&&", "||"):
                return "(%s %s %s)" % (self.bool_expr(a), op, self.bool_expr(b))
            if op in ("==", "!="):
                # pointer against NULL?
                for x, y in ((a, b), (b, a)):
                    if self.is_null_lit(y):
                        try:
                            s = self.str_expr(x)
                            return ("(is_null %s)" if op == "==" else "(negb (is_null %s))") % s
                        except Cannot:
                            pass
            cmpops = {"==": "=?", "<": "<?", "<=": "<=?", ">": ">?", ">=": ">=?"}
            if op in cmpops:
                return "(%s %s %s)" % (self.int_expr(a), cmpops[op], self.int_expr(b))
            if op == "!=":
                return "(negb (%s =? %s))" % (self.int_expr(a), self.int_expr(b))
        if k == "UnaryOperator" and e.get("opcode") == "!":
            return "(negb %s)" % self.bool_expr(e["inner"][0])
        if k == "CallExpr":
            name, txt = self.call(e)
            if name in BOOL_FUNS or name.startswith("compare_") or name.endswith("_are_equal"):
                return txt
            return "(negb (%s =? 0))" % txt
        if k == "IntegerLiteral":
            return "true" if int(e["value"]) != 0 else "false"
        return "(negb (%s =? 0))" % self.int_expr(e0)

    def int_expr(self, e):
        e = strip(e)
        k = e.get("kind")
        if k == "IntegerLiteral":
            return "(%s)" % e["value"]
        if k in ("ImplicitCastExpr", "CStyleCastExpr") and e.get("castKind") in ("IntegralCast", "NoOp", "LValueToRValue"):
            inner = self.int_expr(e["inner"][0])
            t = e.get("type", {}).get("qualType", "")
            src = strip(e["inner"][0]).get("type", {}).get("qualType", "")
            # narrowing of a size_t / long to int is kept visible
            if t == "int" and src in ("unsigned long", "size_t", "long"):
                return "(wrap_s32 %s)" % inner
            return inner
        if k in ("DeclRefExpr", "MemberExpr"):
            key = self.key(e)
            if key in self.env_int:
                return self.env_int[key]
            raise Cannot("integer variable " + key)
        if k == "UnaryOperator" and e.get("opcode") == "-":
            return "(- %s)" % self.int_expr(e["inner"][0])
        if k == "BinaryOperator" and e["opcode"] in ("+", "-", "*"):
            a, b = e["inner"]
            return "(%s %s %s)" % (self.int_expr(a), e["opcode"], self.int_expr(b))
        if k == "CallExpr":
            name, txt = self.call(e)
            if name in BOOL_FUNS or name.startswith("compare_"):
                return "(if %s then 1 else 0)" % txt
            return txt
        if k == "ConditionalOperator":
            c, a, b = e["inner"]
            return "(if %s then %s else %s)" % (self.bool_expr(c), self.int_expr(a), self.int_expr(b))
        if k in ("BinaryOperator", "UnaryOperator"):
            return "(if %s then 1 else 0)" % self.bool_expr(e)
        raise Cannot("integer expression " + str(k))

    def stmts(self, stmts, want_bool=True):
        """-> Gallina expression for the returned value"""
        if not stmts:
            raise Cannot("falls off the end")
        s, rest = stmts[0], stmts[1:]
        k = s.get("kind")
        if k == "DeclStmt":
            out = None
            for d in s["inner"]:
                if d.get("kind") != "VarDecl" or not d.get("inner"):
                    raise Cannot("declaration")
                qt = d.get("type", {}).get("qualType", "")
                if "char" in qt and "*" in qt:
                    self.env_str[d["name"]] = d["name"]
                    val = self.str_expr(d["inner"][0])
                else:
                    val = self.int_expr(d["inner"][0])
                    if qt == "int" and "wrap_s32" not in val and ("strlen" in val):
                        val = "(wrap_s32 %s)" % val
                    self.env_int[d["name"]] = d["name"]
                out = (d["name"], val) if out is None else out
                body = self.stmts(rest, want_bool)
                return "(let %s := %s in %s)" % (d["name"], val, body)
        if k == "IfStmt":
            inner = s["inner"]
            cond, then = inner[0], inner[1]
            if len(inner) > 2:
                raise Cannot("if-else")
            if then.get("kind") == "CompoundStmt":
                tst = then.get("inner", [])
            else:
                tst = [then]
            return "(if %s then %s else %s)" % (self.bool_expr(cond), self.stmts(tst, want_bool), self.stmts(rest, want_bool))
        if k == "ReturnStmt":
            e = s["inner"][0]
            return self.bool_expr(e) if want_bool else self.int_expr(e)
        if k == "CStyleCastExpr" or k == "NullStmt":      # (void)x;
            return self.stmts(rest, want_bool)
        raise Cannot("statement " + str(k))


def _fun_expr(tu, fn, env_int, env_str, calls, want_bool=True):
    b = Body(env_int, env_str, calls)
    return b.stmts(body_of(tu["funs"][fn]).get("inner", []), want_bool)


def register_constraints(add, tu):
    C = lambda: tu("src/constraint.c")
    S = lambda: tu("src/string_comparison.c")
    A = lambda: tu("src/assertions.c")
    ienv = {"constraint->expected_value.value.integer_value": "e", "actual->value.integer_value": "a"}
    senv = {"constraint->expected_value.value.string_value": "e", "actual->value.string_value": "a"}

    def sub(name, strs):
        # calls of other comparators with (constraint, actual) unchanged
        return lambda body, args: "(%s a e)" % (name + "_src")
    icalls = {"compare_want_value": sub("compare_want_value", False)}
    for fn in ("compare_want_value", "compare_do_not_want_value", "compare_want_greater_value", "compare_want_lesser_value"):
        add(fn + "_src", "Z -> Z -> bool",
            (lambda fn=fn: "fun (a e : Z) => " + _fun_expr(C(), fn, ienv, {}, icalls)), "src/constraint.c:" + fn)
    # string_comparison.c
    add("strings_are_equal_src", "ostr -> ostr -> bool",
        lambda: "fun (actual expected : ostr) => " + _fun_expr(S(), "strings_are_equal", {}, {"actual": "actual", "expected": "expected"}, {}),
        "src/string_comparison.c:strings_are_equal")
    add("string_contains_src", "ostr -> ostr -> bool",
        lambda: "fun (actual expected : ostr) => " + _fun_expr(S(), "string_contains", {}, {"actual": "actual", "expected": "expected"}, {}),
        "src/string_comparison.c:string_contains")
    scalls = {}
    for fn in ("compare_want_string", "compare_want_substring", "compare_want_end_of_string"):
        scalls[fn] = sub(fn, True)
    scalls["strpos"] = lambda body, args: "(strpos_m %s)" % " ".join(body.str_expr(x) for x in args)
    for fn in ("compare_want_string", "compare_do_not_want_string", "compare_want_substring", "compare_do_not_want_substring",
               "compare_want_beginning_of_string", "compare_do_not_want_beginning_of_string",
               "compare_want_end_of_string", "compare_do_not_want_end_of_string"):
        add(fn + "_src", "ostr -> ostr -> bool",
            (lambda fn=fn: "fun (a e : ostr) => " + _fun_expr(C(), fn, {}, senv, scalls)), "src/constraint.c:" + fn)


def _unary_ctor(tu, ctor):
    """create_is_null_constraint etc.: `constraint->compare = &fn` and the literal handed to
    make_cgreen_integer_value -> fun a => fn_src a lit"""
    cmp_fn, lit = None, None
    for n in walk(body_of(tu["funs"][ctor])):
        if n.get("kind") == "BinaryOperator" and n.get("opcode") == "=":
            try:
                base, path = member_path(n["inner"][0])
            except Cannot:
                continue
            if base == "constraint" and path == ["compare"]:
                for m in walk(n["inner"][1]):
                    if m.get("kind") == "DeclRefExpr" and m["referencedDecl"].get("kind") == "FunctionDecl":
                        cmp_fn = m["referencedDecl"]["name"]
        if n.get("kind") == "CallExpr":
            callee = strip(n["inner"][0])
            if callee.get("kind") == "DeclRefExpr" and callee["referencedDecl"]["name"] == "make_cgreen_integer_value":
                arg = n["inner"][1]
                for m in walk(arg):
                    if m.get("kind") == "IntegerLiteral":
                        lit = int(m["value"])
                    if m.get("kind") == "CXXBoolLiteralExpr":
                        lit = 1 if m.get("value") else 0
    if cmp_fn is None or lit is None:
        raise Cannot("constructor " + ctor)
    return "fun (a : Z) => %s_src a (%d)" % (cmp_fn, lit)


def register_ctors(add, tu):
    C = lambda: tu("src/constraint.c")
    for nm, ctor in (("is_null", "create_is_null_constraint"), ("is_non_null", "create_not_null_constraint"),
                     ("is_true", "create_is_true_constraint"), ("is_false", "create_is_false_constraint")):
        add(nm + "_src", "Z -> bool", (lambda ctor=ctor: _unary_ctor(C(), ctor)), "src/constraint.c:" + ctor)


# ------------------------------------------------------------------------------------------
# legacy assertions: the predicate each macro / function hands to assert_true, and its polarity
# ------------------------------------------------------------------------------------------
import re as _re


def _split_args(s):
    """top-level comma split of a macro argument list"""
    out, depth, cur = [], 0, ""
    for ch in s:
        if ch in "([":
            depth += 1
        elif ch in ")]":
            depth -= 1
        if ch == "," and depth == 0:
            out.append(cur.strip()); cur = ""
        else:
            cur += ch
    out.append(cur.strip())
    return out


def _classify_pred(txt):
    """-> (base, negated)"""
    t = txt.replace(" ", "")
    neg = False
    while t.startswith("!"):
        neg = not neg
        t = t[1:]
    while t.startswith("(") and t.endswith(")") and _balanced(t[1:-1]):
        t = t[1:-1]
    if t in ("result",):
        return "truth", neg
    m = _re.fullmatch(r"\(?(tried)\)?(==|!=)\(?(expected)\)?", t)
    if m:
        return "value_eq", (neg != (m.group(2) == "!="))
    for f in ("doubles_are_equal", "strings_are_equal"):
        if _re.fullmatch(f + r"\(\(?tried\)?,\(?expected\)?\)", t):
            return f, neg
    raise Cannot("predicate " + txt)


def _balanced(t):
    d = 0
    for ch in t:
        if ch == "(":
            d += 1
        elif ch == ")":
            d -= 1
            if d < 0:
                return False
    return d == 0


def _legacy_macros(repo):
    import os
    txt = open(os.path.join(repo, "include/cgreen/legacy.h")).read()
    txt = txt.replace("\\\n", " ")
    table = {}
    for m in _re.finditer(r"#define\s+(assert_\w+_with_message)\(([^)]*)\)\s+(.*)", txt):
        name, body = m.group(1), m.group(3)
        i = body.index("assert_true)(") + len("assert_true)(")
        args = _split_args(body[i:body.rindex(")")])
        pred = _classify_pred(args[3])
        if name in table and table[name] != pred:
            raise Cannot("C and C++ definitions of %s differ" % name)
        table[name] = pred
    return table


def _legacy_item(repo):
    t = _legacy_macros(repo)
    order = ["assert_true_with_message", "assert_false_with_message", "assert_equal_with_message",
             "assert_not_equal_with_message", "assert_double_equal_with_message", "assert_double_not_equal_with_message",
             "assert_string_equal_with_message", "assert_string_not_equal_with_message"]
    if sorted(t) != sorted(order):
        raise Cannot("set of legacy *_with_message macros changed: %s" % sorted(t))
    base = {"truth": 0, "value_eq": 1, "doubles_are_equal": 2, "strings_are_equal": 3}
    return "[" + "; ".join("(%d, %s)" % (base[t[n][0]], "true" if t[n][1] else "false") for n in order) + "]%nat"


def _assert_fn_pred(tu, fn):
    """4th argument of the assert_true call in assert_equal_ etc."""
    for n in walk(body_of(tu["funs"][fn])):
        if n.get("kind") == "CallExpr" and len(n["inner"]) >= 6:
            b = Body({"tried": "tried", "expected": "expected"}, {"tried": "tried", "expected": "expected"}, {})
            return n["inner"][4], b
    raise Cannot("assert_true call in " + fn)


def register_legacy(add, tu, repo):
    add("legacy_with_message", "list (nat * bool)", lambda: _legacy_item(repo), "include/cgreen/legacy.h:*_with_message")
    A = lambda: tu("src/assertions.c")

    def ipred(fn):
        e, b = _assert_fn_pred(A(), fn)
        b.env_str = {}
        return "fun (tried expected : Z) => " + b.bool_expr(e)

    def spred(fn):
        e, b = _assert_fn_pred(A(), fn)
        b.env_int = {}
        return "fun (tried expected : ostr) => " + b.bool_expr(e)
    add("assert_equal_src", "Z -> Z -> bool", lambda: ipred("assert_equal_"), "src/assertions.c:assert_equal_")
    add("assert_not_equal_src", "Z -> Z -> bool", lambda: ipred("assert_not_equal_"), "src/assertions.c:assert_not_equal_")
    add("assert_string_equal_src", "ostr -> ostr -> bool", lambda: spred("assert_string_equal_"), "src/assertions.c:assert_string_equal_")
    add("assert_string_not_equal_src", "ostr -> ostr -> bool", lambda: spred("assert_string_not_equal_"), "src/assertions.c:assert_string_not_equal_")


# ------------------------------------------------------------------------------------------
# message formats (C10): string literals after macro expansion
# ------------------------------------------------------------------------------------------
def _c_string(node):
    """bytes of a StringLiteral node (possibly behind casts)"""
    for n in walk(node):
        if n.get("kind") == "StringLiteral":
            v = n["value"]
            import codecs
            return codecs.decode(v[1:-1], "unicode_escape").encode("latin-1")
    raise Cannot("string literal")


def _coq_bytes(b):
    return "[" + "; ".join(str(x) for x in b) + "]%N"


def _gvar_string(tu, name):
    d = tu["gvars"].get(name)
    if d is None:
        raise Cannot("global " + name)
    return _c_string(d)


def _ctor_formats(tu, ctor):
    """(name, actual_value_message or None=default, expected_value_message or None=default)"""
    res = {"name": None, "actual_value_message": None, "expected_value_message": None}
    for n in walk(body_of(tu["funs"][ctor])):
        if n.get("kind") == "BinaryOperator" and n.get("opcode") == "=":
            try:
                base, path = member_path(n["inner"][0])
            except Cannot:
                continue
            if base == "constraint" and len(path) == 1 and path[0] in res:
                res[path[0]] = _c_string(n["inner"][1])
    if res["name"] is None:
        raise Cannot("name of " + ctor)
    return res


CTORS = [("eq", "create_equal_to_value_constraint"), ("hex", "create_equal_to_hexvalue_constraint"),
         ("ne", "create_not_equal_to_value_constraint"), ("lt", "create_less_than_value_constraint"),
         ("gt", "create_greater_than_value_constraint"), ("null", "create_is_null_constraint"),
         ("nonnull", "create_not_null_constraint"), ("true", "create_is_true_constraint"),
         ("false", "create_is_false_constraint"),
         ("seq", "create_equal_to_string_constraint"), ("sne", "create_not_equal_to_string_constraint"),
         ("scontains", "create_contains_string_constraint"), ("sncontains", "create_does_not_contain_string_constraint"),
         ("sbegins", "create_begins_with_string_constraint"), ("snbegins", "create_does_not_begin_with_string_constraint"),
         ("sends", "create_ends_with_string_constraint"), ("snends", "create_does_not_end_with_string_constraint")]


def register_formats(add, tu):
    C = lambda: tu("src/constraint.c")
    MF = lambda: tu("src/message_formatting.c")
    A = lambda: tu("src/assertions.c")
    add("default_avm", "list N", lambda: _coq_bytes(_gvar_string(C(), "default_actual_value_message")), "src/constraint.c:default_actual_value_message")
    add("default_evm", "list N", lambda: _coq_bytes(_gvar_string(C(), "default_expected_value_message")), "src/constraint.c:default_expected_value_message")
    for g in ("actual_value_string_format", "expected_value_string_format", "constraint_as_string_format"):
        add("fmt_" + g, "list N", (lambda g=g: _coq_bytes(_gvar_string(MF(), g))), "src/message_formatting.c:" + g)

    def table():
        rows = []
        for tag, ctor in CTORS:
            f = _ctor_formats(C(), ctor)
            rows.append("(%s, %s, %s)" % (_coq_bytes(f["name"]),
                                          "default_avm" if f["actual_value_message"] is None else _coq_bytes(f["actual_value_message"]),
                                          "default_evm" if f["expected_value_message"] is None else _coq_bytes(f["expected_value_message"])))
        return "[" + ";\n   ".join(rows) + "]"
    add("constraint_formats", "list (list N * list N * list N)", table, "src/constraint.c:create_*_constraint")

    def afmt(fn):
        for n in walk(body_of(A()["funs"][fn])):
            if n.get("kind") == "CallExpr" and len(n["inner"]) >= 6:
                return _coq_bytes(_c_string(n["inner"][5]))
        raise Cannot("format of " + fn)
    for fn in ("assert_equal_", "assert_not_equal_", "assert_string_equal_", "assert_string_not_equal_"):
        add("fmt_" + fn, "list N", (lambda fn=fn: afmt(fn)), "src/assertions.c:" + fn)
