"""Further translator items, registered per model layer."""
from srcfacts import Cannot, walk, body_of, strip, member_path, expr_bool, expr_int, const_value


def _gvar_int(tu, name):
    d = tu["gvars"].get(name)
    if d is None:
        raise Cannot("global " + name)
    for n in walk(d):
        if n.get("kind") == "IntegerLiteral":
            return int(n["value"])
    raise Cannot("initialiser of " + name)


def _ttl_assignments(tu, fn):
    """expectation->time_to_live = <constant expression over UNLIMITED_TIME_TO_LIVE>"""
    res = []
    for n in walk(body_of(tu["funs"][fn])):
        if n.get("kind") == "BinaryOperator" and n.get("opcode") == "=":
            try:
                base, path = member_path(n["inner"][0])
            except Cannot:
                continue
            if base == "expectation" and path == ["time_to_live"]:
                try:
                    res.append(expr_int(n["inner"][1], {"UNLIMITED_TIME_TO_LIVE": "U"}))
                except Cannot:
                    res.append(None)
    return res


def _pred_on_ttl(tu, fn):
    """`return expectation->time_to_live == ...;` as a function of (ttl U)"""
    for n in walk(body_of(tu["funs"][fn])):
        if n.get("kind") == "ReturnStmt":
            return "fun (ttl U : Z) => " + expr_bool(n["inner"][0], {"expectation->time_to_live": "ttl", "UNLIMITED_TIME_TO_LIVE": "U"})
    raise Cannot("return of " + fn)


def _vector_step(tu):
    for n in walk(body_of(tu["funs"]["increase_space"])):
        if n.get("kind") == "CompoundAssignOperator" and n.get("opcode") == "+=":
            base, path = member_path(n["inner"][0])
            if base == "vector" and path == ["space"]:
                return "(%s)" % expr_int(n["inner"][1], {})
    raise Cannot("vector growth step")


def register(add, tu, repo, bdir):
    M = lambda: tu("src/mocks.c")
    add("unlimited_ttl", "Z", lambda: "(%d)" % _gvar_int(M(), "UNLIMITED_TIME_TO_LIVE"), "src/mocks.c:UNLIMITED_TIME_TO_LIVE")
    add("is_always_src", "Z -> Z -> bool", lambda: _pred_on_ttl(M(), "is_always_call"), "src/mocks.c:is_always_call")
    add("is_never_src", "Z -> Z -> bool", lambda: _pred_on_ttl(M(), "is_never_call"), "src/mocks.c:is_never_call")

    def first(l):
        l = [x for x in l if x is not None]
        if not l:
            raise Cannot("no constant time_to_live assignment")
        return "fun (U : Z) => " + l[0]
    add("ttl_expect_default", "Z -> Z", lambda: first(_ttl_assignments(M(), "expect_")), "src/mocks.c:expect_")
    add("ttl_always", "Z -> Z", lambda: first(_ttl_assignments(M(), "always_expect_")), "src/mocks.c:always_expect_")
    add("ttl_never", "Z -> Z", lambda: first(_ttl_assignments(M(), "never_expect_")), "src/mocks.c:never_expect_")
    add("vector_step", "Z", lambda: _vector_step(tu("src/vector.c")), "src/vector.c:increase_space")
