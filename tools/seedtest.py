#!/usr/bin/env python3
"""Development aid: apply a seeded change to /repo, run checks, undo it.
   usage: seedtest.py <seed dir name> <check id>...   (never commits anything in /repo)"""
import os, subprocess, sys, time
ROOT = os.path.dirname(os.path.dirname(os.path.abspath(__file__)))


def main():
    seed, checks = sys.argv[1], sys.argv[2:]
    patch = os.path.join(ROOT, "seeded", seed, "patch.diff")
    st = subprocess.run(["git", "-C", "/repo", "status", "--porcelain", "--untracked-files=no"], stdout=subprocess.PIPE, text=True).stdout
    if st.strip():
        print("repo not clean:", st); sys.exit(2)
    p = subprocess.run(["git", "-C", "/repo", "apply", "--3way", patch], stdout=subprocess.PIPE, stderr=subprocess.STDOUT, text=True)
    if p.returncode != 0:
        p = subprocess.run(["git", "-C", "/repo", "apply", patch], stdout=subprocess.PIPE, stderr=subprocess.STDOUT, text=True)
    if p.returncode != 0:
        print("PATCH DOES NOT APPLY:", p.stdout[-600:])
        subprocess.run(["git", "-C", "/repo", "reset", "-q", "--hard", "HEAD"])
        sys.exit(3)
    try:
        for c in checks:
            t = time.time()
            env = dict(os.environ, VERIF_EVIDENCE_DIR=os.path.join(ROOT, "_work", "evidence-seeded"))
            r = subprocess.run([sys.executable, os.path.join(ROOT, "tools", "vcheck.py"), c], cwd=ROOT, stdout=subprocess.PIPE,
                               stderr=subprocess.STDOUT, text=True, env=env)
            lines = [l for l in r.stdout.split("\n") if l.startswith("VIOLATION") or l.startswith("  violation") or
                     l.startswith("  model and") or l.startswith("  proof") or l.startswith("INFRA")]
            print("%s on %s: exit %d (%.0fs)" % (c, seed, r.returncode, time.time() - t))
            for l in lines[:4]:
                print("   ", l[:300])
    finally:
        subprocess.run(["git", "-C", "/repo", "reset", "-q", "--hard", "HEAD"])
        # files added by the patch
        out = subprocess.run(["git", "-C", "/repo", "status", "--porcelain"], stdout=subprocess.PIPE, text=True).stdout
        for l in out.split("\n"):
            if l.startswith("?? ") and not l[3:].startswith("_build"):
                os.remove(os.path.join("/repo", l[3:]))


if __name__ == "__main__":
    main()
