"""Translator items for C15: the double comparison bodies of src/constraint.c as Gallina
functions over an abstract float environment (Defs.fenv: sub, add, abs, <) and libm
(Defs.libm: floor(log10 x) as an extended integer, pow(10, k)); the absolute tolerance as a
bit pattern; the default number of significant figures."""
import struct
from srcfacts import Cannot, walk, body_of, strip, member_path


def need(c, what):
    if not c:
        raise Cannot(what)


def callee(e):
    c = strip(e["inner"][0])
    return c["referencedDecl"]["name"] if c.get("kind") == "DeclRefExpr" else None


class FX:
    def __init__(self, fvars, figs="figs"):
        self.fvars = dict(fvars)
        self.figs = figs

    def f(self, e):
        e = strip(e)
        k = e.get("kind")
        if k == "ImplicitCastExpr" and e.get("castKind") in ("LValueToRValue", "NoOp"):
            return self.f(e["inner"][0])
        if k in ("DeclRefExpr", "MemberExpr"):
            base, path = member_path(e)
            key = ".".join([base] + path)
            if key in self.fvars:
                return self.fvars[key]
            raise Cannot("float variable " + key)
        if k == "CallExpr":
            nm = callee(e)
            args = e["inner"][1:]
            if nm == "fabs":
                return "(f_abs E %s)" % self.f(args[0])
            if nm == "accuracy":
                need(self.i(args[0]) == self.figs, "accuracy(significant_figures, ..)")
                return "(acc %s %s)" % (self.figs, self.f(args[1]))
            raise Cannot("float call " + str(nm))
        if k == "BinaryOperator" and e["opcode"] in ("-", "+"):
            a, b = e["inner"]
            return "(%s E %s %s)" % ("f_sub" if e["opcode"] == "-" else "f_add", self.f(a), self.f(b))
        if k == "ConditionalOperator":
            c, a, b = e["inner"]
            return "(if %s then %s else %s)" % (self.b(c), self.f(a), self.f(b))
        raise Cannot("float expression " + str(k))

    def i(self, e):
        e = strip(e)
        if e.get("kind") == "ImplicitCastExpr":
            return self.i(e["inner"][0])
        if e.get("kind") == "DeclRefExpr" and e["referencedDecl"]["name"] == "significant_figures":
            return self.figs
        raise Cannot("int expression")

    def b(self, e):
        e = strip(e)
        k = e.get("kind")
        if k == "ImplicitCastExpr":
            return self.b(e["inner"][0])
        if k == "IntegerLiteral":
            return "true" if int(e["value"]) else "false"
        if k == "CXXBoolLiteralExpr":
            return "true" if e.get("value") else "false"
        if k == "BinaryOperator" and e["opcode"] in ("<", ">"):
            a, b = e["inner"]
            if e["opcode"] == "<":
                return "(f_lt E %s %s)" % (self.f(a), self.f(b))
            return "(f_lt E %s %s)" % (self.f(b), self.f(a))
        if k == "UnaryOperator" and e.get("opcode") == "!":
            return "(negb %s)" % self.b(e["inner"][0])
        if k == "CallExpr":
            nm = callee(e)
            if nm in ("doubles_are_equal", "double_is_lesser", "double_is_greater", "compare_want_double"):
                return "(%s %s)" % (nm, " ".join(self.f(a) for a in e["inner"][1:]))
        raise Cannot("bool expression " + str(k))

    def stmts(self, ss):
        need(ss, "falls off the end")
        s, rest = ss[0], ss[1:]
        k = s.get("kind")
        if k == "DeclStmt":
            d = s["inner"][0]
            need(d.get("kind") == "VarDecl" and d.get("inner") and d.get("type", {}).get("qualType") == "double", "declaration")
            val = self.f(d["inner"][0])
            self.fvars[d["name"]] = d["name"]
            return "(let %s := %s in %s)" % (d["name"], val, self.stmts(rest))
        if k == "IfStmt":
            need(len(s["inner"]) == 2, "if-else")
            then = s["inner"][1]
            tst = then.get("inner", []) if then.get("kind") == "CompoundStmt" else [then]
            return "(if %s then %s else %s)" % (self.b(s["inner"][0]), self.stmts(tst), self.stmts(rest))
        if k == "ReturnStmt":
            return self.b(s["inner"][0])
        raise Cannot("statement " + str(k))


def body(tu, fn, params):
    f = tu["funs"][fn]
    return FX({p: p for p in params}).stmts(body_of(f).get("inner", []))


def fbits(x):
    return struct.unpack("<Q", struct.pack("<d", x))[0]


def lit(e):
    e = strip(e)
    while e.get("kind") == "ImplicitCastExpr":
        e = strip(e["inner"][0])
    need(e.get("kind") == "FloatingLiteral", "floating literal")
    return float(e["value"])


def accuracy_src(tu):
    f = tu["funs"]["accuracy"]
    ss = [s for s in body_of(f).get("inner", [])]
    need(len(ss) == 1 and ss[0].get("kind") == "ReturnStmt", "accuracy shape")
    call = strip(ss[0]["inner"][0])
    need(call.get("kind") == "CallExpr" and callee(call) == "pow" and lit(call["inner"][1]) == 10.0, "accuracy: pow(10.0, ..)")

    def ex(e):
        e = strip(e)
        k = e.get("kind")
        if k == "ImplicitCastExpr" and e.get("castKind") == "IntegralToFloating":
            inner = strip(e["inner"][0])
            while inner.get("kind") == "ImplicitCastExpr":
                inner = strip(inner["inner"][0])
            need(inner.get("kind") == "DeclRefExpr" and inner["referencedDecl"]["name"] == "figures", "(double)figures")
            return "(EFin figures)"
        if k == "FloatingLiteral":
            v = float(e["value"])
            need(v == int(v), "integral literal")
            return "(EFin (%d))" % int(v)
        if k == "BinaryOperator" and e["opcode"] in ("+", "-"):
            a, b = e["inner"]
            return "(%s %s %s)" % ("ex_add" if e["opcode"] == "+" else "ex_sub", ex(a), ex(b))
        if k == "CallExpr" and callee(e) == "floor":
            inner = strip(e["inner"][1])
            need(inner.get("kind") == "CallExpr" and callee(inner) == "log10", "floor(log10(..))")
            return "(l_flog10 L %s)" % FX({"largest": "largest"}).f(inner["inner"][1])
        raise Cannot("exponent expression " + str(k))
    return "fun (F : Type) (E : fenv F) (L : libm F) (figures : Z) (largest : F) => l_pow10 L %s" % ex(call["inner"][2])


def abs_tol_bits(tu):
    d = tu["gvars"].get("absolute_tolerance")
    need(d is not None, "absolute_tolerance")
    e = strip(d["inner"][0])
    if e.get("kind") == "BinaryOperator" and e.get("opcode") == "/":
        v = lit(e["inner"][0]) / lit(e["inner"][1])      # IEEE double division, as the compiler folds it
    else:
        v = lit(e)
    return "(%d)" % fbits(v)


def figures_default(tu, tu_runner):
    d = tu["gvars"].get("significant_figures")
    need(d is not None, "significant_figures")
    v0 = None
    for n in walk(d):
        if n.get("kind") == "IntegerLiteral":
            v0 = int(n["value"])
    need(v0 is not None, "initial significant_figures")
    # run_the_test_code() re-establishes it before every test
    v1 = None
    for n in walk(body_of(tu_runner["funs"]["run_the_test_code"])):
        if n.get("kind") == "CallExpr" and callee(n) == "significant_figures_for_assert_double_are":
            for m in walk(n["inner"][1]):
                if m.get("kind") == "IntegerLiteral":
                    v1 = int(m["value"])
    need(v1 is not None, "run_the_test_code resets the figures")
    need(v0 == v1, "initial figures %s differ from the per-test reset %s" % (v0, v1))
    return "(%d)" % v0


def compare_order(tu, fn, target):
    """compare_want_*_double: which of (expected, actual) is handed over first"""
    for n in walk(body_of(tu["funs"][fn])):
        if n.get("kind") == "CallExpr" and callee(n) == target:
            names = []
            for a in n["inner"][1:]:
                base, path = member_path(a)
                names.append({"constraint": "e", "actual": "a"}.get(base))
            need(sorted(names) == ["a", "e"], fn + ": arguments")
            return "fun (F : Type) (cmp : F -> F -> bool) (e a : F) => cmp %s %s" % tuple(names)
    raise Cannot(fn + " does not call " + target)


def register(add, tu):
    C = lambda: tu("src/constraint.c")
    T = "forall F : Type, fenv F -> (Z -> F -> F) -> F -> Z -> F -> F -> bool"
    add("accuracy_src", "forall F : Type, fenv F -> libm F -> Z -> F -> F", lambda: accuracy_src(C()), "src/constraint.c:accuracy")
    add("doubles_are_equal_src", T,
        lambda: "fun (F : Type) (E : fenv F) (acc : Z -> F -> F) (absolute_tolerance : F) (figs : Z) (tried expected : F) => " +
        FX({"tried": "tried", "expected": "expected", "absolute_tolerance": "absolute_tolerance"}).stmts(body_of(C()["funs"]["doubles_are_equal"]).get("inner", [])),
        "src/constraint.c:doubles_are_equal")
    for fn in ("double_is_lesser", "double_is_greater"):
        add(fn + "_src", T,
            (lambda fn=fn: "fun (F : Type) (E : fenv F) (acc : Z -> F -> F) (absolute_tolerance : F) (figs : Z) (actual expected : F) => " +
             FX({"actual": "actual", "expected": "expected"}).stmts(body_of(C()["funs"][fn]).get("inner", []))),
            "src/constraint.c:" + fn)
    add("abs_tol_bits", "Z", lambda: abs_tol_bits(C()), "src/constraint.c:absolute_tolerance")
    add("figures_default", "Z", lambda: figures_default(C(), tu("src/runner.c")), "src/constraint.c:significant_figures, src/runner.c:run_the_test_code")
    for nm, fn, target in (("want_double", "compare_want_double", "doubles_are_equal"),
                           ("want_lesser_double", "compare_want_lesser_double", "double_is_lesser"),
                           ("want_greater_double", "compare_want_greater_double", "double_is_greater")):
        add("order_" + nm, "forall F : Type, (F -> F -> bool) -> F -> F -> bool",
            (lambda fn=fn, target=target: compare_order(C(), fn, target)), "src/constraint.c:" + fn)
    def negates():
        r = [n for n in walk(body_of(C()["funs"]["compare_do_not_want_double"])) if n.get("kind") == "ReturnStmt"]
        need(len(r) == 1, "compare_do_not_want_double shape")
        e = strip(r[0]["inner"][0])
        while e.get("kind") == "ImplicitCastExpr":
            e = strip(e["inner"][0])
        ok = e.get("kind") == "UnaryOperator" and e.get("opcode") == "!"
        if ok:
            c = strip(e["inner"][0])
            while c.get("kind") == "ImplicitCastExpr":
                c = strip(c["inner"][0])
            ok = c.get("kind") == "CallExpr" and callee(c) == "compare_want_double"
        return "true" if ok else "false"
    add("do_not_want_double_negates", "bool", negates, "src/constraint.c:compare_do_not_want_double")
