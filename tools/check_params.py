"""C16: mock clauses bind to the argument with the same name, however the mock(...) argument
list is written."""
import os, subprocess
import vlib, gen_params
import check_containers as CC

TRUSTED = [
    "Coq 8.16.1 kernel (full .vo build; no native_compute)",
    "Params.v is a hand-written Gallina model of the tokenizer loops of src/parameters.c, number_of_parameters_in and the binding order of mock_(); it is tied to the code by running create_vector_of_names / create_vector_of_double_markers_for and generated mock functions on the same inputs (differential testing), not by translation",
    "extraction: ExtrOcamlBasic only; ocaml/h_params.ml glue",
    "correspondence: tools/gen_params.py (generated translation unit, the C preprocessor stringifies every spelling), harness/params_driver.c, built with ASan+UBSan against a sanitizer build of /repo",
    "modelled, not verified: the preprocessor's stringification (# operator: blanks at the ends dropped, inner runs of blanks collapsed to one space), isspace() in the C locale, the varargs ABI",
]


def sx(b):
    return "(" + " ".join(str(x) for x in b) + ")" if b else "e"


def hx(b):
    return b.hex() if b else "e"


def spec_names(f):
    return f["names"]


def expected_line(kind, f, pname, expected, vals):
    """the property's own oracle: the clause applies to the argument at the position of pname"""
    if pname not in f["names"]:
        return None
    j = f["names"].index(pname)
    if kind in ("W", "D"):
        ok = vals[j] == expected
        return "%d %d 0" % (1 if ok else 0, 0 if ok else 1)
    if kind == "C":
        return "0 0 %d" % vals[j]
    if kind == "O":
        return "0 0 %d" % (1 << j)


def from_outcome(kind, outcome, expected, dbl=0):
    """what the implementation must print if it behaves like the model's outcome"""
    if outcome == "CRASH":
        return "CRASH"
    if outcome == "NF":
        if kind == "N":
            return "0 1 %s" % ("2.5" if dbl else "77")
        return "0 1 " + ("-4242" if kind == "C" else "0")
    vals = [int(x) for x in outcome.split()[1:]]
    if kind in ("W", "D"):
        p = sum(1 for v in vals if v == expected)
        return "%d %d 0" % (p, len(vals) - p)
    if kind == "C":
        return "0 0 %d" % (vals[-1] if vals else -4242)
    if kind == "O":
        bm = 0
        for v in vals:
            bm |= 1 << v
        return "0 0 %d" % bm
    if kind == "N":
        return "applied"


def gen_texts(chk):
    """strings for the tokenizer itself: spellings of identifier lists, and a malformed stream"""
    rng = chk.rng
    out = []
    n = 400 if chk.tier == "quick" else 20000
    ids = [i.encode() for i in gen_params.IDENTS]
    for _ in range(n):
        k = rng.choice([0, 1, 1, 2, 3, 4, 8])
        s = b""
        for i in range(k):
            nm = rng.choice(ids)
            w = rng.random()
            if w < 0.2:
                nm = b"box_double(" + nm + b")"
            elif w < 0.3:
                nm = b"box_double( " + nm + b" )"
            elif w < 0.35:
                nm = b"box_double (" + nm + b")"
            elif w < 0.4:
                nm = b"d(" + nm + b")"
            s += nm
            if i + 1 < k:
                s += rng.choice([b",", b", ", b" , ", b" ,", b",  ", b",\n", b",\t"])
        out.append(s)
    # argument lists of an exact total length around every power of two (a fixed-size scratch copy of
    # the list, if there is one, shows at its boundary), the last argument plain or wrapped
    for total in [15, 16, 17, 31, 32, 33, 63, 64, 65, 127, 128, 129, 255, 256, 257, 511, 512, 513, 1023, 1024, 1025, 4095, 4096, 4097]:
        for last in (b"last_one", b"box_double(rate)", b"x"):
            for sep in (b", ", b","):
                s = b""
                i = 0
                while len(s) + len(sep) + len(last) + 12 < total:
                    s += b"arg_%d" % i + (b"_longer" if i % 3 == 0 else b"") + sep
                    i += 1
                pad = total - len(s) - len(last)
                if pad < 2:
                    continue
                s += b"p" * (pad - len(sep)) + sep + last
                assert len(s) == total, (len(s), total)
                out.append(s)
    alpha = b"ab d(),\t\n  box_double"
    for _ in range(n // 2):
        out.append(bytes(rng.choice(alpha) for _ in range(rng.choice([1, 2, 3, 5, 8, 13, 30]))))
    for t in (b"", b" ", b",", b"a,", b",a", b"a,,b", b"()", b"box_double()", b"box_double( )", b"d()", b"( a )", b"a b", b"a, b ", b" a",
              b"box_double(box_double(x))", b"box_double(d(x))", b"d(box_double(x))", b"box_double(x", b"box_doublex)", b"box_double"):
        out.append(t)
    return out


# what #__VA_ARGS__ can give: no leading or trailing blank, at most one space between tokens
ITEM = rb"(?:box_double ?\( ?([A-Za-z_][A-Za-z_0-9]*) ?\)|([A-Za-z_][A-Za-z_0-9]*))"


def spelled_names(text):
    """the identifiers of a well-spelled argument list, None when the text is not one"""
    import re
    if not re.fullmatch(ITEM + rb"(?: ?, ?" + ITEM + rb")*", text):
        return None
    names = [a or b for a, b in re.findall(ITEM, text)]
    if any(n in (b"box_double", b"d") for n in names):
        return None
    return names


def check_C16(chk):
    vlib.build_repo("hooks")
    build = vlib.build_repo("asan")
    fns = gen_params.functions(chk.seed, n_per_arity=6 if chk.tier == "quick" else 24)
    gdir = os.path.join(vlib.WORK, "gen-params")
    os.makedirs(gdir, exist_ok=True)
    src = gen_params.c_source(fns)
    path = os.path.join(gdir, "params_tu.inc")
    if not os.path.exists(path) or open(path).read() != src:
        open(path, "w").write(src)
    drv = vlib.build_driver("params_driver", build, extra=["-I" + gdir, "-Wno-unused-function"])
    chk.prove(["Properties_C16.v"])
    chk.cov["trusted_base"] = TRUSTED + ["axioms: see coverage.print_assumptions"]
    rng = chk.rng
    impl_lines, model_lines, meta = [], [], []

    # ---- the tokenizer translated whole from src/parameters.c, run by the extracted CLite interpreter against
    # Params.names; strings on which they differ are handed to the real tokenizer too
    import codetie
    texts = gen_texts(chk)
    directed = codetie.string_function(chk, "names", codetie.names_inputs(chk, extra=[t for t in texts if 14 < len(t) <= 300]),
                                       "create_vector_of_names()")[:60]
    # ---- the tokenizer on its own
    for t in texts + [d for d in directed if d not in texts]:
        impl_lines.append("T " + hx(t)); model_lines.append("(T %s)" % sx(t)); meta.append(("T", t))
    # ---- the stringified text of every generated function is what the generator believes
    for f in fns:
        t = f["text"].encode()
        impl_lines.append("T " + hx(t)); model_lines.append("(T %s)" % sx(t)); meta.append(("TF", f))
    # ---- clause binding through the generated functions
    for f in fns:
        k = f["arity"]
        vals = [100 + 7 * i for i in range(k)]
        text = f["text"].encode()
        for j in range(k):
            pn = f["names"][j]
            kinds = ["D"] if f["dbl"][j] else ["W", "C", "O"]
            for kind in kinds:
                variants = [(vals[j], list(vals))]
                wrong = list(vals); wrong[j] += 1
                variants.append((vals[j], wrong))                       # the named argument differs -> must fail
                others = [v + 1000 for v in vals]; others[j] = vals[j]
                variants.append((vals[j], others))                      # every other argument differs -> must pass
                if kind in ("C", "O"):
                    variants = variants[:1]
                for expected, vv in variants:
                    if kind == "W":
                        il = "W %d %s %d %s" % (f["id"], pn, expected, " ".join(map(str, vv)))
                    elif kind == "D":
                        il = "D %d %s %d %s" % (f["id"], pn, expected, " ".join(map(str, vv)))
                    else:
                        il = "%s %d %s %s" % (kind, f["id"], pn, " ".join(map(str, vv)))
                    acts = list(range(k)) if kind == "O" else vv
                    impl_lines.append(il)
                    model_lines.append("(B %s %s (%s))" % (sx(text), sx(pn.encode()), " ".join(map(str, acts))))
                    meta.append((kind, f, pn, expected, vv))
        # absent names: never a name of this function; prefixes / suffixes of real names included
        absent = {"zz", "nosuch"}
        for n in f["names"]:
            absent |= {n + "x", "x" + n, n[:-1], n[1:], n.upper()}
        # pieces of present names delimited by '_' (len of buf_len), and the words of the wrapper itself
        pieces = {pc for n in f["names"] for pc in n.split("_")} | ({"box", "double", "box_double"} if any(f["dbl"]) else set())
        pieces = [a for a in sorted(pieces) if a and a not in f["names"] and a.isalnum() or a == "box_double" and a not in f["names"]]
        absent = [a for a in sorted(absent) if a and a not in f["names"] and a.replace("_", "a").isalnum() and a not in pieces]
        for pn in (absent + pieces if chk.tier == "thorough" else rng.sample(absent, min(3, len(absent))) + pieces[:3]):
            for dbl in (0, 1):
                impl_lines.append("N %d %s %d %s" % (f["id"], pn, dbl, " ".join(map(str, vals))))
                model_lines.append("(B %s %s (%s))" % (sx(text), sx(pn.encode()), " ".join(map(str, vals))))
                meta.append(("N", f, pn, dbl, vals))
    impl = CC.run_vm(drv, impl_lines)
    model = vlib.run_model("params", model_lines)
    for il, ml, mt, (o, san), m in zip(impl_lines, model_lines, meta, impl, model):
        chk.case(il)
        kind = mt[0]
        chk.count("kind:" + kind)
        chk.cov["disagreements_checked"] += 1
        rp = {"case": il[:600], "model_case": ml[:600],
              "how": "python3 tools/vcheck.py C16 regenerates _work/gen-params/params_tu.inc and _work/bin-asan/params_driver; echo '<case>' | ASAN_OPTIONS=detect_leaks=0 _work/bin-asan/params_driver"}
        if kind in ("T", "TF"):
            if san is not None:
                chk.violation("tokenizer-memory", "create_vector_of_names/markers: %s on %r" % (san, (mt[1] if kind == "T" else mt[1]["text"])), dict(rp, sanitizer=san))
                continue
            if o != m:
                chk.disagreement("tokenizer on %r: implementation [%s] model [%s]" % (mt[1] if kind == "T" else mt[1]["text"], o, m), rp)
            if kind == "T":
                # a text that is a spelling of an argument list (identifiers, some wrapped in box_double(), commas, blanks)
                # must give exactly those identifiers: the specification side, independent of the model
                sp = spelled_names(mt[1])
                if sp is not None:
                    got = o.split(" ")[1].split("|") if len(o.split(" ")) > 1 and o.split(" ")[1] else []
                    if got != [hx(n) for n in sp]:
                        chk.violation("names-of-spelling", "the argument list %r (%d characters) is split into %s; its arguments are %s" % (
                            mt[1][:80] + (b"..." if len(mt[1]) > 80 else b""), len(mt[1]),
                            [bytes.fromhex(x).decode("latin-1") if x != "e" else "" for x in got][-3:], [n.decode() for n in sp][-3:]), rp)
            if kind == "TF":
                f = mt[1]
                chk.count("spelling:" + f["style"])
                exp = "T " + "|".join(hx(n.encode()) for n in f["names"]) + " " + ("".join("1" if d else "0" for d in f["dbl"]) or "-")
                if f["arity"] == 0:
                    exp = "T  -"
                if o != exp:
                    got = [bytes.fromhex(x).decode("latin-1") if x != "e" else "" for x in o.split(" ")[1].split("|")] if len(o.split(" ")) > 1 and o.split(" ")[1] else []
                    chk.violation("names-%s" % f["style"], "mock(%s) of arity %d is split into the names %s (double markers %s), the arguments are %s (doubles %s)" % (
                        f["text"], f["arity"], got, o.split(" ")[-1], f["names"], "".join("1" if d else "0" for d in f["dbl"])), rp)
            continue
        f, pn = mt[1], mt[2]
        chk.count("arity:%d" % f["arity"])
        rp["function"] = {"mock_text": f["text"], "names": f["names"], "doubles": f["dbl"], "style": f["style"]}
        got = "CRASH" if san is not None else o
        if kind == "N":
            dbl = mt[3]
            want = "0 1 %s" % ("2.5" if dbl else "77")
            pred = from_outcome("N", m, 0, dbl)
            if got != pred:
                chk.disagreement("%s (mock(%s)): implementation [%s]%s, model outcome %s -> [%s]" % (il, f["text"], got, " " + san if san else "", m, pred), rp)
            if got != want:
                chk.violation("absent-name" + ("-double" if dbl else ""), "a clause naming %s, which mock(%s) does not have, gives [%s]%s; required: exactly one failure, no crash, the declared return value" % (
                    pn, f["text"], got, " (" + san + ")" if san else ""), dict(rp, sanitizer=san))
            continue
        expected, vv = mt[3], mt[4]
        pred = from_outcome(kind, m, expected)
        want = expected_line(kind, f, pn, expected, vv)
        if got != pred:
            chk.disagreement("%s (mock(%s)): implementation [%s]%s, model outcome %s -> [%s]" % (il, f["text"], got, " " + san if san else "", m, pred), rp)
        if got != want:
            chk.violation("binding-%s-%s" % (kind, f["style"]), "clause on parameter %s (position %d of mock(%s)), kind %s, actuals %s: observed [%s]%s, binding by name requires [%s]" % (
                pn, f["names"].index(pn), f["text"], kind, vv, got, " (" + san + ")" if san else "", want), dict(rp, sanitizer=san))
        chk.sample({"case": il, "mock_text": f["text"], "result": got}, limit=6)
    # ---- parameter names that are object-like macros, clauses through the public macros (when, will_capture_parameter,
    # will_set_contents_of_output_parameter): bound to the argument written with the same name
    qlines, qwant = [], []
    for fid, pos in ((0, 0), (1, 1)):
        for v0, v1 in ((7, 9), (9, 7), (5, 5)):
            vj = (v0, v1)[pos]
            for expected in (vj, vj + 1):
                qlines.append("Q %d 0 %d %d %d" % (fid, expected, v0, v1)); qwant.append("1 0 0" if expected == vj else "0 1 0")
            qlines.append("Q %d 1 0 %d %d" % (fid, v0, v1)); qwant.append("0 0 %d" % vj)
        qlines.append("Q %d 2 0 0 0" % fid); qwant.append("0 0 %d" % (1 << pos))
    for il, want, (o, san) in zip(qlines, qwant, CC.run_vm(drv, qlines)):
        chk.case(il)
        chk.count("kind:Q")
        got = "CRASH" if san is not None else o
        if got != want:
            chk.violation("binding-macro-name", "a clause written with a parameter name that is an object-like macro (mock(mac_count, other) / mock(first, mac_ptr), case %s): observed [%s]%s, binding by the name as written requires [%s]" % (
                il, got, " (" + san + ")" if san else "", want),
                {"case": il, "how": "python3 tools/vcheck.py C16 regenerates _work/gen-params/params_tu.inc (see MACRO_NAMED in tools/gen_params.py); echo '<case>' | ASAN_OPTIONS=detect_leaks=0 _work/bin-asan/params_driver", "sanitizer": san})
    return chk.finish()


CHECKS = {"C16": check_C16}
