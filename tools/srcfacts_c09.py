"""Translator items for C09 (cgreen-runner): the marker strings of the discoverer, the shape of
spec_name(), which name run_tests() hands to run_single_test(), the branch conditions of
run_tests()."""
import os, re
from srcfacts import Cannot, walk, body_of, strip, member_path
from srcfacts_more import _c_string, _coq_bytes
from srcfacts_c12 import calls_of, need


def callee(n):
    c = strip(n["inner"][0])
    return c["referencedDecl"]["name"] if c.get("kind") == "DeclRefExpr" else None


def marker(tu, fn):
    for n in walk(body_of(tu["funs"][fn])):
        if n.get("kind") == "CallExpr" and callee(n) == "strstr":
            return _coq_bytes(_c_string(n["inner"][2]))
    raise Cannot(fn + ": strstr(line, literal)")


def spec_macro(repo):
    txt = open(os.path.join(repo, "include/cgreen/internal/unit_implementation.h")).read()
    m = re.search(r"#define\s+spec_name\((\w+),\s*(\w+)\)\s+(\S+)", txt)
    need(m, "spec_name macro")
    c, t, body = m.groups()
    pre = re.search(r'#define\s+CGREEN_SPEC_PREFIX\s+"(\w+)"', txt)
    sep = re.search(r'#define\s+CGREEN_SEPARATOR\s+"(\w+)"', txt)
    need(pre and sep, "prefix / separator macros")
    want = "%s%s##%s##%s##%s##%s" % (pre.group(1), sep.group(1), c, sep.group(1), t, sep.group(1))
    need(body == want, "spec_name is %s, expected %s" % (body, want))
    return "(%s, %s)" % (_coq_bytes(pre.group(1).encode()), _coq_bytes(sep.group(1).encode()))


def single_by_item(tu):
    f = tu["funs"]["run_tests"]
    calls = calls_of(body_of(f), "run_single_test")
    need(len(calls) == 1, "run_tests: one run_single_test call")
    arg = strip(calls[0]["inner"][2])
    while arg.get("kind") == "ImplicitCastExpr":
        arg = strip(arg["inner"][0])
    need(arg.get("kind") == "DeclRefExpr", "run_single_test(suite, <variable>, ..)")
    var = arg["referencedDecl"]["name"]
    sources = []
    for n in walk(body_of(f)):
        rhs = None
        if n.get("kind") == "VarDecl" and n.get("name") == var and n.get("inner"):
            rhs = n["inner"][0]
        if n.get("kind") == "BinaryOperator" and n.get("opcode") == "=":
            l = strip(n["inner"][0])
            if l.get("kind") == "DeclRefExpr" and l["referencedDecl"]["name"] == var:
                rhs = n["inner"][1]
        if rhs is None:
            continue
        if calls_of(rhs, "test_name_of"):
            sources.append("pattern")
        elif any(m.get("kind") == "MemberExpr" and m.get("name") == "test_name" for m in walk(rhs)):
            sources.append("item")
        elif any(m.get("kind") in ("IntegerLiteral", "GNUNullExpr") for m in walk(rhs)):
            sources.append("null")
        else:
            sources.append("?")
    real = [s for s in sources if s != "null"]
    need(real and len(set(real)) == 1 and real[0] in ("pattern", "item"), "run_tests: source of the single test's name: %s" % sources)
    return "true" if real[0] == "item" else "false"


def register(add, tu, repo):
    D = lambda: tu("tools/discoverer.c")
    add("spec_marker", "list N", lambda: marker(D(), "cgreen_spec_start_of"), "tools/discoverer.c:cgreen_spec_start_of")
    add("definition_marker", "list N", lambda: marker(D(), "is_definition"), "tools/discoverer.c:is_definition")
    add("spec_name_parts", "list N * list N", lambda: spec_macro(repo), "include/cgreen/internal/unit_implementation.h:spec_name")
    add("single_run_by_item_name", "bool", lambda: single_by_item(tu("tools/runner.c")), "tools/runner.c:run_tests")
