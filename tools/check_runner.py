"""cgreen-runner checks (C09, and the runner part of C01)."""
CHECKS = {}


def verdict_cases(chk):
    pass
